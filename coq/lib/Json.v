(* Executable model of serde_json 1.0.151 (default features) reading JSON text from a
   byte slice (serde_json::Deserializer::from_slice), and of its compact printer.
   Definitions only; the lemmas are in Json_proofs.v.

   The reader modelled here is the *lenient* one -- what `ignore_value` (IgnoredAny)
   accepts -- and it returns a tree that carries enough flags to decide what the
   *strict* readers (parse_str / parse_integer+f64_from_parts / recursion limit) do:

     lenient acceptance  =  json_parse_prefix s <> None
     strict  acceptance  =  json_parse_prefix s = Some (j, _)  /\  json_strict j = true
                            /\  json_depth j <= json_max_strict_depth        (for serde_json::Value)

   Facts about serde_json 1.0.151 that shaped the model (all checked against the real
   crate by the probe, see README):
   - ignore_value is iterative and reads object KEYS with ignore_str, i.e. leniently: a key
     with a lone surrogate escape or ill-formed UTF-8 is accepted inside a skipped value.
     Keys are strict (parse_str) only in objects that are really visited (MapAccess), even
     when the key itself is deserialized as IgnoredAny.  So json_parse_prefix keeps such
     keys and json_strict checks them with utf8_valid.
   - ignore_str never looks at surrogates: every \uXXXX stands alone.
   - the `ok` flag of a string is by construction `utf8_valid` of its decoded bytes, where
     lone surrogates are decoded the way parse_str_raw does (WTF-8, ED A0..BF xx).
   - numbers: the f64 is `significand as f64 * 10^exponent` with a u64 significand that
     simply drops the digits that do not fit; the model reproduces this exactly (no
     "boundary zone"), including the i32 exponent overflow rule.  Exactness assumes the text
     is shorter than 2^31 bytes (serde_json's i32 exponent arithmetic saturates/wraps beyond).
   - the recursion limit makes depth 127 the deepest accepted serde_json::Value.            *)
From OA Require Import Bytes.
From Coq Require Import ZArith.

Local Open Scope char_scope.
Local Open Scope N_scope.

Inductive json :=
| JNull
| JBool (b : bool)
| JInt (z : Z)
| JFloat (inf : bool)
| JStr (s : bytes) (ok : bool)
| JArr (l : list json)
| JObj (m : list (bytes * json)).

(* ------------------------------------------------------------------------- *)
(* Whitespace                                                                  *)

Definition is_ws (c : byte) : bool :=
  Ascii.eqb c " " || Ascii.eqb c "009" || Ascii.eqb c "010" || Ascii.eqb c "013".

Fixpoint skip_ws (s : bytes) : bytes :=
  match s with
  | [] => []
  | c :: r => if is_ws c then skip_ws r else s
  end.

Definition all_ws (s : bytes) : bool :=
  match skip_ws s with [] => true | _ :: _ => false end.

(* ------------------------------------------------------------------------- *)
(* UTF-8 well-formedness (Unicode table 3-7): no overlongs, no surrogates,
   nothing above U+10FFFF.  This is what core::str::from_utf8 accepts.          *)

Definition is_cont (c : byte) : bool := in_range 128 191 c.

Fixpoint utf8_valid (s : bytes) : bool :=
  match s with
  | [] => true
  | a :: r =>
    let x := bn a in
    if x <? 128 then utf8_valid r
    else if x <? 194 then false                          (* 80..BF stray continuation, C0 C1 overlong *)
    else if x <? 224 then                                (* C2..DF *)
      match r with
      | b :: r' => is_cont b && utf8_valid r'
      | _ => false
      end
    else if x <? 240 then                                (* E0..EF *)
      match r with
      | b :: c :: r' =>
        (if x =? 224 then in_range 160 191 b             (* E0: A0..BF *)
         else if x =? 237 then in_range 128 159 b        (* ED: 80..9F (no surrogates) *)
         else is_cont b)
        && is_cont c && utf8_valid r'
      | _ => false
      end
    else if x <? 245 then                                (* F0..F4 *)
      match r with
      | b :: c :: d :: r' =>
        (if x =? 240 then in_range 144 191 b             (* F0: 90..BF *)
         else if x =? 244 then in_range 128 143 b        (* F4: 80..8F *)
         else is_cont b)
        && is_cont c && is_cont d && utf8_valid r'
      | _ => false
      end
    else false
  end.

(* ------------------------------------------------------------------------- *)
(* Strings.  [parse_str_body] is run just after the opening quote and returns the
   decoded bytes and the text after the closing quote.  It is serde_json's
   parse_str_raw (validate = false): escapes are decoded, a surrogate pair becomes one
   4-byte sequence, a lone surrogate is written in generalized UTF-8 ("WTF-8",
   ED A0..BF xx).  The syntax errors it reports are exactly those of ignore_str:
   unterminated string, raw byte < 0x20, unknown escape, \u without 4 hex digits.
   The strict reader parse_str (validate = true, then str::from_utf8) succeeds exactly
   when the decoded bytes are well-formed UTF-8: a lone surrogate decodes to ED A0..BF xx
   which no neighbouring bytes can repair.                                            *)

Definition hexval (c : byte) : option N :=
  if is_digit c then Some (bn c - 48)
  else if in_range 65 70 c then Some (bn c - 55)
  else if in_range 97 102 c then Some (bn c - 87)
  else None.

Definition hex4 (a b c d : byte) : option N :=
  match hexval a, hexval b, hexval c, hexval d with
  | Some x, Some y, Some z, Some w => Some (((x * 16 + y) * 16 + z) * 16 + w)
  | _, _, _, _ => None
  end.

(* push_wtf8_codepoint *)
Definition wtf8 (n : N) : bytes :=
  if n <? 128 then [nb n]
  else if n <? 2048 then [nb (192 + n / 64); nb (128 + n mod 64)]
  else if n <? 65536 then
    [nb (224 + n / 4096); nb (128 + (n / 64) mod 64); nb (128 + n mod 64)]
  else
    [nb (240 + n / 262144); nb (128 + (n / 4096) mod 64);
     nb (128 + (n / 64) mod 64); nb (128 + n mod 64)].

Definition is_lead (n : N) : bool := (55296 <=? n) && (n <=? 56319).   (* D800..DBFF *)
Definition is_trail (n : N) : bool := (56320 <=? n) && (n <=? 57343).  (* DC00..DFFF *)
Definition combine_surrogates (n1 n2 : N) : N :=
  (n1 - 55296) * 1024 + (n2 - 56320) + 65536.

Definition simple_escape (e : byte) : option byte :=
  if Ascii.eqb e """" then Some """"
  else if Ascii.eqb e "\" then Some "\"
  else if Ascii.eqb e "/" then Some "/"
  else if Ascii.eqb e "b" then Some "008"
  else if Ascii.eqb e "f" then Some "012"
  else if Ascii.eqb e "n" then Some "010"
  else if Ascii.eqb e "r" then Some "013"
  else if Ascii.eqb e "t" then Some "009"
  else None.

Definition prepend (p : bytes) (o : option (bytes * bytes)) : option (bytes * bytes) :=
  match o with
  | Some (d, rest) => Some (p ++ d, rest)
  | None => None
  end.

Fixpoint parse_str_body (s : bytes) : option (bytes * bytes) :=
  match s with
  | [] => None
  | c :: r =>
    if Ascii.eqb c """" then Some ([], r)
    else if Ascii.eqb c "\" then
      match r with
      | [] => None
      | e :: r1 =>
        if Ascii.eqb e "u" then
          match r1 with
          | h1 :: h2 :: h3 :: h4 :: r2 =>
            match hex4 h1 h2 h3 h4 with
            | None => None
            | Some n =>
              if is_lead n then
                (* a leading surrogate pairs up only with an immediately following
                   \uDC00..\uDFFF; otherwise it stands alone and whatever follows is
                   read afresh *)
                match r2 with
                | b1 :: u1 :: g1 :: g2 :: g3 :: g4 :: r3 =>
                  match (if Ascii.eqb b1 "\" && Ascii.eqb u1 "u"
                         then hex4 g1 g2 g3 g4 else None) with
                  | Some n2 =>
                    if is_trail n2
                    then prepend (wtf8 (combine_surrogates n n2)) (parse_str_body r3)
                    else prepend (wtf8 n) (parse_str_body r2)
                  | None => prepend (wtf8 n) (parse_str_body r2)
                  end
                | _ => prepend (wtf8 n) (parse_str_body r2)
                end
              else prepend (wtf8 n) (parse_str_body r2)
            end
          | _ => None
          end
        else
          match simple_escape e with
          | Some x => prepend [x] (parse_str_body r1)
          | None => None
          end
      end
    else if bn c <? 32 then None
    else prepend [c] (parse_str_body r)
  end.

(* ------------------------------------------------------------------------- *)
(* Numbers                                                                     *)

Definition dval (c : byte) : N := bn c - 48.

(* big-endian decimal value (specification of acc_int, used in the proofs) *)
Definition digits_val (acc : N) (ds : bytes) : N :=
  fold_left (fun a d => a * 10 + dval d) ds acc.

Fixpoint span_digits (s : bytes) : bytes * bytes :=
  match s with
  | [] => ([], [])
  | c :: r =>
    if is_digit c then let (ds, r') := span_digits r in (c :: ds, r')
    else ([], s)
  end.

(* integer part: "0" or [1-9][0-9]*; "0" followed by a digit is an error *)
Definition scan_int (s : bytes) : option (bytes * bytes) :=
  match span_digits s with
  | ([], _) => None
  | (d :: ds, r) =>
    if Ascii.eqb d "0" then
      match ds with [] => Some ([d], r) | _ :: _ => None end
    else Some (d :: ds, r)
  end.

(* optional fraction: '.' digits+ *)
Definition scan_frac (s : bytes) : option (option bytes * bytes) :=
  match s with
  | c :: r =>
    if Ascii.eqb c "." then
      match span_digits r with
      | ([], _) => None
      | (fs, r') => Some (Some fs, r')
      end
    else Some (None, s)
  | [] => Some (None, s)
  end.

(* optional exponent: (e|E) (+|-)? digits+ ; the bool is "exponent is non-negative" *)
Definition scan_exp (s : bytes) : option (option (bool * bytes) * bytes) :=
  match s with
  | c :: r =>
    if Ascii.eqb c "e" || Ascii.eqb c "E" then
      let '(pos, r1) :=
        match r with
        | sg :: r0 =>
          if Ascii.eqb sg "+" then (true, r0)
          else if Ascii.eqb sg "-" then (false, r0)
          else (true, r)
        | [] => (true, r)
        end in
      match span_digits r1 with
      | ([], _) => None
      | (es, r') => Some (Some (pos, es), r')
      end
    else Some (None, s)
  | [] => Some (None, s)
  end.

Definition u64_max : N := 18446744073709551615.
Definition i64_min_abs : N := 9223372036854775808.
Definition i32_max : N := 2147483647.

(* parse_integer / parse_long_integer: accumulate integer digits into a u64 while
   `significand * 10 + digit` does not exceed u64::MAX; from the first digit that does
   not fit on, every integer digit only bumps the decimal exponent. *)
Fixpoint acc_int (sig : N) (ds : bytes) : N * Z :=
  match ds with
  | [] => (sig, 0%Z)
  | d :: r =>
    let sig' := sig * 10 + dval d in
    if u64_max <? sig' then (sig, Z.of_nat (length ds)) else acc_int sig' r
  end.

(* parse_decimal / parse_decimal_overflow: the same for fraction digits (each accepted
   digit decrements the exponent); from the first digit that does not fit on, the
   remaining fraction digits are dropped.  NB. this is also what runs after an
   overflowing integer part (serde_json then retries to push fraction digits). *)
Fixpoint acc_frac (sig : N) (e : Z) (fs : bytes) : N * Z :=
  match fs with
  | [] => (sig, e)
  | d :: r =>
    let sig' := sig * 10 + dval d in
    if u64_max <? sig' then (sig, e) else acc_frac sig' (e - 1)%Z r
  end.

(* parse_exponent: i32 accumulation, None = it would exceed i32::MAX *)
Fixpoint acc_exp (e : N) (es : bytes) : option N :=
  match es with
  | [] => Some e
  | d :: r =>
    let e' := e * 10 + dval d in
    if i32_max <? e' then None else acc_exp e' r
  end.

(* u64 -> f64 conversion (round to nearest, ties to even), as an integer *)
Definition round53 (n : N) : N :=
  let sz := N.size n in
  if sz <=? 53 then n
  else
    let k := sz - 53 in
    let q := N.shiftr n k in
    let r := n - N.shiftl q k in
    let half := N.shiftl 1 (k - 1) in
    let q' := if (half <? r) || ((r =? half) && N.odd q) then q + 1 else q in
    N.shiftl q' k.

(* smallest real that rounds to +inf: f64::MAX + half an ulp = 2^1024 - 2^970 *)
Definition f64_overflow_threshold : N := N.shiftl 1 1024 - N.shiftl 1 970.

(* f64_from_parts (no float_roundtrip): does `significand as f64 * POW10[exponent]`
   overflow, or is the exponent beyond the 10^308 table with a non-zero significand?
   POW10[e] is the correctly rounded double of 10^e; the product of two doubles is
   rounded once, so it is infinite iff the exact product reaches the threshold.
   The two tests on bit sizes only avoid computing 10^e away from the boundary
   (2^(e*3321/1000) <= 10^e < 2^(e*3322/1000+1)); Json_proofs.f64_from_parts_inf_spec
   shows that they do not change the result.                                          *)
Definition f64_from_parts_inf (sig : N) (e : Z) : bool :=
  if sig =? 0 then false
  else if (e <? 0)%Z then false
  else if (308 <? e)%Z then true
  else
    let en := Z.to_N e in
    let sz := N.size sig in
    if sz + (en * 3322 / 1000 + 1) <=? 1023 then false       (* product < 2^1023 *)
    else if 1025 <=? sz + en * 3321 / 1000 then true         (* product >= 2^1024 *)
    else f64_overflow_threshold <=? round53 sig * round53 (10 ^ en).

Definition float_inf (ids : bytes) (fds : option bytes) (ex : option (bool * bytes)) : bool :=
  let '(sig1, e1) := acc_int 0 ids in
  let '(sig2, e2) := match fds with
                     | Some fs => acc_frac sig1 e1 fs
                     | None => (sig1, e1)
                     end in
  match ex with
  | None => f64_from_parts_inf sig2 e2
  | Some (pos, es) =>
    match acc_exp 0 es with
    | None => negb (sig2 =? 0) && pos                    (* parse_exponent_overflow *)
    | Some x =>
      f64_from_parts_inf sig2 (if pos then e2 + Z.of_N x else e2 - Z.of_N x)%Z
    end
  end.

(* parse_integer + parse_number: an integer literal that fits a u64 (no digit was dropped by
   acc_int) is U64 / I64 / the float -(n as f64); everything else goes through
   f64_from_parts. *)
Definition classify_number (neg : bool) (ids : bytes) (fds : option bytes)
                           (ex : option (bool * bytes)) : json :=
  match fds, ex with
  | None, None =>
    let '(n, e1) := acc_int 0 ids in
    if (e1 =? 0)%Z then
      if neg then
        if n =? 0 then JFloat false                      (* -0 is the float -0.0 *)
        else if n <=? i64_min_abs then JInt (- Z.of_N n)
        else JFloat false                                (* -(n as f64), finite *)
      else JInt (Z.of_N n)
    else JFloat (f64_from_parts_inf n e1)                (* parse_long_integer *)
  | _, _ => JFloat (float_inf ids fds ex)
  end.

Definition parse_number (s : bytes) : option (json * bytes) :=
  let '(neg, s1) :=
    match s with
    | c :: r => if Ascii.eqb c "-" then (true, r) else (false, s)
    | [] => (false, s)
    end in
  match scan_int s1 with
  | None => None
  | Some (ids, r1) =>
    match scan_frac r1 with
    | None => None
    | Some (fds, r2) =>
      match scan_exp r2 with
      | None => None
      | Some (ex, r3) => Some (classify_number neg ids fds ex, r3)
      end
    end
  end.

(* ------------------------------------------------------------------------- *)
(* Values                                                                      *)

Fixpoint strip_prefix (p s : bytes) : option bytes :=
  match p with
  | [] => Some s
  | x :: p' =>
    match s with
    | y :: s' => if Ascii.eqb x y then strip_prefix p' s' else None
    | [] => None
    end
  end.

Definition parse_lit (lit : bytes) (v : json) (s : bytes) : option (json * bytes) :=
  match strip_prefix lit s with
  | Some r => Some (v, r)
  | None => None
  end.

(* [parse_value fuel s]: skip whitespace, read one value.
   [parse_elems fuel s]: s is just after '[' or ',' -- read "value (, value)* ]".
   [parse_members fuel s]: s is just after '{' or ',' -- read  "key : value (, key : value)* }".
   Every call passes on strictly less fuel and every level consumes input, so
   fuel = length of the text is always enough (each nesting level costs 2 units of fuel
   and 2 bytes, each further element 1 unit and at least 2 bytes). *)
Fixpoint parse_value (fuel : nat) (s : bytes) {struct fuel} : option (json * bytes) :=
  match fuel with
  | O => None
  | S f =>
    match skip_ws s with
    | [] => None
    | c :: r =>
      if is_digit c || Ascii.eqb c "-" then parse_number (c :: r)
      else if Ascii.eqb c """" then
        match parse_str_body r with
        | Some (d, r') => Some (JStr d (utf8_valid d), r')
        | None => None
        end
      else if Ascii.eqb c "[" then
        match skip_ws r with
        | [] => None
        | c2 :: r2 =>
          if Ascii.eqb c2 "]" then Some (JArr [], r2)
          else match parse_elems f (c2 :: r2) with
               | Some (l, r') => Some (JArr l, r')
               | None => None
               end
        end
      else if Ascii.eqb c "{" then
        match skip_ws r with
        | [] => None
        | c2 :: r2 =>
          if Ascii.eqb c2 "}" then Some (JObj [], r2)
          else match parse_members f (c2 :: r2) with
               | Some (m, r') => Some (JObj m, r')
               | None => None
               end
        end
      else if Ascii.eqb c "t" then parse_lit (s2b "rue") (JBool true) r
      else if Ascii.eqb c "f" then parse_lit (s2b "alse") (JBool false) r
      else if Ascii.eqb c "n" then parse_lit (s2b "ull") JNull r
      else None
    end
  end

with parse_elems (fuel : nat) (s : bytes) {struct fuel} : option (list json * bytes) :=
  match fuel with
  | O => None
  | S f =>
    match parse_value f s with
    | None => None
    | Some (v, r) =>
      match skip_ws r with
      | [] => None
      | c :: r' =>
        if Ascii.eqb c "," then
          match parse_elems f r' with
          | Some (l, r'') => Some (v :: l, r'')
          | None => None
          end
        else if Ascii.eqb c "]" then Some ([v], r')
        else None
      end
    end
  end

with parse_members (fuel : nat) (s : bytes) {struct fuel}
  : option (list (bytes * json) * bytes) :=
  match fuel with
  | O => None
  | S f =>
    match skip_ws s with
    | [] => None
    | q :: r0 =>
      if Ascii.eqb q """" then
        match parse_str_body r0 with
        | None => None
        | Some (k, r1) =>
          match skip_ws r1 with
          | [] => None
          | col :: r2 =>
            if Ascii.eqb col ":" then
              match parse_value f r2 with
              | None => None
              | Some (v, r3) =>
                match skip_ws r3 with
                | [] => None
                | c :: r4 =>
                  if Ascii.eqb c "," then
                    match parse_members f r4 with
                    | Some (m, r5) => Some ((k, v) :: m, r5)
                    | None => None
                    end
                  else if Ascii.eqb c "}" then Some ([(k, v)], r4)
                  else None
                end
              end
            else None
          end
        end
      else None
    end
  end.

(* Deserializer::from_slice(s) + ignore_value: value and unconsumed rest *)
Definition json_parse_prefix (s : bytes) : option (json * bytes) :=
  parse_value (length s) s.

(* ... + Deserializer::end(): only whitespace may follow *)
Definition json_parse (s : bytes) : option json :=
  match json_parse_prefix s with
  | Some (j, r) => if all_ws r then Some j else None
  | None => None
  end.

(* ------------------------------------------------------------------------- *)
(* Depth, strictness                                                           *)

Fixpoint json_depth (j : json) : nat :=
  match j with
  | JArr l => S (fold_right (fun x a => Nat.max (json_depth x) a) O l)
  | JObj m => S (fold_right (fun kv a => Nat.max (json_depth (snd kv)) a) O m)
  | _ => O
  end.

(* Largest json_depth that from_slice::<serde_json::Value> accepts: remaining_depth
   starts at 128, is decremented on every '[' / '{' that is really parsed and the parse
   fails when it reaches 0. *)
Definition json_max_strict_depth : nat := 127%nat.

(* Would the strict readers accept every scalar in the tree?  Keys are parsed with
   parse_str whenever the enclosing object is really parsed, so a key must be valid UTF-8
   (a key with a lone surrogate decodes to ill-formed bytes). *)
Fixpoint json_strict (j : json) : bool :=
  match j with
  | JNull | JBool _ | JInt _ => true
  | JFloat inf => negb inf
  | JStr _ ok => ok
  | JArr l => forallb json_strict l
  | JObj m => forallb (fun kv => utf8_valid (fst kv) && json_strict (snd kv)) m
  end.

(* ------------------------------------------------------------------------- *)
(* Compact printer (serde_json::to_string)                                     *)

Definition digit_char (k : N) : byte := nb (48 + k).

(* little-endian decimal digits; fuel = number of bits + 1 is always enough *)
Fixpoint dec_rev (fuel : nat) (n : N) : bytes :=
  match fuel with
  | O => []
  | S f => digit_char (n mod 10) :: (if n / 10 =? 0 then [] else dec_rev f (n / 10))
  end.

Definition dec (n : N) : bytes := rev (dec_rev (S (N.to_nat (N.size n))) n).

Definition print_int (z : Z) : bytes :=
  match z with
  | Z0 => ["0"]
  | Zpos p => dec (Npos p)
  | Zneg p => "-" :: dec (Npos p)
  end.

Definition hexdig (n : N) : byte := if n <? 10 then nb (48 + n) else nb (87 + n).

Definition escape_byte (c : byte) : bytes :=
  if Ascii.eqb c """" then ["\"; """"]
  else if Ascii.eqb c "\" then ["\"; "\"]
  else
    let n := bn c in
    if 32 <=? n then [c]
    else if n =? 8 then ["\"; "b"]
    else if n =? 12 then ["\"; "f"]
    else if n =? 10 then ["\"; "n"]
    else if n =? 13 then ["\"; "r"]
    else if n =? 9 then ["\"; "t"]
    else ["\"; "u"; "0"; "0"; hexdig (n / 16); hexdig (n mod 16)].

Definition print_string (s : bytes) : bytes :=
  """" :: flat_map escape_byte s ++ [""""].

Fixpoint json_print (j : json) : bytes :=
  match j with
  | JNull => s2b "null"
  | JBool true => s2b "true"
  | JBool false => s2b "false"
  | JInt z => print_int z
  | JFloat false => s2b "0.0e0"      (* not serde_json's float printing: any finite float *)
  | JFloat true => s2b "1e999"       (* ... and any literal that is out of range *)
  | JStr s _ => print_string s
  | JArr l => "[" :: join [","] (map json_print l) ++ ["]"]
  | JObj m =>
    "{" :: join [","] (map (fun kv => print_string (fst kv) ++ ":" :: json_print (snd kv)) m)
        ++ ["}"]
  end.

(* ------------------------------------------------------------------------- *)
(* The values serde_json itself produces from typed data without floats        *)

Fixpoint json_canonicalb (j : json) : bool :=
  match j with
  | JNull | JBool _ => true
  | JInt z => ((- 9223372036854775808 <=? z) && (z <=? 18446744073709551615))%Z
  | JFloat _ => false
  | JStr s ok => ok && utf8_valid s
  | JArr l => forallb json_canonicalb l
  | JObj m => forallb (fun kv => utf8_valid (fst kv) && json_canonicalb (snd kv)) m
  end.

Definition json_canonical (j : json) : Prop := json_canonicalb j = true.

(* Everything json_print/json_parse round-trips: like canonical, but floats are allowed
   (only their class survives) and strings/keys may be arbitrary bytes as long as the
   flag says whether they are UTF-8. *)
Fixpoint json_wfb (j : json) : bool :=
  match j with
  | JNull | JBool _ | JFloat _ => true
  | JInt z => ((- 9223372036854775808 <=? z) && (z <=? 18446744073709551615))%Z
  | JStr s ok => Bool.eqb ok (utf8_valid s)
  | JArr l => forallb json_wfb l
  | JObj m => forallb (fun kv => json_wfb (snd kv)) m
  end.

Definition json_wf (j : json) : Prop := json_wfb j = true.
