(* Model of Rust's derived / hand-written Debug output ({:?} and {:#?}) for the value shapes
   that occur in the crate: structs, tuple structs, Option, Vec, tuples, strings, and the secret
   newtypes whose Debug impl writes `Name([redacted])` without looking at the payload.
   Public strings are restricted to printable ASCII (only the double quote and the backslash need
   escaping there). *)
From OA Require Import Bytes.

Inductive dbg :=
| DStr (s : bytes)                          (* a str / String: quoted and escaped *)
| DRaw (s : bytes)                          (* text written verbatim: unit variants, numbers, bools,
                                               None, PhantomData<..> *)
| DSecret (name payload : bytes)            (* new_secret_type!: payload never printed *)
| DStruct (name : bytes) (fields : list (bytes * dbg))
| DTuple (name : bytes) (items : list dbg)  (* tuple struct / enum tuple variant / tuple (name = "") *)
| DList (items : list dbg).                 (* Vec / slice *)

Definition escape_char (c : byte) : bytes :=
  if Ascii.eqb c """"%char then ["\"%char; """"%char]
  else if Ascii.eqb c "\"%char then ["\"%char; "\"%char]
  else [c].
Definition quote (s : bytes) : bytes := """"%char :: flat_map escape_char s ++ [""""%char].

Fixpoint spaces (n : nat) : bytes := match n with O => [] | S n' => " "%char :: spaces n' end.
Definition nl : bytes := ["010"%char].

Definition redacted : bytes := s2b "([redacted])".

(* layout of already rendered children *)
Definition lay_items (pretty : bool) (ind : nat) (open close : bytes) (items : list bytes) : bytes :=
  match items with
  | [] => open ++ close
  | _ =>
      if pretty then
        open ++ nl ++ flat_map (fun r => spaces (ind + 4) ++ r ++ s2b "," ++ nl) items
        ++ spaces ind ++ close
      else open ++ join (s2b ", ") items ++ close
  end.

Definition lay_struct (pretty : bool) (ind : nat) (n : bytes) (fields : list (bytes * bytes)) : bytes :=
  match fields with
  | [] => n
  | _ =>
      if pretty then
        n ++ s2b " {" ++ nl
        ++ flat_map (fun fr => spaces (ind + 4) ++ fst fr ++ s2b ": " ++ snd fr ++ s2b "," ++ nl) fields
        ++ spaces ind ++ s2b "}"
      else n ++ s2b " { " ++ join (s2b ", ") (map (fun fr => fst fr ++ s2b ": " ++ snd fr) fields) ++ s2b " }"
  end.

Definition child_ind (pretty : bool) (ind : nat) : nat := if pretty then (ind + 4)%nat else ind.

Fixpoint render (pretty : bool) (ind : nat) (d : dbg) {struct d} : bytes :=
  match d with
  | DStr s => quote s
  | DRaw s => s
  | DSecret n _ => n ++ redacted
  | DStruct n fs =>
      lay_struct pretty ind n
        (map (fun fv => (fst fv, render pretty (child_ind pretty ind) (snd fv))) fs)
  | DTuple n items =>
      match items with
      | [] => n
      | _ => lay_items pretty ind (n ++ s2b "(") (s2b ")")
               (map (render pretty (child_ind pretty ind)) items)
      end
  | DList items =>
      lay_items pretty ind (s2b "[") (s2b "]") (map (render pretty (child_ind pretty ind)) items)
  end.

(* forget every secret payload *)
Fixpoint erase (d : dbg) : dbg :=
  match d with
  | DSecret n _ => DSecret n []
  | DStruct n fs => DStruct n (map (fun fv => (fst fv, erase (snd fv))) fs)
  | DTuple n items => DTuple n (map erase items)
  | DList items => DList (map erase items)
  | d => d
  end.

(* all secret payloads in a tree *)
Fixpoint secrets_of (d : dbg) : list bytes :=
  match d with
  | DSecret _ p => [p]
  | DStruct _ fs => flat_map (fun fv => secrets_of (snd fv)) fs
  | DTuple _ items => flat_map secrets_of items
  | DList items => flat_map secrets_of items
  | _ => []
  end.
