(* application/x-www-form-urlencoded (WHATWG URL standard, as implemented by the
   Rust crate [form_urlencoded]) at byte level.

   DEFINITIONS ONLY: everything here is executable Gallina with structural
   recursion, so the file always compiles and is extractable.  The theorems
   are in FormUrlencoded_proofs.v. *)
From OA Require Import Bytes.

Local Open Scope char_scope.
Local Open Scope N_scope.

(* ------------------------------------------------------------------ *)
(* Hex digits                                                          *)

(* Uppercase hex digit of n < 16: 0-9 -> '0'-'9', 10-15 -> 'A'-'F'. *)
Definition hex_upper (n : N) : ascii :=
  if N.ltb n 10 then nb (48 + n) else nb (55 + n).

(* Value of a hex digit of either case. *)
Definition hex_val (c : ascii) : option N :=
  if is_digit c then Some (bn c - 48)
  else if in_range 65 70 c then Some (bn c - 55)
  else if in_range 97 102 c then Some (bn c - 87)
  else None.

(* ------------------------------------------------------------------ *)
(* Serializer                                                          *)

Definition mem_byte (c : ascii) (l : bytes) : bool := existsb (Ascii.eqb c) l.

(* Bytes emitted unchanged by [form_urlencoded::byte_serialize]:
   matches!(b, b'*' | b'-' | b'.' | b'0'..=b'9' | b'A'..=b'Z' | b'_' | b'a'..=b'z') *)
Definition is_form_unreserved (c : ascii) : bool :=
  (is_alnum c || mem_byte c ["*"; "-"; "."; "_"])%bool.

(* Encoding of one byte. *)
Definition enc_byte (c : ascii) : bytes :=
  if is_form_unreserved c then [c]
  else if Ascii.eqb c " " then ["+"]
  else ["%"; hex_upper (bn c / 16); hex_upper (bn c mod 16)].

Fixpoint byte_serialize (s : bytes) : bytes :=
  match s with
  | [] => []
  | c :: s' => enc_byte c ++ byte_serialize s'
  end.

(* One "name=value" pair. *)
Definition pair_serialize (kv : bytes * bytes) : bytes :=
  byte_serialize (fst kv) ++ "=" :: byte_serialize (snd kv).

(* Serializer::new(String::new()).extend_pairs(ps).finish() *)
Definition form_serialize (ps : list (bytes * bytes)) : bytes :=
  join ["&"] (map pair_serialize ps).

(* Serializer::for_suffix(q, 0).extend_pairs(ps): before each pair a '&' is
   appended iff the string built so far is non-empty. *)
Definition append_pair (q : bytes) (kv : bytes * bytes) : bytes :=
  match q with
  | [] => pair_serialize kv
  | _ :: _ => q ++ "&" :: pair_serialize kv
  end.

Fixpoint form_append (q : bytes) (ps : list (bytes * bytes)) : bytes :=
  match ps with
  | [] => q
  | kv :: ps' => form_append (append_pair q kv) ps'
  end.

(* ------------------------------------------------------------------ *)
(* Parser                                                              *)

Definition plus_to_space (c : ascii) : ascii :=
  if Ascii.eqb c "+" then " " else c.

(* %XY (X, Y hex digits of either case) -> byte 16*X+Y; a '%' not followed by
   two hex digits is kept and scanning continues at the next byte. *)
Fixpoint percent_decode (s : bytes) : bytes :=
  match s with
  | [] => []
  | c :: s' =>
      if Ascii.eqb c "%" then
        match s' with
        | x :: y :: s'' =>
            match hex_val x, hex_val y with
            | Some a, Some b => nb (16 * a + b) :: percent_decode s''
            | _, _ => c :: percent_decode s'
            end
        | _ => c :: percent_decode s'
        end
      else c :: percent_decode s'
  end.

(* Split at the first occurrence of [sep]; None if there is none. *)
Fixpoint split_first (sep : ascii) (s : bytes) : option (bytes * bytes) :=
  match s with
  | [] => None
  | c :: s' =>
      if Ascii.eqb c sep then Some ([], s')
      else match split_first sep s' with
           | Some (a, b) => Some (c :: a, b)
           | None => None
           end
  end.

(* decode() of form_urlencoded: replace_plus, then percent_decode. *)
Definition form_decode (s : bytes) : bytes := percent_decode (map plus_to_space s).

(* One non-empty '&'-separated piece. *)
Definition parse_piece (p : bytes) : bytes * bytes :=
  match split_first "=" p with
  | Some (n, v) => (form_decode n, form_decode v)
  | None => (form_decode p, [])
  end.

Fixpoint parse_pieces (l : list bytes) : list (bytes * bytes) :=
  match l with
  | [] => []
  | [] :: l' => parse_pieces l'
  | p :: l' => parse_piece p :: parse_pieces l'
  end.

(* form_urlencoded::parse *)
Definition form_parse (s : bytes) : list (bytes * bytes) :=
  parse_pieces (split_on "&" s).

(* ------------------------------------------------------------------ *)
(* Output alphabets (used in the statements of the theorems)           *)

(* alphabet of [byte_serialize]: alphanumeric or one of * - . _ + % *)
Definition enc_charb (c : ascii) : bool :=
  (is_alnum c || mem_byte c ["*"; "-"; "."; "_"; "+"; "%"])%bool.

(* alphabet of [form_serialize]: alphanumeric or one of * - . _ + % & = *)
Definition form_charb (c : ascii) : bool :=
  (is_alnum c || mem_byte c ["*"; "-"; "."; "_"; "+"; "%"; "&"; "="])%bool.

Definition form_char (c : ascii) : Prop :=
  is_alnum c = true \/ In c ["*"; "-"; "."; "_"; "+"; "%"; "&"; "="].

(* All 256 bytes (for exhaustive per-byte checks). *)
Definition all_bools : list bool := [false; true].
Definition all_bytes : bytes :=
  flat_map (fun b7 => flat_map (fun b6 => flat_map (fun b5 => flat_map (fun b4 =>
  flat_map (fun b3 => flat_map (fun b2 => flat_map (fun b1 => map (fun b0 =>
    Ascii b0 b1 b2 b3 b4 b5 b6 b7)
  all_bools) all_bools) all_bools) all_bools) all_bools) all_bools) all_bools) all_bools.
