(* Byte strings: a Rust String / &str / Vec<u8> is a [list ascii].
   This file contains definitions and the elementary lemmas about them. *)
From Coq Require Export Ascii String NArith Bool Lia List.
Export ListNotations.
Open Scope list_scope.

Definition byte := ascii.
Definition bytes := list ascii.

Definition s2b (s : string) : bytes := list_ascii_of_string s.

Fixpoint bytes_eqb (a b : bytes) : bool :=
  match a, b with
  | [], [] => true
  | x :: a', y :: b' => Ascii.eqb x y && bytes_eqb a' b'
  | _, _ => false
  end.

Lemma bytes_eqb_eq (a b : bytes) : bytes_eqb a b = true <-> a = b.
Proof.
  revert b; induction a as [|x a IH]; intros [|y b]; cbn; split; try congruence; try reflexivity.
  - intros H. apply andb_true_iff in H. destruct H as [H1 H2].
    apply Ascii.eqb_eq in H1. apply IH in H2. congruence.
  - intros H. injection H as -> ->. apply andb_true_iff. split.
    + apply Ascii.eqb_refl.
    + apply IH. reflexivity.
Qed.

Lemma bytes_eqb_refl (a : bytes) : bytes_eqb a a = true.
Proof. apply bytes_eqb_eq. reflexivity. Qed.

Lemma bytes_eqb_neq (a b : bytes) : bytes_eqb a b = false <-> a <> b.
Proof.
  split.
  - intros H E. apply bytes_eqb_eq in E. congruence.
  - intros H. destruct (bytes_eqb a b) eqn:E; [|reflexivity].
    apply bytes_eqb_eq in E. contradiction.
Qed.

Lemma bytes_eqb_sym (a b : bytes) : bytes_eqb a b = bytes_eqb b a.
Proof.
  destruct (bytes_eqb a b) eqn:E.
  - apply bytes_eqb_eq in E. subst. symmetry. apply bytes_eqb_refl.
  - symmetry. apply bytes_eqb_neq. apply bytes_eqb_neq in E. congruence.
Qed.

Definition bn (c : byte) : N := N_of_ascii c.
Definition nb (n : N) : byte := ascii_of_N n.

(* ASCII classification on the numeric value of a byte. *)
Definition in_range (lo hi : N) (c : byte) : bool :=
  let n := bn c in (N.leb lo n && N.leb n hi)%bool.

Definition is_upper (c : byte) := in_range 65 90 c.
Definition is_lower (c : byte) := in_range 97 122 c.
Definition is_digit (c : byte) := in_range 48 57 c.
Definition is_alnum (c : byte) := (is_upper c || is_lower c || is_digit c)%bool.

(* Rust's [str::to_lowercase] restricted to the ASCII-cased domain: only A-Z change. *)
Definition lower_byte (c : byte) : byte := if is_upper c then nb (bn c + 32) else c.
Definition lower (s : bytes) : bytes := map lower_byte s.

Fixpoint is_prefix (p s : bytes) : bool :=
  match p, s with
  | [], _ => true
  | x :: p', y :: s' => Ascii.eqb x y && is_prefix p' s'
  | _ :: _, [] => false
  end.

(* Split on a separator byte: Rust's [str::split(c)] — always returns at least one piece. *)
Fixpoint split_on (sep : byte) (s : bytes) : list bytes :=
  match s with
  | [] => [[]]
  | c :: s' =>
      if Ascii.eqb c sep then [] :: split_on sep s'
      else match split_on sep s' with
           | [] => [[c]]      (* unreachable *)
           | p :: ps => (c :: p) :: ps
           end
  end.

Fixpoint join (sep : bytes) (l : list bytes) : bytes :=
  match l with
  | [] => []
  | [x] => x
  | x :: rest => x ++ sep ++ join sep rest
  end.

Definition space : byte := " "%char.

Fixpoint mem_bytes (x : bytes) (l : list bytes) : bool :=
  match l with
  | [] => false
  | y :: l' => bytes_eqb x y || mem_bytes x l'
  end.

Lemma mem_bytes_In x l : mem_bytes x l = true <-> In x l.
Proof.
  induction l as [|y l IH]; cbn; [split; [discriminate|tauto]|].
  rewrite orb_true_iff, IH, bytes_eqb_eq. split; intros [H|H]; auto.
Qed.
