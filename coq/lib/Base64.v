(* RFC 4648 base64: definitions only (executable Gallina, structural recursion).
   The proofs are in Base64_proofs.v.

   Everything is written with [N.div] / [N.modulo] / [*] / [+] on the numeric
   values [bn c] of the bytes, so that the group facts are linear arithmetic. *)
From OA Require Import Bytes.
Local Open Scope N_scope.
(* char_scope is deliberately not opened: it rebinds [<?] etc. to Ascii comparisons. *)

(* ---------- alphabets ---------- *)

(* [c62], [c63] are the numeric codes of the two non-alphanumeric characters. *)
Definition b64_char (c62 c63 : N) (n : N) : ascii :=
  if n <? 26 then nb (n + 65)            (* A-Z *)
  else if n <? 52 then nb (n + 71)       (* a-z : 97 - 26 *)
  else if n <? 62 then nb (n - 4)        (* 0-9 : 48 - 52 *)
  else if n =? 62 then nb c62
  else nb c63.

Definition b64_val (c62 c63 : N) (c : ascii) : option N :=
  let n := bn c in
  if (65 <=? n) && (n <=? 90) then Some (n - 65)
  else if (97 <=? n) && (n <=? 122) then Some (n - 71)
  else if (48 <=? n) && (n <=? 57) then Some (n + 4)
  else if n =? c62 then Some 62
  else if n =? c63 then Some 63
  else None.

Definition b64_std_char : N -> ascii := b64_char 43 47.   (* + / *)
Definition b64_url_char : N -> ascii := b64_char 45 95.   (* - _ *)
Definition b64_std_val : ascii -> option N := b64_val 43 47.
Definition b64_url_val : ascii -> option N := b64_val 45 95.

Definition b64_pad : ascii := "="%char.

(* Character classes of the two output forms. *)
Definition b64_url_charb (c : ascii) : bool :=
  is_alnum c || Ascii.eqb c "-"%char || Ascii.eqb c "_"%char.
Definition b64_std_charb (c : ascii) : bool :=
  is_alnum c || Ascii.eqb c "+"%char || Ascii.eqb c "/"%char || Ascii.eqb c "="%char.

(* ---------- 3 bytes <-> 4 sextets ---------- *)

(* sextets of the 24-bit group x,y,z (x, y, z < 256) *)
Definition sx0 (x : N) : N := x / 4.
Definition sx1 (x y : N) : N := (x mod 4) * 16 + y / 16.
Definition sx2 (y z : N) : N := (y mod 16) * 4 + z / 64.
Definition sx3 (z : N) : N := z mod 64.

(* bytes of the group of sextets p,q,r,t (all < 64) *)
Definition by0 (p q : N) : N := p * 4 + q / 16.
Definition by1 (q r : N) : N := (q mod 16) * 16 + r / 4.
Definition by2 (r t : N) : N := (r mod 4) * 64 + t.

(* ---------- encoder ---------- *)

Fixpoint b64_encode (alpha : N -> ascii) (pad : bool) (s : bytes) : bytes :=
  match s with
  | [] => []
  | [a] =>
      let x := bn a in
      alpha (sx0 x) :: alpha (sx1 x 0)
        :: (if pad then [b64_pad; b64_pad] else [])
  | [a; b] =>
      let x := bn a in let y := bn b in
      alpha (sx0 x) :: alpha (sx1 x y) :: alpha (sx2 y 0)
        :: (if pad then [b64_pad] else [])
  | a :: b :: c :: rest =>
      let x := bn a in let y := bn b in let z := bn c in
      alpha (sx0 x) :: alpha (sx1 x y) :: alpha (sx2 y z) :: alpha (sx3 z)
        :: b64_encode alpha pad rest
  end.

(* Rust: BASE64_STANDARD.encode *)
Definition b64_std_encode : bytes -> bytes := b64_encode b64_std_char true.
(* Rust: BASE64_URL_SAFE_NO_PAD.encode *)
Definition b64_url_nopad_encode : bytes -> bytes := b64_encode b64_url_char false.

(* ---------- decoders ---------- *)

(* A full group of four characters: three bytes. *)
Definition b64_dec4 (val : ascii -> option N) (c0 c1 c2 c3 : ascii) : option bytes :=
  match val c0, val c1, val c2, val c3 with
  | Some p, Some q, Some r, Some t =>
      Some [nb (by0 p q); nb (by1 q r); nb (by2 r t)]
  | _, _, _, _ => None
  end.

(* A final group of three characters: two bytes, the 2 unused bits must be 0. *)
Definition b64_dec3 (val : ascii -> option N) (c0 c1 c2 : ascii) : option bytes :=
  match val c0, val c1, val c2 with
  | Some p, Some q, Some r =>
      if r mod 4 =? 0 then Some [nb (by0 p q); nb (by1 q r)] else None
  | _, _, _ => None
  end.

(* A final group of two characters: one byte, the 4 unused bits must be 0. *)
Definition b64_dec2 (val : ascii -> option N) (c0 c1 : ascii) : option bytes :=
  match val c0, val c1 with
  | Some p, Some q =>
      if q mod 16 =? 0 then Some [nb (by0 p q)] else None
  | _, _ => None
  end.

(* Strict canonical decoder of the unpadded form over the alphabet [val]. *)
Fixpoint b64_nopad_decode (val : ascii -> option N) (s : bytes) : option bytes :=
  match s with
  | [] => Some []
  | [_] => None
  | [c0; c1] => b64_dec2 val c0 c1
  | [c0; c1; c2] => b64_dec3 val c0 c1 c2
  | c0 :: c1 :: c2 :: c3 :: rest =>
      match b64_dec4 val c0 c1 c2 c3 with
      | Some g =>
          match b64_nopad_decode val rest with
          | Some r => Some (g ++ r)
          | None => None
          end
      | None => None
      end
  end.

Definition b64_url_nopad_decode : bytes -> option bytes :=
  b64_nopad_decode b64_url_val.

(* The last group of four characters of the padded form. *)
Definition b64_pad_last (val : ascii -> option N) (c0 c1 c2 c3 : ascii) : option bytes :=
  if Ascii.eqb c3 b64_pad then
    if Ascii.eqb c2 b64_pad then b64_dec2 val c0 c1 else b64_dec3 val c0 c1 c2
  else b64_dec4 val c0 c1 c2 c3.

(* Strict canonical decoder of the padded form over the alphabet [val]
   ([val b64_pad] is expected to be [None], so padding inside is rejected). *)
Fixpoint b64_pad_decode (val : ascii -> option N) (s : bytes) : option bytes :=
  match s with
  | [] => Some []
  | c0 :: c1 :: c2 :: c3 :: rest =>
      match rest with
      | [] => b64_pad_last val c0 c1 c2 c3
      | _ :: _ =>
          match b64_dec4 val c0 c1 c2 c3 with
          | Some g =>
              match b64_pad_decode val rest with
              | Some r => Some (g ++ r)
              | None => None
              end
          | None => None
          end
      end
  | _ => None
  end.

Definition b64_std_decode : bytes -> option bytes :=
  b64_pad_decode b64_std_val.
