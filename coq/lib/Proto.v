(* Line protocol shared by the extracted model driver and the Rust harness.
   A case or observation is one line of space-separated tokens:
     x<hex>   a byte string (x alone = the empty string)
     -        an absent optional
     <digits> a natural number in decimal
     word     a keyword
   Everything here is executable glue.  That it loses nothing is proved in proofs/Proto_proofs.v:
   every token reads back as the value it stands for (byte strings, optionals, decimal N and Z,
   lists), byte-string and number tokens contain no separator, and a line of such tokens splits
   back into them. *)
From OA Require Import Bytes.
Local Open Scope N_scope.

Definition hex_digit (n : N) : byte :=
  if N.ltb n 10 then nb (48 + n) else nb (87 + n).

Definition hex_byte (c : byte) : bytes :=
  let n := bn c in [hex_digit (N.div n 16); hex_digit (N.modulo n 16)].

Definition hex (s : bytes) : bytes := flat_map hex_byte s.

Definition unhex_digit (c : byte) : option N :=
  let n := bn c in
  if is_digit c then Some (n - 48)
  else if in_range 97 102 c then Some (n - 87)
  else if in_range 65 70 c then Some (n - 55)
  else None.

Fixpoint unhex (s : bytes) : option bytes :=
  match s with
  | [] => Some []
  | a :: b :: rest =>
      match unhex_digit a, unhex_digit b, unhex rest with
      | Some x, Some y, Some r => Some (nb (16 * x + y) :: r)
      | _, _, _ => None
      end
  | _ => None
  end.

(* tokens *)
Definition tok_bytes (s : bytes) : bytes := "x"%char :: hex s.
Definition tok_opt (o : option bytes) : bytes :=
  match o with None => ["-"%char] | Some s => tok_bytes s end.

Definition untok_bytes (t : bytes) : option bytes :=
  match t with
  | "x"%char :: h => unhex h
  | _ => None
  end.

Definition untok_opt (t : bytes) : option (option bytes) :=
  match t with
  | ["-"%char] => Some None
  | _ => option_map Some (untok_bytes t)
  end.

(* decimal numbers *)
Fixpoint N_of_dec_aux (acc : N) (s : bytes) : option N :=
  match s with
  | [] => Some acc
  | c :: s' => if is_digit c then N_of_dec_aux (10 * acc + (bn c - 48)) s' else None
  end.
Definition N_of_dec (s : bytes) : option N :=
  match s with [] => None | _ => N_of_dec_aux 0 s end.

Fixpoint dec_of_pos_fuel (fuel : nat) (n : N) (acc : bytes) : bytes :=
  match fuel with
  | O => acc
  | S f =>
      let d := nb (48 + N.modulo n 10) in
      let q := N.div n 10 in
      if N.eqb q 0 then d :: acc else dec_of_pos_fuel f q (d :: acc)
  end.
(* fuel: number of binary digits + 1 bounds the number of decimal digits *)
Definition dec_of_N (n : N) : bytes := dec_of_pos_fuel (S (N.to_nat (N.size n))) n [].

Definition untok_N (t : bytes) : option N := N_of_dec t.
Definition untok_optN (t : bytes) : option (option N) :=
  match t with
  | ["-"%char] => Some None
  | _ => option_map Some (N_of_dec t)
  end.
Definition tok_optN (o : option N) : bytes :=
  match o with None => ["-"%char] | Some n => dec_of_N n end.

Definition words (line : bytes) : list bytes := split_on space line.
Definition unwords (l : list bytes) : bytes := join [space] l.

Definition kw (s : string) : bytes := s2b s.
Definition is_kw (s : string) (t : bytes) : bool := bytes_eqb t (s2b s).

Definition bad_case : bytes := s2b "BADCASE".

(* list of byte strings as one token:  x<hex>,x<hex>,...   ("." = empty list) *)
Definition tok_list (l : list bytes) : bytes :=
  match l with
  | [] => ["."%char]
  | _ => join [","%char] (map tok_bytes l)
  end.
Fixpoint sequence_opt {A} (l : list (option A)) : option (list A) :=
  match l with
  | [] => Some []
  | None :: _ => None
  | Some x :: r => option_map (cons x) (sequence_opt r)
  end.
Definition untok_list (t : bytes) : option (list bytes) :=
  match t with
  | ["."%char] => Some []
  | _ => sequence_opt (map untok_bytes (split_on ","%char t))
  end.

From Coq Require Import ZArith.
Definition dec_of_Z (z : Z) : bytes :=
  if (z <? 0)%Z then "-"%char :: dec_of_N (Z.abs_N z) else dec_of_N (Z.to_N z).
Definition Z_of_dec (s : bytes) : option Z :=
  match s with
  | "-"%char :: r => option_map (fun n => Z.opp (Z.of_N n)) (N_of_dec r)
  | _ => option_map Z.of_N (N_of_dec s)
  end.
Definition untok_listZ (t : bytes) : option (list Z) :=
  match t with
  | ["."%char] => Some []
  | _ => sequence_opt (map Z_of_dec (split_on ","%char t))
  end.
Definition untok_words (t : bytes) : list bytes :=
  match t with
  | ["."%char] => []
  | _ => split_on ","%char t
  end.
Definition tok_bool (b : bool) : bytes := if b then ["1"%char] else ["0"%char].
Definition untok_bool (t : bytes) : option bool :=
  match t with
  | ["1"%char] => Some true
  | ["0"%char] => Some false
  | _ => None
  end.
