(* SHA-256 (FIPS 180-4) as an executable Gallina function on byte strings.
   DEFINITIONS ONLY; the lemmas and test vectors are in Sha256_proofs.v.

   A 32-bit word is an [N] kept below 2^32 by explicit masking ([w32]). *)
From OA Require Import Bytes.
Open Scope N_scope.

(* ---- 32-bit words (FIPS 180-4 section 2.2.2 / 3.2) ---- *)

Definition mask32 : N := 0xFFFFFFFF.

Definition w32 (x : N) : N := N.land x mask32.                (* x mod 2^32 *)

Definition add32 (x y : N) : N := w32 (x + y).

Definition not32 (x : N) : N := N.lxor x mask32.              (* bitwise complement of a 32-bit word *)

Definition shr (n x : N) : N := N.shiftr x n.                 (* SHR^n(x) *)

Definition rotr (n x : N) : N :=                              (* ROTR^n(x), 0 < n < 32, x < 2^32 *)
  N.lor (N.shiftr x n) (w32 (N.shiftl x (32 - n))).

(* ---- the six logical functions (section 4.1.2) ---- *)

Definition Ch (x y z : N) : N := N.lxor (N.land x y) (N.land (not32 x) z).
Definition Maj (x y z : N) : N := N.lxor (N.lxor (N.land x y) (N.land x z)) (N.land y z).
Definition bsig0 (x : N) : N := N.lxor (N.lxor (rotr 2 x) (rotr 13 x)) (rotr 22 x).
Definition bsig1 (x : N) : N := N.lxor (N.lxor (rotr 6 x) (rotr 11 x)) (rotr 25 x).
Definition ssig0 (x : N) : N := N.lxor (N.lxor (rotr 7 x) (rotr 18 x)) (shr 3 x).
Definition ssig1 (x : N) : N := N.lxor (N.lxor (rotr 17 x) (rotr 19 x)) (shr 10 x).

(* ---- constants (sections 4.2.2 and 5.3.3) ---- *)

Definition K256 : list N :=
  [ 0x428a2f98; 0x71374491; 0xb5c0fbcf; 0xe9b5dba5; 0x3956c25b; 0x59f111f1; 0x923f82a4; 0xab1c5ed5;
    0xd807aa98; 0x12835b01; 0x243185be; 0x550c7dc3; 0x72be5d74; 0x80deb1fe; 0x9bdc06a7; 0xc19bf174;
    0xe49b69c1; 0xefbe4786; 0x0fc19dc6; 0x240ca1cc; 0x2de92c6f; 0x4a7484aa; 0x5cb0a9dc; 0x76f988da;
    0x983e5152; 0xa831c66d; 0xb00327c8; 0xbf597fc7; 0xc6e00bf3; 0xd5a79147; 0x06ca6351; 0x14292967;
    0x27b70a85; 0x2e1b2138; 0x4d2c6dfc; 0x53380d13; 0x650a7354; 0x766a0abb; 0x81c2c92e; 0x92722c85;
    0xa2bfe8a1; 0xa81a664b; 0xc24b8b70; 0xc76c51a3; 0xd192e819; 0xd6990624; 0xf40e3585; 0x106aa070;
    0x19a4c116; 0x1e376c08; 0x2748774c; 0x34b0bcb5; 0x391c0cb3; 0x4ed8aa4a; 0x5b9cca4f; 0x682e6ff3;
    0x748f82ee; 0x78a5636f; 0x84c87814; 0x8cc70208; 0x90befffa; 0xa4506ceb; 0xbef9a3f7; 0xc67178f2 ].

(* The hash state: eight working words a..h / H0..H7. *)
Record state : Set := mkState {
  sa : N; sb : N; sc : N; sd : N; se : N; sf : N; sg : N; sh : N
}.

Definition H0_256 : state :=
  mkState 0x6a09e667 0xbb67ae85 0x3c6ef372 0xa54ff53a 0x510e527f 0x9b05688c 0x1f83d9ab 0x5be0cd19.

Definition state_words (s : state) : list N :=
  [sa s; sb s; sc s; sd s; se s; sf s; sg s; sh s].

(* ---- padding (section 5.1.1) ---- *)

Definition zero_byte : byte := nb 0.

Fixpoint lengthN (s : bytes) : N :=
  match s with
  | [] => 0
  | _ :: t => N.succ (lengthN t)
  end.

(* Big-endian serialisation of the low 32 bits of [w]: exactly 4 bytes by construction. *)
Definition word_bytes (w : N) : bytes :=
  [ nb (N.land (N.shiftr w 24) 255);
    nb (N.land (N.shiftr w 16) 255);
    nb (N.land (N.shiftr w 8) 255);
    nb (N.land w 255) ].

(* The 64-bit big-endian bit length [8 * len]. *)
Definition length_bytes (len : N) : bytes :=
  let bits := 8 * len in
  word_bytes (N.shiftr bits 32) ++ word_bytes bits.

(* Number of zero bytes after the 0x80 so that the total is 56 mod 64. *)
Definition pad_zeros (len : N) : N := (119 - len mod 64) mod 64.

Definition pad (s : bytes) : bytes :=
  let len := lengthN s in
  s ++ nb 0x80 :: repeat zero_byte (N.to_nat (pad_zeros len)) ++ length_bytes len.

(* ---- parsing (section 5.2.1) ---- *)

Definition word_of_bytes (a b c d : byte) : N :=
  N.lor (N.lor (N.shiftl (bn a) 24) (N.shiftl (bn b) 16)) (N.lor (N.shiftl (bn c) 8) (bn d)).

(* Big-endian 32-bit words; a trailing group of fewer than 4 bytes is dropped
   (never happens on padded input). *)
Fixpoint words_of_bytes (s : bytes) : list N :=
  match s with
  | a :: b :: c :: d :: t => word_of_bytes a b c d :: words_of_bytes t
  | _ => []
  end.

(* ---- message schedule (section 6.2.2 step 1) ---- *)

(* [win] holds W_{t-16} .. W_{t-1}; emit W_t, W_{t+1}, ... ([n] of them). *)
Fixpoint schedule_ext (n : nat) (win : list N) : list N :=
  match n with
  | O => []
  | S n' =>
      let w := w32 (ssig1 (nth 14 win 0) + nth 9 win 0 + ssig0 (nth 1 win 0) + nth 0 win 0) in
      w :: schedule_ext n' (tl win ++ [w])
  end.

(* W_0 .. W_63 from the 16 words of a block. *)
Definition schedule (block : list N) : list N := block ++ schedule_ext 48 block.

(* ---- compression (section 6.2.2 steps 2-4) ---- *)

Definition round (s : state) (k w : N) : state :=
  let t1 := w32 (sh s + bsig1 (se s) + Ch (se s) (sf s) (sg s) + k + w) in
  let t2 := w32 (bsig0 (sa s) + Maj (sa s) (sb s) (sc s)) in
  mkState (add32 t1 t2) (sa s) (sb s) (sc s) (add32 (sd s) t1) (se s) (sf s) (sg s).

Fixpoint rounds (ks ws : list N) (s : state) : state :=
  match ks, ws with
  | k :: ks', w :: ws' => rounds ks' ws' (round s k w)
  | _, _ => s
  end.

Definition add_state (x y : state) : state :=
  mkState (add32 (sa x) (sa y)) (add32 (sb x) (sb y)) (add32 (sc x) (sc y)) (add32 (sd x) (sd y))
          (add32 (se x) (se y)) (add32 (sf x) (sf y)) (add32 (sg x) (sg y)) (add32 (sh x) (sh y)).

Definition compress (h : state) (block : list N) : state :=
  add_state h (rounds K256 (schedule block) h).

(* Process the word list 16 words at a time.  [fuel] only has to be at least the
   number of blocks; [sha256] passes the number of words. *)
Fixpoint process (fuel : nat) (ws : list N) (h : state) : state :=
  match fuel with
  | O => h
  | S fuel' =>
      match ws with
      | [] => h
      | _ :: _ => process fuel' (skipn 16 ws) (compress h (firstn 16 ws))
      end
  end.

(* ---- SHA-256 ---- *)

Definition sha256_state (s : bytes) : state :=
  let ws := words_of_bytes (pad s) in
  process (List.length ws) ws H0_256.

Definition sha256 (s : bytes) : bytes :=
  flat_map word_bytes (state_words (sha256_state s)).

(* ---- lower-case hex rendering of a digest (used by the test vectors) ---- *)

Definition hex_digit (n : N) : ascii :=
  if n <? 10 then nb (48 + n) else nb (87 + n).

Fixpoint sha_hex (s : bytes) : string :=
  match s with
  | [] => EmptyString
  | c :: t => String (hex_digit (N.shiftr (bn c) 4)) (String (hex_digit (N.land (bn c) 15)) (sha_hex t))
  end.
