(* Rust's str::to_lowercase as used on token_type values, on a stated domain: ASCII, Latin-1
   (U+00C0-00DE except the multiplication sign), basic Cyrillic (U+0400-042F) and Greek capitals
   (U+0391-03A9 except capital sigma, whose lowering is context-sensitive in Rust) and the four
   Latin digraph letters U+01C4-01CC, U+01F1-01F3 (upper- and title-case forms).  Every other
   byte sequence is left unchanged, so spellings with cased letters outside this domain are
   outside the model (and outside the generators). *)
From OA Require Import Bytes.
Local Open Scope N_scope.

Definition pair_lower (a b : N) : option (N * N) :=
  if a =? 195 then
    if (128 <=? b) && (b <=? 158) && negb (b =? 151) then Some (195, b + 32) else None
  else if a =? 208 then
    if (128 <=? b) && (b <=? 143) then Some (209, b + 16)
    else if (144 <=? b) && (b <=? 159) then Some (208, b + 32)
    else if (160 <=? b) && (b <=? 175) then Some (209, b - 32)
    else None
  else if a =? 206 then
    if (145 <=? b) && (b <=? 159) then Some (206, b + 32)
    else if (160 <=? b) && (b <=? 161) then Some (207, b - 32)
    else if (164 <=? b) && (b <=? 169) then Some (207, b - 32)
    else None
  else if a =? 199 then
    (* the Latin digraphs: U+01C4/01C5 -> 01C6, U+01C7/01C8 -> 01C9, U+01CA/01CB -> 01CC,
       U+01F1/01F2 -> 01F3 (upper-case AND title-case forms) *)
    if (b =? 132) || (b =? 133) then Some (199, 134)
    else if (b =? 135) || (b =? 136) then Some (199, 137)
    else if (b =? 138) || (b =? 139) then Some (199, 140)
    else if (b =? 177) || (b =? 178) then Some (199, 179)
    else None
  else None.

Fixpoint lower_tt (s : bytes) : bytes :=
  match s with
  | [] => []
  | c :: s' =>
      match s' with
      | d :: r =>
          match pair_lower (bn c) (bn d) with
          | Some (x, y) => nb x :: nb y :: lower_tt r
          | None => lower_byte c :: lower_tt s'
          end
      | [] => [lower_byte c]
      end
  end.
