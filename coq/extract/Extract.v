(* Extraction of the executable model.  Directives: exactly those of ExtrOcamlBasic
   (bool, option, unit, list, prod, sumbool, sumor; andb/orb inlined).  Everything else
   (N, positive, Z, ascii, records) stays an extracted Coq datatype. *)
From Coq Require Import Extraction ExtrOcamlBasic.
From OA Require Import Run.
Set Extraction KeepSingleton.
Extraction "../ocaml/model.ml" run_line.
