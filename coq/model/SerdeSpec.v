(* Canonical-value predicates and document builders used in the statements about Serde.v. *)
From OA Require Import Bytes Json Lower ErrorCodes Serde.
From Coq Require Import ZArith Permutation.
Local Open Scope Z_scope.

Definition has_space (s : bytes) : bool := existsb (Ascii.eqb space) s.
(* what a space-delimited scope list must look like to survive the codec: non-empty list of
   space-free scopes (an empty LIST encodes to "" which reads back as one empty scope) *)
Definition scopes_ok (l : list bytes) : bool :=
  match l with [] => false | _ => forallb (fun s => negb (has_space s)) l end.
Definition opt_scopes_ok (o : option (list bytes)) : bool :=
  match o with Some l => scopes_ok l | None => true end.

(* token types in the image of the case-insensitive parser *)
Definition tt_canon (t : token_type) : bool :=
  match t with
  | TExtension s => bytes_eqb (lower_tt s) s && negb (bytes_eqb s (s2b "bearer")) && negb (bytes_eqb s (s2b "mac"))
  | _ => true
  end.
Definition opt_tt_canon (o : option token_type) : bool :=
  match o with Some t => tt_canon t | None => true end.

Definition u64_ok (n : N) : bool := (Z.of_N n <=? U64MAXZ).
Definition opt_u64_ok (o : option N) : bool := match o with Some n => u64_ok n | None => true end.
Definition ts_ok (z : Z) : bool := (TS_MIN <=? z) && (z <=? TS_MAX).
Definition opt_ts_ok (o : option Z) : bool := match o with Some z => ts_ok z | None => true end.

Definition token_canon {EF} (efc : EF -> bool) (t : token_resp EF) : bool :=
  tt_canon (tr_type t) && opt_u64_ok (tr_expires t) && opt_scopes_ok (tr_scopes t) && efc (tr_extra t).

Definition introspection_canon {EF} (efc : EF -> bool) (r : introspection EF) : bool :=
  opt_scopes_ok (ir_scopes r) && opt_tt_canon (ir_token_type r) && opt_ts_ok (ir_exp r)
  && opt_ts_ok (ir_iat r) && opt_ts_ok (ir_nbf r) && efc (ir_extra r).

Definition device_canon_b {EF} (url_ok : bytes -> bool) (efc : EF -> bool) (d : device_auth EF) : bool :=
  url_ok (da_verification_uri d) && u64_ok (da_expires d) && u64_ok (da_interval d) && efc (da_extra d).

Definition ext_canon (e : ext) : bool := opt_u64_ok (ext_num e).

(* what makes an extension schema well behaved *)
Record ef_good {EF} (ef : ef_schema EF) (efc : EF -> bool) (outer : list bytes) : Prop := {
  efg_perm : forall m m', Permutation m m' -> ef_decode ef m = ef_decode ef m';
  efg_skip : forall m k v, is_known (ef_names ef) k = false ->
             ef_decode ef ((k, v) :: m) = ef_decode ef m;
  efg_roundtrip : forall x, efc x = true -> ef_decode ef (ef_encode ef x) = Some x;
  efg_image : forall m x, ef_decode ef m = Some x -> efc x = true;
  efg_names : forall x kv, In kv (ef_encode ef x) ->
              is_known (ef_names ef) (fst kv) = true /\ is_known outer (fst kv) = false;
  efg_strict : forall x, flatten_ok (ef_encode ef x) = true /\ (json_depth (JObj (ef_encode ef x)) <= 1)%nat
}.
