(* Model of the timing-resistant comparison of secret types (src/types.rs new_secret_type,
   feature timing-resistant-secret-traits): eq and hash go through the SHA-256 digests. *)
From OA Require Import Bytes Sha256.

Definition secret_eq (a b : bytes) : bool := bytes_eqb (sha256 a) (sha256 b).
(* impl Hash: Sha256::digest(&self.0).hash(state) — any hasher [h] sees only the digest *)
Definition secret_hash {H : Type} (h : bytes -> H) (a : bytes) : H := h (sha256 a).

(* ---- compile-time facts about the secret newtypes (src/types.rs new_secret_type!) as a table;
        each entry is validated by a rustc probe in the correspondence run ------------------- *)
Inductive secret_ty :=
| TClientSecret | TAuthorizationCode | TAccessToken | TRefreshToken | TPkceCodeVerifier
| TCsrfToken | TResourceOwnerPassword | TDeviceCode | TUserCode | TVerificationUriComplete.
Inductive trait_name :=
| TrDisplay | TrDeref | TrIntoString | TrPartialEq | TrEq | TrHash | TrClone | TrDebug
(* further ways of reading or comparing the contents without the named accessor *)
| TrBorrowStr | TrBorrowString | TrAsRefStr | TrAsRefString | TrAsRefBytes | TrToString
| TrIntoBytes | TrIntoBoxStr | TrPartialEqStr | TrPartialEqString | TrStrPartialEq
| TrPartialOrd | TrOrd | TrCopy | TrDefault | TrIntoIterator.

(* traits through which generic code could read, order or conjure the contents *)
Definition revealing_traits : list trait_name :=
  [TrDisplay; TrDeref; TrIntoString; TrBorrowStr; TrBorrowString; TrAsRefStr; TrAsRefString;
   TrAsRefBytes; TrToString; TrIntoBytes; TrIntoBoxStr; TrPartialEqStr; TrPartialEqString;
   TrStrPartialEq; TrPartialOrd; TrOrd; TrCopy; TrDefault; TrIntoIterator].

Definition all_secret_tys : list secret_ty :=
  [TClientSecret; TAuthorizationCode; TAccessToken; TRefreshToken; TPkceCodeVerifier;
   TCsrfToken; TResourceOwnerPassword; TDeviceCode; TUserCode; TVerificationUriComplete].

(* [timing] = feature timing-resistant-secret-traits *)
Definition impls (t : secret_ty) (tr : trait_name) (timing : bool) : bool :=
  match tr with
  | TrDisplay | TrDeref | TrIntoString
  | TrBorrowStr | TrBorrowString | TrAsRefStr | TrAsRefString | TrAsRefBytes | TrToString
  | TrIntoBytes | TrIntoBoxStr | TrPartialEqStr | TrPartialEqString | TrStrPartialEq
  | TrPartialOrd | TrOrd | TrCopy | TrDefault | TrIntoIterator => false
  | TrPartialEq | TrEq | TrHash => timing
  | TrClone => match t with TPkceCodeVerifier => false | _ => true end
  | TrDebug => true
  end.
