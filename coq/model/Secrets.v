(* Model of the timing-resistant comparison of secret types (src/types.rs new_secret_type,
   feature timing-resistant-secret-traits): eq and hash go through the SHA-256 digests. *)
From OA Require Import Bytes Sha256.

Definition secret_eq (a b : bytes) : bool := bytes_eqb (sha256 a) (sha256 b).
(* impl Hash: Sha256::digest(&self.0).hash(state) — any hasher [h] sees only the digest *)
Definition secret_hash {H : Type} (h : bytes -> H) (a : bytes) : H := h (sha256 a).
