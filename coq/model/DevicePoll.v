(* Model of src/devicecode.rs DeviceAccessTokenRequest::{request, request_async,
   process_response, compute_timeout} — the RFC 8628 poll loop.

   Durations are nanoseconds in N with the std::time::Duration limit DMAX written in;
   instants are nanoseconds since the epoch in Z with chrono's DateTime<Utc> limits written in.
   The clock is an arbitrary list of readings (time_fn is a caller-supplied closure); the HTTP
   client is a script of reply classes.  This is the code AFTER the two fix: commits
   (back-off never shortens the wait; slow_down saturates instead of panicking); the pinned
   behaviour is kept in history/C07_pinned.v with its refutations. *)
From OA Require Import Bytes.
From Coq Require Import ZArith.
Local Open Scope N_scope.

Definition NS : N := 1000000000.
Definition U64MAX : N := 18446744073709551615.
Definition DMAX : N := U64MAX * NS + 999999999.          (* Duration::MAX *)
Definition five_s : N := 5 * NS.
Definition default_backoff : N := 10 * NS.               (* DEFAULT_MAX_BACKOFF_INTERVAL *)
(* chrono 0.4: TimeDelta::MAX = i64::MAX milliseconds; DateTime<Utc>::MAX_UTC / MIN_UTC
   (values measured from the pinned chrono by the harness on every run, see gen/c08.py) *)
Definition MAXDELTA : N := 9223372036854775807 * 1000000.
Definition DTMAX : Z := (8210266876799 * 1000000000 + 999999999)%Z.
Definition DTMIN : Z := (-8334601228800 * 1000000000)%Z.

(* What one HTTP exchange amounts to for the loop.  [RDecisive k]: any reply that ends the
   loop; k indexes the terminal outcome (token, exact server error, parse error, other). *)
Inductive reply := RPending | RSlowDown | RFailure | RDecisive (k : N).

Inductive step_result := Continue (d : N) | Done (k : N).

(* Duration::checked_mul(2).unwrap_or(cur) *)
Definition doubled (cur : N) : N := if 2 * cur <=? DMAX then 2 * cur else cur.
(* transport failure: max(cur, min(doubled, ceiling)) *)
Definition backoff (ceiling cur : N) : N := N.max cur (N.min (doubled cur) ceiling).
(* slow_down: cur.saturating_add(5 s) *)
Definition slow (cur : N) : N := N.min DMAX (cur + five_s).

Definition process_response (ceiling cur : N) (r : reply) : step_result :=
  match r with
  | RPending => Continue cur
  | RSlowDown => Continue (slow cur)
  | RFailure => Continue (backoff ceiling cur)
  | RDecisive k => Done k
  end.

Inductive event := ENow (t : Z) | EPoll | ESleep (d : N).

Inductive outcome :=
| OFinished (k : N)      (* the first decisive reply *)
| OExpired               (* synthetic expired_token: the clock passed the deadline *)
| OOther                 (* error value: unrepresentable timeout / unbuildable request *)
| OStuck.                (* ran out of clock readings or of script: excluded by statements *)

(* loop { now = time_fn(); if now > deadline {break expired}; call; process; sleep } *)
Fixpoint poll_loop (req_ok : bool) (ceiling : N) (deadline : Z) (interval : N)
         (clock : list Z) (script : list reply) : list event * outcome :=
  match clock with
  | [] => ([], OStuck)
  | now :: clock' =>
      if (now >? deadline)%Z then ([ENow now], OExpired)
      else if negb req_ok then ([ENow now], OOther)
      else match script with
           | [] => ([ENow now], OStuck)
           | r :: script' =>
               match process_response ceiling interval r with
               | Done k => ([ENow now; EPoll], OFinished k)
               | Continue i' =>
                   let (tr, o) := poll_loop req_ok ceiling deadline i' clock' script' in
                   (ENow now :: EPoll :: ESleep i' :: tr, o)
               end
           end
  end.

(* compute_timeout: chrono::Duration::from_std, DateTime::checked_add_signed *)
Definition compute_timeout (t0 : Z) (timeout : N) : option Z :=
  if timeout <=? MAXDELTA then
    let dl := (t0 + Z.of_N timeout)%Z in
    if (dl <=? DTMAX)%Z then Some dl else None
  else None.

Record poll_cfg := {
  pc_interval_s : N;            (* DeviceAuthorizationResponse::interval, whole seconds (u64) *)
  pc_expires_s : N;             (* DeviceAuthorizationResponse::expires_in, whole seconds (u64) *)
  pc_backoff : option N;        (* set_max_backoff_interval, ns *)
  pc_timeout : option N;        (* the caller's timeout argument, ns *)
  pc_req_ok : bool              (* the token request can be built (uri_ok of the token URL) *)
}.

Definition ceiling_of (c : poll_cfg) : N :=
  match pc_backoff c with Some b => b | None => default_backoff end.
Definition timeout_of (c : poll_cfg) : N :=
  match pc_timeout c with Some t => t | None => pc_expires_s c * NS end.

Definition poll_run (c : poll_cfg) (clock : list Z) (script : list reply)
  : list event * outcome :=
  (* chrono::Duration::from_std fails before the clock is read *)
  if negb (timeout_of c <=? MAXDELTA) then ([], OOther)
  else match clock with
  | [] => ([], OStuck)
  | t0 :: clock' =>
      match compute_timeout t0 (timeout_of c) with
      | None => ([ENow t0], OOther)
      | Some dl =>
          let (tr, o) := poll_loop (pc_req_ok c) (ceiling_of c) dl (pc_interval_s c * NS)
                                   clock' script in
          (ENow t0 :: tr, o)
      end
  end.

(* ---- observation helpers and the property monitor ------------------------------------- *)

Fixpoint sleeps (tr : list event) : list N :=
  match tr with
  | [] => []
  | ESleep d :: tr' => d :: sleeps tr'
  | _ :: tr' => sleeps tr'
  end.
Fixpoint polls (tr : list event) : nat :=
  match tr with
  | [] => O
  | EPoll :: tr' => S (polls tr')
  | _ :: tr' => polls tr'
  end.

(* C07, clause by clause: the wait requested after reply r, given the previous wait *)
Definition step_okb (ceiling cur : N) (r : reply) (d : N) : bool :=
  match r with
  | RPending => d =? cur
  | RSlowDown => d =? N.min DMAX (cur + five_s)
  | RFailure => (cur <=? d) && (d <=? N.max cur ceiling)
  | RDecisive _ => false
  end.

(* the sequence of waits [ds] is legal for the reply prefix [script] starting from [cur] *)
Fixpoint sleeps_okb (ceiling cur : N) (script : list reply) (ds : list N) {struct ds} : bool :=
  match ds, script with
  | [], _ => true
  | d :: ds', r :: script' => step_okb ceiling cur r d && sleeps_okb ceiling d script' ds'
  | _ :: _, [] => false
  end.

(* the RFC 8628 floor after the replies seen so far: interval + 5 s per slow_down, capped by
   what a Duration can hold *)
Fixpoint floors (base : N) (script : list reply) : list N :=
  match script with
  | [] => []
  | r :: script' =>
      let base' := match r with RSlowDown => N.min DMAX (base + five_s) | _ => base end in
      base' :: floors base' script'
  end.

Fixpoint all_geb (ds fl : list N) {struct ds} : bool :=
  match ds, fl with
  | [], _ => true
  | d :: ds', f :: fl' => (f <=? d) && all_geb ds' fl'
  | _ :: _, [] => false
  end.

(* trace shape: (Now Poll Sleep)* then Now [Poll]  — after the initial Now of compute_timeout *)
Fixpoint shape_okb (tr : list event) : bool :=
  match tr with
  | [ENow _] => true
  | [ENow _; EPoll] => true
  | ENow _ :: EPoll :: ESleep _ :: tr' => shape_okb tr'
  | _ => false
  end.
