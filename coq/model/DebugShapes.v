(* The Debug shapes of the library values that can hold secrets (src/client.rs, src/token/mod.rs,
   src/code.rs, src/devicecode.rs, src/introspection.rs, src/revocation.rs, src/types.rs), field
   by field as the derives lay them out.  Inputs: public strings p0..p4, secret strings s0..s3,
   and the text PhantomData prints for the container's type parameters (an oracle: it is
   std::any::type_name output). *)
From OA Require Import Bytes DebugFmt.

Definition nt (n : string) (s : bytes) : dbg := DTuple (s2b n) [DStr s].   (* ClientId("..") *)
Definition sec (n : string) (payload : bytes) : dbg := DSecret (s2b n) payload.
Definition some (d : dbg) : dbg := DTuple (s2b "Some") [d].
Definition none : dbg := DRaw (s2b "None").
Definition raw (s : string) : dbg := DRaw (s2b s).
Definition fld (n : string) (d : dbg) : bytes * dbg := (s2b n, d).
Definition url (ty : string) (u : string) : dbg := DTuple (s2b ty) [DStr (s2b u)].

Record dparams := {
  p0 : bytes; p1 : bytes; p2 : bytes; p3 : bytes; p4 : bytes;
  s0 : bytes; s1 : bytes; s2 : bytes; s3 : bytes;
  phantom : bytes
}.

Definition common (q : dparams) : list (bytes * dbg) :=
  [fld "auth_type" (raw "BasicAuth"); fld "client_id" (nt "ClientId" (p0 q));
   fld "client_secret" (some (sec "ClientSecret" (s0 q)))].
Definition extra (q : dparams) : bytes * dbg :=
  fld "extra_params" (DList [DTuple [] [DStr (p1 q); DStr (p2 q)]]).
Definition scopes (q : dparams) : bytes * dbg := fld "scopes" (DList [nt "Scope" (p3 q)]).
Definition ph (q : dparams) : bytes * dbg := fld "_phantom" (DRaw (phantom q)).
Definition token_url : bytes * dbg := fld "token_url" (url "TokenUrl" "https://t.example/token").

Definition kind_is (kind : bytes) (k : string) : bool := bytes_eqb kind (s2b k).

Definition shape (kind : bytes) (q : dparams) : option dbg :=
  if kind_is kind "client" then Some (DStruct (s2b "Client") [
      fld "client_id" (nt "ClientId" (p0 q));
      fld "client_secret" (some (sec "ClientSecret" (s0 q)));
      fld "auth_url" (some (url "AuthUrl" "https://a.example/auth"));
      fld "auth_type" (raw "BasicAuth");
      fld "token_url" (some (url "TokenUrl" "https://t.example/token"));
      fld "redirect_url" (some (url "RedirectUrl" "https://c.example/cb"));
      fld "introspection_url" none; fld "revocation_url" none;
      fld "device_authorization_url" none;
      fld "phantom" (DRaw (phantom q))])
  else if kind_is kind "code_req" then Some (DStruct (s2b "CodeTokenRequest")
      (common q ++ [fld "code" (sec "AuthorizationCode" (s1 q)); extra q;
                    fld "pkce_verifier" (some (sec "PkceCodeVerifier" (s2 q))); token_url;
                    fld "redirect_url" (some (url "RedirectUrl" "https://c.example/cb")); ph q]))
  else if kind_is kind "refresh_req" then Some (DStruct (s2b "RefreshTokenRequest")
      (common q ++ [extra q; fld "refresh_token" (sec "RefreshToken" (s1 q)); scopes q; token_url; ph q]))
  else if kind_is kind "password_req" then Some (DStruct (s2b "PasswordTokenRequest")
      (common q ++ [extra q; fld "username" (nt "ResourceOwnerUsername" (p4 q));
                    fld "password" (sec "ResourceOwnerPassword" (s1 q)); scopes q; token_url; ph q]))
  else if kind_is kind "cc_req" then Some (DStruct (s2b "ClientCredentialsTokenRequest")
      (common q ++ [extra q; scopes q; token_url; ph q]))
  else if kind_is kind "devauth_req" then Some (DStruct (s2b "DeviceAuthorizationRequest")
      (common q ++ [extra q; scopes q;
                    fld "device_authorization_url" (url "DeviceAuthorizationUrl" "https://d.example/device");
                    ph q]))
  else if kind_is kind "introspect_req" then Some (DStruct (s2b "IntrospectionRequest")
      ([fld "token" (sec "AccessToken" (s1 q)); fld "token_type_hint" (some (DStr (p4 q)))]
       ++ common q ++ [extra q;
                       fld "introspection_url" (url "IntrospectionUrl" "https://i.example/introspect");
                       ph q]))
  else if kind_is kind "revoke_req" then Some (DStruct (s2b "RevocationRequest")
      ([fld "token" (DTuple (s2b "AccessToken") [sec "AccessToken" (s1 q)])]
       ++ common q ++ [extra q; fld "revocation_url" (url "RevocationUrl" "https://r.example/revoke");
                       ph q]))
  else if kind_is kind "auth_req" then Some (DStruct (s2b "AuthorizationRequest") [
      fld "auth_url" (url "AuthUrl" "https://a.example/auth");
      fld "client_id" (nt "ClientId" (p0 q)); extra q; fld "pkce_challenge" none;
      fld "redirect_url" (some (url "RedirectUrl" "https://c.example/cb"));
      fld "response_type" (DStr (p4 q)); scopes q; fld "state" (sec "CsrfToken" (s1 q))])
  else if kind_is kind "token_resp" then Some (DStruct (s2b "StandardTokenResponse") [
      fld "access_token" (sec "AccessToken" (s1 q)); fld "token_type" (raw "Bearer");
      fld "expires_in" (some (raw "3600"));
      fld "refresh_token" (some (sec "RefreshToken" (s2 q)));
      fld "scopes" (some (DList [nt "Scope" (p3 q)]));
      fld "extra_fields" (raw "EmptyExtraTokenFields")])
  else if kind_is kind "intro_resp" then Some (DStruct (s2b "StandardTokenIntrospectionResponse") [
      fld "active" (raw "true"); fld "scopes" (some (DList [nt "Scope" (p3 q)]));
      fld "client_id" (some (nt "ClientId" (p0 q))); fld "username" (some (DStr (p4 q)));
      fld "token_type" (some (raw "Bearer")); fld "exp" none; fld "iat" none; fld "nbf" none;
      fld "sub" none; fld "aud" (some (DList [DStr (p1 q); DStr (p2 q)])); fld "iss" none;
      fld "jti" none; fld "extra_fields" (raw "EmptyExtraTokenFields")])
  else if kind_is kind "dev_resp" then Some (DStruct (s2b "DeviceAuthorizationResponse") [
      fld "device_code" (sec "DeviceCode" (s1 q)); fld "user_code" (sec "UserCode" (s2 q));
      fld "verification_uri" (url "EndUserVerificationUrl" "https://v.example/");
      fld "verification_uri_complete" (some (sec "VerificationUriComplete" (s3 q)));
      fld "expires_in" (raw "1800"); fld "interval" (raw "5");
      fld "extra_fields" (raw "EmptyExtraDeviceAuthorizationFields")])
  else if kind_is kind "dev_resp_nouri" then
      (* a response lacking verification_uri is rejected: there is no value to format *)
      Some (DRaw (s2b "rejected"))
  else if kind_is kind "revocable" then Some (DTuple (s2b "RefreshToken") [sec "RefreshToken" (s1 q)])
  else if kind_is kind "nest" then Some (DTuple [] [
      some (sec "ClientSecret" (s0 q));
      DList [sec "AccessToken" (s1 q); sec "AccessToken" (s2 q)];
      DTuple [] [sec "CsrfToken" (s3 q); DStr (p0 q)];
      none;
      some (DList [some (sec "ResourceOwnerPassword" (s1 q))])])
  else None.
