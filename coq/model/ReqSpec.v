(* Executable statements of C01, C02 and C03 over an OBSERVED request / URL: these are the
   extracted property monitors.  They are written from the property text (RFC pair lists,
   "exactly once", "in one place"), not from the model; proofs/ReqSpec_proofs.v shows that the
   model's output always satisfies them. *)
From OA Require Import Bytes FormUrlencoded Base64 Requests Pkce AuthUrl.

Definition pair_eqb (p q : pair) : bool :=
  (bytes_eqb (fst p) (fst q) && bytes_eqb (snd p) (snd q))%bool.

Fixpoint remove_first (p : pair) (l : list pair) : option (list pair) :=
  match l with
  | [] => None
  | q :: l' => if pair_eqb p q then Some l'
               else option_map (cons q) (remove_first p l')
  end.

(* multiset equality of pair lists *)
Fixpoint perm_eqb (a b : list pair) : bool :=
  match a with
  | [] => match b with [] => true | _ => false end
  | p :: a' => match remove_first p b with
               | Some b' => perm_eqb a' b'
               | None => false
               end
  end.

Definition opt_eqb (a b : option bytes) : bool :=
  match a, b with
  | Some x, Some y => bytes_eqb x y
  | None, None => true
  | _, _ => false
  end.

Definition header_once (n v : bytes) (h : list pair) : bool :=
  (Nat.eqb (count_name n h) 1 && opt_eqb (lookup n h) (Some v))%bool.

(* what the grant requires, per the RFCs, plus client authentication in the body, the redirect
   and the caller's extras *)
Definition intended (c : creds) (k : req_kind) (extra : list pair) : list pair :=
  rfc_required k ++ rfc_optional k ++ scope_pairs (kind_scopes k) ++ cred_pairs c
  ++ redirect_pairs (kind_redirect k) ++ extra.

Definition c01_okb (c : creds) (ep : endpoint) (k : req_kind) (extra : list pair)
           (r : http_req) : bool :=
  (bytes_eqb (rq_method r) (s2b "POST")
   && bytes_eqb (rq_target r) (strip_fragment (ep_text ep))
   && header_once (s2b "accept") (s2b "application/json") (rq_headers r)
   && header_once (s2b "content-type") (s2b "application/x-www-form-urlencoded") (rq_headers r)
   && forallb form_charb (rq_body r)
   && perm_eqb (form_parse (rq_body r)) (intended c k extra))%bool.

Fixpoint strip_prefix (p s : bytes) : option bytes :=
  match p, s with
  | [], _ => Some s
  | x :: p', y :: s' => if Ascii.eqb x y then strip_prefix p' s' else None
  | _ :: _, [] => None
  end.

(* the server-side reading of an Authorization: Basic value (RFC 6749 2.3.1) *)
Definition read_basic (v : bytes) : option (bytes * bytes) :=
  match strip_prefix (s2b "Basic ") v with
  | None => None
  | Some p64 =>
      match b64_std_decode p64 with
      | None => None
      | Some p =>
          match split_first ":"%char p with
          | None => None
          | Some (a, b) => Some (form_decode a, form_decode b)
          end
      end
  end.

Definition c02_okb (c : creds) (ep : endpoint) (extra : list pair) (r : http_req) : bool :=
  let body := form_parse (rq_body r) in
  let n_id := count_name (s2b "client_id") body in
  let n_sec := count_name (s2b "client_secret") body in
  let x_id := count_name (s2b "client_id") extra in
  let x_sec := count_name (s2b "client_secret") extra in
  (bytes_eqb (rq_target r) (strip_fragment (ep_text ep)) &&
   match cr_auth c, cr_secret c with
   | BasicAuth, Some s =>
       Nat.eqb (count_name (s2b "authorization") (rq_headers r)) 1
       && match lookup (s2b "authorization") (rq_headers r) with
          | Some v => match read_basic v with
                      | Some (a, b) => bytes_eqb a (cr_id c) && bytes_eqb b s
                      | None => false
                      end
          | None => false
          end
       && Nat.eqb n_id x_id && Nat.eqb n_sec x_sec
   | _, sec =>
       Nat.eqb (count_name (s2b "authorization") (rq_headers r)) 0
       && Nat.eqb n_id (S x_id) && opt_eqb (lookup (s2b "client_id") body) (Some (cr_id c))
       && match sec with
          | Some s => Nat.eqb n_sec (S x_sec) && opt_eqb (lookup (s2b "client_secret") body) (Some s)
          | None => Nat.eqb n_sec x_sec
          end
   end)%bool.

(* ---- C03 ------------------------------------------------------------------------------------ *)

Definition intended_auth (id state : bytes) (default_redirect : option bytes)
           (ops : list auth_op) : list pair :=
  [(s2b "response_type", last_response_type ops (s2b "code")); (s2b "client_id", id);
   (s2b "state", state)]
  ++ match last_pkce ops None with
     | Some c => [(s2b "code_challenge", ch_value c); (s2b "code_challenge_method", ch_method c)]
     | None => []
     end
  ++ redirect_pairs (last_redirect ops default_redirect)
  ++ match join [space] (all_scopes ops) with [] => [] | sc => [(s2b "scope", sc)] end
  ++ all_extras ops.

Fixpoint pairs_eqb (a b : list pair) : bool :=
  match a, b with
  | [], [] => true
  | p :: a', q :: b' => pair_eqb p q && pairs_eqb a' b'
  | _, _ => false
  end.

Definition c03_okb (ep : abs_url) (id state : bytes) (default_redirect : option bytes)
           (ops : list auth_op) (calls_before : nat)
           (out : abs_url) (out_state : bytes) (calls_after : nat) : bool :=
  let old := form_parse (query0 ep) in
  (bytes_eqb (u_prefix out) (u_prefix ep)
   && opt_eqb (u_fragment out) (u_fragment ep)
   && match u_query out with
      | None => false
      | Some q =>
          let ps := form_parse q in
          is_prefix (query0 ep) q
          && pairs_eqb (firstn (length old) ps) old
          && perm_eqb (skipn (length old) ps) (intended_auth id state default_redirect ops)
      end
   && bytes_eqb out_state state
   && Nat.eqb calls_after (S calls_before))%bool.
