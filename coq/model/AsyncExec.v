(* Model of how the future-based calls are driven (C17).  A request flow is a program over
   abstract effects (HTTP exchange, sleep, clock read) with continuations; [run_sync] is the
   blocking interpretation; [poll] is one call of Future::poll on the corresponding future, where
   each inner (caller-supplied) future reports Pending a caller-chosen number of times before it
   completes; [run_bare] is a bare executor: poll until Ready.  The environment (scripted server,
   clock) answers an effect as a function of the effects issued so far.

   What this models and what it does not: the lowering of async fn to a resumable state machine
   is Rust's; the model states its contract (resumption continues with the same local state) and
   proves that under that contract the outcome and the effect sequence do not depend on the
   pending counts or on how several futures are interleaved. *)
From OA Require Import Bytes.

Section Async.
  Variables Eff Ans R : Type.
  Variable env : list Eff -> Eff -> Ans.      (* answer to an effect, given the history *)

  Inductive prog :=
  | Ret (r : R)
  | Do (e : Eff) (k : Ans -> prog).

  (* blocking: perform each effect, continue *)
  Fixpoint run_sync (p : prog) (hist : list Eff) : R * list Eff :=
    match p with
    | Ret r => (r, hist)
    | Do e k => run_sync (k (env hist e)) (hist ++ [e])
    end.

  (* a suspended future: running, or waiting on an inner future that will answer [a] after
     [n] more polls *)
  Inductive fut :=
  | Run (p : prog)
  | Wait (n : nat) (a : Ans) (k : Ans -> prog).

  Inductive poll_result := Pending (f : fut) | Ready (r : R).

  (* run a program until it finishes or an inner future reports Pending; [ds]: the pending
     counts the inner futures will use, in order *)
  Fixpoint poll_prog (p : prog) (hist : list Eff) (ds : list nat)
    : poll_result * list Eff * list nat :=
    match p with
    | Ret r => (Ready r, hist, ds)
    | Do e k =>
        let a := env hist e in
        let hist' := hist ++ [e] in
        match ds with
        | S n :: ds' => (Pending (Wait n a k), hist', ds')
        | O :: ds' => poll_prog (k a) hist' ds'
        | [] => poll_prog (k a) hist' []
        end
    end.

  (* one Future::poll *)
  Definition poll (f : fut) (hist : list Eff) (ds : list nat)
    : poll_result * list Eff * list nat :=
    match f with
    | Run p => poll_prog p hist ds
    | Wait (S n) a k => (Pending (Wait n a k), hist, ds)
    | Wait O a k => poll_prog (k a) hist ds
    end.

  (* a bare executor: poll until Ready (fuel = maximum number of polls) *)
  Fixpoint run_bare (fuel : nat) (f : fut) (hist : list Eff) (ds : list nat)
    : option (R * list Eff) :=
    match fuel with
    | O => None
    | S fuel' =>
        match poll f hist ds with
        | (Ready r, hist', _) => Some (r, hist')
        | (Pending f', hist', ds') => run_bare fuel' f' hist' ds'
        end
    end.

  (* several futures in flight: each has its own history and pending counts (they share only the
     immutable client); [sched] says which one is polled next *)
  Record task := { t_fut : poll_result; t_hist : list Eff; t_ds : list nat }.

  Definition poll_task (t : task) : task :=
    match t_fut t with
    | Ready _ => t
    | Pending f =>
        let '(r, h, d) := poll f (t_hist t) (t_ds t) in
        {| t_fut := r; t_hist := h; t_ds := d |}
    end.

  Fixpoint update {A} (i : nat) (g : A -> A) (l : list A) : list A :=
    match l, i with
    | [], _ => []
    | x :: r, O => g x :: r
    | x :: r, S i' => x :: update i' g r
    end.

  Fixpoint run_sched (sched : list nat) (ts : list task) : list task :=
    match sched with
    | [] => ts
    | i :: s => run_sched s (update i poll_task ts)
    end.

  Fixpoint iter {A} (n : nat) (g : A -> A) (x : A) : A :=
    match n with O => x | S n' => iter n' g (g x) end.
End Async.

Arguments Ret {Eff Ans R}. Arguments Do {Eff Ans R}.
Arguments Run {Eff Ans R}. Arguments Wait {Eff Ans R}.
Arguments Pending {Eff Ans R}. Arguments Ready {Eff Ans R}.
