(* Model of src/types.rs PkceCodeChallenge / CsrfToken random constructors. *)
From OA Require Import Bytes Base64 Sha256.

Inductive presult (A : Type) := POk (a : A) | PPanic.
Arguments POk {A}. Arguments PPanic {A}.

Record challenge := { ch_value : bytes; ch_method : bytes }.

Definition verifier_len_ok (v : bytes) : bool :=
  (Nat.leb 43 (length v) && Nat.leb (length v) 128)%bool.

(* PkceCodeChallenge::from_code_verifier_sha256 *)
Definition from_verifier_sha256 (v : bytes) : presult challenge :=
  if verifier_len_ok v
  then POk {| ch_value := b64_url_nopad_encode (sha256 v); ch_method := s2b "S256" |}
  else PPanic.

(* PkceCodeChallenge::from_code_verifier_plain (feature pkce-plain) *)
Definition from_verifier_plain (v : bytes) : presult challenge :=
  if verifier_len_ok v
  then POk {| ch_value := v; ch_method := s2b "plain" |}
  else PPanic.

(* the random constructors: [stream] is what thread_rng yields, one byte per draw *)
Definition num_bytes_ok (n : N) : bool := (N.leb 32 n && N.leb n 96)%bool.

(* PkceCodeChallenge::new_random_len *)
Definition new_random_verifier (n : N) (stream : bytes) : presult bytes :=
  if num_bytes_ok n then POk (b64_url_nopad_encode (firstn (N.to_nat n) stream)) else PPanic.

(* PkceCodeChallenge::new_random_sha256_len *)
Definition new_random_sha256_len (n : N) (stream : bytes) : presult (challenge * bytes) :=
  match new_random_verifier n stream with
  | POk v => match from_verifier_sha256 v with
             | POk c => POk (c, v)
             | PPanic => PPanic
             end
  | PPanic => PPanic
  end.

(* CsrfToken::new_random_len: no length guard *)
Definition csrf_new_random_len (n : N) (stream : bytes) : bytes :=
  b64_url_nopad_encode (firstn (N.to_nat n) stream).

(* the server-side check of RFC 7636 section 4.6 *)
Definition server_check (method challenge verifier : bytes) : bool :=
  if bytes_eqb method (s2b "S256") then bytes_eqb (b64_url_nopad_encode (sha256 verifier)) challenge
  else if bytes_eqb method (s2b "plain") then bytes_eqb verifier challenge
  else false.
