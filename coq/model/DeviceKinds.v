(* The scripted server behaviours used by the C07/C08/C17 correspondence runs: a name, the
   HTTP reply the harness serves for it (status, Content-Type, body — the same table is in
   harness/src/kinds.rs), and what that reply amounts to for the poll loop.  The last column is
   re-derived from the Endpoint/JSON model in proofs/DeviceKinds_proofs.v. *)
From OA Require Import Bytes DevicePoll.
Local Open Scope N_scope.

Inductive result :=
| ROk (token : bytes)                       (* a token response; access_token shown *)
| RServer (code : bytes) (desc : option bytes)
| RParse (body : bytes)                     (* parse error carrying the body *)
| ROtherErr
| RRequestErr.                              (* the caller's transport error *)

Record kind := {
  k_name : bytes;
  k_status : N;                 (* 0 = transport failure *)
  k_ct : option bytes;
  k_body : bytes;
  k_class : reply;              (* index k in RDecisive k = position in the table *)
  k_result : result
}.

Definition json_ct := Some (s2b "application/json").
Definition mk (n : string) (st : N) (ct : option bytes) (body : string) (c : reply) (r : result) :=
  {| k_name := s2b n; k_status := st; k_ct := ct; k_body := s2b body; k_class := c; k_result := r |}.

Definition q (s : string) : string := s.

Definition kinds : list kind := [
  mk "pending" 400 json_ct "{""error"":""authorization_pending""}" RPending ROtherErr;
  mk "pending_desc" 400 json_ct
     "{""error"":""authorization_pending"",""error_description"":""Still waiting""}" RPending ROtherErr;
  mk "pending_plain" 401 (Some (s2b "text/plain")) "{""error"":""authorization_pending""}" RPending ROtherErr;
  mk "slow" 400 json_ct "{""error"":""slow_down""}" RSlowDown ROtherErr;
  mk "slow500" 500 None "{""error"":""slow_down"",""error_uri"":""u""}" RSlowDown ROtherErr;
  mk "fail" 0 None "" RFailure RRequestErr;
  mk "success" 200 json_ct "{""access_token"":""tok"",""token_type"":""bearer""}"
     (RDecisive 6) (ROk (s2b "tok"));
  mk "denied" 400 json_ct "{""error"":""access_denied"",""error_description"":""srv""}"
     (RDecisive 7) (RServer (s2b "access_denied") (Some (s2b "srv")));
  mk "expired" 400 json_ct "{""error"":""expired_token""}"
     (RDecisive 8) (RServer (s2b "expired_token") None);
  mk "invalid_grant" 400 json_ct "{""error"":""invalid_grant""}"
     (RDecisive 9) (RServer (s2b "invalid_grant") None);
  mk "ext" 403 json_ct "{""error"":""custom_err""}"
     (RDecisive 10) (RServer (s2b "custom_err") None);
  mk "pending_upper" 400 json_ct "{""error"":""AUTHORIZATION_PENDING""}"
     (RDecisive 11) (RServer (s2b "AUTHORIZATION_PENDING") None);
  mk "malformed200" 200 json_ct "{""foo"":1}" (RDecisive 12) (RParse (s2b "{""foo"":1}"));
  mk "pending200" 200 json_ct "{""error"":""authorization_pending""}"
     (RDecisive 13) (RParse (s2b "{""error"":""authorization_pending""}"));
  mk "empty500" 500 json_ct "" (RDecisive 14) ROtherErr;
  mk "empty200" 200 None "" (RDecisive 15) ROtherErr;
  mk "text200" 200 (Some (s2b "text/plain")) "hello" (RDecisive 16) ROtherErr;
  mk "html400" 400 (Some (s2b "text/html")) "<html>" (RDecisive 17) (RParse (s2b "<html>"));
  mk "success400" 400 json_ct "{""access_token"":""tok"",""token_type"":""bearer""}"
     (RDecisive 18) (RParse (s2b "{""access_token"":""tok"",""token_type"":""bearer""}"));
  (* error documents under every non-200 class of status, 2xx and 3xx included: only 200 is success *)
  mk "pending203" 203 json_ct "{""error"":""authorization_pending""}" RPending ROtherErr;
  mk "pending201" 201 None "{""error"":""authorization_pending""}" RPending ROtherErr;
  mk "pending302" 302 json_ct "{""error"":""authorization_pending""}" RPending ROtherErr;
  mk "slow206" 206 json_ct "{""error"":""slow_down""}" RSlowDown ROtherErr;
  mk "slow101" 101 None "{""error"":""slow_down""}" RSlowDown ROtherErr;
  mk "denied202" 202 json_ct "{""error"":""access_denied"",""error_description"":""srv""}"
     (RDecisive 24) (RServer (s2b "access_denied") (Some (s2b "srv")));
  mk "success201" 201 json_ct "{""access_token"":""tok"",""token_type"":""bearer""}"
     (RDecisive 25) (RParse (s2b "{""access_token"":""tok"",""token_type"":""bearer""}"));
  (* error documents with further members (a server's own interval, retry hints, a lifetime): only the code counts *)
  mk "slow_interval" 400 json_ct "{""error"":""slow_down"",""interval"":5}" RSlowDown ROtherErr;
  mk "slow_interval0" 400 json_ct "{""interval"":0,""error_description"":""x"",""error"":""slow_down""}" RSlowDown ROtherErr;
  mk "slow_retry" 429 json_ct "{""error"":""slow_down"",""retry_after"":1,""Retry-After"":""0"",""interval"":3600}" RSlowDown ROtherErr;
  mk "pending_interval" 400 json_ct "{""error"":""authorization_pending"",""interval"":1,""expires_in"":1}" RPending ROtherErr;
  (* the remaining RFC 6749 section 5.2 codes: each ends the session with that error, whatever the client's credentials or
     authentication type are (no second request, no other request) *)
  mk "invalid_client" 401 json_ct "{""error"":""invalid_client""}"
     (RDecisive 30) (RServer (s2b "invalid_client") None);
  mk "invalid_client400" 400 json_ct "{""error"":""invalid_client"",""error_description"":""bad credentials""}"
     (RDecisive 31) (RServer (s2b "invalid_client") (Some (s2b "bad credentials")));
  mk "invalid_request" 400 json_ct "{""error"":""invalid_request""}"
     (RDecisive 32) (RServer (s2b "invalid_request") None);
  mk "invalid_scope" 400 json_ct "{""error"":""invalid_scope""}"
     (RDecisive 33) (RServer (s2b "invalid_scope") None);
  mk "unauthorized_client" 403 json_ct "{""error"":""unauthorized_client""}"
     (RDecisive 34) (RServer (s2b "unauthorized_client") None);
  mk "unsupported_grant_type" 400 None "{""error"":""unsupported_grant_type""}"
     (RDecisive 35) (RServer (s2b "unsupported_grant_type") None)
].

Fixpoint find_kind (name : bytes) (l : list kind) : option kind :=
  match l with
  | [] => None
  | k :: l' => if bytes_eqb name (k_name k) then Some k else find_kind name l'
  end.

Definition expired_msg : bytes := s2b "This device code has expired.".
