(* Model of the four bundled HTTP client adapters (src/reqwest_client.rs, src/curl_client.rs,
   src/ureq_client.rs): the glue between the library's HttpRequest / HttpResponse and each HTTP
   library.  The libraries themselves (sockets, framing, TLS) are NOT modelled: [lib_behaviour]
   is their contract — what each returns for a given wire reply or connection fault — and the
   correspondence run (a scripted TCP server on 127.0.0.1) is what ties that contract to the
   real libraries.  This is the code after the fix: commit that makes the ureq adapter return
   4xx/5xx replies as responses (the pinned behaviour is in history/C09_pinned.v). *)
From OA Require Import Bytes Requests.
Local Open Scope N_scope.

Inductive adapter := ReqwestAsync | ReqwestBlocking | Curl | Ureq.

Record wire_reply := { w_status : N; w_ct : option bytes; w_body : bytes }.

(* what the server can do *)
Inductive server_behaviour :=
| SReply (r : wire_reply)          (* a complete reply, however framed *)
| SFault.                          (* refused / closed before the reply / truncated body /
                                      garbage status line *)

(* what the HTTP library hands back to the adapter *)
Inductive lib_result :=
| LibResponse (r : wire_reply)
| LibStatusError (r : wire_reply)  (* ureq 2.x: a status >= 400 arrives as Error::Status(code, response) *)
| LibTransportError.

(* library contract.  For ureq the chunked-body-closed-mid-chunk fault is EXCLUDED from SFault:
   ureq 2.12 reports a clean end of stream there (known finding, KNOWN_FINDINGS.txt). *)
Definition lib_behaviour (a : adapter) (s : server_behaviour) : lib_result :=
  match s with
  | SFault => LibTransportError
  | SReply r =>
      match a with
      | Ureq => if 400 <=? w_status r then LibStatusError r else LibResponse r
      | _ => LibResponse r
      end
  end.

(* adapter glue, response direction: Ok(response) or Err *)
Definition from_lib (a : adapter) (l : lib_result) : option wire_reply :=
  match l with
  | LibResponse r => Some r
  | LibStatusError r => Some r
  | LibTransportError => None
  end.

(* adapter glue, request direction: what is handed to the library (for curl also the explicit
   POST field size) *)
Record lib_request := {
  lr_method : bytes; lr_target : bytes; lr_headers : list (bytes * bytes); lr_body : bytes;
  lr_post_size : option nat
}.
Definition to_lib (a : adapter) (r : http_req) : lib_request :=
  {| lr_method := rq_method r; lr_target := rq_target r; lr_headers := rq_headers r;
     lr_body := rq_body r;
     lr_post_size := match a with Curl => Some (length (rq_body r)) | _ => None end |}.

Definition adapter_call (a : adapter) (s : server_behaviour) : option wire_reply :=
  from_lib a (lib_behaviour a s).
