(* Dispatcher: one protocol line in, one observation line out.  This is the function the
   extracted driver (ocaml/driver.ml) and the in-Coq cross-check (Eval vm_compute) both run. *)
From OA Require Import Bytes Proto ErrorCodes DevicePoll DeviceKinds.
From Coq Require Import ZArith.

Definition run_c14 (ws : list bytes) : bytes :=
  match ws with
  | [fam; code; d; u] =>
      match untok_bytes code, untok_opt d, untok_opt u with
      | Some c, Some d, Some u =>
          if is_kw "basic" fam then
            let e := basic_from_str c in
            unwords [basic_tag e; tok_bytes (basic_as_ref e);
                     tok_bytes (display_error basic_as_ref (mkErr e d u));
                     basic_tag (basic_from_str (basic_as_ref e))]
          else if is_kw "device" fam then
            let e := device_from_str c in
            unwords [device_tag e; tok_bytes (device_as_ref e);
                     tok_bytes (display_error device_as_ref (mkErr e d u));
                     device_tag (device_from_str (device_as_ref e))]
          else if is_kw "revocation" fam then
            let e := revocation_from_str c in
            unwords [revocation_tag e; tok_bytes (revocation_as_ref e);
                     tok_bytes (display_error revocation_as_ref (mkErr e d u));
                     revocation_tag (revocation_from_str (revocation_as_ref e))]
          else bad_case
      | _, _, _ => bad_case
      end
  | _ => bad_case
  end.


(* ---------------------------------------------------------------- C07 / C08: device poll loop *)

Definition render_result (r : result) : bytes :=
  match r with
  | ROk t => s2b "ok:" ++ tok_bytes t
  | RServer c d => s2b "server:" ++ tok_bytes c ++ ":"%char :: tok_opt d
  | RParse b => s2b "parse:" ++ tok_bytes b
  | ROtherErr => s2b "other"
  | RRequestErr => s2b "request"
  end.

Definition render_event (e : event) : bytes :=
  match e with
  | ENow t => "N"%char :: dec_of_Z t
  | EPoll => ["P"%char]
  | ESleep d => "S"%char :: dec_of_N d
  end.

Definition render_outcome (o : outcome) : bytes :=
  match o with
  | OFinished k =>
      match nth_error kinds (N.to_nat k) with
      | Some kd => render_result (k_result kd)
      | None => s2b "BADKIND"
      end
  | OExpired => render_result (RServer c_expired_token (Some expired_msg))
  | OOther => render_result ROtherErr
  | OStuck => s2b "STUCK"
  end.

Definition parse_interval (t : bytes) : option N :=
  if is_kw "abs" t then Some 5%N else if is_kw "null" t then Some 5%N else N_of_dec t.

Definition parse_script (t : bytes) : option (list reply) :=
  sequence_opt (map (fun n => option_map k_class (find_kind n kinds)) (untok_words t)).

Record poll_case := {
  pcase_cfg : poll_cfg; pcase_clock : list Z; pcase_script : list reply
}.

Definition parse_poll_case (ws : list bytes) : option poll_case :=
  match ws with
  | [_variant; iv; bo; tmo; ex; rok; clk; scr] =>
      match parse_interval iv, untok_optN bo, untok_optN tmo, N_of_dec ex, untok_bool rok,
            untok_listZ clk, parse_script scr with
      | Some iv, Some bo, Some tmo, Some ex, Some rok, Some clk, Some scr =>
          Some {| pcase_cfg := {| pc_interval_s := iv; pc_expires_s := ex; pc_backoff := bo;
                                  pc_timeout := tmo; pc_req_ok := rok |};
                  pcase_clock := clk; pcase_script := scr |}
      | _, _, _, _, _, _, _ => None
      end
  | _ => None
  end.

Definition run_poll (ws : list bytes) : bytes :=
  match parse_poll_case ws with
  | Some pc =>
      let (tr, o) := poll_run (pcase_cfg pc) (pcase_clock pc) (pcase_script pc) in
      unwords (render_outcome o :: (match polls tr with O => s2b "req=none" | S _ => s2b "req=same" end)
               :: map render_event tr)
  | None => bad_case
  end.

(* monitor: the implementation's observed waits against the C07 clauses *)
Fixpoint obs_sleeps (ws : list bytes) : option (list N) :=
  match ws with
  | [] => Some []
  | ("S"%char :: d) :: r =>
      match N_of_dec d, obs_sleeps r with
      | Some d, Some l => Some (d :: l)
      | _, _ => None
      end
  | _ :: r => obs_sleeps r
  end.
Fixpoint obs_events (ws : list bytes) : option (list event) :=
  match ws with
  | [] => Some []
  | w :: r =>
      match obs_events r with
      | None => None
      | Some l =>
          match w with
          | "S"%char :: d => option_map (fun d => ESleep d :: l) (N_of_dec d)
          | "N"%char :: t => option_map (fun t => ENow t :: l) (Z_of_dec t)
          | ["P"%char] => Some (EPoll :: l)
          | _ => None
          end
      end
  end.

Fixpoint split_bar (ws : list bytes) : list bytes * list bytes :=
  match ws with
  | [] => ([], [])
  | w :: r => if is_kw "|" w then ([], r) else let (a, b) := split_bar r in (w :: a, b)
  end.

Definition monitor_poll (ws : list bytes) : bytes :=
  let (cw, ow) := split_bar ws in
  match parse_poll_case cw, ow with
  | Some pc, [res] => if is_kw "PANIC" res then s2b "fail panic" else bad_case
  | Some pc, res :: rq :: evs =>
      if is_kw "req=diff" rq then s2b "fail request-changed" else
      match obs_events evs with
      | None => bad_case
      | Some tr =>
          let c := pcase_cfg pc in
          let ds := sleeps tr in
          if negb (sleeps_okb (ceiling_of c) (pc_interval_s c * NS) (pcase_script pc) ds)
          then s2b "fail step-clause"
          else if negb (all_geb ds (floors (pc_interval_s c * NS) (pcase_script pc)))
          then s2b "fail floor"
          else match tr with
               | ENow _ :: tr' =>
                   if match tr' with [] => true | _ => shape_okb tr' end then s2b "ok"
                   else s2b "fail shape"
               | _ => s2b "fail shape"
               end
      end
  | _, _ => bad_case
  end.

Definition run_line (line : bytes) : bytes :=
  match words line with
  | p :: ws =>
      if is_kw "C14" p then run_c14 ws
      else if is_kw "POLL" p then run_poll ws
      else if is_kw "POLLM" p then monitor_poll ws
      else if is_kw "BOUNDS" p then
        unwords [dec_of_N MAXDELTA; dec_of_Z DTMAX; dec_of_Z DTMIN; dec_of_N DMAX]
      else bad_case
  | [] => bad_case
  end.
