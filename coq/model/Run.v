(* Dispatcher: one protocol line in, one observation line out.  This is the function the
   extracted driver (ocaml/driver.ml) and the in-Coq cross-check (Eval vm_compute) both run. *)
From OA Require Import Bytes Proto ErrorCodes DevicePoll DeviceKinds FormUrlencoded Base64 Sha256 Requests Pkce AuthUrl ReqSpec Secrets ClientCfg UrlTypes Json Endpoint Serde Http DebugFmt DebugShapes Adapters.
From Coq Require Import ZArith.

Definition run_c14 (ws : list bytes) : bytes :=
  match ws with
  | [fam; code; d; u] =>
      match untok_bytes code, untok_opt d, untok_opt u with
      | Some c, Some d, Some u =>
          if is_kw "basic" fam then
            let e := basic_from_str c in
            unwords [basic_tag e; tok_bytes (basic_as_ref e);
                     tok_bytes (display_error basic_as_ref (mkErr e d u));
                     basic_tag (basic_from_str (basic_as_ref e))]
          else if is_kw "device" fam then
            let e := device_from_str c in
            unwords [device_tag e; tok_bytes (device_as_ref e);
                     tok_bytes (display_error device_as_ref (mkErr e d u));
                     device_tag (device_from_str (device_as_ref e))]
          else if is_kw "revocation" fam then
            let e := revocation_from_str c in
            unwords [revocation_tag e; tok_bytes (revocation_as_ref e);
                     tok_bytes (display_error revocation_as_ref (mkErr e d u));
                     revocation_tag (revocation_from_str (revocation_as_ref e))]
          else bad_case
      | _, _, _ => bad_case
      end
  | _ => bad_case
  end.


Fixpoint split_bar (ws : list bytes) : list bytes * list bytes :=
  match ws with
  | [] => ([], [])
  | w :: r => if is_kw "|" w then ([], r) else let (a, b) := split_bar r in (w :: a, b)
  end.


(* ---------------------------------------------------------------- C07 / C08: device poll loop *)

Definition render_result (r : result) : bytes :=
  match r with
  | ROk t => s2b "ok:" ++ tok_bytes t
  | RServer c d => s2b "server:" ++ tok_bytes c ++ ":"%char :: tok_opt d
  | RParse b => s2b "parse:" ++ tok_bytes b
  | ROtherErr => s2b "other"
  | RRequestErr => s2b "request"
  end.

Definition render_event (e : event) : bytes :=
  match e with
  | ENow t => "N"%char :: dec_of_Z t
  | EPoll => ["P"%char]
  | ESleep d => "S"%char :: dec_of_N d
  end.

Definition render_outcome (o : DevicePoll.outcome) : bytes :=
  match o with
  | OFinished k =>
      match nth_error kinds (N.to_nat k) with
      | Some kd => render_result (k_result kd)
      | None => s2b "BADKIND"
      end
  | OExpired => render_result (RServer c_expired_token (Some expired_msg))
  | DevicePoll.OOther => render_result ROtherErr
  | OStuck => s2b "STUCK"
  end.

Definition parse_interval (t : bytes) : option N :=
  if is_kw "abs" t then Some 5%N else if is_kw "null" t then Some 5%N else N_of_dec t.

Definition parse_script (t : bytes) : option (list reply) :=
  sequence_opt (map (fun n => option_map k_class (find_kind n kinds)) (untok_words t)).

Record poll_case := {
  pcase_cfg : poll_cfg; pcase_clock : list Z; pcase_script : list reply
}.

Definition parse_poll_case (ws : list bytes) : option poll_case :=
  match ws with
  | [_variant; iv; bo; tmo; ex; rok; clk; scr] =>
      match parse_interval iv, untok_optN bo, untok_optN tmo, N_of_dec ex, untok_bool rok,
            untok_listZ clk, parse_script scr with
      | Some iv, Some bo, Some tmo, Some ex, Some rok, Some clk, Some scr =>
          Some {| pcase_cfg := {| pc_interval_s := iv; pc_expires_s := ex; pc_backoff := bo;
                                  pc_timeout := tmo; pc_req_ok := rok |};
                  pcase_clock := clk; pcase_script := scr |}
      | _, _, _, _, _, _, _ => None
      end
  | _ => None
  end.

Definition run_poll (ws : list bytes) : bytes :=
  match parse_poll_case ws with
  | Some pc =>
      let (tr, o) := poll_run (pcase_cfg pc) (pcase_clock pc) (pcase_script pc) in
      unwords (render_outcome o :: (match polls tr with O => s2b "req=none" | S _ => s2b "req=same" end)
               :: map render_event tr)
  | None => bad_case
  end.

(* monitor: the implementation's observed waits against the C07 clauses *)
Fixpoint obs_sleeps (ws : list bytes) : option (list N) :=
  match ws with
  | [] => Some []
  | ("S"%char :: d) :: r =>
      match N_of_dec d, obs_sleeps r with
      | Some d, Some l => Some (d :: l)
      | _, _ => None
      end
  | _ :: r => obs_sleeps r
  end.
Fixpoint obs_events (ws : list bytes) : option (list event) :=
  match ws with
  | [] => Some []
  | w :: r =>
      match obs_events r with
      | None => None
      | Some l =>
          match w with
          | "S"%char :: d => option_map (fun d => ESleep d :: l) (N_of_dec d)
          | "N"%char :: t => option_map (fun t => ENow t :: l) (Z_of_dec t)
          | ["P"%char] => Some (EPoll :: l)
          | _ => None
          end
      end
  end.

Definition monitor_poll (ws : list bytes) : bytes :=
  let (cw, ow) := split_bar ws in
  match parse_poll_case cw, ow with
  | Some pc, [res] => if is_kw "PANIC" res then s2b "fail panic" else bad_case
  | Some pc, res :: rq :: evs =>
      if is_kw "req=diff" rq then s2b "fail request-changed" else
      match obs_events evs with
      | None => bad_case
      | Some tr =>
          let c := pcase_cfg pc in
          let ds := sleeps tr in
          if negb (sleeps_okb (ceiling_of c) (pc_interval_s c * NS) (pcase_script pc) ds)
          then s2b "fail step-clause"
          else if negb (all_geb ds (floors (pc_interval_s c * NS) (pcase_script pc)))
          then s2b "fail floor"
          else match tr with
               | ENow _ :: tr' =>
                   if match tr' with [] => true | _ => shape_okb tr' end then s2b "ok"
                   else s2b "fail shape"
               | _ => s2b "fail shape"
               end
      end
  | _, _ => bad_case
  end.

(* ---------------------------------------------------------------- C01 / C02 / C03 / C13 requests *)

Definition tok_pairs (l : list pair) : bytes :=
  match l with
  | [] => ["."%char]
  | _ => join [";"%char] (map (fun p => tok_bytes (fst p) ++ "="%char :: tok_bytes (snd p)) l)
  end.
Definition untok_pair (t : bytes) : option pair :=
  match split_on "="%char t with
  | [a; b] => match untok_bytes a, untok_bytes b with
              | Some a, Some b => Some (a, b)
              | _, _ => None
              end
  | _ => None
  end.
Definition untok_pairs (t : bytes) : option (list pair) :=
  match t with
  | ["."%char] => Some []
  | _ => sequence_opt (map untok_pair (split_on ";"%char t))
  end.

Definition effective_redirect (default override : option bytes) : option bytes :=
  match override with Some o => Some o | None => default end.

(* the scope field is a PLAN of builder calls: s:x<hex> = add_scope, m:<list> = add_scopes (possibly
   empty), joined by '|'; the builders append, so the request's scope list is the concatenation *)
Definition parse_scope_op (t : bytes) : option (list bytes) :=
  match t with
  | "s"%char :: ":"%char :: r => option_map (fun s => [s]) (untok_bytes r)
  | "m"%char :: ":"%char :: r => untok_list r
  | _ => None
  end.
Definition parse_scope_plan (t : bytes) : option (list bytes) :=
  match t with
  | ["."%char] => Some []
  | _ => option_map (@concat bytes) (sequence_opt (map parse_scope_op (split_on "|"%char t)))
  end.

Definition parse_kind (kind a1 a2 a3 scopes : bytes) (default_redirect : option bytes)
  : option req_kind :=
  match parse_scope_plan scopes with
  | None => None
  | Some sc =>
      if is_kw "code" kind then
        match untok_bytes a1, untok_opt a2, untok_opt a3 with
        | Some c, Some v, Some o => Some (KCode c v (effective_redirect default_redirect o))
        | _, _, _ => None
        end
      else if is_kw "refresh" kind then option_map (fun t => KRefresh t sc) (untok_bytes a1)
      else if is_kw "password" kind then
        match untok_bytes a1, untok_bytes a2 with
        | Some u, Some p => Some (KPassword u p sc)
        | _, _ => None
        end
      else if is_kw "cc" kind then Some (KClientCreds sc)
      else if is_kw "devauth" kind then Some (KDeviceAuth sc)
      else if is_kw "devtoken" kind then option_map KDeviceToken (untok_bytes a1)
      else if is_kw "introspect" kind then
        match untok_bytes a1, untok_opt a2 with
        | Some t, Some h => Some (KIntrospect t h)
        | _, _ => None
        end
      else if is_kw "revoke" kind then
        match untok_bytes a1, untok_opt a3 with
        | Some t, Some h =>
            if is_kw "A" a2 || is_kw "AF" a2 || is_kw "AFR" a2 || is_kw "AS" a2 then Some (KRevoke t (Some (s2b "access_token")))
            else if is_kw "R" a2 || is_kw "RF" a2 || is_kw "RFR" a2 || is_kw "RS" a2 then Some (KRevoke t (Some (s2b "refresh_token")))
            else if is_kw "C" a2 then Some (KRevoke t h)
            else None
        | _, _ => None
        end
      else None
  end.

Definition render_req (r : http_req) : bytes :=
  unwords [s2b "ok"; tok_bytes (rq_method r); tok_bytes (rq_target r);
           tok_pairs (rq_headers r); tok_bytes (rq_body r)].

(* headers in sorted order of their (lower-case) names: accept, authorization, content-type *)
Definition sort_headers (h : list (bytes * bytes)) : list (bytes * bytes) :=
  filter (fun p => bytes_eqb (fst p) (s2b "accept")) h
  ++ filter (fun p => bytes_eqb (fst p) (s2b "authorization")) h
  ++ filter (fun p => bytes_eqb (fst p) (s2b "content-type")) h.

Record req_case := { rc_creds : creds; rc_ep : endpoint; rc_kind : req_kind; rc_extra : list pair }.

Definition parse_req_case (ws : list bytes) : option req_case :=
  match ws with
  | [_variant; kind; auth; id; secret; _urlorig; urltext; uriok; scheme; defred;
     a1; a2; a3; scopes; extras] =>
      match untok_bytes id, untok_opt secret, untok_bytes urltext, untok_bool uriok,
            untok_bytes scheme, untok_opt defred, untok_pairs extras with
      | Some id, Some secret, Some urltext, Some uriok, Some scheme, Some defred, Some extras =>
          match parse_kind kind a1 a2 a3 scopes defred with
          | None => None
          | Some k =>
              Some {| rc_creds := {| cr_auth := if is_kw "B" auth then BasicAuth else RequestBody;
                                     cr_id := id; cr_secret := secret |};
                      rc_ep := {| ep_text := urltext; ep_uri_ok := uriok; ep_scheme := scheme |};
                      rc_kind := k; rc_extra := extras |}
          end
      | _, _, _, _, _, _, _ => None
      end
  | _ => None
  end.

(* RFC 7009: a revocation request exists only for an https endpoint (C13) *)
Definition insecure_revoke (rc : req_case) : bool :=
  match rc_kind rc with
  | KRevoke _ _ => negb (bytes_eqb (ep_scheme (rc_ep rc)) (s2b "https"))
  | _ => false
  end.

Definition run_req (ws : list bytes) : bytes :=
  match parse_req_case ws with
  | None => bad_case
  | Some rc =>
      if insecure_revoke rc then s2b "insecure calls=0"
      else match request_of (rc_creds rc) (rc_ep rc) (rc_kind rc) (rc_extra rc) with
           | Some r =>
               render_req {| rq_method := rq_method r; rq_target := rq_target r;
                             rq_headers := sort_headers (rq_headers r);
                             rq_body := rq_body r |} ++ s2b " calls=1"
           | None => s2b "other calls=0"
           end
  end.

Definition parse_obs_req (ow : list bytes) : option http_req :=
  match ow with
  | [_ok; m; t; h; b; _calls] =>
      match untok_bytes m, untok_bytes t, untok_pairs h, untok_bytes b with
      | Some m, Some t, Some h, Some b =>
          Some {| rq_method := m; rq_target := t; rq_headers := h; rq_body := b |}
      | _, _, _, _ => None
      end
  | _ => None
  end.

(* which : true = C01 statement, false = C02 statement *)
Definition monitor_req (which : bool) (ws : list bytes) : bytes :=
  let (cw, ow) := split_bar ws in
  match parse_req_case cw with
  | None => bad_case
  | Some rc =>
      match ow with
      | [a; b] =>
          if is_kw "insecure" a && is_kw "calls=0" b then
            (if insecure_revoke rc then s2b "ok" else s2b "fail insecure-for-https")
          else if is_kw "other" a && is_kw "calls=0" b then
            (if negb (insecure_revoke rc) && negb (ep_uri_ok (rc_ep rc)) then s2b "ok"
             else s2b "fail no-request-built")
          else s2b "fail unexpected-outcome"
      | [okw; _; _; _; _; calls] =>
          if negb (is_kw "ok" okw) then bad_case
          else if negb (is_kw "calls=1" calls) then s2b "fail http-client-call-count"
          else if insecure_revoke rc then s2b "fail request-sent-to-insecure-endpoint"
          else if negb (ep_uri_ok (rc_ep rc)) then s2b "fail request-for-unbuildable-url"
          else match parse_obs_req ow with
               | None => bad_case
               | Some r =>
                   if which then
                     (if c01_okb (rc_creds rc) (rc_ep rc) (rc_kind rc) (rc_extra rc) r
                      then s2b "ok" else s2b "fail c01")
                   else
                     (if c02_okb (rc_creds rc) (rc_ep rc) (rc_extra rc) r
                      then s2b "ok" else s2b "fail c02")
               end
      | [p] => if is_kw "PANIC" p then s2b "fail panic" else bad_case
      | _ => s2b "fail unexpected-outcome"
      end
  end.

Definition parse_auth_op (t : bytes) : option auth_op :=
  match split_on ":"%char t with
  | [k; a] =>
      if is_kw "S" k then option_map AddScope (untok_bytes a)
      else if is_kw "SS" k then option_map AddScopes (untok_list a)
      else if is_kw "R" k then option_map SetResponseType (untok_bytes a)
      else if is_kw "U" k then option_map SetRedirect (untok_bytes a)
      else if is_kw "P" k then
        match untok_bytes a with
        | Some v => match from_verifier_sha256 v with POk c => Some (SetPkce c) | PPanic => None end
        | None => None
        end
      else if is_kw "PP" k then
        match untok_bytes a with
        | Some v => match from_verifier_plain v with POk c => Some (SetPkce c) | PPanic => None end
        | None => None
        end
      else None
  | [k; a; b] =>
      if is_kw "E" k then
        match untok_bytes a, untok_bytes b with
        | Some a, Some b => Some (AddExtra a b)
        | _, _ => None
        end
      else None
  | [k] => if is_kw "I" k then Some UseImplicit else None
  | _ => None
  end.

Definition parse_auth_ops (t : bytes) : option (list auth_op) :=
  match t with
  | ["."%char] => Some []
  | _ => sequence_opt (map parse_auth_op (split_on ";"%char t))
  end.

Record authurl_case := {
  ac_ep : abs_url; ac_id : bytes; ac_defred : option bytes; ac_state : bytes; ac_ops : list auth_op
}.
Definition parse_authurl_case (ws : list bytes) : option authurl_case :=
  match ws with
  | [_urlorig; prefix; query; fragment; id; defred; state; ops] =>
      match untok_bytes prefix, untok_opt query, untok_opt fragment, untok_bytes id,
            untok_opt defred, untok_bytes state, parse_auth_ops ops with
      | Some prefix, Some query, Some fragment, Some id, Some defred, Some state, Some ops =>
          Some {| ac_ep := {| u_prefix := prefix; u_query := query; u_fragment := fragment |};
                  ac_id := id; ac_defred := defred; ac_state := state; ac_ops := ops |}
      | _, _, _, _, _, _, _ => None
      end
  | _ => None
  end.

Definition run_authurl (ws : list bytes) : bytes :=
  match parse_authurl_case ws with
  | Some ac =>
      let (r0, calls) := authorize_url (ac_ep ac) (ac_id ac) (ac_defred ac)
                                       (fun _ => ac_state ac) 0 in
      let (u, st) := url_of (fold_left apply_auth_op (ac_ops ac) r0) in
      unwords [tok_bytes (u_prefix u); tok_opt (u_query u); tok_opt (u_fragment u);
               tok_bytes st; s2b "calls=" ++ dec_of_N (N.of_nat calls); tok_bytes (url_text u)]
  | None => bad_case
  end.

Definition monitor_authurl (ws : list bytes) : bytes :=
  let (cw, ow) := split_bar ws in
  match parse_authurl_case cw, ow with
  | Some ac, [p; q; f; st; calls; _text] =>
      match untok_bytes p, untok_opt q, untok_opt f, untok_bytes st with
      | Some p, Some q, Some f, Some st =>
          let n := if is_kw "calls=1" calls then 1%nat else 0%nat in
          if c03_okb (ac_ep ac) (ac_id ac) (ac_state ac) (ac_defred ac) (ac_ops ac) 0
                     {| u_prefix := p; u_query := q; u_fragment := f |} st n
          then s2b "ok" else s2b "fail c03"
      | _, _, _, _ => bad_case
      end
  | Some _, [p] => if is_kw "PANIC" p then s2b "fail panic" else bad_case
  | _, _ => bad_case
  end.

(* ---------------------------------------------------------------- C04 / C12 / C20 *)

Definition unreservedb (c : ascii) : bool :=
  (is_alnum c || Ascii.eqb c "-" || Ascii.eqb c "." || Ascii.eqb c "_" || Ascii.eqb c "~")%bool.

Definition run_pkce (ws : list bytes) : bytes :=
  match ws with
  | [m; v] =>
      match untok_bytes v with
      | None => bad_case
      | Some v =>
          let r := if is_kw "s256" m then from_verifier_sha256 v else from_verifier_plain v in
          match r with
          | PPanic => s2b "PANIC"
          | POk c => unwords [s2b "ok"; tok_bytes (ch_value c); tok_bytes (ch_method c);
                              tok_bytes (ch_value c); tok_bytes (ch_method c); tok_bytes v]
          end
      end
  | _ => bad_case
  end.

Definition ceil43 (n : N) : N := ((4 * n + 2) / 3)%N.

Definition monitor_pkcerand (ws : list bytes) : bytes :=
  let (cw, ow) := split_bar ws in
  match cw with
  | [n] =>
      match N_of_dec n with
      | None => bad_case
      | Some n =>
          match ow with
          | [p] => if is_kw "PANIC" p
                   then (if num_bytes_ok n then s2b "fail panic-on-legal-n" else s2b "ok")
                   else bad_case
          | [_ok; ver; chal; uc; um; bv] =>
              match untok_bytes ver, untok_bytes chal, untok_bytes uc, untok_bytes um, untok_bytes bv with
              | Some ver, Some chal, Some uc, Some um, Some bv =>
                  if negb (num_bytes_ok n) then s2b "fail no-refusal-of-illegal-n"
                  else if negb (forallb unreservedb ver) then s2b "fail alphabet"
                  else if negb (N.eqb (N.of_nat (length ver)) (ceil43 n)) then s2b "fail length"
                  else match b64_url_nopad_decode ver with
                       | None => s2b "fail not-canonical-base64url"
                       | Some raw =>
                           if negb (N.eqb (N.of_nat (length raw)) n) then s2b "fail byte-count"
                           else match from_verifier_sha256 ver with
                                | PPanic => s2b "fail verifier-length"
                                | POk c =>
                                    if negb (bytes_eqb (ch_value c) chal) then s2b "fail challenge-mismatch"
                                    else if negb (bytes_eqb uc chal && bytes_eqb bv ver) then s2b "fail flow-values"
                                    else if negb (server_check um uc bv) then s2b "fail server-check"
                                    else s2b "ok"
                                end
                       end
              | _, _, _, _, _ => bad_case
              end
          | _ => bad_case
          end
      end
  | _ => bad_case
  end.

Definition monitor_csrf (ws : list bytes) : bytes :=
  let (cw, ow) := split_bar ws in
  match cw, ow with
  | [n], [_ok; t] =>
      match N_of_dec n, untok_bytes t with
      | Some n, Some t =>
          if negb (forallb b64_url_charb t) then s2b "fail alphabet"
          else if negb (N.eqb (N.of_nat (length t)) (ceil43 n)) then s2b "fail length"
          else match b64_url_nopad_decode t with
               | None => s2b "fail not-canonical-base64url"
               | Some raw => if N.eqb (N.of_nat (length raw)) n then s2b "ok" else s2b "fail byte-count"
               end
      | _, _ => bad_case
      end
  | [n], [p] => if is_kw "PANIC" p then s2b "fail panic" else bad_case
  | _, _ => bad_case
  end.

Definition run_seceq (ws : list bytes) : bytes :=
  match ws with
  | [_ty; a; b] =>
      match untok_bytes a, untok_bytes b with
      | Some a, Some b =>
          if secret_eq a b then s2b "eq=1 sym=1 hash=1 content=" ++ tok_bool (bytes_eqb a b)
          else s2b "eq=0 sym=0 content=" ++ tok_bool (bytes_eqb a b)
      | _, _ => bad_case
      end
  | _ => bad_case
  end.

(* ---------------------------------------------------------------- C11: client configuration *)

(* url token: x<orig>/x<text>/<ok>/x<scheme>/x<prefix>/<query>/<fragment> *)
Definition parse_urlv (t : bytes) : option urlv :=
  match split_on "/"%char t with
  | [o; tx; ok; sc; pr; q; f] =>
      match untok_bytes o, untok_bytes tx, untok_bool ok, untok_bytes sc, untok_bytes pr,
            untok_opt q, untok_opt f with
      | Some o, Some tx, Some ok, Some sc, Some pr, Some q, Some f =>
          Some {| uv_orig := o;
                  uv_ep := {| ep_text := tx; ep_uri_ok := ok; ep_scheme := sc |};
                  uv_abs := {| u_prefix := pr; u_query := q; u_fragment := f |} |}
      | _, _, _, _, _, _, _ => None
      end
  | _ => None
  end.

Definition parse_ep (c : ascii) : option ep_name :=
  if Ascii.eqb c "A" then Some EAuth else if Ascii.eqb c "T" then Some EToken
  else if Ascii.eqb c "D" then Some EDevAuth else if Ascii.eqb c "I" then Some EIntrospect
  else if Ascii.eqb c "R" then Some ERevoke else None.

Definition parse_cfg_op (t : bytes) : option cfg_op :=
  match t with
  | ["B"%char] => Some (SetAuthType BasicAuth)
  | ["Q"%char] => Some (SetAuthType RequestBody)
  | "S"%char :: "="%char :: r => option_map SetSecret (untok_bytes r)
  | "U"%char :: "="%char :: r => option_map SetRedirectUri (untok_bytes r)
  | k :: "="%char :: r =>
      match parse_ep k, parse_urlv r with
      | Some e, Some u => Some (SetUrl e u)
      | _, _ => None
      end
  | k :: "?"%char :: r =>
      match parse_ep k with
      | None => None
      | Some e =>
          match r with
          | ["-"%char] => Some (SetUrlOpt e None)
          | _ => option_map (fun u => SetUrlOpt e (Some u)) (parse_urlv r)
          end
      end
  | _ => None
  end.

Definition render_req_bar (r : http_req) : bytes :=
  join ["|"%char] [tok_bytes (rq_method r); tok_bytes (rq_target r);
                   match sort_headers (rq_headers r) with
                   | [] => []
                   | h => tok_pairs h
                   end; tok_bytes (rq_body r)].

Definition render_gated_req (g : gated (option http_req)) : bytes :=
  match g with
  | GAbsent => s2b "absent-op"
  | GPanic => s2b "PANIC"
  | GMissing n => s2b "missing:" ++ tok_bytes n
  | GInsecure n => s2b "insecure:" ++ tok_bytes n
  | GValue None => s2b "other"
  | GValue (Some r) => render_req_bar r
  end.

Definition render_getter (e : ep_name) (s : cstate) (ops : list bytes) : bytes :=
  match getter e s with
  | GAbsent => s2b "absent"
  | GValue (Some u) =>
      match tstate e s with
      | MaybeSet => join [","%char] (s2b "maybe" :: tok_bytes (uv_orig u) :: ops)
      | _ => join [","%char] (s2b "set" :: tok_bytes (uv_orig u) :: ops)
      end
  | GValue None => join [","%char] (s2b "maybe" :: ["-"%char] :: ops)
  | _ => s2b "PANIC"
  end.

Definition render_authobs (s : cstate) : bytes :=
  match run_authorize s (s2b "st") with
  | GValue (u, st) => tok_bytes (url_text u) ++ "/"%char :: tok_bytes st
  | GMissing n => s2b "missing:" ++ tok_bytes n
  | GAbsent => s2b "absent-op"
  | _ => s2b "PANIC"
  end.

Definition run_cfg (ws : list bytes) : bytes :=
  match ws with
  | [id; ops] =>
      match untok_bytes id,
            (match ops with ["."%char] => Some [] | _ => sequence_opt (map parse_cfg_op (split_on ";"%char ops)) end) with
      | Some id, Some ops =>
          let s := fold_left apply_op ops (init id) in
          let op o := render_gated_req (run_operation s o) in
          unwords [
            s2b "id=" ++ tok_bytes (c_id s);
            s2b "auth=" ++ (match c_auth s with BasicAuth => s2b "B" | RequestBody => s2b "Q" end);
            s2b "redir=" ++ tok_opt (c_redirect s);
            s2b "A:" ++ render_getter EAuth s [render_authobs s];
            s2b "T:" ++ render_getter EToken s
                  [op (OpCode (s2b "c")); op (OpRefresh (s2b "r")); op (OpPassword (s2b "u") (s2b "p"));
                   op OpClientCreds; op (OpDeviceToken (s2b "d"))];
            s2b "D:" ++ render_getter EDevAuth s [op OpDeviceAuth];
            s2b "I:" ++ render_getter EIntrospect s [op (OpIntrospect (s2b "t"))];
            s2b "R:" ++ render_getter ERevoke s [op (OpRevoke (s2b "t") (Some (s2b "access_token")))]
          ]
      | _, _ => bad_case
      end
  | _ => bad_case
  end.

(* ---------------------------------------------------------------- C18: URL value types *)

Definition run_urlt (ws : list bytes) : bytes :=
  match ws with
  | [_ty; s; oracle] =>
      match untok_bytes s, untok_opt oracle with
      | Some s, Some o =>
          let parse := fun x : bytes => if bytes_eqb x s then o else None in
          match url_new parse s with
          | None =>
              let d := match url_deserialize parse s with None => s2b "err" | Some _ => s2b "ok" end in
              unwords [s2b "invalid"; s2b "de=" ++ d; s2b "dev=" ++ d; s2b "der=" ++ d]
          | Some v =>
              let de := match url_deserialize parse (url_serialize v) with
                        | Some v' => join [","%char] [s2b "ok"; tok_bytes (uv_url v'); tok_bytes (url_display v');
                                                       tok_bool (url_eqb v v')]
                        | None => s2b "err"
                        end in
              let f := url_from_url (uv_url v) in
              unwords [s2b "ok"; tok_bytes (url_display v); tok_bytes (url_display v);
                       tok_bytes (url_serialize v); tok_bytes (uv_url v); s2b "de=" ++ de;
                       s2b "dev=" ++ de; s2b "der=" ++ de;
                       s2b "fromurl=" ++ tok_bytes (url_display f) ++ ","%char :: tok_bytes (uv_url f)]
          end
      | _, _ => bad_case
      end
  | _ => bad_case
  end.

Definition render_cmp (c : comparison) : bytes :=
  match c with Eq => s2b "eq" | Lt => s2b "lt" | Gt => s2b "gt" end.

Definition run_urlp (ws : list bytes) : bytes :=
  match ws with
  | [_ty; a; b] =>
      match untok_bytes a, untok_bytes b with
      | Some a, Some b =>
          let va := {| uv_url := []; uv_text := a |} in
          let vb := {| uv_url := []; uv_text := b |} in
          unwords [s2b "eq=" ++ tok_bool (url_eqb va vb); s2b "cmp=" ++ render_cmp (url_cmp va vb);
                   s2b "rcmp=" ++ render_cmp (url_cmp vb va);
                   s2b "hasheq=" ++ tok_bool (url_eqb va vb);
                   s2b "clone=" ++ tok_bytes (url_display va);
                   s2b "clonefrom=" ++ tok_bytes (url_display vb)]
      | _, _ => bad_case
      end
  | _ => bad_case
  end.

(* ---------------------------------------------------------------- responses: C05 C06 C13 C14 C15 C16 C19 *)

Definition tok_optlist (o : option (list bytes)) : bytes :=
  match o with None => ["-"%char] | Some l => tok_list l end.
Definition tok_optZ (o : option Z) : bytes :=
  match o with None => ["-"%char] | Some z => dec_of_Z z end.
Definition colon (l : list bytes) : bytes := join [":"%char] l.

Definition render_tt (t : token_type) : bytes :=
  match t with
  | Bearer => s2b "Bearer" | Mac => s2b "Mac"
  | TExtension s => s2b "Ext." ++ tok_bytes s
  end.
Definition render_ext (e : ext) : bytes :=
  tok_opt (ext_id_token e) ++ "/"%char :: tok_optN (ext_num e).
Definition render_unit (_ : unit) : bytes := ["-"%char].

Definition render_token {EF} (ref_ : EF -> bytes) (t : token_resp EF) : bytes :=
  colon [s2b "tok"; tok_bytes (tr_access t); render_tt (tr_type t); tok_optN (tr_expires t);
         tok_opt (tr_refresh t); tok_optlist (tr_scopes t); ref_ (tr_extra t)].

Definition render_introspection {EF} (ref_ : EF -> bytes) (r : introspection EF) : bytes :=
  colon [s2b "int"; tok_bool (ir_active r); tok_optlist (ir_scopes r); tok_opt (ir_client_id r);
         tok_opt (ir_username r);
         match ir_token_type r with None => ["-"%char] | Some t => render_tt t end;
         tok_optZ (ir_exp r); tok_optZ (ir_iat r); tok_optZ (ir_nbf r); tok_opt (ir_sub r);
         tok_optlist (ir_aud r); tok_opt (ir_iss r); tok_opt (ir_jti r); ref_ (ir_extra r)].

Definition render_device_auth {EF} (ref_ : EF -> bytes) (d : device_auth EF) : bytes :=
  colon [s2b "dev"; tok_bytes (da_device_code d); tok_bytes (da_user_code d);
         tok_bytes (da_verification_uri d); tok_opt (da_uri_complete d);
         dec_of_N (da_expires d); dec_of_N (da_interval d); ref_ (da_extra d)].

Definition render_error {T} (as_ref : T -> bytes) (e : error_response T) : bytes :=
  unwords [s2b "server"; tok_bytes (as_ref (er_error e)); tok_opt (er_description e);
           tok_opt (er_uri e); tok_bytes (display_error as_ref e);
           tok_bytes (json_print (encode_error as_ref e))].

Definition render_outcome_gen {T E} (rt : T -> bytes) (re : E -> bytes)
           (o : Endpoint.outcome T E unit) : bytes :=
  match o with
  | Endpoint.OSuccess v => rt v
  | Endpoint.OServer e => re e
  | Endpoint.OParse b => s2b "parse " ++ tok_bytes b
  | Endpoint.OOther _ => s2b "other"
  | Endpoint.ORequest _ => s2b "request"
  end.

Definition ok_val (r j : bytes) : bytes := unwords [s2b "ok"; r; tok_bytes j].

Definition url_table (t : bytes) : option (bytes -> bool) :=
  option_map (fun l s => mem_bytes s l) (untok_list t).

(* HTTP variant kind ef status ct body urltab *)
(* several Content-Type headers are written, in the case line, as one value with line feeds between
   them (a line feed cannot occur inside a header value): HeaderMap::get returns the FIRST *)
Fixpoint first_line (s : bytes) : bytes :=
  match s with
  | [] => []
  | c :: s' => if Ascii.eqb c "010"%char then [] else c :: first_line s'
  end.

Definition run_http (ws : list bytes) : bytes :=
  match ws with
  | [_variant; kind; efk; status; ct; body; urltab] =>
      match N_of_dec status, untok_opt ct, untok_bytes body, url_table urltab with
      | Some status, Some ct, Some body, Some url_ok =>
          let ct := option_map first_line ct in
          let use_ext := is_kw "X" efk in
          let calls := s2b " calls=1" in
          (if N.eqb status 0 then s2b "request " ++ tok_bytes body
           else if is_kw "code" kind || is_kw "refresh" kind || is_kw "password" kind || is_kw "cc" kind then
             if use_ext then
               render_outcome_gen
                 (fun v => ok_val (render_token render_ext v) (json_print (encode_token ef_ext v)))
                 (render_error basic_as_ref) (token_outcome ef_ext status ct body)
             else
               render_outcome_gen
                 (fun v => ok_val (render_token render_unit v) (json_print (encode_token ef_empty v)))
                 (render_error basic_as_ref) (token_outcome ef_empty status ct body)
           else if is_kw "introspect" kind then
             if use_ext then
               render_outcome_gen
                 (fun v => ok_val (render_introspection render_ext v) (json_print (encode_introspection ef_ext v)))
                 (render_error basic_as_ref) (introspection_outcome ef_ext status ct body)
             else
               render_outcome_gen
                 (fun v => ok_val (render_introspection render_unit v) (json_print (encode_introspection ef_empty v)))
                 (render_error basic_as_ref) (introspection_outcome ef_empty status ct body)
           else if is_kw "devauth" kind then
             if use_ext then
               render_outcome_gen
                 (fun v => ok_val (render_device_auth render_ext v) (json_print (encode_device_auth ef_ext v)))
                 (render_error basic_as_ref) (device_auth_outcome ef_ext url_ok status ct body)
             else
               render_outcome_gen
                 (fun v => ok_val (render_device_auth render_unit v) (json_print (encode_device_auth ef_empty v)))
                 (render_error basic_as_ref) (device_auth_outcome ef_empty url_ok status ct body)
           else if is_kw "revoke" kind then
             match revocation_outcome status body with
             | None => s2b "ok unit"
             | Some o => render_outcome_gen (fun _ : unit => s2b "ok unit") (render_error revocation_as_ref) o
             end
           else bad_case) ++ calls
      | _, _, _, _ => bad_case
      end
  | _ => bad_case
  end.

(* serialise, read back, serialise again *)
Definition built_rt {A} (dec : json -> option A) (enc : A -> json) (rend : A -> bytes) (v : A) : bytes :=
  let j := json_print (enc v) in
  unwords [s2b "ok"; rend v; tok_bytes j; s2b "rt";
           match from_body dec j with
           | Some v' =>
               let j' := json_print (enc v') in
               unwords [rend v'; tok_bytes j'; s2b "rt";
                        match from_body dec j' with
                        | Some v'' => unwords [rend v''; tok_bytes (json_print (enc v''))]
                        | None => s2b "err"
                        end]
           | None => s2b "err"
           end].

Definition decode_rt {A} (dec : json -> option A) (enc : A -> json) (rend : A -> bytes)
           (text : bytes) : bytes :=
  match from_body dec text with
  | None => s2b "err"
  | Some v => built_rt dec enc rend v
  end.

Definition render_error_short {T} (as_ref : T -> bytes) (e : error_response T) : bytes :=
  colon [s2b "err"; tok_bytes (as_ref (er_error e)); tok_opt (er_description e); tok_opt (er_uri e);
         tok_bytes (display_error as_ref e)].

(* DECODE family ef text urltab : serde_json::from_slice on the text, outside any HTTP flow,
   followed by a serialise / deserialise / serialise round trip of the accepted value *)
Definition run_decode (ws : list bytes) : bytes :=
  match ws with
  | [fam; efk; text; urltab] =>
      match untok_bytes text, url_table urltab with
      | Some text, Some url_ok =>
          let use_ext := is_kw "X" efk in
          if is_kw "M" efk then
            (* map-typed extension: the known members as usual, then the names of ALL other members *)
            let show {A} (dec : json -> option A) (rend : A -> bytes) :=
              match from_body dec text with
              | None => s2b "err"
              | Some v => unwords [s2b "ok"; rend v]
              end in
            if is_kw "token" fam then show (decode_token ef_map) (render_token tok_list)
            else if is_kw "introspection" fam then show (decode_introspection ef_map) (render_introspection tok_list)
            else if is_kw "device" fam then show (decode_device_auth url_ok ef_map) (render_device_auth tok_list)
            else bad_case
          else
          if is_kw "token" fam then
            if use_ext then decode_rt (decode_token ef_ext) (encode_token ef_ext) (render_token render_ext) text
            else decode_rt (decode_token ef_empty) (encode_token ef_empty) (render_token render_unit) text
          else if is_kw "introspection" fam then
            if use_ext then decode_rt (decode_introspection ef_ext) (encode_introspection ef_ext) (render_introspection render_ext) text
            else decode_rt (decode_introspection ef_empty) (encode_introspection ef_empty) (render_introspection render_unit) text
          else if is_kw "device" fam then
            if use_ext then decode_rt (decode_device_auth url_ok ef_ext) (encode_device_auth ef_ext) (render_device_auth render_ext) text
            else decode_rt (decode_device_auth url_ok ef_empty) (encode_device_auth ef_empty) (render_device_auth render_unit) text
          else if is_kw "err-basic" fam then
            decode_rt (decode_error basic_from_str) (encode_error basic_as_ref) (render_error_short basic_as_ref) text
          else if is_kw "err-device" fam then
            decode_rt (decode_error device_from_str) (encode_error device_as_ref) (render_error_short device_as_ref) text
          else if is_kw "err-revocation" fam then
            decode_rt (decode_error revocation_from_str) (encode_error revocation_as_ref) (render_error_short revocation_as_ref) text
          else bad_case
      | _, _ => bad_case
      end
  | _ => bad_case
  end.

(* BUILT: values made with new()/set_*() from the given leaves *)
Definition parse_tt (t : bytes) : option token_type :=
  if is_kw "bearer" t then Some Bearer else if is_kw "mac" t then Some Mac
  else match t with
       | "e"%char :: "x"%char :: "t"%char :: ":"%char :: r => option_map TExtension (untok_bytes r)
       | _ => None
       end.
Definition untok_optlist (t : bytes) : option (option (list bytes)) :=
  match t with ["-"%char] => Some None | _ => option_map Some (untok_list t) end.
Definition untok_optZ (t : bytes) : option (option Z) :=
  match t with ["-"%char] => Some None | _ => option_map Some (Z_of_dec t) end.

Definition parse_opt_tt (d : bytes) : option (option token_type) :=
  match d with ["-"%char] => Some None | _ => option_map Some (parse_tt d) end.

Definition run_built (ws : list bytes) : bytes :=
  match ws with
  | [fam; act; sc; cid; un; tty; ex; ia; nb_; su; au; is_; jt] =>
      if is_kw "introspection" fam then
        match untok_bool act, untok_optlist sc, untok_opt cid, untok_opt un, parse_opt_tt tty,
              untok_optZ ex, untok_optZ ia, untok_optZ nb_ with
        | Some act, Some sc, Some cid, Some un, Some tty, Some ex, Some ia, Some nb_ =>
            match untok_opt su, untok_optlist au, untok_opt is_, untok_opt jt with
            | Some su, Some au, Some is_, Some jt =>
                built_rt (decode_introspection ef_empty) (encode_introspection ef_empty)
                  (render_introspection render_unit)
                  {| ir_active := act; ir_scopes := sc; ir_client_id := cid; ir_username := un;
                     ir_token_type := tty; ir_exp := ex; ir_iat := ia; ir_nbf := nb_; ir_sub := su;
                     ir_aud := au; ir_iss := is_; ir_jti := jt; ir_extra := tt |}
            | _, _, _, _ => bad_case
            end
        | _, _, _, _, _, _, _, _ => bad_case
        end
      else bad_case
  | [fam; a; b; c; d; e; f] =>
      if is_kw "token" fam then
        match untok_bytes a, parse_tt b, untok_optN c, untok_opt d, untok_optlist e with
        | Some a, Some b, Some c, Some d, Some e =>
            built_rt (decode_token ef_empty) (encode_token ef_empty) (render_token render_unit)
              {| tr_access := a; tr_type := b; tr_expires := c; tr_refresh := d; tr_scopes := e; tr_extra := tt |}
        | _, _, _, _, _ => bad_case
        end
      else if is_kw "err-basic" fam then
        match untok_bytes a, untok_opt b, untok_opt c with
        | Some a, Some b, Some c =>
            built_rt (decode_error basic_from_str) (encode_error basic_as_ref) (render_error_short basic_as_ref)
              (mkErr (basic_from_str a) b c)
        | _, _, _ => bad_case
        end
      else if is_kw "err-device" fam then
        match untok_bytes a, untok_opt b, untok_opt c with
        | Some a, Some b, Some c =>
            built_rt (decode_error device_from_str) (encode_error device_as_ref) (render_error_short device_as_ref)
              (mkErr (device_from_str a) b c)
        | _, _, _ => bad_case
        end
      else bad_case
  | _ => bad_case
  end.

(* ---------------------------------------------------------------- C10: Debug formatting *)

(* DBG pretty container pubs secs phantom *)
Definition run_dbg (ws : list bytes) : bytes :=
  match ws with
  | [pr; kind; pubs; secs; phn] =>
      match untok_bool pr, untok_list pubs, untok_list secs, untok_bytes phn with
      | Some pr, Some [a0; a1; a2; a3; a4], Some [b0; b1; b2; b3], Some phn =>
          match shape kind {| p0 := a0; p1 := a1; p2 := a2; p3 := a3; p4 := a4;
                              s0 := b0; s1 := b1; s2 := b2; s3 := b3; phantom := phn |} with
          | Some d => tok_bytes (render pr 0 d)
          | None => bad_case
          end
      | _, _, _, _ => bad_case
      end
  | _ => bad_case
  end.

(* ---------------------------------------------------------------- C17: several requests in flight *)

(* ILV k schedule r1 r2 ... : each r = kind/status/ct/body ; every request gets the outcome it
   would get alone *)
Definition run_ilv (ws : list bytes) : bytes :=
  match ws with
  | _k :: _sched :: reqs =>
      join (s2b " || ")
        (map (fun r => match split_on "/"%char r with
                       | [kind; st; ct; body] =>
                           run_http [s2b "sync"; kind; s2b "E"; st; ct; body; tok_list [s2b "https://v/"]]
                       | _ => bad_case
                       end) reqs)
  | _ => bad_case
  end.

(* ---------------------------------------------------------------- C09: adapters over loopback *)

Definition parse_adapter (t : bytes) : option adapter :=
  if is_kw "reqwest" t then Some ReqwestAsync else if is_kw "reqwest_blocking" t then Some ReqwestBlocking
  else if is_kw "curl" t then Some Curl else if is_kw "ureq" t then Some Ureq else None.

(* NET adapter reqbody auth path | status ct framing body fault *)
Definition run_net (ws : list bytes) : bytes :=
  match ws with
  | [ad; reqbody; auth; path; _bar; status; ct; _framing; body; fault] =>
      match parse_adapter ad, untok_bytes reqbody, untok_opt auth, untok_bytes path,
            N_of_dec status, untok_opt ct, untok_bytes body with
      | Some a, Some reqbody, Some auth, Some path, Some status, Some ct, Some body =>
          let req := {| rq_method := s2b "POST"; rq_target := path;
                        rq_headers := (s2b "accept", s2b "application/json")
                                      :: (s2b "content-type", s2b "application/x-www-form-urlencoded")
                                      :: match auth with Some v => [(s2b "authorization", v)] | None => [] end;
                        rq_body := reqbody |} in
          let lr := to_lib a req in
          let srv :=
            if is_kw "refused" fault then s2b "srv:0"
            else unwords [s2b "srv:1"; lr_method lr; tok_bytes (lr_target lr);
                          s2b "accept=" ++ tok_opt (lookup (s2b "accept") (lr_headers lr));
                          s2b "ct=" ++ tok_opt (lookup (s2b "content-type") (lr_headers lr));
                          s2b "auth=" ++ tok_opt (lookup (s2b "authorization") (lr_headers lr));
                          s2b "body=" ++ tok_bytes (lr_body lr)] in
          (* several Content-Type headers (line feeds between the values): the first is the reply's *)
          let ct := option_map first_line ct in
          let behaviour :=
            if is_kw "none" fault then SReply {| w_status := status; w_ct := ct; w_body := body |}
            else SFault in
          let cli := match adapter_call a behaviour with
                     | Some r => unwords [s2b "cli:"; s2b "ok"; dec_of_N (w_status r); tok_opt (w_ct r);
                                          tok_bytes (w_body r)]
                     | None => s2b "cli: err"
                     end in
          srv ++ s2b " | " ++ cli
      | _, _, _, _, _, _, _ => bad_case
      end
  | _ => bad_case
  end.

(* NETFLOW adapter status ct body : exchange_code through the adapter = through memory *)
Definition run_netflow (ws : list bytes) : bytes :=
  match ws with
  | [ad; status; ct; body] =>
      match parse_adapter ad, N_of_dec status, untok_opt ct, untok_bytes body with
      | Some a, Some status, Some ct, Some body =>
          let ct := option_map first_line ct in
          match adapter_call a (SReply {| w_status := status; w_ct := ct; w_body := body |}) with
          | Some r =>
              render_outcome_gen (fun v => s2b "ok " ++ render_token render_unit v)
                (render_error basic_as_ref) (token_outcome ef_empty (w_status r) (w_ct r) (w_body r))
              ++ s2b " srv:1"
          | None => s2b "request srv:1"
          end
      | _, _, _, _ => bad_case
      end
  | _ => bad_case
  end.

Definition run_line (line : bytes) : bytes :=
  match words line with
  | p :: ws =>
      if is_kw "C14" p then run_c14 ws
      else if is_kw "POLL" p then run_poll ws
      else if is_kw "REQ" p then run_req ws
      else if is_kw "AUTHURL" p then run_authurl ws
      else if is_kw "REQM1" p then monitor_req true ws
      else if is_kw "PKCE" p then run_pkce ws
      else if is_kw "PKCERAND" p then
        match ws with
        | [n] => match N_of_dec n with
                 | Some n => if num_bytes_ok n then s2b "ok" else s2b "PANIC"
                 | None => bad_case
                 end
        | _ => bad_case
        end
      else if is_kw "PKCERANDM" p then monitor_pkcerand ws
      else if is_kw "CSRF" p then s2b "ok"
      else if is_kw "CSRFM" p then monitor_csrf ws
      else if is_kw "SECEQ" p then run_seceq ws
      else if is_kw "ECHOOK" p then s2b "ok"
      else if is_kw "CFG" p then run_cfg ws
      else if is_kw "URLT" p then run_urlt ws
      else if is_kw "HTTP" p then run_http ws
      else if is_kw "DBG" p then run_dbg ws
      else if is_kw "ILV" p then run_ilv ws
      else if is_kw "NET" p then run_net ws
      else if is_kw "NETFLOW" p then run_netflow ws
      else if is_kw "DECODE" p then run_decode ws
      else if is_kw "BUILT" p then run_built ws
      else if is_kw "URLP" p then run_urlp ws
      else if is_kw "REQM2" p then monitor_req false ws
      else if is_kw "AUTHURLM" p then monitor_authurl ws
      else if is_kw "POLLM" p then monitor_poll ws
      else if is_kw "BOUNDS" p then
        unwords [dec_of_N MAXDELTA; dec_of_Z DTMAX; dec_of_Z DTMIN; dec_of_N DMAX]
      else bad_case
  | [] => bad_case
  end.
