(* Dispatcher: one protocol line in, one observation line out.  This is the function the
   extracted driver (ocaml/driver.ml) and the in-Coq cross-check (Eval vm_compute) both run. *)
From OA Require Import Bytes Proto ErrorCodes.

Definition run_c14 (ws : list bytes) : bytes :=
  match ws with
  | [fam; code; d; u] =>
      match untok_bytes code, untok_opt d, untok_opt u with
      | Some c, Some d, Some u =>
          if is_kw "basic" fam then
            let e := basic_from_str c in
            unwords [basic_tag e; tok_bytes (basic_as_ref e);
                     tok_bytes (display_error basic_as_ref (mkErr e d u));
                     basic_tag (basic_from_str (basic_as_ref e))]
          else if is_kw "device" fam then
            let e := device_from_str c in
            unwords [device_tag e; tok_bytes (device_as_ref e);
                     tok_bytes (display_error device_as_ref (mkErr e d u));
                     device_tag (device_from_str (device_as_ref e))]
          else if is_kw "revocation" fam then
            let e := revocation_from_str c in
            unwords [revocation_tag e; tok_bytes (revocation_as_ref e);
                     tok_bytes (display_error revocation_as_ref (mkErr e d u));
                     revocation_tag (revocation_from_str (revocation_as_ref e))]
          else bad_case
      | _, _, _ => bad_case
      end
  | _ => bad_case
  end.

Definition run_line (line : bytes) : bytes :=
  match words line with
  | p :: ws =>
      if is_kw "C14" p then run_c14 ws
      else bad_case
  | [] => bad_case
  end.
