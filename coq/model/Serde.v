(* Models of the serde-derived decoders and encoders of the four response families:
     StandardTokenResponse<EF, BasicTokenType>            (src/token/mod.rs)
     StandardTokenIntrospectionResponse<EF, BasicTokenType> (src/introspection.rs)
     DeviceAuthorizationResponse<EF>                      (src/devicecode.rs)
     StandardErrorResponse<T>                             (src/error.rs)
   over the JSON AST of lib/Json.v, at result granularity (Some v = Ok v, None = Err).

   serde derive is modelled in "lookup style": a document is accepted iff no known member (or a
   member and its alias) occurs twice, every required member is present, and every present known
   member decodes with its field decoder; unknown members are skipped (structs without flatten:
   leniently) or buffered for the flattened extension type (then the whole document must be
   strictly parsable and at most 127 levels deep, because serde buffers it).

   Domain note: [lower_tt] (lib/Lower.v) is to_lowercase on ASCII, Latin-1, basic Cyrillic and Greek capitals except sigma; token_type spellings with other cased letters
   are outside the model (and outside the generators). *)
From OA Require Import UrlTypes Bytes Json Lower ErrorCodes.
From Coq Require Import ZArith.
Local Open Scope Z_scope.

Definition obj := list (bytes * json).

Fixpoint count_key (n : bytes) (m : obj) : nat :=
  match m with
  | [] => O
  | (k, _) :: m' => ((if bytes_eqb n k then 1 else 0) + count_key n m')%nat
  end.

Fixpoint find_key (n : bytes) (m : obj) : option json :=
  match m with
  | [] => None
  | (k, v) :: m' => if bytes_eqb n k then Some v else find_key n m'
  end.

(* serde's duplicate detection: names is a list of groups (a name with its aliases) *)
Definition group_count (g : list bytes) (m : obj) : nat :=
  fold_right (fun n acc => (count_key n m + acc)%nat) O g.
Definition no_dups (groups : list (list bytes)) (m : obj) : bool :=
  forallb (fun g => Nat.leb (group_count g m) 1) groups.

Fixpoint find_group (g : list bytes) (m : obj) : option json :=
  match g with
  | [] => None
  | n :: g' => match find_key n m with Some v => Some v | None => find_group g' m end
  end.

Definition is_known (names : list bytes) (k : bytes) : bool := mem_bytes k names.
Definition unknown_members (names : list bytes) (m : obj) : obj :=
  filter (fun kv => negb (is_known names (fst kv))) m.

(* ---- field decoders --------------------------------------------------------------------- *)

Definition U64MAXZ : Z := 18446744073709551615.

Definition d_string (j : json) : option bytes :=
  match j with JStr s true => Some s | _ => None end.
Definition d_bool (j : json) : option bool :=
  match j with JBool b => Some b | _ => None end.
Definition d_u64 (j : json) : option N :=
  match j with
  | JInt z => if (0 <=? z) && (z <=? U64MAXZ) then Some (Z.to_N z) else None
  | _ => None
  end.
(* Option<T>: null is None *)
Definition d_opt {A} (d : json -> option A) (j : json) : option (option A) :=
  match j with JNull => Some None | _ => option_map Some (d j) end.

(* a required member *)
Definition req {A} (d : json -> option A) (g : list bytes) (m : obj) : option A :=
  match find_group g m with Some j => d j | None => None end.
(* a member that may be absent (Option field / #[serde(default)]) *)
Definition optm {A} (d : json -> option A) (dflt : A) (g : list bytes) (m : obj) : option A :=
  match find_group g m with Some j => d j | None => Some dflt end.

(* helpers::deserialize_space_delimited_vec into Option<Vec<Scope>> *)
Definition d_scopes (j : json) : option (option (list bytes)) :=
  match j with
  | JNull => Some None
  | JStr s true => Some (Some (split_on space s))
  | _ => None
  end.

(* BasicTokenType *)
Inductive token_type := Bearer | Mac | TExtension (s : bytes).
Definition token_type_from_str (s : bytes) : token_type :=
  if bytes_eqb s (s2b "bearer") then Bearer
  else if bytes_eqb s (s2b "mac") then Mac else TExtension s.
Definition token_type_as_ref (t : token_type) : bytes :=
  match t with Bearer => s2b "bearer" | Mac => s2b "mac" | TExtension s => s end.
(* helpers::deserialize_untagged_enum_case_insensitive *)
Definition d_token_type (j : json) : option token_type :=
  match j with JStr s true => Some (token_type_from_str (lower_tt s)) | _ => None end.

(* chrono::serde::ts_seconds_option *)
Definition TS_MAX : Z := 8210266876799.
Definition TS_MIN : Z := -8334601228800.
Definition d_timestamp (j : json) : option (option Z) :=
  match j with
  | JNull => Some None
  | JInt z => if (TS_MIN <=? z) && (z <=? TS_MAX) then Some (Some z) else None
  | _ => None
  end.

Fixpoint all_strings (l : list json) : option (list bytes) :=
  match l with
  | [] => Some []
  | j :: l' => match d_string j, all_strings l' with
               | Some s, Some r => Some (s :: r)
               | _, _ => None
               end
  end.
(* helpers::deserialize_optional_string_or_vec_string *)
Definition d_aud (j : json) : option (option (list bytes)) :=
  match j with
  | JNull => Some None
  | JStr s true => Some (Some [s])
  | JArr l => option_map Some (all_strings l)
  | _ => None
  end.

(* devicecode.rs deserialize_devicecode_interval: NumOrNull *)
Definition d_interval (j : json) : option N :=
  match j with
  | JNull => Some 5%N
  | JInt z => if (0 <=? z) && (z <=? U64MAXZ) then Some (Z.to_N z) else None
  | _ => None
  end.

(* ---- flattened extension types ---------------------------------------------------------- *)

(* what serde needs of a document that goes through a #[serde(flatten)] struct *)
Definition flatten_ok (m : obj) : bool :=
  (json_strict (JObj m) && Nat.leb (json_depth (JObj m)) json_max_strict_depth)%bool.

(* an extension-field schema: its member names and its decoder from the members it is handed
   (the members of the document that the outer struct does not know) *)
Record ef_schema (EF : Type) := {
  ef_names : list bytes;
  ef_decode : obj -> option EF;
  ef_encode : EF -> obj
}.
Arguments ef_names {EF}. Arguments ef_decode {EF}. Arguments ef_encode {EF}.

(* EmptyExtraTokenFields / EmptyExtraDeviceAuthorizationFields *)
Definition ef_empty : ef_schema unit :=
  {| ef_names := []; ef_decode := fun _ => Some tt; ef_encode := fun _ => [] |}.

(* a MAP-typed extension (BTreeMap<String, serde_json::Value> behind #[serde(flatten)]): it is handed
   every member the outer struct does not know; observed as the sorted set of their names *)
Fixpoint insert_sorted (x : bytes) (l : list bytes) : list bytes :=
  match l with
  | [] => [x]
  | y :: l' =>
      match bytes_cmp x y with
      | Lt => x :: l
      | Eq => l
      | Gt => y :: insert_sorted x l'
      end
  end.
Definition sorted_names (m : obj) : list bytes := fold_right insert_sorted [] (map fst m).
Definition ef_map : ef_schema (list bytes) :=
  {| ef_names := []; ef_decode := fun m => Some (sorted_names m); ef_encode := fun _ => [] |}.

(* the extension type used by the harness:
     struct Ext { id_token: Option<String>, x_num: Option<u64> }   (both skip_serializing_if none) *)
Record ext := { ext_id_token : option bytes; ext_num : option N }.
Definition ext_decode (m : obj) : option ext :=
  if no_dups [[s2b "id_token"]; [s2b "x_num"]] m then
    match optm (d_opt d_string) None [s2b "id_token"] m, optm (d_opt d_u64) None [s2b "x_num"] m with
    | Some a, Some b => Some {| ext_id_token := a; ext_num := b |}
    | _, _ => None
    end
  else None.
Definition ext_encode (e : ext) : obj :=
  match ext_id_token e with Some s => [(s2b "id_token", JStr s true)] | None => [] end
  ++ match ext_num e with Some n => [(s2b "x_num", JInt (Z.of_N n))] | None => [] end.
Definition ef_ext : ef_schema ext :=
  {| ef_names := [s2b "id_token"; s2b "x_num"]; ef_decode := ext_decode; ef_encode := ext_encode |}.

(* ---- StandardTokenResponse --------------------------------------------------------------- *)

Record token_resp (EF : Type) := {
  tr_access : bytes;
  tr_type : token_type;
  tr_expires : option N;
  tr_refresh : option bytes;
  tr_scopes : option (list bytes);
  tr_extra : EF
}.
Arguments tr_access {EF}. Arguments tr_type {EF}. Arguments tr_expires {EF}.
Arguments tr_refresh {EF}. Arguments tr_scopes {EF}. Arguments tr_extra {EF}.

Definition token_names : list bytes :=
  map s2b ["access_token"; "token_type"; "expires_in"; "refresh_token"; "scope"]%string.

Definition decode_token {EF} (ef : ef_schema EF) (j : json) : option (token_resp EF) :=
  match j with
  | JObj m =>
      if flatten_ok m && no_dups (map (fun n => [n]) token_names) m then
        match req d_string [s2b "access_token"] m, req d_token_type [s2b "token_type"] m,
              optm (d_opt d_u64) None [s2b "expires_in"] m,
              optm (d_opt d_string) None [s2b "refresh_token"] m,
              optm d_scopes None [s2b "scope"] m,
              ef_decode ef (unknown_members token_names m) with
        | Some a, Some t, Some e, Some r, Some s, Some x =>
            Some {| tr_access := a; tr_type := t; tr_expires := e; tr_refresh := r;
                    tr_scopes := s; tr_extra := x |}
        | _, _, _, _, _, _ => None
        end
      else None
  | _ => None
  end.

Definition opt_member (n : string) (v : option json) : obj :=
  match v with Some j => [(s2b n, j)] | None => [] end.

Definition encode_token {EF} (ef : ef_schema EF) (t : token_resp EF) : json :=
  JObj ([(s2b "access_token", JStr (tr_access t) true);
         (s2b "token_type", JStr (token_type_as_ref (tr_type t)) true)]
        ++ opt_member "expires_in" (option_map (fun n => JInt (Z.of_N n)) (tr_expires t))
        ++ opt_member "refresh_token" (option_map (fun s => JStr s true) (tr_refresh t))
        ++ opt_member "scope" (option_map (fun l => JStr (join [space] l) true) (tr_scopes t))
        ++ ef_encode ef (tr_extra t)).

(* ---- StandardTokenIntrospectionResponse -------------------------------------------------- *)

Record introspection (EF : Type) := {
  ir_active : bool;
  ir_scopes : option (list bytes);
  ir_client_id : option bytes;
  ir_username : option bytes;
  ir_token_type : option token_type;
  ir_exp : option Z; ir_iat : option Z; ir_nbf : option Z;
  ir_sub : option bytes;
  ir_aud : option (list bytes);
  ir_iss : option bytes;
  ir_jti : option bytes;
  ir_extra : EF
}.
Arguments ir_active {EF}. Arguments ir_scopes {EF}. Arguments ir_client_id {EF}.
Arguments ir_username {EF}. Arguments ir_token_type {EF}. Arguments ir_exp {EF}.
Arguments ir_iat {EF}. Arguments ir_nbf {EF}. Arguments ir_sub {EF}. Arguments ir_aud {EF}.
Arguments ir_iss {EF}. Arguments ir_jti {EF}. Arguments ir_extra {EF}.

Definition introspection_names : list bytes :=
  map s2b ["active"; "scope"; "client_id"; "username"; "token_type"; "exp"; "iat"; "nbf"; "sub";
           "aud"; "iss"; "jti"]%string.

(* token_type: Option<TT> through deserialize_untagged_enum_case_insensitive.
   [null_ok]: whether a JSON null is read as none (true after the fix: commit; the pinned helper
   did String::deserialize and rejected null — history/C15_pinned.v) *)
Definition d_opt_token_type (j : json) : option (option token_type) :=
  match j with
  | JNull => Some None
  | _ => option_map Some (d_token_type j)
  end.

Definition decode_introspection {EF} (ef : ef_schema EF) (j : json) : option (introspection EF) :=
  match j with
  | JObj m =>
      if flatten_ok m && no_dups (map (fun n => [n]) introspection_names) m then
        match req d_bool [s2b "active"] m,
              optm d_scopes None [s2b "scope"] m,
              optm (d_opt d_string) None [s2b "client_id"] m,
              optm (d_opt d_string) None [s2b "username"] m,
              optm d_opt_token_type None [s2b "token_type"] m,
              optm d_timestamp None [s2b "exp"] m,
              optm d_timestamp None [s2b "iat"] m,
              optm d_timestamp None [s2b "nbf"] m with
        | Some a, Some sc, Some ci, Some un, Some tty, Some ex, Some ia, Some nb =>
            match optm (d_opt d_string) None [s2b "sub"] m,
                  optm d_aud None [s2b "aud"] m,
                  optm (d_opt d_string) None [s2b "iss"] m,
                  optm (d_opt d_string) None [s2b "jti"] m,
                  ef_decode ef (unknown_members introspection_names m) with
            | Some su, Some au, Some iss, Some jt, Some x =>
                Some {| ir_active := a; ir_scopes := sc; ir_client_id := ci; ir_username := un;
                        ir_token_type := tty; ir_exp := ex; ir_iat := ia; ir_nbf := nb;
                        ir_sub := su; ir_aud := au; ir_iss := iss; ir_jti := jt; ir_extra := x |}
            | _, _, _, _, _ => None
            end
        | _, _, _, _, _, _, _, _ => None
        end
      else None
  | _ => None
  end.

Definition jstr (s : bytes) : json := JStr s true.

Definition encode_introspection {EF} (ef : ef_schema EF) (r : introspection EF) : json :=
  JObj ([(s2b "active", JBool (ir_active r))]
        ++ opt_member "scope" (option_map (fun l => jstr (join [space] l)) (ir_scopes r))
        ++ opt_member "client_id" (option_map jstr (ir_client_id r))
        ++ opt_member "username" (option_map jstr (ir_username r))
        ++ opt_member "token_type" (option_map (fun t => jstr (token_type_as_ref t)) (ir_token_type r))
        ++ opt_member "exp" (option_map JInt (ir_exp r))
        ++ opt_member "iat" (option_map JInt (ir_iat r))
        ++ opt_member "nbf" (option_map JInt (ir_nbf r))
        ++ opt_member "sub" (option_map jstr (ir_sub r))
        ++ opt_member "aud" (option_map (fun l => JArr (map jstr l)) (ir_aud r))
        ++ opt_member "iss" (option_map jstr (ir_iss r))
        ++ opt_member "jti" (option_map jstr (ir_jti r))
        ++ ef_encode ef (ir_extra r)).

(* ---- DeviceAuthorizationResponse --------------------------------------------------------- *)

Record device_auth (EF : Type) := {
  da_device_code : bytes;
  da_user_code : bytes;
  da_verification_uri : bytes;          (* the text as sent *)
  da_uri_complete : option bytes;
  da_expires : N;
  da_interval : N;
  da_extra : EF
}.
Arguments da_device_code {EF}. Arguments da_user_code {EF}. Arguments da_verification_uri {EF}.
Arguments da_uri_complete {EF}. Arguments da_expires {EF}. Arguments da_interval {EF}.
Arguments da_extra {EF}.

Definition device_names : list bytes :=
  map s2b ["device_code"; "user_code"; "verification_uri"; "verification_url";
           "verification_uri_complete"; "expires_in"; "interval"]%string.
Definition device_groups : list (list bytes) :=
  [[s2b "device_code"]; [s2b "user_code"]; [s2b "verification_uri"; s2b "verification_url"];
   [s2b "verification_uri_complete"]; [s2b "expires_in"]; [s2b "interval"]].

(* [url_ok]: Url::parse accepts the string (oracle) *)
Definition d_url (url_ok : bytes -> bool) (j : json) : option bytes :=
  match j with JStr s true => if url_ok s then Some s else None | _ => None end.

Definition decode_device_auth {EF} (url_ok : bytes -> bool) (ef : ef_schema EF) (j : json)
  : option (device_auth EF) :=
  match j with
  | JObj m =>
      if flatten_ok m && no_dups device_groups m then
        match req d_string [s2b "device_code"] m, req d_string [s2b "user_code"] m,
              req (d_url url_ok) [s2b "verification_uri"; s2b "verification_url"] m,
              optm (d_opt d_string) None [s2b "verification_uri_complete"] m,
              req d_u64 [s2b "expires_in"] m,
              optm d_interval 5%N [s2b "interval"] m,
              ef_decode ef (unknown_members device_names m) with
        | Some dc, Some uc, Some vu, Some vc, Some ex, Some iv, Some x =>
            Some {| da_device_code := dc; da_user_code := uc; da_verification_uri := vu;
                    da_uri_complete := vc; da_expires := ex; da_interval := iv; da_extra := x |}
        | _, _, _, _, _, _, _ => None
        end
      else None
  | _ => None
  end.

Definition encode_device_auth {EF} (ef : ef_schema EF) (d : device_auth EF) : json :=
  JObj ([(s2b "device_code", jstr (da_device_code d)); (s2b "user_code", jstr (da_user_code d));
         (s2b "verification_uri", jstr (da_verification_uri d))]
        ++ opt_member "verification_uri_complete" (option_map jstr (da_uri_complete d))
        ++ [(s2b "expires_in", JInt (Z.of_N (da_expires d)));
            (s2b "interval", JInt (Z.of_N (da_interval d)))]
        ++ ef_encode ef (da_extra d)).

(* ---- StandardErrorResponse<T> (no flatten: unknown members are skipped leniently, and the
        positional array form is accepted) --------------------------------------------------- *)

Definition error_names : list bytes := map s2b ["error"; "error_description"; "error_uri"]%string.

Definition decode_error {T} (from_str : bytes -> T) (j : json) : option (error_response T) :=
  match j with
  | JObj m =>
      (* the keys of the visited object itself are read strictly, even unknown ones *)
      if forallb (fun kv => utf8_valid (fst kv)) m && no_dups (map (fun n => [n]) error_names) m then
        match req d_string [s2b "error"] m,
              optm (d_opt d_string) None [s2b "error_description"] m,
              optm (d_opt d_string) None [s2b "error_uri"] m with
        | Some c, Some d, Some u => Some (mkErr (from_str c) d u)
        | _, _, _ => None
        end
      else None
  | JArr (c :: rest) =>
      match d_string c with
      | None => None
      | Some c =>
          match rest with
          | [] => Some (mkErr (from_str c) None None)
          | [d] => option_map (fun d => mkErr (from_str c) d None) (d_opt d_string d)
          | [d; u] => match d_opt d_string d, d_opt d_string u with
                      | Some d, Some u => Some (mkErr (from_str c) d u)
                      | _, _ => None
                      end
          | _ => None
          end
      end
  | _ => None
  end.

Definition encode_error {T} (as_ref : T -> bytes) (e : error_response T) : json :=
  JObj ([(s2b "error", jstr (as_ref (er_error e)))]
        ++ opt_member "error_description" (option_map jstr (er_description e))
        ++ opt_member "error_uri" (option_map jstr (er_uri e))).

(* ---- from bytes --------------------------------------------------------------------------- *)

(* what endpoint_response does with a body: parse one JSON value (after the fix: commit the
   whole body must be that value plus whitespace) and hand it to the typed decoder *)
Definition from_body {A} (dec : json -> option A) (body : bytes) : option A :=
  match json_parse body with Some j => dec j | None => None end.
