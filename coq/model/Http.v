(* The request flows as the crate instantiates them: endpoint_response with the serde decoders
   of each response family and error family. *)
From OA Require Import Bytes Json ErrorCodes Endpoint Serde DevicePoll DeviceKinds.
From Coq Require Import ZArith.
Local Open Scope N_scope.

Section Flows.
  Context {EF : Type} (ef : ef_schema EF) (url_ok : bytes -> bool).

  Definition token_outcome (status : N) (ct : option bytes) (body : bytes) :=
    endpoint_response (token_resp EF) (error_response basic_err) unit
      (from_body (decode_token ef)) (from_body (decode_error basic_from_str)) status ct body.

  Definition introspection_outcome (status : N) (ct : option bytes) (body : bytes) :=
    endpoint_response (introspection EF) (error_response basic_err) unit
      (from_body (decode_introspection ef)) (from_body (decode_error basic_from_str)) status ct body.

  Definition device_auth_outcome (status : N) (ct : option bytes) (body : bytes) :=
    endpoint_response (device_auth EF) (error_response basic_err) unit
      (from_body (decode_device_auth url_ok ef)) (from_body (decode_error basic_from_str))
      status ct body.
End Flows.

Definition revocation_outcome (status : N) (body : bytes) :=
  endpoint_response_status_only unit (error_response revocation_err) unit
    (from_body (decode_error revocation_from_str)) status body.

(* one device-token poll: endpoint_response with the device error family *)
Definition device_token_outcome (status : N) (ct : option bytes) (body : bytes) :=
  endpoint_response (token_resp unit) (error_response device_err) unit
    (from_body (decode_token ef_empty)) (from_body (decode_error device_from_str)) status ct body.

(* process_response's view of one HTTP exchange (status 0 = transport failure) *)
Inductive poll_class := PCPending | PCSlowDown | PCFailure | PCDecisive (r : result).

Definition classify_poll (status : N) (ct : option bytes) (body : bytes) : poll_class :=
  if status =? 0 then PCFailure else
  match device_token_outcome status ct body with
  | Endpoint.OServer e =>
      match er_error e with
      | AuthorizationPending => PCPending
      | SlowDown => PCSlowDown
      | c => PCDecisive (RServer (device_as_ref c) (er_description e))
      end
  | Endpoint.OSuccess t => PCDecisive (ROk (tr_access t))
  | Endpoint.OParse b => PCDecisive (RParse b)
  | Endpoint.OOther _ => PCDecisive ROtherErr
  | Endpoint.ORequest _ => PCFailure
  end.

(* the table of model/DeviceKinds.v agrees with this classification *)
Definition kind_consistent (k : kind) : bool :=
  match classify_poll (k_status k) (k_ct k) (k_body k), k_class k with
  | PCPending, RPending => true
  | PCSlowDown, RSlowDown => true
  | PCFailure, RFailure => true
  | PCDecisive r, RDecisive _ =>
      match r, k_result k with
      | ROk a, ROk b => bytes_eqb a b
      | RServer c d, RServer c' d' =>
          bytes_eqb c c' && match d, d' with
                            | Some x, Some y => bytes_eqb x y
                            | None, None => true
                            | _, _ => false
                            end
      | RParse a, RParse b => bytes_eqb a b
      | ROtherErr, ROtherErr => true
      | _, _ => false
      end
  | _, _ => false
  end.
