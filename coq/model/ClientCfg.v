(* Model of src/client.rs: the Client configuration record with its five endpoint typestates,
   the 19 configuration operations, the getters and the endpoint-gated operations. *)
From OA Require Import Bytes Requests Pkce AuthUrl.

Inductive est := NotSet | IsSet | MaybeSet.
Inductive ep_name := EAuth | EToken | EDevAuth | EIntrospect | ERevoke.

(* a URL value: the caller's text plus what the url/http crates make of it (oracle) *)
Record urlv := {
  uv_orig : bytes;
  uv_ep : endpoint;          (* Url::to_string, http::Uri acceptance, scheme *)
  uv_abs : abs_url           (* the url crate's split: prefix / query / fragment *)
}.

Record cstate := {
  c_id : bytes;
  c_secret : option bytes;
  c_auth : auth_type;
  c_redirect : option bytes;
  c_auth_url : option urlv;
  c_token_url : option urlv;
  c_dev_url : option urlv;
  c_int_url : option urlv;
  c_rev_url : option urlv;
  t_auth : est; t_token : est; t_dev : est; t_int : est; t_rev : est
}.

(* Client::new *)
Definition init (id : bytes) : cstate :=
  {| c_id := id; c_secret := None; c_auth := BasicAuth; c_redirect := None;
     c_auth_url := None; c_token_url := None; c_dev_url := None; c_int_url := None;
     c_rev_url := None;
     t_auth := NotSet; t_token := NotSet; t_dev := NotSet; t_int := NotSet; t_rev := NotSet |}.

Inductive cfg_op :=
| SetUrl (e : ep_name) (u : urlv)              (* set_*_uri / set_*_url *)
| SetUrlOpt (e : ep_name) (u : option urlv)    (* set_*_option *)
| SetSecret (s : bytes)
| SetRedirectUri (u : bytes)
| SetAuthType (a : auth_type).

(* each setter rebuilds the record field by field, as the source does *)
Definition set_field (e : ep_name) (v : option urlv) (t : est) (s : cstate) : cstate :=
  match e with
  | EAuth =>
      {| c_id := c_id s; c_secret := c_secret s; c_auth := c_auth s; c_redirect := c_redirect s;
         c_auth_url := v; c_token_url := c_token_url s; c_dev_url := c_dev_url s;
         c_int_url := c_int_url s; c_rev_url := c_rev_url s;
         t_auth := t; t_token := t_token s; t_dev := t_dev s; t_int := t_int s; t_rev := t_rev s |}
  | EToken =>
      {| c_id := c_id s; c_secret := c_secret s; c_auth := c_auth s; c_redirect := c_redirect s;
         c_auth_url := c_auth_url s; c_token_url := v; c_dev_url := c_dev_url s;
         c_int_url := c_int_url s; c_rev_url := c_rev_url s;
         t_auth := t_auth s; t_token := t; t_dev := t_dev s; t_int := t_int s; t_rev := t_rev s |}
  | EDevAuth =>
      {| c_id := c_id s; c_secret := c_secret s; c_auth := c_auth s; c_redirect := c_redirect s;
         c_auth_url := c_auth_url s; c_token_url := c_token_url s; c_dev_url := v;
         c_int_url := c_int_url s; c_rev_url := c_rev_url s;
         t_auth := t_auth s; t_token := t_token s; t_dev := t; t_int := t_int s; t_rev := t_rev s |}
  | EIntrospect =>
      {| c_id := c_id s; c_secret := c_secret s; c_auth := c_auth s; c_redirect := c_redirect s;
         c_auth_url := c_auth_url s; c_token_url := c_token_url s; c_dev_url := c_dev_url s;
         c_int_url := v; c_rev_url := c_rev_url s;
         t_auth := t_auth s; t_token := t_token s; t_dev := t_dev s; t_int := t; t_rev := t_rev s |}
  | ERevoke =>
      {| c_id := c_id s; c_secret := c_secret s; c_auth := c_auth s; c_redirect := c_redirect s;
         c_auth_url := c_auth_url s; c_token_url := c_token_url s; c_dev_url := c_dev_url s;
         c_int_url := c_int_url s; c_rev_url := v;
         t_auth := t_auth s; t_token := t_token s; t_dev := t_dev s; t_int := t_int s; t_rev := t |}
  end.

Definition apply_op (s : cstate) (o : cfg_op) : cstate :=
  match o with
  | SetUrl e u => set_field e (Some u) IsSet s
  | SetUrlOpt e u => set_field e u MaybeSet s
  | SetSecret x =>
      {| c_id := c_id s; c_secret := Some x; c_auth := c_auth s; c_redirect := c_redirect s;
         c_auth_url := c_auth_url s; c_token_url := c_token_url s; c_dev_url := c_dev_url s;
         c_int_url := c_int_url s; c_rev_url := c_rev_url s;
         t_auth := t_auth s; t_token := t_token s; t_dev := t_dev s; t_int := t_int s;
         t_rev := t_rev s |}
  | SetRedirectUri u =>
      {| c_id := c_id s; c_secret := c_secret s; c_auth := c_auth s; c_redirect := Some u;
         c_auth_url := c_auth_url s; c_token_url := c_token_url s; c_dev_url := c_dev_url s;
         c_int_url := c_int_url s; c_rev_url := c_rev_url s;
         t_auth := t_auth s; t_token := t_token s; t_dev := t_dev s; t_int := t_int s;
         t_rev := t_rev s |}
  | SetAuthType a =>
      {| c_id := c_id s; c_secret := c_secret s; c_auth := a; c_redirect := c_redirect s;
         c_auth_url := c_auth_url s; c_token_url := c_token_url s; c_dev_url := c_dev_url s;
         c_int_url := c_int_url s; c_rev_url := c_rev_url s;
         t_auth := t_auth s; t_token := t_token s; t_dev := t_dev s; t_int := t_int s;
         t_rev := t_rev s |}
  end.

Definition field (e : ep_name) (s : cstate) : option urlv :=
  match e with
  | EAuth => c_auth_url s | EToken => c_token_url s | EDevAuth => c_dev_url s
  | EIntrospect => c_int_url s | ERevoke => c_rev_url s
  end.
Definition tstate (e : ep_name) (s : cstate) : est :=
  match e with
  | EAuth => t_auth s | EToken => t_token s | EDevAuth => t_dev s
  | EIntrospect => t_int s | ERevoke => t_rev s
  end.

(* what calling a gated method amounts to *)
Inductive gated (A : Type) :=
| GAbsent                     (* the method does not exist for this type: rejected by rustc *)
| GPanic                      (* .expect() on None: must be unreachable *)
| GMissing (name : bytes)     (* ConfigurationError::MissingUrl(name) *)
| GInsecure (name : bytes)    (* ConfigurationError::InsecureUrl(name) *)
| GValue (a : A).
Arguments GAbsent {A}. Arguments GPanic {A}. Arguments GMissing {A}. Arguments GInsecure {A}.
Arguments GValue {A}.

Definition ep_label (e : ep_name) : bytes :=
  match e with
  | EAuth => s2b "authorization" | EToken => s2b "token"
  | EDevAuth => s2b "device authorization" | EIntrospect => s2b "introspection"
  | ERevoke => s2b "revocation"
  end.

(* the endpoint getters: &Url for Set (expect), Option<&Url> for MaybeSet *)
Definition getter (e : ep_name) (s : cstate) : gated (option urlv) :=
  match tstate e s with
  | NotSet => GAbsent
  | IsSet => match field e s with Some u => GValue (Some u) | None => GPanic end
  | MaybeSet => GValue (field e s)
  end.

(* the URL an endpoint-gated operation works with *)
Definition op_url (e : ep_name) (s : cstate) : gated urlv :=
  match tstate e s with
  | NotSet => GAbsent
  | IsSet => match field e s with Some u => GValue u | None => GPanic end
  | MaybeSet => match field e s with Some u => GValue u | None => GMissing (ep_label e) end
  end.

Definition creds_of (s : cstate) : creds :=
  {| cr_auth := c_auth s; cr_id := c_id s; cr_secret := c_secret s |}.

(* the operations; arguments are the operation's own data *)
Inductive operation :=
| OpCode (code : bytes) | OpRefresh (t : bytes) | OpPassword (u p : bytes) | OpClientCreds
| OpDeviceToken (dc : bytes)
| OpDeviceAuth | OpIntrospect (t : bytes) | OpRevoke (t : bytes) (hint : option bytes).

Definition op_endpoint (o : operation) : ep_name :=
  match o with
  | OpCode _ | OpRefresh _ | OpPassword _ _ | OpClientCreds | OpDeviceToken _ => EToken
  | OpDeviceAuth => EDevAuth
  | OpIntrospect _ => EIntrospect
  | OpRevoke _ _ => ERevoke
  end.

Definition op_kind (s : cstate) (o : operation) : req_kind :=
  match o with
  | OpCode c => KCode c None (c_redirect s)
  | OpRefresh t => KRefresh t []
  | OpPassword u p => KPassword u p []
  | OpClientCreds => KClientCreds []
  | OpDeviceToken dc => KDeviceToken dc
  | OpDeviceAuth => KDeviceAuth []
  | OpIntrospect t => KIntrospect t None
  | OpRevoke t h => KRevoke t h
  end.

(* result: the request the HTTP client is handed (None = "failed to prepare request") *)
Definition run_operation (s : cstate) (o : operation) : gated (option http_req) :=
  match op_url (op_endpoint o) s with
  | GAbsent => GAbsent | GPanic => GPanic | GMissing n => GMissing n | GInsecure n => GInsecure n
  | GValue u =>
      match o with
      | OpRevoke _ _ =>
          if bytes_eqb (ep_scheme (uv_ep u)) (s2b "https")
          then GValue (request_of (creds_of s) (uv_ep u) (op_kind s o) [])
          else GInsecure (ep_label ERevoke)
      | _ => GValue (request_of (creds_of s) (uv_ep u) (op_kind s o) [])
      end
  end.

(* authorize_url(state_fn).url() *)
Definition run_authorize (s : cstate) (state : bytes) : gated (abs_url * bytes) :=
  match op_url EAuth s with
  | GAbsent => GAbsent | GPanic => GPanic | GMissing n => GMissing n | GInsecure n => GInsecure n
  | GValue u =>
      GValue (url_of (fst (authorize_url (uv_abs u) (c_id s) (c_redirect s) (fun _ => state) 0)))
  end.

(* ---- the abstract specification: most recent write per item ------------------------------- *)

Fixpoint last_url (e : ep_name) (ops : list cfg_op) (cur : option urlv * est)
  : option urlv * est :=
  match ops with
  | [] => cur
  | SetUrl e' u :: ops' =>
      last_url e ops' (if match e, e' with
                          | EAuth, EAuth | EToken, EToken | EDevAuth, EDevAuth
                          | EIntrospect, EIntrospect | ERevoke, ERevoke => true
                          | _, _ => false end then (Some u, IsSet) else cur)
  | SetUrlOpt e' u :: ops' =>
      last_url e ops' (if match e, e' with
                          | EAuth, EAuth | EToken, EToken | EDevAuth, EDevAuth
                          | EIntrospect, EIntrospect | ERevoke, ERevoke => true
                          | _, _ => false end then (u, MaybeSet) else cur)
  | _ :: ops' => last_url e ops' cur
  end.
Fixpoint last_secret (ops : list cfg_op) (cur : option bytes) : option bytes :=
  match ops with
  | [] => cur
  | SetSecret x :: ops' => last_secret ops' (Some x)
  | _ :: ops' => last_secret ops' cur
  end.
Fixpoint last_redirect_uri (ops : list cfg_op) (cur : option bytes) : option bytes :=
  match ops with
  | [] => cur
  | SetRedirectUri x :: ops' => last_redirect_uri ops' (Some x)
  | _ :: ops' => last_redirect_uri ops' cur
  end.
Fixpoint last_auth_type (ops : list cfg_op) (cur : auth_type) : auth_type :=
  match ops with
  | [] => cur
  | SetAuthType a :: ops' => last_auth_type ops' a
  | _ :: ops' => last_auth_type ops' cur
  end.
