(* Model of src/basic.rs BasicErrorResponseType, src/devicecode.rs DeviceCodeErrorResponseType,
   src/revocation.rs RevocationErrorResponseType (from_str / as_ref) and of
   src/error.rs StandardErrorResponse (fields + Display). *)
From OA Require Import Bytes.

Inductive basic_err :=
| InvalidClient | InvalidGrant | InvalidRequest | InvalidScope
| UnauthorizedClient | UnsupportedGrantType
| BExtension (s : bytes).

Definition c_invalid_client := s2b "invalid_client".
Definition c_invalid_grant := s2b "invalid_grant".
Definition c_invalid_request := s2b "invalid_request".
Definition c_invalid_scope := s2b "invalid_scope".
Definition c_unauthorized_client := s2b "unauthorized_client".
Definition c_unsupported_grant_type := s2b "unsupported_grant_type".
Definition c_authorization_pending := s2b "authorization_pending".
Definition c_slow_down := s2b "slow_down".
Definition c_access_denied := s2b "access_denied".
Definition c_expired_token := s2b "expired_token".
Definition c_unsupported_token_type := s2b "unsupported_token_type".

Definition basic_from_str (s : bytes) : basic_err :=
  if bytes_eqb s c_invalid_client then InvalidClient
  else if bytes_eqb s c_invalid_grant then InvalidGrant
  else if bytes_eqb s c_invalid_request then InvalidRequest
  else if bytes_eqb s c_invalid_scope then InvalidScope
  else if bytes_eqb s c_unauthorized_client then UnauthorizedClient
  else if bytes_eqb s c_unsupported_grant_type then UnsupportedGrantType
  else BExtension s.

Definition basic_as_ref (e : basic_err) : bytes :=
  match e with
  | InvalidClient => c_invalid_client
  | InvalidGrant => c_invalid_grant
  | InvalidRequest => c_invalid_request
  | InvalidScope => c_invalid_scope
  | UnauthorizedClient => c_unauthorized_client
  | UnsupportedGrantType => c_unsupported_grant_type
  | BExtension s => s
  end.

Inductive device_err :=
| AuthorizationPending | SlowDown | AccessDenied | ExpiredToken
| DBasic (b : basic_err).

Definition device_from_str (s : bytes) : device_err :=
  match basic_from_str s with
  | BExtension ext =>
      if bytes_eqb ext c_authorization_pending then AuthorizationPending
      else if bytes_eqb ext c_slow_down then SlowDown
      else if bytes_eqb ext c_access_denied then AccessDenied
      else if bytes_eqb ext c_expired_token then ExpiredToken
      else DBasic (BExtension ext)
  | b => DBasic b
  end.

Definition device_as_ref (e : device_err) : bytes :=
  match e with
  | AuthorizationPending => c_authorization_pending
  | SlowDown => c_slow_down
  | AccessDenied => c_access_denied
  | ExpiredToken => c_expired_token
  | DBasic b => basic_as_ref b
  end.

Inductive revocation_err :=
| UnsupportedTokenType
| RBasic (b : basic_err).

Definition revocation_from_str (s : bytes) : revocation_err :=
  match basic_from_str s with
  | BExtension ext =>
      if bytes_eqb ext c_unsupported_token_type then UnsupportedTokenType
      else RBasic (BExtension ext)
  | b => RBasic b
  end.

Definition revocation_as_ref (e : revocation_err) : bytes :=
  match e with
  | UnsupportedTokenType => c_unsupported_token_type
  | RBasic b => basic_as_ref b
  end.

(* Variant identity, as a small keyword (what the harness computes with a match). *)
Definition basic_tag (e : basic_err) : bytes :=
  match e with
  | InvalidClient => s2b "InvalidClient"
  | InvalidGrant => s2b "InvalidGrant"
  | InvalidRequest => s2b "InvalidRequest"
  | InvalidScope => s2b "InvalidScope"
  | UnauthorizedClient => s2b "UnauthorizedClient"
  | UnsupportedGrantType => s2b "UnsupportedGrantType"
  | BExtension _ => s2b "Extension"
  end.
Definition device_tag (e : device_err) : bytes :=
  match e with
  | AuthorizationPending => s2b "AuthorizationPending"
  | SlowDown => s2b "SlowDown"
  | AccessDenied => s2b "AccessDenied"
  | ExpiredToken => s2b "ExpiredToken"
  | DBasic b => s2b "Basic." ++ basic_tag b
  end.
Definition revocation_tag (e : revocation_err) : bytes :=
  match e with
  | UnsupportedTokenType => s2b "UnsupportedTokenType"
  | RBasic b => s2b "Basic." ++ basic_tag b
  end.

(* The eleven RFC-defined codes. *)
Definition basic_codes : list bytes :=
  [c_invalid_client; c_invalid_grant; c_invalid_request; c_invalid_scope;
   c_unauthorized_client; c_unsupported_grant_type].
Definition device_codes : list bytes :=
  basic_codes ++ [c_authorization_pending; c_slow_down; c_access_denied; c_expired_token].
Definition revocation_codes : list bytes :=
  basic_codes ++ [c_unsupported_token_type].

(* StandardErrorResponse<T>: error, error_description, error_uri. *)
Record error_response (T : Type) := mkErr {
  er_error : T;
  er_description : option bytes;
  er_uri : option bytes
}.
Arguments mkErr {T}. Arguments er_error {T}. Arguments er_description {T}. Arguments er_uri {T}.

(* impl Display for StandardErrorResponse *)
Definition display_error {T} (as_ref : T -> bytes) (e : error_response T) : bytes :=
  as_ref (er_error e)
  ++ match er_description e with Some d => s2b ": " ++ d | None => [] end
  ++ match er_uri e with Some u => s2b " (see " ++ u ++ s2b ")" | None => [] end.
