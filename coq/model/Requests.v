(* Model of src/endpoint.rs endpoint_request and of the eight prepare_request functions
   (src/token/mod.rs, src/devicecode.rs, src/introspection.rs, src/revocation.rs).

   The endpoint URL enters as the oracle triple the harness obtains from the url / http crates
   for the caller's URL string: its serialisation (Url::to_string), whether http::Uri accepts
   that text, and its scheme.  Everything else is computed here. *)
From OA Require Import Bytes FormUrlencoded Base64.

Inductive auth_type := BasicAuth | RequestBody.

Record creds := {
  cr_auth : auth_type;
  cr_id : bytes;
  cr_secret : option bytes
}.

Record endpoint := {
  ep_text : bytes;      (* Url::to_string() of the configured endpoint *)
  ep_uri_ok : bool;     (* http::Uri accepts it *)
  ep_scheme : bytes     (* Url::scheme() *)
}.

Record http_req := {
  rq_method : bytes;
  rq_target : bytes;
  rq_headers : list (bytes * bytes);
  rq_body : bytes
}.

Definition pair := (bytes * bytes)%type.

(* ---- the eight request kinds and their arguments ------------------------------------------ *)

Inductive req_kind :=
| KCode (code : bytes) (verifier : option bytes) (redirect : option bytes)
        (* redirect: what the builder holds = per-request override, else the client default *)
| KRefresh (token : bytes) (scopes : list bytes)
| KPassword (user pass : bytes) (scopes : list bytes)
| KClientCreds (scopes : list bytes)
| KDeviceAuth (scopes : list bytes)
| KDeviceToken (device_code : bytes)
| KIntrospect (token : bytes) (hint : option bytes)
| KRevoke (token : bytes) (hint : option bytes).

Definition grant_device := s2b "urn:ietf:params:oauth:grant-type:device_code".

(* the [params] vector each prepare_request hands to endpoint_request *)
Definition kind_params (k : req_kind) : list pair :=
  match k with
  | KCode code ver _ =>
      [(s2b "grant_type", s2b "authorization_code"); (s2b "code", code)]
      ++ match ver with Some v => [(s2b "code_verifier", v)] | None => [] end
  | KRefresh t _ => [(s2b "grant_type", s2b "refresh_token"); (s2b "refresh_token", t)]
  | KPassword u p _ =>
      [(s2b "grant_type", s2b "password"); (s2b "username", u); (s2b "password", p)]
  | KClientCreds _ => [(s2b "grant_type", s2b "client_credentials")]
  | KDeviceAuth _ => []
  | KDeviceToken dc => [(s2b "grant_type", grant_device); (s2b "device_code", dc)]
  | KIntrospect t h | KRevoke t h =>
      (s2b "token", t) :: match h with Some h => [(s2b "token_type_hint", h)] | None => [] end
  end.

(* the [scopes] argument: Some for the kinds that have a scope list, None otherwise *)
Definition kind_scopes (k : req_kind) : option (list bytes) :=
  match k with
  | KRefresh _ s | KPassword _ _ s | KClientCreds s | KDeviceAuth s => Some s
  | _ => None
  end.

Definition kind_redirect (k : req_kind) : option bytes :=
  match k with KCode _ _ r => r | _ => None end.

(* ---- endpoint_request ------------------------------------------------------------------ *)

Definition scope_pairs (scopes : option (list bytes)) : list pair :=
  match scopes with
  | Some (s :: l) => [(s2b "scope", join [space] (s :: l))]
  | _ => []
  end.

Definition use_basic (c : creds) : option bytes :=
  match cr_auth c, cr_secret c with
  | BasicAuth, Some s => Some s
  | _, _ => None
  end.

Definition cred_pairs (c : creds) : list pair :=
  match use_basic c with
  | Some _ => []
  | None =>
      (s2b "client_id", cr_id c)
      :: match cr_secret c with Some s => [(s2b "client_secret", s)] | None => [] end
  end.

Definition redirect_pairs (r : option bytes) : list pair :=
  match r with Some u => [(s2b "redirect_uri", u)] | None => [] end.

(* the pairs the library itself generates, in the order of the code *)
Definition lib_pairs (c : creds) (k : req_kind) : list pair :=
  kind_params k ++ scope_pairs (kind_scopes k) ++ cred_pairs c ++ redirect_pairs (kind_redirect k).

Definition all_pairs (c : creds) (k : req_kind) (extra : list pair) : list pair :=
  lib_pairs c k ++ extra.

Definition basic_payload (id secret : bytes) : bytes :=
  byte_serialize id ++ ":"%char :: byte_serialize secret.

Definition basic_value (id secret : bytes) : bytes :=
  s2b "Basic " ++ b64_std_encode (basic_payload id secret).

Definition h_accept := (s2b "accept", s2b "application/json").
Definition h_content_type := (s2b "content-type", s2b "application/x-www-form-urlencoded").

Definition req_headers (c : creds) : list (bytes * bytes) :=
  h_accept :: h_content_type ::
  match use_basic c with
  | Some s => [(s2b "authorization", basic_value (cr_id c) s)]
  | None => []
  end.

Fixpoint strip_fragment (s : bytes) : bytes :=
  match s with
  | [] => []
  | c :: s' => if Ascii.eqb c "#"%char then [] else c :: strip_fragment s'
  end.

(* Ok request, or the "failed to prepare request" error (no HTTP call is made) *)
Definition request_of (c : creds) (ep : endpoint) (k : req_kind) (extra : list pair)
  : option http_req :=
  if ep_uri_ok ep then
    Some {| rq_method := s2b "POST";
            rq_target := strip_fragment (ep_text ep);
            rq_headers := req_headers c;
            rq_body := form_serialize (all_pairs c k extra) |}
  else None.

(* ---- the independent statement of what each grant requires (RFC text) -------------------- *)

(* RFC 6749 4.1.3 / 6 / 4.3.2 / 4.4.2, RFC 8628 3.1 / 3.4, RFC 7662 2.1, RFC 7009 2.1 *)
Definition rfc_required (k : req_kind) : list pair :=
  match k with
  | KCode code _ _ => [(s2b "grant_type", s2b "authorization_code"); (s2b "code", code)]
  | KRefresh t _ => [(s2b "grant_type", s2b "refresh_token"); (s2b "refresh_token", t)]
  | KPassword u p _ =>
      [(s2b "grant_type", s2b "password"); (s2b "username", u); (s2b "password", p)]
  | KClientCreds _ => [(s2b "grant_type", s2b "client_credentials")]
  | KDeviceAuth _ => []
  | KDeviceToken dc => [(s2b "grant_type", grant_device); (s2b "device_code", dc)]
  | KIntrospect t _ | KRevoke t _ => [(s2b "token", t)]
  end.

Definition rfc_optional (k : req_kind) : list pair :=
  match k with
  | KCode _ ver redirect =>
      match ver with Some v => [(s2b "code_verifier", v)] | None => [] end
  | KIntrospect _ h | KRevoke _ h =>
      match h with Some h => [(s2b "token_type_hint", h)] | None => [] end
  | _ => []
  end.

Definition protocol_names : list bytes :=
  map s2b ["grant_type"; "code"; "code_verifier"; "refresh_token"; "username"; "password";
           "device_code"; "token"; "token_type_hint"; "scope"; "client_id"; "client_secret";
           "redirect_uri"]%string.

Fixpoint count_name (n : bytes) (ps : list pair) : nat :=
  match ps with
  | [] => O
  | (k, _) :: ps' => (if bytes_eqb n k then 1 else 0) + count_name n ps'
  end.

Fixpoint lookup (n : bytes) (ps : list pair) : option bytes :=
  match ps with
  | [] => None
  | (k, v) :: ps' => if bytes_eqb n k then Some v else lookup n ps'
  end.
