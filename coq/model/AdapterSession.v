(* A whole device-flow poll session whose exchanges go through one of the bundled HTTP adapters,
   beside the same session with an in-memory client that is handed the servers' replies directly.
   One exchange, as DeviceAccessTokenRequest::process_response sees it: the adapter's Ok(response)
   is classified by endpoint_response with the device error family (model/Http.v classify_poll),
   the adapter's Err is a transport failure.  [idx] is the numbering of decisive results a script
   of model/DevicePoll.v uses (any numbering). *)
From OA Require Import Bytes Requests Adapters Endpoint DevicePoll DeviceKinds Http.
From Coq Require Import ZArith.
Local Open Scope N_scope.

Section Session.
  Variable idx : result -> N.

  Definition to_reply (c : poll_class) : reply :=
    match c with
    | PCPending => RPending
    | PCSlowDown => RSlowDown
    | PCFailure => RFailure
    | PCDecisive r => RDecisive (idx r)
    end.

  (* what an in-memory client makes of a server behaviour: the reply itself, or a transport error *)
  Definition exchange_direct (s : server_behaviour) : reply :=
    to_reply match s with
             | SReply r => classify_poll (w_status r) (w_ct r) (w_body r)
             | SFault => PCFailure
             end.

  (* the same exchange through adapter [a] *)
  Definition exchange_via (a : adapter) (s : server_behaviour) : reply :=
    to_reply match adapter_call a s with
             | Some r => classify_poll (w_status r) (w_ct r) (w_body r)
             | None => PCFailure
             end.

  Definition session_direct (c : poll_cfg) (clock : list Z) (servers : list server_behaviour) :=
    poll_run c clock (map exchange_direct servers).
  Definition session_via (a : adapter) (c : poll_cfg) (clock : list Z)
             (servers : list server_behaviour) :=
    poll_run c clock (map (exchange_via a) servers).

  (* an adapter that reports replies of some statuses as errors instead of handing them over
     (the pinned ureq adapter did so for every status >= 400; a later variant for >= 500) *)
  Definition exchange_hiding (hide : N -> bool) (s : server_behaviour) : reply :=
    to_reply match s with
             | SReply r => if hide (w_status r) then PCFailure
                           else classify_poll (w_status r) (w_ct r) (w_body r)
             | SFault => PCFailure
             end.
End Session.
