(* Model of the new_url_type! macro of src/types.rs (AuthUrl, TokenUrl, RedirectUrl,
   IntrospectionUrl, RevocationUrl, DeviceAuthorizationUrl, EndUserVerificationUrl): a pair
   (parsed Url, the caller's String).  Parametric in the URL parser: [parse s] is
   Url::parse(s) rendered by Url::to_string (None = ParseError). *)
From OA Require Import Bytes.

(* Rust's Ord for String: lexicographic on bytes *)
Fixpoint bytes_cmp (a b : bytes) : comparison :=
  match a, b with
  | [], [] => Eq
  | [], _ :: _ => Lt
  | _ :: _, [] => Gt
  | x :: a', y :: b' =>
      match N.compare (bn x) (bn y) with
      | Eq => bytes_cmp a' b'
      | c => c
      end
  end.

Section UrlTypes.
  Variable parse : bytes -> option bytes.

  Record urlval := { uv_url : bytes; uv_text : bytes }.

  Definition url_new (s : bytes) : option urlval :=
    match parse s with Some u => Some {| uv_url := u; uv_text := s |} | None => None end.
  (* from_url(url): the text is url.to_string() *)
  Definition url_from_url (u : bytes) : urlval := {| uv_url := u; uv_text := u |}.

  Definition url_display (v : urlval) : bytes := uv_text v.     (* Display, Deref<String> *)
  Definition url_serialize (v : urlval) : bytes := uv_text v.   (* serialize_str(&self.1) *)
  Definition url_deserialize (s : bytes) : option urlval := url_new s.
  Definition url_eqb (a b : urlval) : bool := bytes_eqb (uv_text a) (uv_text b).
  Definition url_cmp (a b : urlval) : comparison := bytes_cmp (uv_text a) (uv_text b).
  Definition url_hash {H} (h : bytes -> H) (v : urlval) : H := h (uv_text v).
End UrlTypes.
