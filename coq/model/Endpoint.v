(* Model of src/endpoint.rs endpoint_response / endpoint_response_status_only /
   check_response_status / check_response_body, parametric in the two JSON decoders
   (success document and error document): the table theorems hold for ANY decoders; the
   executable instances plug in the serde models of model/Serde*.v. *)
From OA Require Import Bytes.
Local Open Scope N_scope.

(* HeaderValue::to_str succeeds on visible ASCII (32..=126) and TAB only *)
Definition visible_ascii (c : byte) : bool := (in_range 32 126 c || (bn c =? 9))%bool.

(* content_type.to_str().ok().filter(|ct| ct.to_lowercase().starts_with("application/json")) *)
Definition is_json_ct (v : bytes) : bool :=
  (forallb visible_ascii v && is_prefix (s2b "application/json") (lower v))%bool.

Inductive other_reason := EmptyErrorBody | BadContentType | EmptySuccessBody | Unbuildable.

Inductive outcome (T E RE : Type) :=
| OSuccess (v : T)
| OServer (e : E)
| OParse (body : bytes)
| OOther (why : other_reason)
| ORequest (e : RE).      (* the caller's transport error, unchanged *)
Arguments OSuccess {T E RE}. Arguments OServer {T E RE}. Arguments OParse {T E RE}.
Arguments OOther {T E RE}. Arguments ORequest {T E RE}.

Section Endpoint.
  Variables T E RE : Type.
  Variable parse_ok : bytes -> option T.
  Variable parse_err : bytes -> option E.

  (* check_response_status: Some error for a non-200 reply *)
  Definition check_status (status : N) (body : bytes) : option (outcome T E RE) :=
    if status =? 200 then None
    else match body with
         | [] => Some (OOther EmptyErrorBody)
         | _ => match parse_err body with
                | Some e => Some (OServer e)
                | None => Some (OParse body)
                end
         end.

  (* check_response_body: Content-Type (first header value, if any) then emptiness *)
  Definition check_body (ct : option bytes) (body : bytes) : option (outcome T E RE) :=
    match ct with
    | Some v => if is_json_ct v then
                  match body with [] => Some (OOther EmptySuccessBody) | _ => None end
                else Some (OOther BadContentType)
    | None => match body with [] => Some (OOther EmptySuccessBody) | _ => None end
    end.

  Definition endpoint_response (status : N) (ct : option bytes) (body : bytes)
    : outcome T E RE :=
    match check_status status body with
    | Some o => o
    | None =>
        match check_body ct body with
        | Some o => o
        | None => match parse_ok body with
                  | Some v => OSuccess v
                  | None => OParse body
                  end
        end
    end.

  (* revocation: the body of a 200 is ignored *)
  Definition endpoint_response_status_only (status : N) (body : bytes)
    : option (outcome T E RE) := check_status status body.

  (* one request: prepare; call the client once; decode.  [reply] is the client. *)
  Record http_reply := { rp_status : N; rp_ct : option bytes; rp_body : bytes }.

  Definition do_request {Req : Type} (req : option Req) (client : Req -> RE + http_reply)
    : list Req * outcome T E RE :=
    match req with
    | None => ([], OOther Unbuildable)
    | Some r =>
        ([r], match client r with
              | inl e => ORequest e
              | inr rp => endpoint_response (rp_status rp) (rp_ct rp) (rp_body rp)
              end)
    end.

  Definition do_request_status_only {Req : Type} (req : option Req)
             (client : Req -> RE + http_reply) : list Req * option (outcome T E RE) :=
    match req with
    | None => ([], Some (OOther Unbuildable))
    | Some r =>
        ([r], match client r with
              | inl e => Some (ORequest e)
              | inr rp => endpoint_response_status_only (rp_status rp) (rp_body rp)
              end)
    end.
End Endpoint.
