(* Model of src/code.rs: Client::authorize_url, the AuthorizationRequest builder and url().
   The authorization endpoint enters as the url crate's own split of the configured URL
   (everything before '?'/'#', the query, the fragment).  The state generator is a caller
   closure: a function of the number of calls made so far (its call counter is part of the
   world, so "invoked exactly once per URL" is a statement). *)
From OA Require Import Bytes FormUrlencoded Requests Pkce.

Record abs_url := { u_prefix : bytes; u_query : option bytes; u_fragment : option bytes }.

Definition url_text (u : abs_url) : bytes :=
  u_prefix u
  ++ match u_query u with Some q => "?"%char :: q | None => [] end
  ++ match u_fragment u with Some f => "#"%char :: f | None => [] end.

Record auth_req := {
  ar_endpoint : abs_url;
  ar_client_id : bytes;
  ar_extra : list pair;
  ar_pkce : option challenge;
  ar_redirect : option bytes;
  ar_response_type : bytes;
  ar_scopes : list bytes;
  ar_state : bytes
}.

(* Client::authorize_url(state_fn): calls state_fn once *)
Definition authorize_url (ep : abs_url) (client_id : bytes) (default_redirect : option bytes)
           (gen : nat -> bytes) (calls : nat) : auth_req * nat :=
  ({| ar_endpoint := ep; ar_client_id := client_id; ar_extra := []; ar_pkce := None;
      ar_redirect := default_redirect; ar_response_type := s2b "code"; ar_scopes := [];
      ar_state := gen calls |}, S calls).

Inductive auth_op :=
| AddScope (s : bytes) | AddScopes (l : list bytes) | AddExtra (n v : bytes)
| UseImplicit | SetResponseType (r : bytes) | SetPkce (c : challenge) | SetRedirect (u : bytes).

Definition apply_auth_op (r : auth_req) (o : auth_op) : auth_req :=
  match o with
  | AddScope s =>
      {| ar_endpoint := ar_endpoint r; ar_client_id := ar_client_id r; ar_extra := ar_extra r;
         ar_pkce := ar_pkce r; ar_redirect := ar_redirect r;
         ar_response_type := ar_response_type r; ar_scopes := ar_scopes r ++ [s];
         ar_state := ar_state r |}
  | AddScopes l =>
      {| ar_endpoint := ar_endpoint r; ar_client_id := ar_client_id r; ar_extra := ar_extra r;
         ar_pkce := ar_pkce r; ar_redirect := ar_redirect r;
         ar_response_type := ar_response_type r; ar_scopes := ar_scopes r ++ l;
         ar_state := ar_state r |}
  | AddExtra n v =>
      {| ar_endpoint := ar_endpoint r; ar_client_id := ar_client_id r;
         ar_extra := ar_extra r ++ [(n, v)];
         ar_pkce := ar_pkce r; ar_redirect := ar_redirect r;
         ar_response_type := ar_response_type r; ar_scopes := ar_scopes r;
         ar_state := ar_state r |}
  | UseImplicit =>
      {| ar_endpoint := ar_endpoint r; ar_client_id := ar_client_id r; ar_extra := ar_extra r;
         ar_pkce := ar_pkce r; ar_redirect := ar_redirect r;
         ar_response_type := s2b "token"; ar_scopes := ar_scopes r; ar_state := ar_state r |}
  | SetResponseType t =>
      {| ar_endpoint := ar_endpoint r; ar_client_id := ar_client_id r; ar_extra := ar_extra r;
         ar_pkce := ar_pkce r; ar_redirect := ar_redirect r;
         ar_response_type := t; ar_scopes := ar_scopes r; ar_state := ar_state r |}
  | SetPkce c =>
      {| ar_endpoint := ar_endpoint r; ar_client_id := ar_client_id r; ar_extra := ar_extra r;
         ar_pkce := Some c; ar_redirect := ar_redirect r;
         ar_response_type := ar_response_type r; ar_scopes := ar_scopes r;
         ar_state := ar_state r |}
  | SetRedirect u =>
      {| ar_endpoint := ar_endpoint r; ar_client_id := ar_client_id r; ar_extra := ar_extra r;
         ar_pkce := ar_pkce r; ar_redirect := Some u;
         ar_response_type := ar_response_type r; ar_scopes := ar_scopes r;
         ar_state := ar_state r |}
  end.

(* the pairs url() generates itself, in the order of the code *)
Definition auth_main_pairs (r : auth_req) : list pair :=
  [(s2b "response_type", ar_response_type r); (s2b "client_id", ar_client_id r);
   (s2b "state", ar_state r)]
  ++ match ar_pkce r with
     | Some c => [(s2b "code_challenge", ch_value c); (s2b "code_challenge_method", ch_method c)]
     | None => []
     end
  ++ redirect_pairs (ar_redirect r)
  ++ match join [space] (ar_scopes r) with
     | [] => []
     | sc => [(s2b "scope", sc)]
     end.

Definition query0 (u : abs_url) : bytes := match u_query u with Some q => q | None => [] end.

(* AuthorizationRequest::url(): two extend_pairs on url.query_pairs_mut() *)
Definition url_of (r : auth_req) : abs_url * bytes :=
  ({| u_prefix := u_prefix (ar_endpoint r);
      u_query := Some (form_append (form_append (query0 (ar_endpoint r)) (auth_main_pairs r))
                                   (ar_extra r));
      u_fragment := u_fragment (ar_endpoint r) |},
   ar_state r).

(* specification helpers: what a sequence of builder calls means *)
Fixpoint last_response_type (ops : list auth_op) (cur : bytes) : bytes :=
  match ops with
  | [] => cur
  | UseImplicit :: ops' => last_response_type ops' (s2b "token")
  | SetResponseType t :: ops' => last_response_type ops' t
  | _ :: ops' => last_response_type ops' cur
  end.
Fixpoint last_redirect (ops : list auth_op) (cur : option bytes) : option bytes :=
  match ops with
  | [] => cur
  | SetRedirect u :: ops' => last_redirect ops' (Some u)
  | _ :: ops' => last_redirect ops' cur
  end.
Fixpoint last_pkce (ops : list auth_op) (cur : option challenge) : option challenge :=
  match ops with
  | [] => cur
  | SetPkce c :: ops' => last_pkce ops' (Some c)
  | _ :: ops' => last_pkce ops' cur
  end.
Fixpoint all_scopes (ops : list auth_op) : list bytes :=
  match ops with
  | [] => []
  | AddScope s :: ops' => s :: all_scopes ops'
  | AddScopes l :: ops' => l ++ all_scopes ops'
  | _ :: ops' => all_scopes ops'
  end.
Fixpoint all_extras (ops : list auth_op) : list pair :=
  match ops with
  | [] => []
  | AddExtra n v :: ops' => (n, v) :: all_extras ops'
  | _ :: ops' => all_extras ops'
  end.
