From OA Require Import Bytes Endpoint.
From Coq Require Import Lia ZifyBool ZifyN.
Local Open Scope N_scope.

Section Proofs.
  Variables T E RE : Type.
  Variable parse_ok : bytes -> option T.
  Variable parse_err : bytes -> option E.
  Notation resp := (endpoint_response T E RE parse_ok parse_err).

  Definition ct_ok (ct : option bytes) : Prop :=
    match ct with None => True | Some v => is_json_ct v = true end.

  Lemma ct_ok_dec ct : {ct_ok ct} + {exists v, ct = Some v /\ is_json_ct v = false}.
  Proof.
    destruct ct as [v|]; cbn; [|left; exact I].
    destruct (is_json_ct v) eqn:E1; [left; reflexivity|right; exists v; auto].
  Qed.

  Lemma success_iff status ct body v :
    resp status ct body = OSuccess v <->
    status = 200 /\ ct_ok ct /\ body <> [] /\ parse_ok body = Some v.
  Proof.
    unfold endpoint_response, check_status, check_body.
    destruct (status =? 200) eqn:Es.
    - assert (status = 200) by lia.
      destruct ct as [c|]; [destruct (is_json_ct c) eqn:Ec|]; destruct body as [|b body];
        cbn [ct_ok]; try (split; [discriminate|intros (_ & ? & ? & ?); congruence]);
        destruct (parse_ok (b :: body)) eqn:Ep;
        (split; [intros H0; injection H0 as <-; repeat split; auto; discriminate
                |intros (_ & _ & _ & H0); congruence]) || (split; [discriminate|intros (_ & _ & _ & H0); congruence]).
    - assert (status <> 200) by lia.
      destruct body as [|b body]; [|destruct (parse_err (b :: body))];
        split; try discriminate; intros (? & _); contradiction.
  Qed.

  Lemma server_iff status ct body e :
    resp status ct body = OServer e <->
    status <> 200 /\ body <> [] /\ parse_err body = Some e.
  Proof.
    unfold endpoint_response, check_status, check_body.
    destruct (status =? 200) eqn:Es.
    - assert (status = 200) by lia.
      destruct ct as [c|]; [destruct (is_json_ct c)|]; destruct body as [|b body];
        try destruct (parse_ok (b :: body)); split; try discriminate; intros (? & _); contradiction.
    - assert (status <> 200) by lia.
      destruct body as [|b body].
      + split; [discriminate|intros (_ & ? & _); congruence].
      + destruct (parse_err (b :: body)) eqn:Ep; split.
        * intros H0; injection H0 as <-. repeat split; auto; discriminate.
        * intros (_ & _ & H0). congruence.
        * discriminate.
        * intros (_ & _ & H0). congruence.
  Qed.

  (* the total, disjoint decision table *)
  Lemma resp_table status ct body :
    (status <> 200 /\ body = [] /\ resp status ct body = OOther EmptyErrorBody) \/
    (status <> 200 /\ body <> [] /\ exists e, parse_err body = Some e /\ resp status ct body = OServer e) \/
    (status <> 200 /\ body <> [] /\ parse_err body = None /\ resp status ct body = OParse body) \/
    (status = 200 /\ (exists v, ct = Some v /\ is_json_ct v = false) /\
       resp status ct body = OOther BadContentType) \/
    (status = 200 /\ ct_ok ct /\ body = [] /\ resp status ct body = OOther EmptySuccessBody) \/
    (status = 200 /\ ct_ok ct /\ body <> [] /\ exists v, parse_ok body = Some v /\ resp status ct body = OSuccess v) \/
    (status = 200 /\ ct_ok ct /\ body <> [] /\ parse_ok body = None /\ resp status ct body = OParse body).
  Proof.
    unfold endpoint_response, check_status, check_body.
    destruct (status =? 200) eqn:Es.
    - assert (Hs : status = 200) by lia. do 3 right.
      destruct (ct_ok_dec ct) as [Hc|(v & -> & Hv)].
      + right.
        assert (Hb : match ct with
                     | Some v => if is_json_ct v then
                                   match body with [] => Some (OOther EmptySuccessBody) | _ => None end
                                 else Some (OOther BadContentType)
                     | None => match body with [] => Some (OOther EmptySuccessBody) | _ => None end
                     end = match body with [] => Some (@OOther T E RE EmptySuccessBody) | _ => None end).
        { destruct ct as [v|]; [cbn in Hc; rewrite Hc|]; reflexivity. }
        rewrite Hb. destruct body as [|b body].
        * left. repeat split; auto.
        * right. destruct (parse_ok (b :: body)) as [v|] eqn:Ep.
          -- left. repeat split; auto; [discriminate|]. exists v. split; reflexivity.
          -- right. repeat split; auto. discriminate.
      + left. rewrite Hv. repeat split; auto. exists v. split; auto.
    - assert (Hs : status <> 200) by lia.
      destruct body as [|b body].
      + left. repeat split; auto.
      + right. destruct (parse_err (b :: body)) as [e|] eqn:Ep.
        * left. repeat split; auto; [discriminate|]. exists e. split; reflexivity.
        * right. left. repeat split; auto. discriminate.
  Qed.

  Lemma ct_ok_excl ct v : ct_ok ct -> ct = Some v -> is_json_ct v = false -> False.
  Proof. intros H -> Hv. cbn in H. congruence. Qed.

  Lemma parse_iff status ct body b' :
    resp status ct body = OParse b' <->
    b' = body /\ body <> [] /\
    ((status <> 200 /\ parse_err body = None) \/
     (status = 200 /\ ct_ok ct /\ parse_ok body = None)).
  Proof.
    destruct (resp_table status ct body) as
      [(H1 & H2 & ->)|[(H1 & H2 & e & H3 & ->)|[(H1 & H2 & H3 & ->)|[(H1 & (v & H2 & H3) & ->)|
       [(H1 & H2 & H3 & ->)|[(H1 & H2 & H3 & v & H4 & ->)|(H1 & H2 & H3 & H4 & ->)]]]]]];
      split; try discriminate.
    - intros (_ & ? & _). contradiction.
    - intros (_ & _ & [[_ ?]|[? _]]); congruence.
    - intros H0; injection H0 as <-. auto.
    - intros (-> & _). reflexivity.
    - intros (_ & _ & [[? _]|(_ & Hc & _)]); [contradiction|]. exfalso. eapply ct_ok_excl; eauto.
    - intros (_ & ? & _). contradiction.
    - intros (_ & _ & [[? _]|(_ & _ & ?)]); congruence.
    - intros H0; injection H0 as <-. auto 6.
    - intros (-> & _). reflexivity.
  Qed.

  Lemma other_iff status ct body :
    (exists why, resp status ct body = OOther why) <->
    body = [] \/ (status = 200 /\ exists v, ct = Some v /\ is_json_ct v = false).
  Proof.
    destruct (resp_table status ct body) as
      [(H1 & H2 & ->)|[(H1 & H2 & e & H3 & ->)|[(H1 & H2 & H3 & ->)|[(H1 & (v & H2 & H3) & ->)|
       [(H1 & H2 & H3 & ->)|[(H1 & H2 & H3 & v & H4 & ->)|(H1 & H2 & H3 & H4 & ->)]]]]]];
      split; try (intros [? H0]; discriminate H0); try (intros _; eexists; reflexivity); auto.
    - intros [?|(? & _)]; contradiction.
    - intros [?|(? & _)]; contradiction.
    - intros _. right. split; auto. exists v. auto.
    - intros [?|(_ & w & Hw & Hw2)]; [contradiction|]. exfalso. eapply ct_ok_excl; eauto.
    - intros [?|(_ & w & Hw & Hw2)]; [contradiction|]. exfalso. eapply ct_ok_excl; eauto.
  Qed.

  Lemma never_request_error status ct body e : resp status ct body <> ORequest e.
  Proof.
    unfold endpoint_response, check_status, check_body.
    destruct (status =? 200); destruct ct as [c|]; try destruct (is_json_ct c);
      destruct body as [|b body]; try destruct (parse_ok (b :: body));
      try destruct (parse_err (b :: body)); discriminate.
  Qed.

  (* revocation *)
  Lemma status_only_ok status body :
    endpoint_response_status_only T E RE parse_err status body = None <-> status = 200.
  Proof.
    unfold endpoint_response_status_only, check_status.
    destruct (status =? 200) eqn:Es; [split; [lia|reflexivity]|].
    destruct body as [|b body]; [|destruct (parse_err (b :: body))]; split; try discriminate; lia.
  Qed.

  Lemma status_only_error status body o :
    endpoint_response_status_only T E RE parse_err status body = Some o ->
    status <> 200 /\
    match body with
    | [] => o = OOther EmptyErrorBody
    | _ => match parse_err body with Some e => o = OServer e | None => o = OParse body end
    end.
  Proof.
    unfold endpoint_response_status_only, check_status.
    destruct (status =? 200) eqn:Es; [discriminate|].
    intros H. split; [lia|].
    destruct body as [|b body]; [congruence|].
    destruct (parse_err (b :: body)); congruence.
  Qed.

  (* one request = exactly one client call (none when the request cannot be built); a transport
     error is returned unchanged *)
  Lemma do_request_calls {Req} (req : option Req) client :
    fst (do_request T E RE parse_ok parse_err req client) =
      match req with Some r => [r] | None => [] end /\
    (req = None -> snd (do_request T E RE parse_ok parse_err req client) = OOther Unbuildable) /\
    (forall r e, req = Some r -> client r = inl e ->
       snd (do_request T E RE parse_ok parse_err req client) = ORequest e) /\
    (forall r rp, req = Some r -> client r = inr rp ->
       snd (do_request T E RE parse_ok parse_err req client) =
       resp (rp_status rp) (rp_ct rp) (rp_body rp)).
  Proof.
    destruct req as [r|]; cbn; repeat split; try congruence.
    - intros r0 e H0 H1. injection H0 as <-. rewrite H1. reflexivity.
    - intros r0 rp H0 H1. injection H0 as <-. rewrite H1. reflexivity.
  Qed.
End Proofs.

Lemma status_only_spec (E RE : Type) (parse_err : bytes -> option E) status body :
  (endpoint_response_status_only unit E RE parse_err status body = None <-> status = 200) /\
  (forall o, endpoint_response_status_only unit E RE parse_err status body = Some o ->
     status <> 200 /\
     match body with
     | [] => o = OOther EmptyErrorBody
     | _ => match parse_err body with Some e => o = OServer e | None => o = OParse body end
     end).
Proof.
  split.
  - apply (status_only_ok unit E RE (fun _ => None) parse_err).
  - apply (status_only_error unit E RE (fun _ => None) parse_err).
Qed.
