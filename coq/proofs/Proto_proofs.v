(* The line protocol of lib/Proto.v loses nothing: every token the model prints is read back as
   the value it stands for, tokens contain neither the word separator nor the list separator, and a
   line of tokens splits back into those tokens.  So two different cases or observations never
   share a line on the model side of the correspondence run, and what Run.v parses from a line
   the generators wrote with the same grammar is what they meant. *)
From OA Require Import Bytes Proto FormUrlencoded_proofs.
From Coq Require Import ZArith Lia List.
Import ListNotations.
Local Open Scope N_scope.

(* ---- bytes <-> hex -------------------------------------------------------------------- *)

Lemma all_bytes_byte (P : byte -> Prop) :
  (forall b0 b1 b2 b3 b4 b5 b6 b7, P (Ascii.Ascii b0 b1 b2 b3 b4 b5 b6 b7)) -> forall c, P c.
Proof. intros H [b0 b1 b2 b3 b4 b5 b6 b7]. apply H. Qed.

Lemma unhex_hex_byte c rest :
  unhex (hex_byte c ++ rest) =
  match unhex rest with Some r => Some (c :: r) | None => None end.
Proof.
  revert c. apply all_bytes_byte.
  intros [] [] [] [] [] [] [] []; cbn [hex_byte app]; (destruct (unhex rest) eqn:E;
    [ unfold unhex; fold unhex; rewrite E; vm_compute; reflexivity
    | unfold unhex; fold unhex; rewrite E; vm_compute; reflexivity ]).
Qed.

Lemma unhex_hex s : unhex (hex s) = Some s.
Proof.
  induction s as [|c s IH]; [reflexivity|].
  change (hex (c :: s)) with (hex_byte c ++ hex s). rewrite unhex_hex_byte, IH. reflexivity.
Qed.

Theorem untok_tok_bytes s : untok_bytes (tok_bytes s) = Some s.
Proof. unfold untok_bytes, tok_bytes. apply unhex_hex. Qed.

Theorem tok_bytes_injective a b : tok_bytes a = tok_bytes b -> a = b.
Proof.
  intros H. assert (E : untok_bytes (tok_bytes a) = untok_bytes (tok_bytes b)) by (rewrite H; reflexivity).
  rewrite !untok_tok_bytes in E. congruence.
Qed.

Theorem untok_tok_opt o : untok_opt (tok_opt o) = Some o.
Proof.
  destruct o as [s|]; [|reflexivity].
  unfold tok_opt.
  change (untok_opt (tok_bytes s)) with (option_map Some (untok_bytes (tok_bytes s))).
  rewrite untok_tok_bytes. reflexivity.
Qed.

(* hex digits are neither blanks nor commas nor '-' nor '.' : a byte-string token never contains a
   separator of the line or list grammar *)
Definition tok_char_ok (c : byte) : bool :=
  negb (Ascii.eqb c space) && negb (Ascii.eqb c ","%char) && negb (Ascii.eqb c "-"%char)
  && negb (Ascii.eqb c "."%char) && negb (Ascii.eqb c "|"%char) && negb (Ascii.eqb c ";"%char).

Lemma hex_byte_ok c : forallb tok_char_ok (hex_byte c) = true.
Proof.
  revert c. apply all_bytes_byte. intros [] [] [] [] [] [] [] []; vm_compute; reflexivity.
Qed.

Lemma hex_ok s : forallb tok_char_ok (hex s) = true.
Proof.
  induction s as [|c s IH]; [reflexivity|].
  change (hex (c :: s)) with (hex_byte c ++ hex s). rewrite forallb_app. rewrite hex_byte_ok. exact IH.
Qed.

Theorem tok_bytes_ok s : forallb tok_char_ok (tok_bytes s) = true.
Proof. unfold tok_bytes. cbn [forallb]. rewrite hex_ok. reflexivity. Qed.

(* ---- decimal numbers --------------------------------------------------------------------- *)

Lemma digit_ok x : x < 10 -> is_digit (nb (48 + x)) = true /\ bn (nb (48 + x)) - 48 = x.
Proof.
  intros H.
  assert (Hx : x = 0 \/ x = 1 \/ x = 2 \/ x = 3 \/ x = 4 \/ x = 5 \/ x = 6 \/ x = 7 \/ x = 8 \/ x = 9) by lia.
  repeat (destruct Hx as [->|Hx]; [vm_compute; split; reflexivity|]). subst. vm_compute. split; reflexivity.
Qed.

Lemma dec_fuel_spec fuel :
  forall n acc a, n < 2 ^ N.of_nat fuel ->
    exists k, N_of_dec_aux a (dec_of_pos_fuel fuel n acc) = N_of_dec_aux (a * 10 ^ k + n) acc.
Proof.
  induction fuel as [|f IH]; intros n acc a Hn.
  - exists 0. cbn [dec_of_pos_fuel]. change (2 ^ N.of_nat 0) with 1 in Hn.
    replace n with 0 by lia. rewrite N.pow_0_r, N.mul_1_r, N.add_0_r. reflexivity.
  - cbn [dec_of_pos_fuel].
    assert (Hr : n mod 10 < 10) by (apply N.mod_lt; lia).
    destruct (digit_ok _ Hr) as [Hd Hv].
    destruct (N.eqb_spec (n / 10) 0) as [Hq|Hq].
    + exists 1. cbn [N_of_dec_aux]. rewrite Hd, Hv. f_equal.
      rewrite N.pow_1_r. pose proof (N.div_mod n 10). lia.
    + assert (Hlt : n / 10 < 2 ^ N.of_nat f).
      { rewrite Nat2N.inj_succ, N.pow_succ_r' in Hn.
        assert (0 < 2 ^ N.of_nat f) by (apply N.neq_0_lt_0, N.pow_nonzero; lia).
        pose proof (N.div_mod n 10). remember (2 ^ N.of_nat f) as P. lia. }
      destruct (IH (n / 10) (nb (48 + n mod 10) :: acc) a Hlt) as [k Hk].
      exists (k + 1). rewrite Hk. cbn [N_of_dec_aux]. rewrite Hd, Hv. f_equal.
      rewrite N.pow_add_r, N.pow_1_r. pose proof (N.div_mod n 10). lia.
Qed.

Lemma dec_fuel_nonempty fuel n acc : dec_of_pos_fuel (S fuel) n acc <> [].
Proof.
  revert n acc. induction fuel as [|f IH]; intros n acc.
  - cbn [dec_of_pos_fuel]. destruct (N.eqb (n / 10) 0); discriminate.
  - change (dec_of_pos_fuel (S (S f)) n acc)
      with (let d := nb (48 + n mod 10) in
            if N.eqb (n / 10) 0 then d :: acc else dec_of_pos_fuel (S f) (n / 10) (d :: acc)).
    cbv zeta. destruct (N.eqb (n / 10) 0); [discriminate|apply IH].
Qed.

Theorem N_of_dec_of_N n : N_of_dec (dec_of_N n) = Some n.
Proof.
  unfold dec_of_N, N_of_dec.
  pose proof (dec_fuel_nonempty (N.to_nat (N.size n)) n []) as Hne.
  destruct (dec_of_pos_fuel (S (N.to_nat (N.size n))) n []) eqn:E; [contradiction|].
  rewrite <- E.
  assert (Hn : n < 2 ^ N.of_nat (S (N.to_nat (N.size n)))).
  { rewrite Nat2N.inj_succ, N2Nat.id, N.pow_succ_r'.
    pose proof (N.size_gt n).
    assert (0 < 2 ^ N.size n) by (apply N.neq_0_lt_0, N.pow_nonzero; lia). lia. }
  destruct (dec_fuel_spec _ n [] 0 Hn) as [k Hk]. rewrite Hk. cbn [N_of_dec_aux]. f_equal; lia.
Qed.

Theorem dec_of_N_injective a b : dec_of_N a = dec_of_N b -> a = b.
Proof.
  intros H. assert (E : N_of_dec (dec_of_N a) = N_of_dec (dec_of_N b)) by (rewrite H; reflexivity).
  rewrite !N_of_dec_of_N in E. congruence.
Qed.

(* a decimal number consists of digits only: no separator *)
Lemma dec_fuel_digits fuel : forall n acc, forallb is_digit acc = true -> forallb is_digit (dec_of_pos_fuel fuel n acc) = true.
Proof.
  induction fuel as [|f IH]; intros n acc Ha; [exact Ha|].
  cbn [dec_of_pos_fuel].
  assert (Hr : n mod 10 < 10) by (apply N.mod_lt; lia).
  destruct (digit_ok _ Hr) as [Hd _].
  destruct (N.eqb (n / 10) 0).
  - cbn [forallb]. rewrite Hd, Ha. reflexivity.
  - apply IH. cbn [forallb]. rewrite Hd, Ha. reflexivity.
Qed.

Theorem dec_of_N_digits n : forallb is_digit (dec_of_N n) = true.
Proof. apply dec_fuel_digits. reflexivity. Qed.

Theorem untok_tok_optN o : untok_optN (tok_optN o) = Some o.
Proof.
  destruct o as [n|]; [|reflexivity].
  unfold tok_optN, untok_optN.
  pose proof (dec_of_N_digits n) as Hd. pose proof (N_of_dec_of_N n) as Hn.
  destruct (dec_of_N n) as [|c [|c' r]] eqn:E.
  - rewrite Hn. reflexivity.
  - cbn [forallb] in Hd. apply andb_prop in Hd. destruct Hd as [Hc _].
    destruct (Ascii.eqb_spec c "-"%char) as [->|Hne]; [vm_compute in Hc; discriminate|].
    assert (X : match [c] with ["-"%char] => Some None | _ => option_map Some (N_of_dec [c]) end
                = option_map Some (N_of_dec [c])).
    { destruct c as [[] [] [] [] [] [] [] []]; try reflexivity. exfalso. apply Hne. reflexivity. }
    rewrite X, Hn. reflexivity.
  - rewrite Hn. destruct c as [[] [] [] [] [] [] [] []]; reflexivity.
Qed.

Theorem Z_of_dec_of_Z z : Z_of_dec (dec_of_Z z) = Some z.
Proof.
  unfold dec_of_Z, Z_of_dec. destruct (Z.ltb_spec z 0) as [Hneg|Hpos].
  - rewrite N_of_dec_of_N. cbn [option_map]. f_equal. lia.
  - pose proof (dec_of_N_digits (Z.to_N z)) as Hd. pose proof (N_of_dec_of_N (Z.to_N z)) as Hn.
    destruct (dec_of_N (Z.to_N z)) as [|c r] eqn:E.
    + rewrite Hn. cbn [option_map]. f_equal. lia.
    + cbn [forallb] in Hd. apply andb_prop in Hd. destruct Hd as [Hc _].
      destruct (Ascii.eqb_spec c "-"%char) as [->|Hne]; [vm_compute in Hc; discriminate|].
      assert (X : match c :: r with "-"%char :: r0 => option_map (fun n => Z.opp (Z.of_N n)) (N_of_dec r0)
                                  | _ => option_map Z.of_N (N_of_dec (c :: r)) end
                  = option_map Z.of_N (N_of_dec (c :: r))).
      { destruct c as [[] [] [] [] [] [] [] []]; try reflexivity. exfalso. apply Hne. reflexivity. }
      rewrite X, Hn. cbn [option_map]. f_equal. lia.
Qed.

(* ---- lines ------------------------------------------------------------------------------- *)

Definition no_space (t : bytes) : bool := forallb (fun c => negb (Ascii.eqb c space)) t.

Lemma split_on_cons_nosep sep c s :
  Ascii.eqb c sep = false ->
  split_on sep (c :: s) = match split_on sep s with [] => [[c]] | w :: ws => (c :: w) :: ws end.
Proof. intros H. cbn [split_on]. rewrite H. reflexivity. Qed.

Lemma split_on_app_nosep sep t rest :
  forallb (fun c => negb (Ascii.eqb c sep)) t = true ->
  split_on sep (t ++ sep :: rest) = t :: split_on sep rest.
Proof.
  induction t as [|c t IH]; intros H.
  - cbn [app split_on]. rewrite Ascii.eqb_refl. reflexivity.
  - cbn [forallb] in H. apply andb_prop in H. destruct H as [Hc Ht].
    apply Bool.negb_true_iff in Hc.
    change ((c :: t) ++ sep :: rest) with (c :: (t ++ sep :: rest)).
    rewrite split_on_cons_nosep by exact Hc. rewrite (IH Ht). reflexivity.
Qed.

Lemma split_on_nosep sep t :
  forallb (fun c => negb (Ascii.eqb c sep)) t = true -> split_on sep t = [t].
Proof.
  induction t as [|c t IH]; intros H; [reflexivity|].
  cbn [forallb] in H. apply andb_prop in H. destruct H as [Hc Ht]. apply Bool.negb_true_iff in Hc.
  rewrite split_on_cons_nosep by exact Hc. rewrite (IH Ht). reflexivity.
Qed.

(* a line of separator-free tokens splits back into exactly those tokens *)
Theorem words_unwords l :
  l <> [] -> forallb no_space l = true -> words (unwords l) = l.
Proof.
  unfold words, unwords. induction l as [|t l IH]; intros Hne Hall; [contradiction|].
  cbn [forallb] in Hall. apply andb_prop in Hall. destruct Hall as [Ht Hl].
  destruct l as [|t' l'].
  - cbn [join]. apply split_on_nosep. exact Ht.
  - change (join [space] (t :: t' :: l')) with (t ++ [space] ++ join [space] (t' :: l')).
    cbn [app]. rewrite split_on_app_nosep by exact Ht. f_equal. apply IH; [discriminate|exact Hl].
Qed.

(* lists of byte strings as one token *)
Lemma split_commas l :
  l <> [] -> split_on ","%char (join [","%char] (map tok_bytes l)) = map tok_bytes l.
Proof.
  induction l as [|s l IH]; intros Hne; [contradiction|].
  assert (Hs : forallb (fun c => negb (Ascii.eqb c ","%char)) (tok_bytes s) = true).
  { pose proof (tok_bytes_ok s) as H. rewrite forallb_forall in *. intros c Hc. specialize (H c Hc).
    unfold tok_char_ok in H. rewrite !Bool.andb_true_iff in H. tauto. }
  destruct l as [|s' l'].
  - cbn [map join]. apply split_on_nosep. exact Hs.
  - change (join [","%char] (map tok_bytes (s :: s' :: l')))
      with (tok_bytes s ++ [","%char] ++ join [","%char] (map tok_bytes (s' :: l'))).
    cbn [app]. rewrite split_on_app_nosep by exact Hs. cbn [map]. f_equal. apply IH. discriminate.
Qed.

Lemma sequence_untok l : sequence_opt (map untok_bytes (map tok_bytes l)) = Some l.
Proof.
  induction l as [|s l IH]; [reflexivity|].
  cbn [map sequence_opt]. rewrite untok_tok_bytes, IH. reflexivity.
Qed.

Theorem untok_tok_list l : untok_list (tok_list l) = Some l.
Proof.
  destruct l as [|s l]; [reflexivity|].
  unfold tok_list, untok_list.
  assert (Hsplit := split_commas (s :: l) ltac:(discriminate)).
  destruct (join [","%char] (map tok_bytes (s :: l))) as [|c r] eqn:E.
  - (* impossible: the first token starts with 'x' *)
    exfalso. destruct l; cbn in E; discriminate.
  - assert (Hc : c = "x"%char).
    { destruct l; cbn in E; injection E; intros; subst; reflexivity. }
    subst c. rewrite Hsplit. apply sequence_untok.
Qed.
