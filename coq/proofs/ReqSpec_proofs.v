From OA Require Import Bytes FormUrlencoded FormUrlencoded_proofs Base64 Base64_proofs
     Requests Requests_proofs Pkce AuthUrl AuthUrl_proofs ReqSpec.

Lemma pair_eqb_refl p : pair_eqb p p = true.
Proof. unfold pair_eqb. rewrite !bytes_eqb_refl. reflexivity. Qed.

Lemma perm_eqb_refl l : perm_eqb l l = true.
Proof. induction l as [|p l IH]; cbn; [reflexivity|]. rewrite pair_eqb_refl. exact IH. Qed.

Lemma pairs_eqb_refl l : pairs_eqb l l = true.
Proof. induction l as [|p l IH]; cbn; [reflexivity|]. rewrite pair_eqb_refl. exact IH. Qed.

Lemma opt_eqb_refl o : opt_eqb o o = true.
Proof. destruct o; cbn; [apply bytes_eqb_refl|reflexivity]. Qed.

Lemma count_name_app n a b : count_name n (a ++ b) = count_name n a + count_name n b.
Proof.
  induction a as [|[k v] a IH]; cbn; [reflexivity|]. rewrite IH. apply PeanoNat.Nat.add_assoc.
Qed.

Lemma lookup_app_some n a b v : lookup n a = Some v -> lookup n (a ++ b) = Some v.
Proof.
  induction a as [|[k w] a IH]; cbn; [discriminate|].
  destruct (bytes_eqb n k); auto.
Qed.

Lemma strip_prefix_app p s : strip_prefix p (p ++ s) = Some s.
Proof. induction p as [|x p IH]; cbn; [reflexivity|]. rewrite Ascii.eqb_refl. exact IH. Qed.

Lemma is_prefix_app p s : is_prefix p (p ++ s) = true.
Proof. induction p as [|x p IH]; cbn; [reflexivity|]. rewrite Ascii.eqb_refl. exact IH. Qed.

(* the model's request always satisfies the C01 statement *)
Lemma c01_model_ok c ep k extra r :
  request_of c ep k extra = Some r -> c01_okb c ep k extra r = true.
Proof.
  intros H. unfold c01_okb.
  destruct (envelope _ _ _ _ _ H) as (Hm & Ht & _ & _ & _ & _).
  rewrite (body_alphabet _ _ _ _ _ H), (request_body_exact _ _ _ _ _ H).
  rewrite Hm, Ht, !bytes_eqb_refl.
  unfold request_of in H. destruct (ep_uri_ok ep); [|discriminate]. injection H as <-.
  cbn [rq_headers]. unfold req_headers, header_once.
  replace (intended c k extra) with (all_pairs c k extra).
  2:{ unfold intended, all_pairs. rewrite lib_pairs_intended. rewrite <- !app_assoc. reflexivity. }
  rewrite perm_eqb_refl.
  destruct (use_basic c); reflexivity.
Qed.

Lemma read_basic_value id s : read_basic (basic_value id s) = Some (id, s).
Proof.
  unfold read_basic, basic_value. rewrite strip_prefix_app, b64_std_roundtrip.
  unfold basic_payload. rewrite split_first_serialize, !form_decode_serialize. reflexivity.
Qed.

Lemma c02_model_ok c ep k extra r :
  request_of c ep k extra = Some r -> c02_okb c ep extra r = true.
Proof.
  intros H. unfold c02_okb. cbv zeta.
  destruct (envelope _ _ _ _ _ H) as (_ & Ht & _).
  rewrite (request_body_exact _ _ _ _ _ H), Ht, bytes_eqb_refl. cbn [andb].
  unfold all_pairs. rewrite !count_name_app.
  destruct (use_basic c) as [s|] eqn:Hb.
  - destruct (basic_header _ _ _ _ _ _ H Hb) as (H1 & H2 & _ & _ & _ & _ & H7 & H8).
    apply use_basic_spec in Hb. destruct Hb as [Ha Hs]. rewrite Ha, Hs.
    rewrite H1, H2, H7, H8. change (s2b "Basic " ++ b64_std_encode (basic_payload (cr_id c) s))
      with (basic_value (cr_id c) s). rewrite read_basic_value. cbv beta iota. rewrite !bytes_eqb_refl.
    cbn [Nat.eqb andb plus]. rewrite !PeanoNat.Nat.eqb_refl. reflexivity.
  - destruct (body_credentials _ _ _ _ _ H Hb) as (H1 & H2 & H3 & H4 & H5).
    rewrite H1, H2, H4, (lookup_app_some _ _ _ _ H3), opt_eqb_refl.
    assert (Hm : match cr_auth c, cr_secret c with BasicAuth, Some _ => False | _, _ => True end).
    { unfold use_basic in Hb. destruct (cr_auth c), (cr_secret c); try exact I. discriminate. }
    destruct (cr_auth c), (cr_secret c) as [s|] eqn:Es; try contradiction;
      cbn [Nat.eqb andb plus opt_eqb]; rewrite ?PeanoNat.Nat.eqb_refl; cbn [andb];
      try (rewrite (lookup_app_some _ _ _ _ H5), opt_eqb_refl); reflexivity.
Qed.

(* C03: the model's URL always satisfies the statement *)
Lemma firstn_app_exact {A} (a b : list A) : firstn (length a) (a ++ b) = a.
Proof. induction a; cbn; [reflexivity|]. f_equal. assumption. Qed.
Lemma skipn_app_exact {A} (a b : list A) : skipn (length a) (a ++ b) = b.
Proof. induction a; cbn; [reflexivity|]. assumption. Qed.

Lemma c03_model_ok ep id dr gen calls ops :
  let '(r0, calls') := authorize_url ep id dr gen calls in
  let '(u, st) := url_of (fold_left apply_auth_op ops r0) in
  c03_okb ep id (gen calls) dr ops calls u st calls' = true.
Proof.
  cbn [authorize_url].
  pose proof (fold_ops_spec ops
    {| ar_endpoint := ep; ar_client_id := id; ar_extra := []; ar_pkce := None;
       ar_redirect := dr; ar_response_type := s2b "code"; ar_scopes := [];
       ar_state := gen calls |}) as Hf.
  cbn zeta in Hf. cbn [ar_endpoint ar_client_id ar_extra ar_pkce ar_redirect ar_response_type
                        ar_scopes ar_state app] in Hf.
  destruct Hf as (H1 & H2 & H3 & H4 & H5 & H6 & H7 & H8).
  set (r := fold_left apply_auth_op ops _) in *.
  unfold url_of, c03_okb. cbn [u_prefix u_fragment u_query].
  rewrite H1, H3, !bytes_eqb_refl, opt_eqb_refl, PeanoNat.Nat.eqb_refl.
  rewrite form_append_app.
  destruct (form_append_prefix (query0 ep) (auth_main_pairs r ++ ar_extra r)) as [t Ht].
  rewrite Ht at 1. rewrite is_prefix_app.
  rewrite form_parse_append, firstn_app_exact, skipn_app_exact, pairs_eqb_refl.
  assert (E : auth_main_pairs r ++ ar_extra r = intended_auth id (gen calls) dr ops).
  { unfold intended_auth, auth_main_pairs. rewrite H2, H3, H4, H5, H6, H7, H8.
    rewrite <- !app_assoc. reflexivity. }
  match goal with |- context [perm_eqb ?a ?b] =>
    assert (P : perm_eqb a b = true)
      by (change a with (auth_main_pairs r ++ ar_extra r); rewrite E; apply perm_eqb_refl);
    rewrite P
  end. reflexivity.
Qed.
