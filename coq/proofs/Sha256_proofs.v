(* Lemmas and test vectors for Sha256.v. *)
From OA Require Import Bytes Sha256.
Open Scope N_scope.
Open Scope string_scope.

(* NB: Bytes.v exports both List and String, so a bare [length] is [String.length];
   list length is written [List.length] throughout. *)

(* ---- the digest is always 32 bytes ---- *)

Lemma word_bytes_length (w : N) : List.length (word_bytes w) = 4%nat.
Proof. reflexivity. Qed.

Lemma flat_map_word_bytes_length (l : list N) :
  List.length (flat_map word_bytes l) = (4 * List.length l)%nat.
Proof.
  induction l as [|w l IH].
  - reflexivity.
  - change (flat_map word_bytes (w :: l)) with (word_bytes w ++ flat_map word_bytes l)%list.
    rewrite app_length, word_bytes_length, IH. cbn [List.length]. lia.
Qed.

Lemma state_words_length (st : state) : List.length (state_words st) = 8%nat.
Proof. reflexivity. Qed.

Theorem sha256_length : forall s, List.length (sha256 s) = 32%nat.
Proof.
  intros s. unfold sha256.
  rewrite flat_map_word_bytes_length, state_words_length. reflexivity.
Qed.

(* ---- standard test vectors (FIPS 180-4 / NIST CAVP examples) ---- *)

Example sha256_empty :
  sha_hex (sha256 (s2b "")) =
  "e3b0c44298fc1c149afbf4c8996fb92427ae41e4649b934ca495991b7852b855".
Proof. vm_compute. reflexivity. Qed.

Example sha256_abc :
  sha_hex (sha256 (s2b "abc")) =
  "ba7816bf8f01cfea414140de5dae2223b00361a396177a9cb410ff61f20015ad".
Proof. vm_compute. reflexivity. Qed.

(* 56 bytes: the padding spills into a second block. *)
Example sha256_two_blocks :
  sha_hex (sha256 (s2b "abcdbcdecdefdefgefghfghighijhijkijkljklmklmnlmnomnopnopq")) =
  "248d6a61d20638b8e5c026930c3e6039a33ce45964ff2167f6ecedd419db06c1".
Proof. vm_compute. reflexivity. Qed.

(* RFC 7636 appendix B: code_verifier -> SHA-256 octets. *)
Example sha256_rfc7636_appendix_b :
  map bn (sha256 (s2b "dBjftJeZ4CVP-mB92K27uhbUJU1p1r_wW1gFWFOEjXk")) =
  [19; 211; 30; 150; 26; 26; 216; 236; 47; 22; 177; 12; 76; 152; 46; 8;
   118; 168; 120; 173; 109; 241; 68; 86; 110; 225; 137; 74; 203; 112; 249; 195].
Proof. vm_compute. reflexivity. Qed.

(* ---- padding boundaries; expected digests from `printf '%s' ... | sha256sum` ---- *)

(* 55 bytes: the longest message whose padding fits in one block (no zero bytes). *)
Example sha256_len55 :
  let m := s2b "The quick brown fox jumps over the lazy dog. 0123456789" in
  (List.length m, sha_hex (sha256 m)) =
  (55%nat, "d855d0c9a3d559a7e9d91c56c02c4e28d18cde27b747648e3d6ddbeabbddfbc3").
Proof. vm_compute. reflexivity. Qed.

(* 56 bytes: the shortest message that needs a second block. *)
Example sha256_len56 :
  let m := s2b "The quick brown fox jumps over the lazy dog. 0123456789 " in
  (List.length m, sha_hex (sha256 m)) =
  (56%nat, "4c29623b41a1dc8b530f9481f82a054c4989e13cdae679ce6cfd221379ef57ce").
Proof. vm_compute. reflexivity. Qed.

(* 63 bytes: only the 0x80 fits in the first block. *)
Example sha256_len63 :
  let m := s2b "The quick brown fox jumps over the lazy dog. 0123456789 ABCDEFG" in
  (List.length m, sha_hex (sha256 m)) =
  (63%nat, "2f606d9c4100f04459f8be2f604e6c9cd0e14bae27bc7f3a3fdfe888a0bb11f9").
Proof. vm_compute. reflexivity. Qed.

(* 64 bytes: exactly one block of message, one whole block of padding. *)
Example sha256_len64 :
  let m := s2b "The quick brown fox jumps over the lazy dog. 0123456789 ABCDEFGH" in
  (List.length m, sha_hex (sha256 m)) =
  (64%nat, "307900c9f7b64751209251bfb7ca411fe9fe92172cd105ce88c4e233f883fdaa").
Proof. vm_compute. reflexivity. Qed.

(* 119 bytes: the longest message that fits in two blocks. *)
Example sha256_len119 :
  let m := s2b "The quick brown fox jumps over the lazy dog. 0123456789 ABCDEFGHIJKLMNOPQRSTUVWXYZ abcdefghijklmnopqrstuvwxyz !#$%&()*+" in
  (List.length m, sha_hex (sha256 m)) =
  (119%nat, "80382013b596b6dfc59db8daaa0990c758e81583e10cdb67445ed429c29a9dac").
Proof. vm_compute. reflexivity. Qed.

(* 120 bytes: the shortest message that needs three blocks. *)
Example sha256_len120 :
  let m := s2b "The quick brown fox jumps over the lazy dog. 0123456789 ABCDEFGHIJKLMNOPQRSTUVWXYZ abcdefghijklmnopqrstuvwxyz !#$%&()*+," in
  (List.length m, sha_hex (sha256 m)) =
  (120%nat, "ac202697a9c3334c9d2e2f06d19b3217ced95825090f8585697a0c6ea995ec55").
Proof. vm_compute. reflexivity. Qed.

Print Assumptions sha256_rfc7636_appendix_b.
Print Assumptions sha256_length.
