From OA Require Import Bytes FormUrlencoded FormUrlencoded_proofs Base64 Base64_proofs Requests.

(* ---------- C01 ---------------------------------------------------------------------------- *)

Lemma request_body_exact c ep k extra r :
  request_of c ep k extra = Some r ->
  form_parse (rq_body r) = all_pairs c k extra.
Proof.
  unfold request_of. destruct (ep_uri_ok ep); [|discriminate].
  intros H. injection H as <-. cbn [rq_body]. apply form_roundtrip.
Qed.

Lemma request_unbuildable c ep k extra :
  request_of c ep k extra = None <-> ep_uri_ok ep = false.
Proof. unfold request_of. destruct (ep_uri_ok ep); split; congruence. Qed.

Lemma lib_pairs_intended c k :
  lib_pairs c k =
  rfc_required k ++ rfc_optional k ++ scope_pairs (kind_scopes k) ++ cred_pairs c
  ++ redirect_pairs (kind_redirect k).
Proof.
  unfold lib_pairs. destruct k; cbn [kind_params rfc_required rfc_optional kind_scopes kind_redirect];
    try reflexivity.
Qed.

(* replacing one value changes what a form decoder reads only at that position *)
Lemma no_injection (ps1 ps2 : list pair) n v :
  form_parse (form_serialize (ps1 ++ (n, v) :: ps2)) = ps1 ++ (n, v) :: ps2.
Proof. apply form_roundtrip. Qed.

Lemma body_alphabet c ep k extra r :
  request_of c ep k extra = Some r -> forallb form_charb (rq_body r) = true.
Proof.
  unfold request_of. destruct (ep_uri_ok ep); [|discriminate].
  intros H. injection H as <-. apply form_serialize_alphabetb.
Qed.

Lemma envelope c ep k extra r :
  request_of c ep k extra = Some r ->
  rq_method r = s2b "POST" /\ rq_target r = strip_fragment (ep_text ep) /\
  In h_accept (rq_headers r) /\ In h_content_type (rq_headers r) /\
  count_name (s2b "accept") (rq_headers r) = 1 /\
  count_name (s2b "content-type") (rq_headers r) = 1.
Proof.
  unfold request_of. destruct (ep_uri_ok ep); [|discriminate].
  intros H. injection H as <-. cbn [rq_method rq_target rq_headers]. unfold req_headers.
  repeat split; try (cbn; tauto); destruct (use_basic c); reflexivity.
Qed.

Lemma strip_fragment_no_hash s : ~ In "#"%char (strip_fragment s).
Proof.
  induction s as [|c s IH]; cbn; [tauto|].
  destruct (Ascii.eqb c "#") eqn:E; cbn; [tauto|].
  intros [H|H]; [|tauto]. subst c. discriminate E.
Qed.

Lemma strip_fragment_prefix s : exists t, s = strip_fragment s ++ t.
Proof.
  induction s as [|c s [t IH]]; cbn; [exists []; reflexivity|].
  destruct (Ascii.eqb c "#"); [exists (c :: s); reflexivity|].
  exists t. cbn. f_equal. exact IH.
Qed.

Lemma strip_fragment_id s : ~ In "#"%char s -> strip_fragment s = s.
Proof.
  induction s as [|c s IH]; cbn; [reflexivity|]. intros H.
  destruct (Ascii.eqb c "#") eqn:E.
  - apply Ascii.eqb_eq in E. subst c. tauto.
  - f_equal. apply IH. tauto.
Qed.

(* every pair the library generates has a name that occurs exactly once among them *)
Lemma lib_pairs_once c k :
  Forall (fun p => count_name (fst p) (lib_pairs c k) = 1) (lib_pairs c k).
Proof.
  destruct c as [a id sec]. unfold lib_pairs, cred_pairs, use_basic. cbn [cr_auth cr_secret cr_id].
  destruct k as [code ver red|t sc|u p sc|sc|sc|dc|t h|t h];
    cbn [kind_params kind_scopes kind_redirect scope_pairs redirect_pairs];
    try destruct ver; try destruct red; try destruct h; try (destruct sc as [|s0 sc]);
    destruct a; destruct sec; cbn [app]; repeat constructor.
Qed.

Lemma lookup_scope c k :
  lookup (s2b "scope") (lib_pairs c k) =
  match kind_scopes k with Some (s :: l) => Some (join [space] (s :: l)) | _ => None end.
Proof.
  destruct c as [a id sec]. unfold lib_pairs, cred_pairs, use_basic. cbn [cr_auth cr_secret cr_id].
  destruct k as [code ver red|t sc|u p sc|sc|sc|dc|t h|t h];
    cbn [kind_params kind_scopes kind_redirect scope_pairs redirect_pairs];
    try destruct ver; try destruct red; try destruct h; try (destruct sc as [|s0 sc]);
    destruct a; destruct sec; reflexivity.
Qed.

Lemma lookup_redirect c k :
  lookup (s2b "redirect_uri") (lib_pairs c k) = kind_redirect k.
Proof.
  destruct c as [a id sec]. unfold lib_pairs, cred_pairs, use_basic. cbn [cr_auth cr_secret cr_id].
  destruct k as [code ver red|t sc|u p sc|sc|sc|dc|t h|t h];
    cbn [kind_params kind_scopes kind_redirect scope_pairs redirect_pairs];
    try destruct ver; try destruct red; try destruct h; try (destruct sc as [|s0 sc]);
    destruct a; destruct sec; reflexivity.
Qed.

Definition kind_verifier (k : req_kind) : option bytes :=
  match k with KCode _ v _ => v | _ => None end.
Definition kind_hint (k : req_kind) : option bytes :=
  match k with KIntrospect _ h | KRevoke _ h => h | _ => None end.

Lemma lookup_verifier c k :
  lookup (s2b "code_verifier") (lib_pairs c k) = kind_verifier k.
Proof.
  destruct c as [a id sec]. unfold lib_pairs, cred_pairs, use_basic. cbn [cr_auth cr_secret cr_id].
  destruct k as [code ver red|t sc|u p sc|sc|sc|dc|t h|t h];
    cbn [kind_params kind_scopes kind_redirect scope_pairs redirect_pairs kind_verifier];
    try destruct ver; try destruct red; try destruct h; try (destruct sc as [|s0 sc]);
    destruct a; destruct sec; reflexivity.
Qed.

Lemma lookup_hint c k :
  lookup (s2b "token_type_hint") (lib_pairs c k) = kind_hint k.
Proof.
  destruct c as [a id sec]. unfold lib_pairs, cred_pairs, use_basic. cbn [cr_auth cr_secret cr_id].
  destruct k as [code ver red|t sc|u p sc|sc|sc|dc|t h|t h];
    cbn [kind_params kind_scopes kind_redirect scope_pairs redirect_pairs kind_hint];
    try destruct ver; try destruct red; try destruct h; try (destruct sc as [|s0 sc]);
    destruct a; destruct sec; reflexivity.
Qed.

(* ---------- C02 ---------------------------------------------------------------------------- *)

Lemma use_basic_spec c s :
  use_basic c = Some s <-> cr_auth c = BasicAuth /\ cr_secret c = Some s.
Proof.
  unfold use_basic. destruct (cr_auth c), (cr_secret c); intuition congruence.
Qed.

Lemma use_basic_none c :
  use_basic c = None <-> cr_auth c = RequestBody \/ cr_secret c = None.
Proof.
  unfold use_basic. destruct (cr_auth c), (cr_secret c); intuition congruence.
Qed.

Lemma form_decode_serialize s : form_decode (byte_serialize s) = s.
Proof. unfold form_decode. apply percent_decode_plus_serialize. Qed.

Lemma basic_header c ep k extra r s :
  request_of c ep k extra = Some r -> use_basic c = Some s ->
  count_name (s2b "authorization") (rq_headers r) = 1 /\
  lookup (s2b "authorization") (rq_headers r) =
    Some (s2b "Basic " ++ b64_std_encode (basic_payload (cr_id c) s)) /\
  b64_std_decode (b64_std_encode (basic_payload (cr_id c) s)) = Some (basic_payload (cr_id c) s) /\
  split_first ":"%char (basic_payload (cr_id c) s)
    = Some (byte_serialize (cr_id c), byte_serialize s) /\
  form_decode (byte_serialize (cr_id c)) = cr_id c /\ form_decode (byte_serialize s) = s /\
  count_name (s2b "client_id") (lib_pairs c k) = 0 /\
  count_name (s2b "client_secret") (lib_pairs c k) = 0.
Proof.
  unfold request_of. destruct (ep_uri_ok ep); [|discriminate].
  intros H Hb. injection H as <-. cbn [rq_headers]. unfold req_headers. rewrite Hb.
  repeat split; try reflexivity.
  - apply b64_std_roundtrip.
  - apply split_first_serialize.
  - apply form_decode_serialize.
  - apply form_decode_serialize.
  - unfold lib_pairs, cred_pairs. rewrite Hb.
    destruct k as [code ver red|t sc|u p sc|sc|sc|dc|t h|t h];
      cbn [kind_params kind_scopes kind_redirect scope_pairs redirect_pairs];
      try destruct ver; try destruct red; try destruct h; try (destruct sc as [|s0 sc]); reflexivity.
  - unfold lib_pairs, cred_pairs. rewrite Hb.
    destruct k as [code ver red|t sc|u p sc|sc|sc|dc|t h|t h];
      cbn [kind_params kind_scopes kind_redirect scope_pairs redirect_pairs];
      try destruct ver; try destruct red; try destruct h; try (destruct sc as [|s0 sc]); reflexivity.
Qed.

Lemma body_credentials c ep k extra r :
  request_of c ep k extra = Some r -> use_basic c = None ->
  count_name (s2b "authorization") (rq_headers r) = 0 /\
  count_name (s2b "client_id") (lib_pairs c k) = 1 /\
  lookup (s2b "client_id") (lib_pairs c k) = Some (cr_id c) /\
  count_name (s2b "client_secret") (lib_pairs c k)
    = match cr_secret c with Some _ => 1 | None => 0 end /\
  lookup (s2b "client_secret") (lib_pairs c k) = cr_secret c.
Proof.
  unfold request_of. destruct (ep_uri_ok ep); [|discriminate].
  intros H Hb. injection H as <-. cbn [rq_headers]. unfold req_headers. rewrite Hb.
  split; [reflexivity|].
  unfold lib_pairs, cred_pairs. rewrite Hb.
  destruct k as [code ver red|t sc|u p sc|sc|sc|dc|t h|t h];
    cbn [kind_params kind_scopes kind_redirect scope_pairs redirect_pairs];
    try destruct ver; try destruct red; try destruct h; try (destruct sc as [|s0 sc]);
    destruct (cr_secret c); repeat split; reflexivity.
Qed.

Lemma target_only_endpoint c c' ep k k' extra extra' r r' :
  request_of c ep k extra = Some r -> request_of c' ep k' extra' = Some r' ->
  rq_target r = rq_target r'.
Proof.
  unfold request_of. destruct (ep_uri_ok ep); [|discriminate].
  intros H H'. injection H as <-. injection H' as <-. reflexivity.
Qed.

Lemma revoke_pairs c t h :
  lookup (s2b "token") (lib_pairs c (KRevoke t h)) = Some t /\
  lookup (s2b "token_type_hint") (lib_pairs c (KRevoke t h)) = h /\
  count_name (s2b "token") (lib_pairs c (KRevoke t h)) = 1.
Proof.
  split; [|split].
  - destruct c as [a id sec]. unfold lib_pairs, cred_pairs, use_basic. cbn.
    destruct h, a, sec; reflexivity.
  - exact (lookup_hint c (KRevoke t h)).
  - destruct c as [a id sec]. unfold lib_pairs, cred_pairs, use_basic. cbn.
    destruct h, a, sec; reflexivity.
Qed.
