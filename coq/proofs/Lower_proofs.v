From OA Require Import Bytes Lower.
From Coq Require Import Lia ZifyBool ZifyN.
Local Open Scope N_scope.

Lemma bn_lt c : bn c < 256.
Proof. unfold bn. apply N_ascii_bounded. Qed.
Lemma bn_nb n : n < 256 -> bn (nb n) = n.
Proof. intros H. unfold bn, nb. apply N_ascii_embedding. exact H. Qed.

Lemma bn_lower_byte c :
  bn (lower_byte c) = if (65 <=? bn c) && (bn c <=? 90) then bn c + 32 else bn c.
Proof.
  unfold lower_byte, is_upper, in_range.
  destruct ((65 <=? bn c) && (bn c <=? 90)) eqn:E; [|reflexivity].
  apply bn_nb. pose proof (bn_lt c). lia.
Qed.

Lemma lower_byte_idem c : lower_byte (lower_byte c) = lower_byte c.
Proof.
  unfold lower_byte at 1. unfold is_upper, in_range. rewrite bn_lower_byte.
  destruct ((65 <=? bn c) && (bn c <=? 90)) eqn:E.
  - destruct ((65 <=? bn c + 32) && (bn c + 32 <=? 90)) eqn:E2; [lia|reflexivity].
  - rewrite E. reflexivity.
Qed.

Lemma pair_lower_none_ge a b :
  (a = 195 -> 159 <= b) -> (a = 208 -> 176 <= b) -> (a = 206 -> 170 <= b) ->
  (a = 199 -> b = 134 \/ b = 137 \/ b = 140 \/ 179 <= b) -> pair_lower a b = None.
Proof.
  intros H1 H2 H3 H4. unfold pair_lower.
  destruct (a =? 195) eqn:E1.
  - destruct ((128 <=? b) && (b <=? 158) && negb (b =? 151)) eqn:E; [lia|reflexivity].
  - destruct (a =? 208) eqn:E2.
    + destruct ((128 <=? b) && (b <=? 143)) eqn:Ea; [lia|].
      destruct ((144 <=? b) && (b <=? 159)) eqn:Eb; [lia|].
      destruct ((160 <=? b) && (b <=? 175)) eqn:Ec; [lia|reflexivity].
    + destruct (a =? 206) eqn:E3.
      * destruct ((145 <=? b) && (b <=? 159)) eqn:Ea; [lia|].
        destruct ((160 <=? b) && (b <=? 161)) eqn:Eb; [lia|].
        destruct ((164 <=? b) && (b <=? 169)) eqn:Ec; [lia|reflexivity].
      * destruct (a =? 199) eqn:E4; [|reflexivity].
        destruct ((b =? 132) || (b =? 133)) eqn:Fa; [lia|].
        destruct ((b =? 135) || (b =? 136)) eqn:Fb; [lia|].
        destruct ((b =? 138) || (b =? 139)) eqn:Fc; [lia|].
        destruct ((b =? 177) || (b =? 178)) eqn:Fd; [lia|reflexivity].
Qed.

(* the shapes an upper-case pair can map to *)
Lemma pair_lower_cases a b x y :
  pair_lower a b = Some (x, y) ->
  (x = 195 /\ 160 <= y <= 190) \/ (x = 209 /\ 128 <= y <= 159) \/ (x = 208 /\ 176 <= y <= 191) \/
  (x = 206 /\ 177 <= y <= 191) \/ (x = 207 /\ 128 <= y <= 137) \/
  (x = 199 /\ (y = 134 \/ y = 137 \/ y = 140 \/ y = 179)).
Proof.
  unfold pair_lower.
  destruct (a =? 195) eqn:E1.
  - destruct ((128 <=? b) && (b <=? 158) && negb (b =? 151)) eqn:E; [|discriminate].
    intros H. injection H as <- <-. lia.
  - destruct (a =? 208) eqn:E2.
    + destruct ((128 <=? b) && (b <=? 143)) eqn:Ea; [intros H; injection H as <- <-; lia|].
      destruct ((144 <=? b) && (b <=? 159)) eqn:Eb; [intros H; injection H as <- <-; lia|].
      destruct ((160 <=? b) && (b <=? 175)) eqn:Ec; [intros H; injection H as <- <-; lia|discriminate].
    + destruct (a =? 206) eqn:E3.
      * destruct ((145 <=? b) && (b <=? 159)) eqn:Ea; [intros H; injection H as <- <-; lia|].
        destruct ((160 <=? b) && (b <=? 161)) eqn:Eb; [intros H; injection H as <- <-; lia|].
        destruct ((164 <=? b) && (b <=? 169)) eqn:Ec; [intros H; injection H as <- <-; lia|discriminate].
      * destruct (a =? 199) eqn:E4; [|discriminate].
        destruct ((b =? 132) || (b =? 133)) eqn:Fa; [intros H; injection H as <- <-; lia|].
        destruct ((b =? 135) || (b =? 136)) eqn:Fb; [intros H; injection H as <- <-; lia|].
        destruct ((b =? 138) || (b =? 139)) eqn:Fc; [intros H; injection H as <- <-; lia|].
        destruct ((b =? 177) || (b =? 178)) eqn:Fd; [intros H; injection H as <- <-; lia|discriminate].
Qed.

(* an upper-case pair maps to a pair that is not upper-case, whose first byte is >= 195 and
   whose second byte is a continuation byte *)
Lemma pair_lower_out a b x y :
  pair_lower a b = Some (x, y) ->
  195 <= x < 256 /\ 128 <= y <= 191 /\ pair_lower x y = None.
Proof.
  intros H. apply pair_lower_cases in H.
  repeat split; try lia. apply pair_lower_none_ge; lia.
Qed.

(* only the three lead bytes start an upper-case pair, and its second byte is in 128..175 *)
Lemma pair_lower_some_in a b p :
  pair_lower a b = Some p -> (a = 195 \/ a = 208 \/ a = 206 \/ a = 199) /\ 128 <= b <= 178.
Proof.
  unfold pair_lower.
  destruct (a =? 195) eqn:E1.
  - destruct ((128 <=? b) && (b <=? 158) && negb (b =? 151)) eqn:E; [|discriminate]. intros _. lia.
  - destruct (a =? 208) eqn:E2.
    + destruct ((128 <=? b) && (b <=? 143)) eqn:Ea; [intros _; lia|].
      destruct ((144 <=? b) && (b <=? 159)) eqn:Eb; [intros _; lia|].
      destruct ((160 <=? b) && (b <=? 175)) eqn:Ec; [intros _; lia|discriminate].
    + destruct (a =? 206) eqn:E3.
      * destruct ((145 <=? b) && (b <=? 159)) eqn:Ea; [intros _; lia|].
        destruct ((160 <=? b) && (b <=? 161)) eqn:Eb; [intros _; lia|].
        destruct ((164 <=? b) && (b <=? 169)) eqn:Ec; [intros _; lia|discriminate].
      * destruct (a =? 199) eqn:E4; [|discriminate].
        destruct ((b =? 132) || (b =? 133)) eqn:Fa; [intros _; lia|].
        destruct ((b =? 135) || (b =? 136)) eqn:Fb; [intros _; lia|].
        destruct ((b =? 138) || (b =? 139)) eqn:Fc; [intros _; lia|].
        destruct ((b =? 177) || (b =? 178)) eqn:Fd; [intros _; lia|discriminate].
Qed.

Lemma pair_lower_none_first a b : a <> 195 -> a <> 208 -> a <> 206 -> a <> 199 -> pair_lower a b = None.
Proof.
  intros. destruct (pair_lower a b) eqn:E; [|reflexivity].
  apply pair_lower_some_in in E. lia.
Qed.
Lemma pair_lower_none_second a b : (b < 128 \/ 178 < b) -> pair_lower a b = None.
Proof.
  intros. destruct (pair_lower a b) eqn:E; [|reflexivity].
  apply pair_lower_some_in in E. lia.
Qed.

(* first byte of the lowering of a non-empty string *)
Lemma lower_tt_head (d : ascii) (r : list ascii) :
  exists (t0 : ascii) (t' : list ascii), lower_tt (d :: r) = t0 :: t' /\
                (bn t0 = bn (lower_byte d) \/ 195 <= bn t0).
Proof.
  cbn [lower_tt]. destruct r as [|e r].
  - eexists _, _. split; [reflexivity|]. left. reflexivity.
  - destruct (pair_lower (bn d) (bn e)) as [[x y]|] eqn:E.
    + eexists _, _. split; [reflexivity|]. right.
      destruct (pair_lower_out _ _ _ _ E) as (Hx & _). rewrite bn_nb; lia.
    + eexists _, _. split; [reflexivity|]. left. reflexivity.
Qed.

Lemma lower_tt_none (c d : ascii) (r : list ascii) :
  pair_lower (bn c) (bn d) = None -> lower_tt (c :: d :: r) = lower_byte c :: lower_tt (d :: r).
Proof. intros H. cbn [lower_tt]. rewrite H. reflexivity. Qed.
Lemma lower_tt_some (c d : ascii) (r : list ascii) x y :
  pair_lower (bn c) (bn d) = Some (x, y) -> lower_tt (c :: d :: r) = nb x :: nb y :: lower_tt r.
Proof. intros H. cbn [lower_tt]. rewrite H. reflexivity. Qed.
Lemma lower_tt_single (c : ascii) : lower_tt [c] = [lower_byte c].
Proof. reflexivity. Qed.

Lemma lower_byte_high x : 128 <= x < 256 -> lower_byte (nb x) = nb x.
Proof.
  intros H. unfold lower_byte, is_upper, in_range. rewrite bn_nb by lia.
  destruct ((65 <=? x) && (x <=? 90)) eqn:F; [lia|reflexivity].
Qed.

Lemma lower_tt_idem_len n : forall s, (length s <= n)%nat -> lower_tt (lower_tt s) = lower_tt s.
Proof.
  induction n as [|n IH]; intros s Hl.
  - destruct s; [reflexivity|cbn in Hl; lia].
  - destruct s as [|c s']; [reflexivity|].
    destruct s' as [|d r].
    + rewrite !lower_tt_single, lower_byte_idem. reflexivity.
    + destruct (pair_lower (bn c) (bn d)) as [[x y]|] eqn:E.
      * rewrite (lower_tt_some _ _ _ _ _ E).
        destruct (pair_lower_out _ _ _ _ E) as (Hx & Hy & Hxy).
        assert (IHr : lower_tt (lower_tt r) = lower_tt r) by (apply IH; cbn in Hl; lia).
        rewrite lower_tt_none by (rewrite !bn_nb by lia; exact Hxy).
        rewrite lower_byte_high by lia. f_equal.
        destruct (lower_tt r) as [|t0 t'] eqn:Er.
        -- rewrite lower_tt_single, lower_byte_high by lia. reflexivity.
        -- rewrite lower_tt_none.
           ++ rewrite lower_byte_high by lia. f_equal. exact IHr.
           ++ rewrite bn_nb by lia. apply pair_lower_none_first; lia.
      * rewrite (lower_tt_none _ _ _ E).
        assert (IHs : lower_tt (lower_tt (d :: r)) = lower_tt (d :: r)) by (apply IH; cbn in Hl |- *; lia).
        destruct (lower_tt_head d r) as (t0 & t' & Ht & Hcase).
        rewrite Ht in IHs. rewrite Ht.
        assert (Hn : pair_lower (bn (lower_byte c)) (bn t0) = None).
        { rewrite bn_lower_byte.
          destruct ((65 <=? bn c) && (bn c <=? 90)) eqn:Fc.
          - apply pair_lower_none_first; lia.
          - destruct Hcase as [Hc|Hc].
            + rewrite Hc, bn_lower_byte.
              destruct ((65 <=? bn d) && (bn d <=? 90)) eqn:Fd.
              * apply pair_lower_none_second. lia.
              * exact E.
            + apply pair_lower_none_second. lia. }
        rewrite (lower_tt_none _ _ _ Hn), lower_byte_idem, IHs. reflexivity.
Qed.

Lemma lower_tt_idem s : lower_tt (lower_tt s) = lower_tt s.
Proof. apply (lower_tt_idem_len (length s)). lia. Qed.

(* on ASCII-only strings it is plain ASCII lowercasing *)
Lemma lower_tt_ascii s : forallb (fun c => bn c <? 128) s = true -> lower_tt s = lower s.
Proof.
  induction s as [|c s IH]; [reflexivity|].
  cbn [forallb]. intros H. apply andb_true_iff in H. destruct H as [Hc Hs].
  cbn [lower_tt lower map]. destruct s as [|d r].
  - reflexivity.
  - rewrite (pair_lower_none_first (bn c)) by lia.
    f_equal. apply IH. exact Hs.
Qed.

Example lower_tt_examples :
  lower_tt (map nb [195; 137; 67; 76; 65; 73; 82]) = map nb [195; 169; 99; 108; 97; 105; 114] /\
  lower_tt (s2b "BeArEr") = s2b "bearer" /\
  lower_tt (map nb [208; 159; 208; 160; 206; 169; 206; 163]) = map nb [208; 191; 209; 128; 207; 137; 206; 163].
Proof. vm_compute. repeat split. Qed.
