(* Facts about the concrete flows of model/Http.v: the Endpoint table instantiated with the serde
   decoders, and the tie between the poll-loop reply classes and that table. *)
From OA Require Import Bytes Json ErrorCodes Endpoint Endpoint_proofs Serde SerdeSpec Serde_proofs
     DevicePoll DeviceKinds Http.
Local Open Scope N_scope.

(* the scripted server behaviours used by the C07/C08/C17 runs are classified by the
   Endpoint + JSON + serde model exactly as model/DeviceKinds.v says *)
Lemma kinds_consistent : forallb kind_consistent kinds = true.
Proof. vm_compute. reflexivity. Qed.

Section Token.
  Context {EF : Type} (ef : ef_schema EF).

  (* a non-200 reply never yields a token, whatever its body — even a well-formed token document *)
  Lemma non200_never_token status ct body v :
    token_outcome ef status ct body = OSuccess v -> status = 200.
  Proof. intros H. apply success_iff in H. tauto. Qed.

  (* a 200 whose body is a JSON object without a string access_token (e.g. only an RFC 6749
     error document) never yields a token *)
  Lemma error_doc_200_never_token ct body m v :
    json_parse body = Some (JObj m) ->
    (forall s, find_key (s2b "access_token") m <> Some (JStr s true)) ->
    token_outcome ef 200 ct body <> OSuccess v.
  Proof.
    intros Hp Hn H. apply success_iff in H. destruct H as (_ & _ & _ & H).
    unfold from_body in H. rewrite Hp in H. rewrite (token_reject ef m) in H; [discriminate|].
    left. exact Hn.
  Qed.

  (* a token is returned only for a body that IS a JSON document (nothing but whitespace after
     it) of the expected shape *)
  Lemma token_needs_whole_document status ct body v :
    token_outcome ef status ct body = OSuccess v ->
    exists j, json_parse body = Some j /\ decode_token ef j = Some v.
  Proof.
    intros H. apply success_iff in H. destruct H as (_ & _ & _ & H).
    unfold from_body in H. destruct (json_parse body) as [j|]; [|discriminate].
    exists j. auto.
  Qed.
End Token.
