From OA Require Import Bytes UrlTypes.
From Coq Require Import Lia ZifyN.

Lemma bn_inj x y : bn x = bn y -> x = y.
Proof.
  unfold bn. intros H. rewrite <- (ascii_N_embedding x), <- (ascii_N_embedding y), H. reflexivity.
Qed.

Lemma bytes_cmp_refl a : bytes_cmp a a = Eq.
Proof. induction a as [|x a IH]; cbn; [reflexivity|]. rewrite N.compare_refl. exact IH. Qed.

Lemma bytes_cmp_eq a : forall b, bytes_cmp a b = Eq <-> a = b.
Proof.
  induction a as [|x a IH]; intros [|y b]; cbn; split; try congruence; try reflexivity.
  - destruct (N.compare (bn x) (bn y)) eqn:E; try discriminate.
    intros H. apply N.compare_eq in E. apply bn_inj in E. apply IH in H. congruence.
  - intros H. injection H as -> ->. rewrite N.compare_refl. apply bytes_cmp_refl.
Qed.

Lemma bytes_cmp_antisym a : forall b, bytes_cmp b a = CompOpp (bytes_cmp a b).
Proof.
  induction a as [|x a IH]; intros [|y b]; cbn; try reflexivity.
  rewrite (N.compare_antisym (bn x) (bn y)).
  destruct (N.compare (bn x) (bn y)); cbn; try reflexivity. apply IH.
Qed.

Lemma bytes_cmp_trans_lt a : forall b c,
  bytes_cmp a b = Lt -> bytes_cmp b c = Lt -> bytes_cmp a c = Lt.
Proof.
  induction a as [|x a IH]; intros [|y b] [|z c]; cbn; try congruence.
  destruct (N.compare (bn x) (bn y)) eqn:E1; destruct (N.compare (bn y) (bn z)) eqn:E2;
    try discriminate; intros H1 H2.
  - apply N.compare_eq in E1, E2. rewrite E1, E2, N.compare_refl. eapply IH; eauto.
  - apply N.compare_eq in E1. rewrite E1, E2. reflexivity.
  - apply N.compare_eq in E2. rewrite <- E2, E1. reflexivity.
  - assert (E3 : N.compare (bn x) (bn z) = Lt).
    { apply N.compare_lt_iff. apply N.compare_lt_iff in E1. apply N.compare_lt_iff in E2.
      eapply N.lt_trans; eauto. }
    rewrite E3. reflexivity.
Qed.

Section Proofs.
  Variable parse : bytes -> option bytes.

  Lemma new_iff s : (exists v, url_new parse s = Some v) <-> (exists u, parse s = Some u).
  Proof.
    unfold url_new. destruct (parse s) as [u|]; split; intros [x H]; try discriminate; eauto.
  Qed.

  Lemma new_spec s v :
    url_new parse s = Some v ->
    url_display v = s /\ url_serialize v = s /\ parse s = Some (uv_url v).
  Proof.
    unfold url_new. destruct (parse s) as [u|]; [|discriminate].
    intros H. injection H as <-. repeat split.
  Qed.

  Lemma eq_by_text a b : url_eqb a b = true <-> uv_text a = uv_text b.
  Proof. apply bytes_eqb_eq. Qed.

  Lemma cmp_eq_consistent a b : url_cmp a b = Eq <-> url_eqb a b = true.
  Proof. unfold url_cmp, url_eqb. rewrite bytes_cmp_eq, bytes_eqb_eq. reflexivity. Qed.

  Lemma eq_hash_consistent {H} (h : bytes -> H) a b :
    url_eqb a b = true -> url_hash h a = url_hash h b.
  Proof. unfold url_eqb, url_hash. intros E. apply bytes_eqb_eq in E. rewrite E. reflexivity. Qed.

  Lemma cmp_total_order a b c :
    url_cmp a a = Eq /\ url_cmp b a = CompOpp (url_cmp a b) /\
    (url_cmp a b = Lt -> url_cmp b c = Lt -> url_cmp a c = Lt).
  Proof.
    unfold url_cmp. repeat split.
    - apply bytes_cmp_refl.
    - apply bytes_cmp_antisym.
    - apply bytes_cmp_trans_lt.
  Qed.

  Lemma serde_roundtrip s v :
    url_new parse s = Some v ->
    exists v', url_deserialize parse (url_serialize v) = Some v' /\
               url_eqb v v' = true /\ uv_url v' = uv_url v.
  Proof.
    intros H. destruct (new_spec _ _ H) as (_ & Hs & Hp).
    unfold url_deserialize. rewrite Hs. exists v. split; [exact H|].
    split; [apply bytes_eqb_refl|reflexivity].
  Qed.

  Lemma deserialize_invalid s : parse s = None -> url_deserialize parse s = None.
  Proof. unfold url_deserialize, url_new. intros ->. reflexivity. Qed.

  Lemma from_url_text u : url_display (url_from_url u) = u /\ uv_url (url_from_url u) = u.
  Proof. split; reflexivity. Qed.
End Proofs.
