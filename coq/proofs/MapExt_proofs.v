(* The map-typed extension (Serde.ef_map): it is handed exactly the members the library's own
   struct does not know, and reports the set of their names. *)
From OA Require Import Bytes Json UrlTypes UrlTypes_proofs Serde.
From Coq Require Import List.
Import ListNotations.

Lemma in_insert_sorted (x y : bytes) (l : list bytes) :
  In y (insert_sorted x l) <-> y = x \/ In y l.
Proof.
  induction l as [|z l IH]; cbn [insert_sorted].
  - cbn. intuition.
  - destruct (bytes_cmp x z) eqn:E.
    + apply bytes_cmp_eq in E. subst z. cbn. intuition.
    + cbn. intuition.
    + cbn [In]. rewrite IH. intuition.
Qed.

Lemma in_sorted_names (m : obj) (k : bytes) : In k (sorted_names m) <-> In k (map fst m).
Proof.
  unfold sorted_names. induction (map fst m) as [|x l IH]; cbn [fold_right].
  - reflexivity.
  - rewrite in_insert_sorted, IH. cbn. intuition.
Qed.

Lemma in_unknown_members names (m : obj) (k : bytes) :
  In k (map fst (unknown_members names m)) <-> In k (map fst m) /\ is_known names k = false.
Proof.
  unfold unknown_members. induction m as [|[k' v] m IH]; cbn [filter map In fst].
  - intuition.
  - destruct (is_known names k') eqn:E; cbn [negb map In fst].
    + rewrite IH. split.
      * intros [H1 H2]. auto.
      * intros [[->|H1] H2]; [congruence|auto].
    + rewrite IH. split.
      * intros [->|[H1 H2]]; auto.
      * intros [[->|H1] H2]; auto.
Qed.

(* what a map-typed extension receives from a document: the names of exactly those members the
   outer struct does not know (in particular nothing is swallowed, nothing known leaks in) *)
Lemma map_ext_names names (m : obj) (k : bytes) :
  In k (sorted_names (unknown_members names m)) <-> In k (map fst m) /\ is_known names k = false.
Proof. rewrite in_sorted_names. apply in_unknown_members. Qed.

Ltac inv_decode H :=
  repeat match type of H with
         | (if ?c then _ else _) = Some _ => destruct c; [|discriminate H]
         | match ?x with Some _ => _ | None => _ end = Some _ => destruct x; [|discriminate H]
         end.

Theorem token_map_extension (m : obj) v :
  decode_token ef_map (JObj m) = Some v ->
  forall k, In k (tr_extra v) <-> In k (map fst m) /\ is_known token_names k = false.
Proof.
  intros H k. cbn [decode_token ef_decode ef_map] in H. inv_decode H.
  injection H as <-. cbn [tr_extra]. apply map_ext_names.
Qed.

Theorem introspection_map_extension (m : obj) v :
  decode_introspection ef_map (JObj m) = Some v ->
  forall k, In k (ir_extra v) <-> In k (map fst m) /\ is_known introspection_names k = false.
Proof.
  intros H k. cbn [decode_introspection ef_decode ef_map] in H. inv_decode H.
  injection H as <-. cbn [ir_extra]. apply map_ext_names.
Qed.

Theorem device_map_extension url_ok (m : obj) v :
  decode_device_auth url_ok ef_map (JObj m) = Some v ->
  forall k, In k (da_extra v) <-> In k (map fst m) /\ is_known device_names k = false.
Proof.
  intros H k. cbn [decode_device_auth ef_decode ef_map] in H. inv_decode H.
  injection H as <-. cbn [da_extra]. apply map_ext_names.
Qed.
