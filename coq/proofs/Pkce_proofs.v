From OA Require Import Bytes Base64 Base64_proofs Sha256 Sha256_proofs Pkce Secrets.
From Coq Require Import Lia ZifyNat ZifyBool ZifyN.

Lemma verifier_len_ok_spec v :
  verifier_len_ok v = true <-> (43 <= length v <= 128)%nat.
Proof. unfold verifier_len_ok. lia. Qed.

Lemma from_verifier_sha256_guard v :
  (from_verifier_sha256 v = PPanic <-> ~ (43 <= length v <= 128)%nat) /\
  (forall c, from_verifier_sha256 v = POk c ->
     (43 <= length v <= 128)%nat /\
     ch_value c = b64_url_nopad_encode (sha256 v) /\ ch_method c = s2b "S256" /\
     length (ch_value c) = 43%nat).
Proof.
  unfold from_verifier_sha256. pose proof (verifier_len_ok_spec v) as Hs.
  destruct (verifier_len_ok v); split.
  - split; [discriminate|]. intros H. exfalso. apply H. apply Hs. reflexivity.
  - intros c H. injection H as <-. cbn [ch_value ch_method].
    split; [apply Hs; reflexivity|]. split; [reflexivity|]. split; [reflexivity|].
    apply b64_url_nopad_encode_32. apply sha256_length.
  - split; [intros _ H; apply Hs in H; discriminate|reflexivity].
  - intros c H; discriminate H.
Qed.

Lemma from_verifier_plain_guard v :
  (from_verifier_plain v = PPanic <-> ~ (43 <= length v <= 128)%nat) /\
  (forall c, from_verifier_plain v = POk c ->
     (43 <= length v <= 128)%nat /\ ch_value c = v /\ ch_method c = s2b "plain").
Proof.
  unfold from_verifier_plain. pose proof (verifier_len_ok_spec v) as Hs.
  destruct (verifier_len_ok v); split.
  - split; [discriminate|]. intros H. exfalso. apply H. apply Hs. reflexivity.
  - intros c H. injection H as <-. cbn [ch_value ch_method].
    split; [apply Hs; reflexivity|]. split; reflexivity.
  - split; [intros _ H; apply Hs in H; discriminate|reflexivity].
  - intros c H; discriminate H.
Qed.

Lemma num_bytes_ok_spec n : num_bytes_ok n = true <-> (32 <= n <= 96)%N.
Proof. unfold num_bytes_ok. lia. Qed.

Lemma firstn_length_le {A} (l : list A) n : (n <= length l)%nat -> length (firstn n l) = n.
Proof. intros H. rewrite firstn_length. lia. Qed.

(* unreserved URL characters of RFC 3986: ALPHA / DIGIT / "-" / "." / "_" / "~" *)
Definition unreservedb (c : ascii) : bool :=
  (is_alnum c || Ascii.eqb c "-" || Ascii.eqb c "." || Ascii.eqb c "_" || Ascii.eqb c "~")%bool.

Lemma url_char_unreserved c : b64_url_charb c = true -> unreservedb c = true.
Proof.
  unfold b64_url_charb, unreservedb. intros H.
  apply orb_true_iff in H. destruct H as [H|H].
  - apply orb_true_iff in H. destruct H as [H|H]; rewrite H; cbn; rewrite ?orb_true_r; reflexivity.
  - rewrite H. rewrite ?orb_true_r. reflexivity.
Qed.

Lemma forallb_impl {A} (f g : A -> bool) l :
  (forall x, f x = true -> g x = true) -> forallb f l = true -> forallb g l = true.
Proof.
  intros Hfg. induction l as [|x l IH]; cbn; [reflexivity|].
  intros H. apply andb_true_iff in H. destruct H as [H1 H2].
  rewrite (Hfg _ H1), (IH H2). reflexivity.
Qed.

Lemma new_random_verifier_spec n stream :
  (new_random_verifier n stream = PPanic <-> ~ (32 <= n <= 96)%N) /\
  (forall v, new_random_verifier n stream = POk v ->
     (32 <= n <= 96)%N /\ v = b64_url_nopad_encode (firstn (N.to_nat n) stream) /\
     forallb b64_url_charb v = true /\ forallb unreservedb v = true /\
     b64_url_nopad_decode v = Some (firstn (N.to_nat n) stream) /\
     ((N.to_nat n <= length stream)%nat ->
        N.of_nat (length v) = ((4 * n + 2) / 3)%N /\ (43 <= length v <= 128)%nat)).
Proof.
  unfold new_random_verifier. pose proof (num_bytes_ok_spec n) as Hs.
  destruct (num_bytes_ok n); split.
  - split; [discriminate|]. intros H. exfalso. apply H. apply Hs. reflexivity.
  - intros v H. injection H as <-.
    assert (Hn : (32 <= n <= 96)%N) by (apply Hs; reflexivity).
    repeat split; try (apply Hn).
    + apply b64_url_nopad_alphabet.
    + apply (forallb_impl _ _ _ url_char_unreserved). apply b64_url_nopad_alphabet.
    + apply b64_url_nopad_roundtrip.
    + rewrite b64_url_nopad_length, (firstn_length_le _ _ H). rewrite N2Nat.id. reflexivity.
    + apply b64_url_nopad_encode_32_96. rewrite (firstn_length_le _ _ H). lia.
    + apply b64_url_nopad_encode_32_96. rewrite (firstn_length_le _ _ H). lia.
  - split; [intros _ H; apply Hs in H; discriminate|reflexivity].
  - intros v H; discriminate H.
Qed.

(* the generated challenge matches the generated verifier, and nothing panics for legal n *)
Lemma new_random_sha256_len_spec n stream :
  (N.to_nat n <= length stream)%nat ->
  ((32 <= n <= 96)%N ->
     exists c v, new_random_sha256_len n stream = POk (c, v) /\
                 new_random_verifier n stream = POk v /\ from_verifier_sha256 v = POk c) /\
  (~ (32 <= n <= 96)%N -> new_random_sha256_len n stream = PPanic).
Proof.
  intros Hlen. unfold new_random_sha256_len. split.
  - intros Hn. destruct (new_random_verifier n stream) as [v|] eqn:Ev.
    + destruct (proj2 (new_random_verifier_spec n stream) v Ev) as (_ & _ & _ & _ & _ & Hl).
      destruct (Hl Hlen) as [_ Hl2].
      destruct (from_verifier_sha256 v) as [c|] eqn:Ec.
      * exists c, v. repeat split; assumption.
      * apply (proj1 (from_verifier_sha256_guard v)) in Ec. contradiction.
    + apply (proj1 (new_random_verifier_spec n stream)) in Ev. contradiction.
  - intros Hn. apply (proj1 (new_random_verifier_spec n stream)) in Hn. rewrite Hn. reflexivity.
Qed.

(* RFC 7636 section 4.6 *)
Lemma server_check_s256 v c :
  from_verifier_sha256 v = POk c -> server_check (ch_method c) (ch_value c) v = true.
Proof.
  intros H. destruct (proj2 (from_verifier_sha256_guard v) c H) as (_ & Hv & Hm & _).
  unfold server_check. rewrite Hm, Hv.
  replace (bytes_eqb (s2b "S256") (s2b "S256")) with true by reflexivity.
  apply bytes_eqb_refl.
Qed.

Lemma server_check_plain v c :
  from_verifier_plain v = POk c -> server_check (ch_method c) (ch_value c) v = true.
Proof.
  intros H. destruct (proj2 (from_verifier_plain_guard v) c H) as (_ & Hv & Hm).
  unfold server_check. rewrite Hm, Hv.
  replace (bytes_eqb (s2b "plain") (s2b "S256")) with false by reflexivity.
  rewrite !bytes_eqb_refl. reflexivity.
Qed.

(* ---- C12: CSRF tokens ---------------------------------------------------------------------- *)

Lemma csrf_shape n stream :
  forallb b64_url_charb (csrf_new_random_len n stream) = true /\
  b64_url_nopad_decode (csrf_new_random_len n stream) = Some (firstn (N.to_nat n) stream) /\
  ((N.to_nat n <= length stream)%nat ->
     N.of_nat (length (csrf_new_random_len n stream)) = ((4 * n + 2) / 3)%N).
Proof.
  unfold csrf_new_random_len. repeat split.
  - apply b64_url_nopad_alphabet.
  - apply b64_url_nopad_roundtrip.
  - intros H. rewrite b64_url_nopad_length, (firstn_length_le _ _ H), N2Nat.id. reflexivity.
Qed.

Lemma csrf_injective n s1 s2 :
  csrf_new_random_len n s1 = csrf_new_random_len n s2 ->
  firstn (N.to_nat n) s1 = firstn (N.to_nat n) s2.
Proof. unfold csrf_new_random_len. apply b64_url_nopad_inj. Qed.

(* ---- C20: timing-resistant equality --------------------------------------------------------- *)

Lemma secret_eq_refl a : secret_eq a a = true.
Proof. apply bytes_eqb_refl. Qed.
Lemma secret_eq_sym a b : secret_eq a b = secret_eq b a.
Proof. apply bytes_eqb_sym. Qed.
Lemma secret_eq_trans a b c : secret_eq a b = true -> secret_eq b c = true -> secret_eq a c = true.
Proof.
  unfold secret_eq. intros H1 H2. apply bytes_eqb_eq in H1, H2. apply bytes_eqb_eq. congruence.
Qed.
Lemma secret_eq_hash {H} (h : bytes -> H) a b :
  secret_eq a b = true -> secret_hash h a = secret_hash h b.
Proof. unfold secret_eq, secret_hash. intros E. apply bytes_eqb_eq in E. rewrite E. reflexivity. Qed.
Lemma secret_eq_complete a b : a = b -> secret_eq a b = true.
Proof. intros ->. apply secret_eq_refl. Qed.
Lemma secret_eq_sound_partial a b :
  (sha256 a = sha256 b -> a = b) -> secret_eq a b = true -> a = b.
Proof. unfold secret_eq. intros Hc E. apply Hc. apply bytes_eqb_eq. exact E. Qed.
Lemma secret_eq_whole_input a b a' b' :
  sha256 a = sha256 a' -> sha256 b = sha256 b' -> secret_eq a b = secret_eq a' b'.
Proof. unfold secret_eq. intros -> ->. reflexivity. Qed.
