(* Theorems about the application/x-www-form-urlencoded serializer / parser
   defined in FormUrlencoded.v. *)
From OA Require Import Bytes FormUrlencoded.

Local Open Scope char_scope.

(* ------------------------------------------------------------------ *)
(* Exhaustive case analysis over the 256 bytes                         *)

Lemma all_bytes_complete (c : ascii) : In c all_bytes.
Proof.
  assert (H : existsb (Ascii.eqb c) all_bytes = true).
  { destruct c as [[] [] [] [] [] [] [] []]; vm_compute; reflexivity. }
  apply existsb_exists in H. destruct H as [x [Hin Heq]].
  apply Ascii.eqb_eq in Heq. subst x. exact Hin.
Qed.

Lemma forall_bytes (P : ascii -> bool) :
  forallb P all_bytes = true -> forall c, P c = true.
Proof.
  intros H c. rewrite forallb_forall in H. apply H, all_bytes_complete.
Qed.

(* ------------------------------------------------------------------ *)
(* Generic list lemmas: split_on, split_first, parse_pieces            *)

Lemma split_on_nonempty sep s : split_on sep s <> [].
Proof.
  destruct s as [|c s]; cbn [split_on]; [discriminate|].
  destruct (Ascii.eqb c sep); [discriminate|].
  destruct (split_on sep s); discriminate.
Qed.

Lemma split_on_app sep a b :
  split_on sep (a ++ sep :: b) = split_on sep a ++ split_on sep b.
Proof.
  induction a as [|c a IH]; cbn [app split_on].
  - rewrite Ascii.eqb_refl. reflexivity.
  - destruct (Ascii.eqb c sep).
    + rewrite IH. reflexivity.
    + rewrite IH. pose proof (split_on_nonempty sep a) as Hne.
      destruct (split_on sep a) as [|p ps]; [contradiction|]. reflexivity.
Qed.

Lemma split_on_absent sep s : ~ In sep s -> split_on sep s = [s].
Proof.
  induction s as [|c s IH]; intros Hni; cbn [split_on]; [reflexivity|].
  destruct (Ascii.eqb c sep) eqn:E.
  - apply Ascii.eqb_eq in E. subst c. exfalso. apply Hni. left. reflexivity.
  - rewrite IH; [reflexivity|]. intros Hin. apply Hni. right. exact Hin.
Qed.

Lemma split_first_app sep a b :
  ~ In sep a -> split_first sep (a ++ sep :: b) = Some (a, b).
Proof.
  induction a as [|c a IH]; intros Hni; cbn [app split_first].
  - rewrite Ascii.eqb_refl. reflexivity.
  - destruct (Ascii.eqb c sep) eqn:E.
    + apply Ascii.eqb_eq in E. subst c. exfalso. apply Hni. left. reflexivity.
    + rewrite IH; [reflexivity|]. intros Hin. apply Hni. right. exact Hin.
Qed.

Lemma parse_pieces_cons_ne p l :
  p <> [] -> parse_pieces (p :: l) = parse_piece p :: parse_pieces l.
Proof. destruct p; [contradiction|reflexivity]. Qed.

Lemma parse_pieces_app l1 l2 :
  parse_pieces (l1 ++ l2) = parse_pieces l1 ++ parse_pieces l2.
Proof.
  induction l1 as [|p l1 IH]; [reflexivity|].
  destruct p as [|c p]; cbn [app parse_pieces]; rewrite IH; reflexivity.
Qed.

(* ------------------------------------------------------------------ *)
(* form_parse distributes over '&'                                      *)

Theorem form_parse_app : forall a b,
  form_parse (a ++ "&"%char :: b) = form_parse a ++ form_parse b.
Proof.
  intros a b. unfold form_parse. rewrite split_on_app. apply parse_pieces_app.
Qed.

(* ------------------------------------------------------------------ *)
(* Per-byte facts (exhaustive over 256 bytes)                          *)

Lemma enc_byte_alphabet (c : ascii) : forallb enc_charb (enc_byte c) = true.
Proof.
  revert c. apply (forall_bytes (fun c => forallb enc_charb (enc_byte c))).
  vm_compute. reflexivity.
Qed.

Lemma enc_charb_form_charb (c : ascii) : enc_charb c = true -> form_charb c = true.
Proof.
  intros H.
  assert (Himp : implb (enc_charb c) (form_charb c) = true).
  { revert c H. intros c _. revert c.
    apply (forall_bytes (fun c => implb (enc_charb c) (form_charb c))).
    vm_compute. reflexivity. }
  rewrite H in Himp. exact Himp.
Qed.

(* decoding the encoding of one byte, whatever follows *)
Lemma form_decode_enc_byte (c : ascii) (t : bytes) :
  form_decode (enc_byte c ++ t) = c :: form_decode t.
Proof.
  unfold form_decode.
  destruct c as [[] [] [] [] [] [] [] []]; reflexivity.
Qed.

(* ------------------------------------------------------------------ *)
(* Alphabet of byte_serialize                                          *)

Theorem byte_serialize_alphabet : forall s,
  forallb enc_charb (byte_serialize s) = true.
Proof.
  induction s as [|c s IH]; cbn [byte_serialize]; [reflexivity|].
  rewrite forallb_app, enc_byte_alphabet, IH. reflexivity.
Qed.

Lemma byte_serialize_not_in (x : ascii) (s : bytes) :
  enc_charb x = false -> ~ In x (byte_serialize s).
Proof.
  intros Hx Hin. pose proof (byte_serialize_alphabet s) as Hall.
  rewrite forallb_forall in Hall. apply Hall in Hin. congruence.
Qed.

Corollary byte_serialize_no_colon : forall s, ~ In ":"%char (byte_serialize s).
Proof. intros s. apply byte_serialize_not_in. reflexivity. Qed.

Corollary byte_serialize_no_amp : forall s, ~ In "&"%char (byte_serialize s).
Proof. intros s. apply byte_serialize_not_in. reflexivity. Qed.

Corollary byte_serialize_no_eq : forall s, ~ In "="%char (byte_serialize s).
Proof. intros s. apply byte_serialize_not_in. reflexivity. Qed.

Corollary byte_serialize_no_delims : forall s x,
  In x [":"; "&"; "="; "#"; ";"; "?"; "/"; " "]%char -> ~ In x (byte_serialize s).
Proof.
  intros s x Hx. apply byte_serialize_not_in.
  cbn [In] in Hx.
  repeat (destruct Hx as [Hx|Hx]; [subst x; reflexivity|]). contradiction.
Qed.

(* ------------------------------------------------------------------ *)
(* Decoding an encoded string                                          *)

Lemma form_decode_serialize_app (s t : bytes) :
  form_decode (byte_serialize s ++ t) = s ++ form_decode t.
Proof.
  induction s as [|c s IH]; cbn [byte_serialize app]; [reflexivity|].
  rewrite <- app_assoc, form_decode_enc_byte, IH. reflexivity.
Qed.

Lemma form_decode_serialize (s : bytes) : form_decode (byte_serialize s) = s.
Proof.
  rewrite <- (app_nil_r (byte_serialize s)), form_decode_serialize_app.
  apply app_nil_r.
Qed.

Theorem percent_decode_plus_serialize : forall s,
  percent_decode (map plus_to_space (byte_serialize s)) = s.
Proof. exact form_decode_serialize. Qed.

Theorem byte_serialize_inj : forall a b,
  byte_serialize a = byte_serialize b -> a = b.
Proof.
  intros a b H.
  rewrite <- (form_decode_serialize a), <- (form_decode_serialize b), H.
  reflexivity.
Qed.

Theorem split_first_serialize : forall a b,
  split_first ":"%char (byte_serialize a ++ ":"%char :: byte_serialize b)
  = Some (byte_serialize a, byte_serialize b).
Proof. intros a b. apply split_first_app, byte_serialize_no_colon. Qed.

(* ------------------------------------------------------------------ *)
(* Round trip                                                          *)

Lemma pair_serialize_ne p : pair_serialize p <> [].
Proof.
  unfold pair_serialize. destruct (byte_serialize (fst p)); discriminate.
Qed.

Lemma pair_serialize_no_amp p : ~ In "&"%char (pair_serialize p).
Proof.
  unfold pair_serialize. intros Hin. apply in_app_or in Hin.
  destruct Hin as [Hin|[Hin|Hin]].
  - exact (byte_serialize_no_amp _ Hin).
  - discriminate Hin.
  - exact (byte_serialize_no_amp _ Hin).
Qed.

Lemma form_parse_pair p : form_parse (pair_serialize p) = [p].
Proof.
  unfold form_parse.
  rewrite (split_on_absent _ _ (pair_serialize_no_amp p)).
  rewrite (parse_pieces_cons_ne _ _ (pair_serialize_ne p)).
  cbn [parse_pieces]. unfold parse_piece, pair_serialize.
  rewrite (split_first_app _ _ _ (byte_serialize_no_eq (fst p))).
  rewrite !form_decode_serialize. destruct p; reflexivity.
Qed.

Lemma form_serialize_single p : form_serialize [p] = pair_serialize p.
Proof. reflexivity. Qed.

Lemma form_serialize_cons p ps :
  ps <> [] ->
  form_serialize (p :: ps) = pair_serialize p ++ "&"%char :: form_serialize ps.
Proof. destruct ps as [|p' ps]; [contradiction|reflexivity]. Qed.

Theorem form_roundtrip : forall ps, form_parse (form_serialize ps) = ps.
Proof.
  induction ps as [|p ps IH]; [reflexivity|].
  destruct ps as [|p' ps].
  - rewrite form_serialize_single. apply form_parse_pair.
  - rewrite form_serialize_cons by discriminate.
    rewrite form_parse_app, form_parse_pair, IH. reflexivity.
Qed.

(* ------------------------------------------------------------------ *)
(* Alphabet of form_serialize                                          *)

Lemma form_charb_spec c : form_charb c = true <-> form_char c.
Proof.
  unfold form_charb, form_char, mem_byte.
  rewrite orb_true_iff, existsb_exists. split.
  - intros [H|[x [Hin Heq]]]; [left; exact H|right].
    apply Ascii.eqb_eq in Heq. subst x. exact Hin.
  - intros [H|H]; [left; exact H|right].
    exists c. split; [exact H|apply Ascii.eqb_refl].
Qed.

Lemma pair_serialize_alphabet p : forallb form_charb (pair_serialize p) = true.
Proof.
  assert (Hser : forall s, forallb form_charb (byte_serialize s) = true).
  { intros s. apply forallb_forall. intros x Hx. apply enc_charb_form_charb.
    pose proof (byte_serialize_alphabet s) as Hall.
    rewrite forallb_forall in Hall. apply Hall, Hx. }
  unfold pair_serialize. rewrite forallb_app. cbn [forallb].
  rewrite !Hser. reflexivity.
Qed.

Theorem form_serialize_alphabetb : forall ps,
  forallb form_charb (form_serialize ps) = true.
Proof.
  induction ps as [|p ps IH]; [reflexivity|].
  destruct ps as [|p' ps].
  - rewrite form_serialize_single. apply pair_serialize_alphabet.
  - rewrite form_serialize_cons by discriminate.
    rewrite forallb_app. cbn [forallb].
    rewrite pair_serialize_alphabet, IH. reflexivity.
Qed.

Theorem form_serialize_alphabet : forall ps, Forall form_char (form_serialize ps).
Proof.
  intros ps. apply Forall_forall. intros x Hx. apply form_charb_spec.
  pose proof (form_serialize_alphabetb ps) as Hall.
  rewrite forallb_forall in Hall. apply Hall, Hx.
Qed.

(* ------------------------------------------------------------------ *)
(* Appending to an existing query string                               *)

Lemma append_pair_ne q p : append_pair q p <> [].
Proof.
  destruct q; cbn [append_pair]; [apply pair_serialize_ne|discriminate].
Qed.

Lemma form_append_ne : forall ps q,
  q <> [] -> ps <> [] -> form_append q ps = q ++ "&"%char :: form_serialize ps.
Proof.
  induction ps as [|p ps IH]; intros q Hq Hps; [contradiction|].
  cbn [form_append]. destruct ps as [|p' ps].
  - cbn [form_append]. destruct q; [contradiction|reflexivity].
  - rewrite IH; [|apply append_pair_ne|discriminate].
    rewrite (form_serialize_cons p) by discriminate.
    destruct q as [|c q]; [contradiction|]. cbn [append_pair].
    rewrite <- app_assoc. reflexivity.
Qed.

Theorem form_append_spec : forall q ps,
  ps <> [] ->
  form_append q ps =
  match q with
  | [] => form_serialize ps
  | _ :: _ => q ++ "&"%char :: form_serialize ps
  end.
Proof.
  intros q ps Hps. destruct q as [|c q].
  - destruct ps as [|p ps]; [contradiction|]. cbn [form_append append_pair].
    destruct ps as [|p' ps]; [reflexivity|].
    rewrite form_append_ne; [|apply pair_serialize_ne|discriminate].
    rewrite (form_serialize_cons p) by discriminate. reflexivity.
  - apply form_append_ne; [discriminate|exact Hps].
Qed.

Corollary form_parse_append : forall q ps,
  form_parse (form_append q ps) = form_parse q ++ ps.
Proof.
  intros q ps. destruct ps as [|p ps].
  - cbn [form_append]. symmetry. apply app_nil_r.
  - rewrite form_append_spec by discriminate. destruct q as [|c q].
    + rewrite form_roundtrip. reflexivity.
    + rewrite form_parse_app, form_roundtrip. reflexivity.
Qed.

Theorem form_append_prefix : forall q ps, exists t, form_append q ps = q ++ t.
Proof.
  intros q ps. revert q. induction ps as [|p ps IH]; intros q.
  - exists []. cbn [form_append]. symmetry. apply app_nil_r.
  - cbn [form_append]. destruct (IH (append_pair q p)) as [t Ht]. rewrite Ht.
    destruct q as [|c q]; cbn [append_pair].
    + exists (pair_serialize p ++ t). reflexivity.
    + exists ("&"%char :: pair_serialize p ++ t). rewrite <- app_assoc. reflexivity.
Qed.

(* ------------------------------------------------------------------ *)
(* Examples                                                            *)

Definition e_acute : bytes := [ascii_of_N 195; ascii_of_N 169].  (* UTF-8 of U+00E9 *)

Example ex_hex_upper :
  map hex_upper [0; 9; 10; 15]%N = list_ascii_of_string "09AF".
Proof. vm_compute. reflexivity. Qed.

Example ex_byte_serialize :
  byte_serialize (list_ascii_of_string "a b&c=d/" ++ e_acute)
  = list_ascii_of_string "a+b%26c%3Dd%2F%C3%A9".
Proof. vm_compute. reflexivity. Qed.

Example ex_byte_serialize_unreserved :
  byte_serialize (list_ascii_of_string "AZaz09*-._~!+%:")
  = list_ascii_of_string "AZaz09*-._%7E%21%2B%25%3A".
Proof. vm_compute. reflexivity. Qed.

Example ex_byte_serialize_nul_ff :
  byte_serialize [ascii_of_N 0; ascii_of_N 255; ascii_of_N 127]
  = list_ascii_of_string "%00%FF%7F".
Proof. vm_compute. reflexivity. Qed.

Example ex_form_serialize :
  form_serialize
    [(list_ascii_of_string "redirect_uri", list_ascii_of_string "https://a.b/cb?x=1&y=2");
     (list_ascii_of_string "scope", list_ascii_of_string "read write");
     ([], [])]
  = list_ascii_of_string
      "redirect_uri=https%3A%2F%2Fa.b%2Fcb%3Fx%3D1%26y%3D2&scope=read+write&=".
Proof. vm_compute. reflexivity. Qed.

Example ex_form_serialize_nil : form_serialize [] = [].
Proof. reflexivity. Qed.

Example ex_form_append_empty :
  form_append [] [(list_ascii_of_string "a", list_ascii_of_string "1");
                  (list_ascii_of_string "b", list_ascii_of_string "2")]
  = list_ascii_of_string "a=1&b=2".
Proof. vm_compute. reflexivity. Qed.

Example ex_form_append_nonempty :
  form_append (list_ascii_of_string "x=y")
    [(list_ascii_of_string "code", list_ascii_of_string "a/b");
     (list_ascii_of_string "state", list_ascii_of_string "s t")]
  = list_ascii_of_string "x=y&code=a%2Fb&state=s+t".
Proof. vm_compute. reflexivity. Qed.

Example ex_percent_decode :
  percent_decode (list_ascii_of_string "%41%4a%4A%zz%4%")
  = list_ascii_of_string "AJJ%zz%4%".
Proof. vm_compute. reflexivity. Qed.

Example ex_percent_decode_overlap :
  (* "%%41": the first '%' is not followed by two hex digits, it is kept and
     scanning resumes at the second '%' *)
  percent_decode (list_ascii_of_string "%%41") = list_ascii_of_string "%A".
Proof. vm_compute. reflexivity. Qed.

Example ex_form_parse :
  form_parse (list_ascii_of_string "&&a=1&b&=&c=d=e&f+g=%C3%a9+%2B&")
  = [(list_ascii_of_string "a", list_ascii_of_string "1");
     (list_ascii_of_string "b", []);
     ([], []);
     (list_ascii_of_string "c", list_ascii_of_string "d=e");
     (list_ascii_of_string "f g", e_acute ++ list_ascii_of_string " +")].
Proof. vm_compute. reflexivity. Qed.

Example ex_form_parse_empty : form_parse [] = [].
Proof. reflexivity. Qed.

Example ex_split_first :
  split_first ":" (list_ascii_of_string "user:pa:ss")
  = Some (list_ascii_of_string "user", list_ascii_of_string "pa:ss")
  /\ split_first ":" (list_ascii_of_string "nocolon") = None.
Proof. split; reflexivity. Qed.

(* ------------------------------------------------------------------ *)
Print Assumptions percent_decode_plus_serialize.
Print Assumptions form_roundtrip.
Print Assumptions form_serialize_alphabet.
Print Assumptions form_serialize_alphabetb.
Print Assumptions byte_serialize_alphabet.
Print Assumptions byte_serialize_no_colon.
Print Assumptions byte_serialize_no_amp.
Print Assumptions byte_serialize_no_eq.
Print Assumptions byte_serialize_no_delims.
Print Assumptions split_first_serialize.
Print Assumptions byte_serialize_inj.
Print Assumptions form_parse_app.
Print Assumptions form_append_spec.
Print Assumptions form_parse_append.
Print Assumptions form_append_prefix.
