From OA Require Import Bytes Requests Adapters Endpoint.
Local Open Scope N_scope.

Lemma request_glue a r :
  lr_method (to_lib a r) = rq_method r /\ lr_target (to_lib a r) = rq_target r /\
  lr_headers (to_lib a r) = rq_headers r /\ lr_body (to_lib a r) = rq_body r /\
  (a = Curl -> lr_post_size (to_lib a r) = Some (length (rq_body r))).
Proof. repeat split. intros ->. reflexivity. Qed.

(* every status, every Content-Type, every body: returned unchanged through all four adapters *)
Lemma response_glue a r : adapter_call a (SReply r) = Some r.
Proof.
  unfold adapter_call, lib_behaviour. destruct a; try reflexivity.
  destruct (400 <=? w_status r); reflexivity.
Qed.

(* a fault is an error value, never a (shortened) success *)
Lemma fault_is_error a : adapter_call a SFault = None.
Proof. destruct a; reflexivity. Qed.

(* consequently a reply is classified identically through every adapter and through an
   in-memory client *)
Lemma classified_identically (T E RE : Type) (parse_ok : bytes -> option T)
      (parse_err : bytes -> option E) a r :
  match adapter_call a (SReply r) with
  | Some r' => endpoint_response T E RE parse_ok parse_err (w_status r') (w_ct r') (w_body r')
  | None => OOther Unbuildable
  end = endpoint_response T E RE parse_ok parse_err (w_status r) (w_ct r) (w_body r).
Proof. rewrite response_glue. reflexivity. Qed.
