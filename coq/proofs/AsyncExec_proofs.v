From OA Require Import Bytes AsyncExec.
From Coq Require Import Lia PeanoNat.

Section Proofs.
  Variables Eff Ans R : Type.
  Variable env : list Eff -> Eff -> Ans.
  Notation prog := (prog Eff Ans R).
  Notation fut := (fut Eff Ans R).

  (* polling a waiting future n+1 times resumes the continuation *)
  Lemma wait_resumes n : forall fuel a (k : Ans -> prog) hist ds,
    run_bare Eff Ans R env (S n + fuel) (Wait n a k) hist ds
    = run_bare Eff Ans R env (S fuel) (Run (k a)) hist ds.
  Proof.
    induction n as [|n IH]; intros fuel a k hist ds.
    - reflexivity.
    - change (S (S n) + fuel)%nat with (S (S n + fuel)). cbn [run_bare poll]. apply IH.
  Qed.

  (* schedule independence: however many times the inner futures report Pending, a bare poll
     loop with enough fuel returns exactly what the blocking run returns: same result, same
     sequence of effects *)
  Lemma bare_eq_sync (p : prog) : forall hist ds,
    exists fuel0, forall fuel, (fuel0 <= fuel)%nat ->
      run_bare Eff Ans R env fuel (Run p) hist ds = Some (run_sync Eff Ans R env p hist).
  Proof.
    induction p as [r|e k IH]; intros hist ds.
    - exists 1%nat. intros fuel H. destruct fuel as [|fuel]; [lia|]. reflexivity.
    - cbn [run_sync].
      destruct ds as [|[|n] ds'].
      + destruct (IH (env hist e) (hist ++ [e]) []) as [f0 H0].
        exists f0. intros fuel H. specialize (H0 fuel H).
        destruct fuel as [|fuel]; [discriminate H0|].
        cbn [run_bare poll poll_prog] in *. exact H0.
      + destruct (IH (env hist e) (hist ++ [e]) ds') as [f0 H0].
        exists f0. intros fuel H. specialize (H0 fuel H).
        destruct fuel as [|fuel]; [discriminate H0|].
        cbn [run_bare poll poll_prog] in *. exact H0.
      + destruct (IH (env hist e) (hist ++ [e]) ds') as [f0 H0].
        exists (S (S n) + f0)%nat. intros fuel H.
        destruct fuel as [|fuel]; [lia|].
        cbn [run_bare poll poll_prog].
        assert (Hf : exists g, fuel = (S n + g)%nat /\ (f0 <= S g)%nat).
        { exists (fuel - S n)%nat. lia. }
        destruct Hf as [g [-> Hg]]. rewrite wait_resumes. apply H0. exact Hg.
  Qed.

  (* isolation: with several futures in flight, polled in ANY order, each future's state after
     the schedule is what polling it alone the same number of times gives *)
  Fixpoint count_in (i : nat) (s : list nat) : nat :=
    match s with [] => O | j :: r => ((if Nat.eqb i j then 1 else 0) + count_in i r)%nat end.

  Lemma nth_update_same {A} (g : A -> A) d : forall l i,
    (i < length l)%nat -> nth i (update i g l) d = g (nth i l d).
  Proof.
    induction l as [|x l IH]; intros i H; cbn in H; [lia|].
    destruct i; cbn; [reflexivity|]. apply IH. lia.
  Qed.
  Lemma nth_update_other {A} (g : A -> A) d : forall l i j,
    i <> j -> nth i (update j g l) d = nth i l d.
  Proof.
    induction l as [|x l IH]; intros i j H; cbn; [destruct j; reflexivity|].
    destruct j, i; cbn; try reflexivity; try congruence. apply IH. congruence.
  Qed.
  Lemma length_update {A} (g : A -> A) : forall l i, length (update i g l) = length l.
  Proof. induction l as [|x l IH]; intros [|i]; cbn; auto. Qed.

  Lemma isolation (d : task Eff Ans R) : forall sched ts i,
    (i < length ts)%nat ->
    nth i (run_sched Eff Ans R env sched ts) d
    = iter (count_in i sched) (poll_task Eff Ans R env) (nth i ts d).
  Proof.
    induction sched as [|j s IH]; intros ts i H; cbn [run_sched count_in iter]; [reflexivity|].
    rewrite IH by (rewrite length_update; exact H).
    destruct (PeanoNat.Nat.eqb_spec i j) as [->|Hn].
    - rewrite nth_update_same by exact H. reflexivity.
    - rewrite nth_update_other by exact Hn. reflexivity.
  Qed.
End Proofs.
