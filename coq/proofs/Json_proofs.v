(* Proofs about the serde_json reader/printer model of Json.v.

   Main results (all closed under the global context, see the Print Assumptions at the end):

     json_print_parse        : json_canonical j -> json_parse (json_print j) = Some j
     json_parse_prefix_app   : json_canonical j -> (json_is_number j = true -> ok_rest rest = true) ->
                               json_parse_prefix (json_print j ++ rest) = Some (j, rest)
     json_print_parse_wf / json_parse_prefix_app_wf : the same for the larger class json_wf
                               (floats allowed, strings/keys arbitrary bytes with an honest flag)
     json_parse_wf           : everything the parser returns is json_wf
     json_parse_reprint      : json_parse s = Some j -> json_parse (json_print j) = Some j
     parse_value_fuel        : length s <= f -> parse_value f s = json_parse_prefix s
                               (fuel = length of the text is always enough)
     json_parse_prefix_consumes : the unconsumed rest is strictly shorter than the input
     f64_from_parts_inf_spec : the out-of-range test, stated without its two shortcuts
*)
From OA Require Import Bytes Json.
From Coq Require Import ZArith.
Local Open Scope char_scope.

(* ========================================================================= *)
(* 1. whitespace, literals, strings                                            *)

Lemma skip_ws_nows c r : is_ws c = false -> skip_ws (c :: r) = c :: r.
Proof. intros H. simpl. rewrite H. reflexivity. Qed.

Lemma strip_prefix_app p r : strip_prefix p (p ++ r) = Some r.
Proof. induction p as [|x p IH]; simpl; [reflexivity|]. rewrite Ascii.eqb_refl. exact IH. Qed.

Lemma parse_str_escape_byte a tl d rest :
  parse_str_body tl = Some (d, rest) ->
  parse_str_body (escape_byte a ++ tl) = Some (a :: d, rest).
Proof.
  intros H.
  destruct a as [[] [] [] [] [] [] [] []]; cbn; rewrite H; reflexivity.
Qed.

(* ========================================================================= *)
(* 2. decimal printing                                                         *)

Local Open Scope N_scope.

Lemma bn_nb n : n < 256 -> bn (nb n) = n.
Proof. intros H. unfold bn, nb. apply N_ascii_embedding. exact H. Qed.

Lemma nb_bn c : nb (bn c) = c.
Proof. unfold bn, nb. apply ascii_N_embedding. Qed.

Lemma is_digit_digit_char k : k < 10 -> is_digit (digit_char k) = true.
Proof.
  intros H. unfold is_digit, in_range, digit_char. rewrite bn_nb by lia.
  apply andb_true_iff; split; apply N.leb_le; lia.
Qed.

Lemma dval_digit_char k : k < 10 -> dval (digit_char k) = k.
Proof. intros H. unfold dval, digit_char. rewrite bn_nb by lia. lia. Qed.

Lemma digit_char_nonzero k : k < 10 -> k <> 0 -> Ascii.eqb (digit_char k) "0" = false.
Proof.
  intros H H0. apply Ascii.eqb_neq. intros E.
  apply (f_equal bn) in E. unfold digit_char in E. rewrite bn_nb in E by lia.
  change (bn "0") with 48 in E. lia.
Qed.

Definition all_digits (ds : bytes) : bool := forallb is_digit ds.

Definition no_digit_head (r : bytes) : bool :=
  match r with [] => true | c :: _ => negb (is_digit c) end.

Lemma span_digits_app ds rest :
  all_digits ds = true -> no_digit_head rest = true ->
  span_digits (ds ++ rest) = (ds, rest).
Proof.
  intros Hd Hr. induction ds as [|d ds IH]; simpl.
  - destruct rest as [|c r]; [reflexivity|]. simpl in Hr. simpl.
    destruct (is_digit c); [discriminate|reflexivity].
  - simpl in Hd. apply andb_true_iff in Hd. destruct Hd as [H1 H2].
    rewrite H1, (IH H2). reflexivity.
Qed.

(* little-endian value *)
Fixpoint lval (l : bytes) : N :=
  match l with [] => 0 | d :: r => dval d + 10 * lval r end.

Lemma digits_val_app acc a b : digits_val acc (a ++ b) = digits_val (digits_val acc a) b.
Proof. unfold digits_val. apply fold_left_app. Qed.

Lemma digits_val_rev l : digits_val 0 (rev l) = lval l.
Proof.
  induction l as [|d l IH]; [reflexivity|].
  simpl rev. rewrite digits_val_app, IH. unfold digits_val. cbn [fold_left lval]. lia.
Qed.

Lemma dec_rev_digits f n : all_digits (dec_rev f n) = true.
Proof.
  revert n. induction f as [|f IH]; intros n; [reflexivity|].
  simpl. rewrite is_digit_digit_char by (apply N.mod_lt; lia). simpl.
  destruct (n / 10 =? 0); [reflexivity|apply IH].
Qed.

Lemma div10_bound f n : n < 2 ^ N.of_nat (S f) -> n / 10 < 2 ^ N.of_nat f.
Proof.
  intros H. rewrite Nat2N.inj_succ, N.pow_succ_r' in H.
  apply N.div_lt_upper_bound; [lia|]. lia.
Qed.

Lemma dec_rev_val f n : n < 2 ^ N.of_nat f -> lval (dec_rev (S f) n) = n.
Proof.
  revert n. induction f as [|f IH]; intros n H.
  - simpl in H. assert (n = 0) by lia. subst. reflexivity.
  - remember (S f) as f1. cbn [dec_rev lval]. subst f1.
    rewrite dval_digit_char by (apply N.mod_lt; lia).
    destruct (n / 10 =? 0) eqn:E.
    + apply N.eqb_eq in E. cbn [lval]. pose proof (N.div_mod n 10). lia.
    + rewrite IH by (apply div10_bound; exact H). pose proof (N.div_mod n 10). lia.
Qed.

Lemma dec_rev_last f n :
  n < 2 ^ N.of_nat f -> n <> 0 ->
  exists l d, dec_rev (S f) n = l ++ [d] /\ Ascii.eqb d "0" = false.
Proof.
  revert n. induction f as [|f IH]; intros n H H0.
  - simpl in H. lia.
  - remember (S f) as f1. cbn [dec_rev]. subst f1.
    destruct (n / 10 =? 0) eqn:E.
    + apply N.eqb_eq in E. exists [], (digit_char (n mod 10)). split; [reflexivity|].
      apply digit_char_nonzero; [apply N.mod_lt; lia|].
      pose proof (N.div_mod n 10). lia.
    + apply N.eqb_neq in E.
      destruct (IH (n / 10)) as (l & d & Hl & Hd); [apply div10_bound; exact H|exact E|].
      exists (digit_char (n mod 10) :: l), d. rewrite Hl. split; [reflexivity|exact Hd].
Qed.

Lemma size_bound n : n < 2 ^ N.of_nat (N.to_nat (N.size n)).
Proof. rewrite N2Nat.id. apply N.size_gt. Qed.

Lemma all_digits_rev l : all_digits (rev l) = true <-> all_digits l = true.
Proof.
  unfold all_digits. rewrite !forallb_forall. split; intros H x Hx; apply H.
  - apply in_rev. rewrite rev_involutive. exact Hx.
  - apply in_rev in Hx. exact Hx.
Qed.

Lemma dec_digits n : all_digits (dec n) = true.
Proof. unfold dec. apply all_digits_rev. apply dec_rev_digits. Qed.

Lemma dec_val n : digits_val 0 (dec n) = n.
Proof. unfold dec. rewrite digits_val_rev. apply dec_rev_val. apply size_bound. Qed.

Lemma dec_head n : n <> 0 -> exists d ds, dec n = d :: ds /\ Ascii.eqb d "0" = false.
Proof.
  intros H. destruct (dec_rev_last _ n (size_bound n) H) as (l & d & Hl & Hd).
  exists d, (rev l). unfold dec. rewrite Hl, rev_unit. split; [reflexivity|exact Hd].
Qed.

(* ========================================================================= *)
(* 3. integer tokens                                                           *)

(* characters that could extend a number token *)
Definition num_ext (c : byte) : bool :=
  is_digit c || Ascii.eqb c "." || Ascii.eqb c "e" || Ascii.eqb c "E".

Definition ok_rest (r : bytes) : bool :=
  match r with [] => true | c :: _ => negb (num_ext c) end.

Lemma ok_rest_no_digit r : ok_rest r = true -> no_digit_head r = true.
Proof.
  destruct r as [|c r]; [reflexivity|]. unfold ok_rest, num_ext, no_digit_head.
  destruct (is_digit c); [discriminate|reflexivity].
Qed.

Lemma scan_frac_none r : ok_rest r = true -> scan_frac r = Some (None, r).
Proof.
  destruct r as [|c r]; [reflexivity|]. unfold ok_rest, num_ext, scan_frac.
  destruct (Ascii.eqb c "."); [|reflexivity].
  rewrite orb_true_r. discriminate.
Qed.

Lemma scan_exp_none r : ok_rest r = true -> scan_exp r = Some (None, r).
Proof.
  destruct r as [|c r]; [reflexivity|]. unfold ok_rest, num_ext, scan_exp.
  destruct (Ascii.eqb c "e"); [rewrite !orb_true_r; discriminate|].
  destruct (Ascii.eqb c "E"); [rewrite !orb_true_r; discriminate|]. reflexivity.
Qed.

Lemma scan_int_dec n rest :
  ok_rest rest = true -> scan_int (dec n ++ rest) = Some (dec n, rest).
Proof.
  intros Hr. unfold scan_int.
  rewrite span_digits_app by (auto using dec_digits, ok_rest_no_digit).
  destruct (N.eq_dec n 0) as [->|Hn]; [reflexivity|].
  destruct (dec_head n Hn) as (d & ds & -> & Hd). rewrite Hd. reflexivity.
Qed.

Lemma is_digit_not_minus c : is_digit c = true -> Ascii.eqb c "-" = false.
Proof. destruct c as [[] [] [] [] [] [] [] []]; vm_compute; congruence. Qed.

Lemma dec_head_digit n : exists d ds, dec n = d :: ds /\ is_digit d = true.
Proof.
  pose proof (dec_digits n) as H.
  destruct (N.eq_dec n 0) as [->|Hn].
  - exists "0", []. split; reflexivity.
  - destruct (dec_head n Hn) as (d & ds & E & _). exists d, ds. split; [exact E|].
    rewrite E in H. simpl in H. apply andb_true_iff in H. tauto.
Qed.

Definition int_in_range (z : Z) : Prop :=
  (- 9223372036854775808 <= z <= 18446744073709551615)%Z.

Lemma digits_val_ge ds : forall acc, acc <= digits_val acc ds.
Proof.
  unfold digits_val. induction ds as [|d ds IH]; intros acc; cbn [fold_left]; [lia|].
  eapply N.le_trans; [|apply IH]. lia.
Qed.

(* as long as the literal fits a u64, acc_int just computes its value *)
Lemma acc_int_exact ds : forall sig,
  digits_val sig ds <= u64_max -> acc_int sig ds = (digits_val sig ds, 0%Z).
Proof.
  induction ds as [|d ds IH]; intros sig H; [reflexivity|].
  cbn [acc_int]. change (digits_val sig (d :: ds)) with (digits_val (sig * 10 + dval d) ds) in *.
  pose proof (digits_val_ge ds (sig * 10 + dval d)) as G.
  replace (u64_max <? sig * 10 + dval d) with false by (symmetry; apply N.ltb_ge; lia).
  apply IH. exact H.
Qed.

Lemma parse_number_dec n rest :
  n <= u64_max -> ok_rest rest = true ->
  parse_number (dec n ++ rest) = Some (JInt (Z.of_N n), rest).
Proof.
  intros Hn Hr. destruct (dec_head_digit n) as (d & ds & E & Hd).
  unfold parse_number. rewrite E. cbn [app]. rewrite (is_digit_not_minus d Hd).
  change (d :: ds ++ rest) with ((d :: ds) ++ rest). rewrite <- E.
  rewrite scan_int_dec, scan_frac_none, scan_exp_none by assumption.
  unfold classify_number. rewrite acc_int_exact by (rewrite dec_val; exact Hn).
  rewrite dec_val. reflexivity.
Qed.

Lemma parse_number_print_int z rest :
  int_in_range z -> ok_rest rest = true ->
  parse_number (print_int z ++ rest) = Some (JInt z, rest).
Proof.
  intros Hz Hr. unfold int_in_range in Hz. destruct z as [|p|p].
  - change (print_int 0) with (dec 0). apply (parse_number_dec 0); [discriminate|exact Hr].
  - change (print_int (Z.pos p)) with (dec (N.pos p)).
    apply (parse_number_dec (N.pos p)); [unfold u64_max; lia|exact Hr].
  - unfold print_int, parse_number. cbn [app]. rewrite Ascii.eqb_refl.
    rewrite scan_int_dec, scan_frac_none, scan_exp_none by assumption.
    unfold classify_number.
    rewrite acc_int_exact by (rewrite dec_val; unfold u64_max; lia).
    rewrite dec_val. cbn [Z.eqb].
    replace (N.pos p <=? i64_min_abs) with true by (symmetry; apply N.leb_le; unfold i64_min_abs; lia).
    reflexivity.
Qed.

(* ========================================================================= *)
(* 4. arrays and objects                                                       *)

Lemma parse_str_escaped s rest :
  parse_str_body (flat_map escape_byte s ++ """" :: rest) = Some (s, rest).
Proof.
  induction s as [|a s IH]; [reflexivity|].
  cbn [flat_map]. rewrite <- app_assoc. apply parse_str_escape_byte. exact IH.
Qed.

(* first character of a printed value *)
Definition value_start (c : byte) : bool :=
  is_digit c || Ascii.eqb c "-" || Ascii.eqb c """" || Ascii.eqb c "[" || Ascii.eqb c "{"
  || Ascii.eqb c "t" || Ascii.eqb c "f" || Ascii.eqb c "n".

Lemma value_start_facts c :
  value_start c = true ->
  is_ws c = false /\ Ascii.eqb c "]" = false /\ Ascii.eqb c "}" = false.
Proof. destruct c as [[] [] [] [] [] [] [] []]; vm_compute; intros H; repeat split; congruence. Qed.

Lemma print_int_head z : exists c tl, print_int z = c :: tl /\ (is_digit c || Ascii.eqb c "-") = true.
Proof.
  destruct z as [|p|p].
  - exists "0", []. split; reflexivity.
  - destruct (dec_head_digit (N.pos p)) as (d & ds & E & Hd). exists d, ds.
    split; [exact E|]. rewrite Hd. reflexivity.
  - exists "-", (dec (N.pos p)). split; reflexivity.
Qed.

Lemma json_print_head j : exists c tl, json_print j = c :: tl /\ value_start c = true.
Proof.
  destruct j as [|[]|z|[]|s ok|l|m]; try (eexists _, _; split; [reflexivity|reflexivity]).
  destruct (print_int_head z) as (c & tl & E & H). exists c, tl. split; [exact E|].
  unfold value_start. rewrite H. reflexivity.
Qed.

Lemma json_print_length_pos j : (1 <= length (json_print j))%nat.
Proof. destruct (json_print_head j) as (c & tl & -> & _). simpl. lia. Qed.

(* one-step unfoldings *)
Lemma parse_value_number f c r :
  (is_digit c || Ascii.eqb c "-") = true -> parse_value (S f) (c :: r) = parse_number (c :: r).
Proof.
  intros H.
  assert (W : is_ws c = false)
    by (destruct c as [[] [] [] [] [] [] [] []]; vm_compute in H |- *; congruence).
  cbn [parse_value skip_ws]. rewrite W, H. reflexivity.
Qed.

Lemma parse_value_str f r :
  parse_value (S f) ("""" :: r) =
  match parse_str_body r with
  | Some (d, r') => Some (JStr d (utf8_valid d), r')
  | None => None
  end.
Proof. reflexivity. Qed.

Lemma parse_value_arr f r :
  parse_value (S f) ("[" :: r) =
  match skip_ws r with
  | [] => None
  | c2 :: r2 =>
    if Ascii.eqb c2 "]" then Some (JArr [], r2)
    else match parse_elems f (c2 :: r2) with
         | Some (l, r') => Some (JArr l, r')
         | None => None
         end
  end.
Proof. reflexivity. Qed.

Lemma parse_value_obj f r :
  parse_value (S f) ("{" :: r) =
  match skip_ws r with
  | [] => None
  | c2 :: r2 =>
    if Ascii.eqb c2 "}" then Some (JObj [], r2)
    else match parse_members f (c2 :: r2) with
         | Some (m, r') => Some (JObj m, r')
         | None => None
         end
  end.
Proof. reflexivity. Qed.

Lemma parse_elems_S f s :
  parse_elems (S f) s =
  match parse_value f s with
  | None => None
  | Some (v, r) =>
    match skip_ws r with
    | [] => None
    | c :: r' =>
      if Ascii.eqb c "," then
        match parse_elems f r' with
        | Some (l, r'') => Some (v :: l, r'')
        | None => None
        end
      else if Ascii.eqb c "]" then Some ([v], r')
      else None
    end
  end.
Proof. reflexivity. Qed.

Lemma parse_members_S f r1 :
  parse_members (S f) ("""" :: r1) =
  match parse_str_body r1 with
  | None => None
  | Some (k, r1) =>
    match skip_ws r1 with
    | [] => None
    | col :: r2 =>
      if Ascii.eqb col ":" then
        match parse_value f r2 with
        | None => None
        | Some (v, r3) =>
          match skip_ws r3 with
          | [] => None
          | c :: r4 =>
            if Ascii.eqb c "," then
              match parse_members f r4 with
              | Some (m, r5) => Some ((k, v) :: m, r5)
              | None => None
              end
            else if Ascii.eqb c "}" then Some ([(k, v)], r4)
            else None
          end
        end
      else None
    end
  end.
Proof. reflexivity. Qed.

Lemma join_cons2 (sep a b : bytes) l : join sep (a :: b :: l) = a ++ sep ++ join sep (b :: l).
Proof. reflexivity. Qed.

(* custom induction principle for the nested type *)
Section JsonInd.
  Variable P : json -> Prop.
  Hypothesis Hnull : P JNull.
  Hypothesis Hbool : forall b, P (JBool b).
  Hypothesis Hint : forall z, P (JInt z).
  Hypothesis Hfloat : forall i, P (JFloat i).
  Hypothesis Hstr : forall s ok, P (JStr s ok).
  Hypothesis Harr : forall l, Forall P l -> P (JArr l).
  Hypothesis Hobj : forall m, Forall (fun kv => P (snd kv)) m -> P (JObj m).

  Fixpoint json_ind' (j : json) : P j :=
    match j with
    | JNull => Hnull
    | JBool b => Hbool b
    | JInt z => Hint z
    | JFloat i => Hfloat i
    | JStr s ok => Hstr s ok
    | JArr l =>
      Harr l ((fix go (l : list json) : Forall P l :=
                 match l with
                 | [] => Forall_nil P
                 | x :: r => Forall_cons x (json_ind' x) (go r)
                 end) l)
    | JObj m =>
      Hobj m ((fix go (m : list (bytes * json)) : Forall (fun kv => P (snd kv)) m :=
                 match m with
                 | [] => Forall_nil _
                 | (k, v) :: r => Forall_cons (k, v) (json_ind' v) (go r)
                 end) m)
    end.
End JsonInd.

(* the statement proved by induction *)
(* Only number tokens can be extended by what follows them. *)
Definition json_is_number (j : json) : bool :=
  match j with JInt _ | JFloat _ => true | _ => false end.

Definition RT (j : json) : Prop :=
  json_wfb j = true ->
  forall fuel rest,
    (length (json_print j) <= fuel)%nat ->
    (json_is_number j = true -> ok_rest rest = true) ->
    parse_value fuel (json_print j ++ rest) = Some (j, rest).

Lemma parse_elems_print l :
  l <> [] -> Forall RT l -> forallb json_wfb l = true ->
  forall fuel rest,
    (length (join [","] (map json_print l)) + 1 <= fuel)%nat ->
    parse_elems fuel (join [","] (map json_print l) ++ "]" :: rest) = Some (l, rest).
Proof.
  induction l as [|x l IH]; [congruence|].
  intros _ HF Hwf fuel rest Hlen.
  inversion HF as [|x' l' Hx Hl]; subst.
  cbn [forallb] in Hwf. apply andb_true_iff in Hwf. destruct Hwf as [Wx Wl].
  destruct fuel as [|f]; [lia|].
  rewrite parse_elems_S.
  destruct l as [|y l'].
  - cbn [map join] in *.
    rewrite (Hx Wx f ("]" :: rest)); [reflexivity|lia|intros _; reflexivity].
  - cbn [map] in *. rewrite join_cons2 in *. rewrite <- !app_assoc.
    rewrite !app_length in Hlen. cbn [length] in Hlen.
    rewrite (Hx Wx f); [|lia|intros _; reflexivity].
    cbn [app skip_ws]. change (is_ws ",") with false. cbv iota. rewrite Ascii.eqb_refl.
    rewrite (IH ltac:(discriminate) Hl Wl f rest); [reflexivity|].
    cbn [map]. lia.
Qed.

Definition mtext (kv : bytes * json) : bytes :=
  print_string (fst kv) ++ ":" :: json_print (snd kv).

Lemma print_string_app k tl :
  print_string k ++ tl = """" :: flat_map escape_byte k ++ """" :: tl.
Proof. unfold print_string. cbn [app]. rewrite <- app_assoc. reflexivity. Qed.

Lemma parse_members_print m :
  m <> [] -> Forall (fun kv => RT (snd kv)) m ->
  forallb (fun kv => json_wfb (snd kv)) m = true ->
  forall fuel rest,
    (length (join [","] (map mtext m)) + 1 <= fuel)%nat ->
    parse_members fuel (join [","] (map mtext m) ++ "}" :: rest) = Some (m, rest).
Proof.
  induction m as [|[k v] m IH]; [congruence|].
  intros _ HF Hwf fuel rest Hlen.
  inversion HF as [|x' l' Hx Hl]; subst. cbn [snd] in Hx.
  cbn [forallb snd] in Hwf. apply andb_true_iff in Hwf. destruct Hwf as [Wx Wl].
  destruct fuel as [|f]; [lia|].
  destruct m as [|kv2 m'].
  - cbn [map join] in *. unfold mtext in *. cbn [fst snd] in *.
    rewrite <- app_assoc. rewrite print_string_app.
    rewrite (parse_members_S f). rewrite parse_str_escaped.
    cbn [app skip_ws]. change (is_ws ":") with false. cbv iota. rewrite Ascii.eqb_refl.
    rewrite !app_length in Hlen. cbn [length] in Hlen.
    rewrite (Hx Wx f ("}" :: rest)); [reflexivity|lia|intros _; reflexivity].
  - cbn [map] in *. rewrite join_cons2 in *. unfold mtext at 1. unfold mtext at 1 in Hlen.
    cbn [fst snd] in *.
    rewrite <- !app_assoc. rewrite print_string_app.
    rewrite (parse_members_S f). rewrite parse_str_escaped.
    cbn [app skip_ws]. change (is_ws ":") with false. cbv iota. rewrite Ascii.eqb_refl.
    rewrite ?app_length in Hlen. cbn [length] in Hlen. rewrite ?app_length in Hlen. cbn [length] in Hlen.
    rewrite (Hx Wx f); [|lia|intros _; reflexivity].
    cbn [app skip_ws]. change (is_ws ",") with false. cbv iota. rewrite Ascii.eqb_refl.
    rewrite (IH ltac:(discriminate) Hl Wl f rest); [reflexivity|].
    cbn [map]. lia.
Qed.

(* ========================================================================= *)
(* 5. the round trip                                                           *)

Lemma join_head l :
  l <> [] -> exists c tl, join [","] (map json_print l) = c :: tl /\ value_start c = true.
Proof.
  destruct l as [|x l]; [congruence|]. intros _.
  destruct (json_print_head x) as (c & tl & E & H).
  destruct l as [|y l].
  - exists c, tl. cbn [map join]. auto.
  - cbn [map]. rewrite join_cons2, E. eexists _, _. split; [reflexivity|exact H].
Qed.

Lemma mjoin_head m :
  m <> [] -> exists tl, join [","] (map mtext m) = """" :: tl.
Proof.
  destruct m as [|x m]; [congruence|]. intros _.
  destruct m as [|y m].
  - cbn [map join]. unfold mtext, print_string. eexists. reflexivity.
  - cbn [map]. rewrite join_cons2. unfold mtext at 1, print_string. eexists. reflexivity.
Qed.

Lemma span_digits_rest rest : ok_rest rest = true -> span_digits rest = ([], rest).
Proof. intros H. apply (span_digits_app [] rest); [reflexivity|apply ok_rest_no_digit, H]. Qed.

Lemma RT_all j : RT j.
Proof.
  induction j using json_ind'; unfold RT; intros Hwf fuel rest Hlen Hrest;
    (destruct fuel as [|f];
     [match type of Hlen with (length (json_print ?j) <= _)%nat =>
        pose proof (json_print_length_pos j); lia end|]).
  - reflexivity.
  - destruct b; reflexivity.
  - (* JInt *)
    specialize (Hrest eq_refl).
    cbn [json_print json_wfb] in *.
    destruct (print_int_head z) as (c & tl & E & H).
    rewrite E. cbn [app]. rewrite parse_value_number by exact H.
    change (c :: tl ++ rest) with ((c :: tl) ++ rest). rewrite <- E.
    apply parse_number_print_int; [|exact Hrest].
    apply andb_true_iff in Hwf. destruct Hwf as [H1 H2].
    apply Z.leb_le in H1. apply Z.leb_le in H2. split; assumption.
  - (* JFloat *)
    specialize (Hrest eq_refl).
    destruct i; cbn [json_print s2b list_ascii_of_string app].
    + rewrite parse_value_number by reflexivity.
      unfold parse_number, scan_int, scan_frac, scan_exp.
      cbn [span_digits Ascii.eqb Bool.eqb is_digit in_range bn N_of_ascii N_of_digits
           N.leb N.compare Pos.compare Pos.compare_cont andb orb N.add N.mul Pos.add Pos.mul].
      rewrite (span_digits_rest rest Hrest). reflexivity.
    + rewrite parse_value_number by reflexivity.
      unfold parse_number, scan_int, scan_frac, scan_exp.
      cbn [span_digits Ascii.eqb Bool.eqb is_digit in_range bn N_of_ascii N_of_digits
           N.leb N.compare Pos.compare Pos.compare_cont andb orb N.add N.mul Pos.add Pos.mul].
      rewrite (span_digits_rest rest Hrest). reflexivity.
  - (* JStr *)
    cbn [json_print json_wfb] in *. rewrite print_string_app.
    rewrite parse_value_str, parse_str_escaped.
    apply Bool.eqb_prop in Hwf. rewrite <- Hwf. reflexivity.
  - (* JArr *)
    destruct l as [|x l']; [reflexivity|].
    remember (x :: l') as l eqn:El in *.
    assert (Hne : l <> []) by (subst; discriminate). clear El.
    cbn [json_print json_wfb] in *. cbn [app]. rewrite <- app_assoc. cbn [app].
    rewrite parse_value_arr.
    destruct (join_head l Hne) as (c & tl & E & Hc).
    destruct (value_start_facts c Hc) as (W & Hb & _).
    rewrite E at 1. cbn [app skip_ws]. rewrite W, Hb.
    change (c :: tl ++ "]" :: rest) with ((c :: tl) ++ "]" :: rest). rewrite <- E.
    rewrite parse_elems_print; [reflexivity|exact Hne|exact H|exact Hwf|].
    cbn [length] in Hlen. rewrite app_length in Hlen. cbn [length] in Hlen. lia.
  - (* JObj *)
    destruct m as [|x m']; [reflexivity|].
    remember (x :: m') as m eqn:El in *.
    assert (Hne : m <> []) by (subst; discriminate). clear El.
    cbn [json_print json_wfb] in *. fold mtext in *. cbn [app]. rewrite <- app_assoc. cbn [app].
    rewrite parse_value_obj.
    destruct (mjoin_head m Hne) as (tl & E).
    rewrite E at 1. cbn [app skip_ws]. change (is_ws """") with false. cbv iota.
    change (Ascii.eqb """" "}") with false. cbv iota.
    change ("""" :: tl ++ "}" :: rest) with (("""" :: tl) ++ "}" :: rest). rewrite <- E.
    rewrite parse_members_print; [reflexivity|exact Hne|exact H|exact Hwf|].
    cbn [length] in Hlen. rewrite app_length in Hlen. cbn [length] in Hlen.
    apply le_S_n in Hlen. exact Hlen.
Qed.

Theorem json_parse_prefix_app_wf j rest :
  json_wf j -> (json_is_number j = true -> ok_rest rest = true) ->
  json_parse_prefix (json_print j ++ rest) = Some (j, rest).
Proof.
  intros Hwf Hr. unfold json_parse_prefix.
  apply (RT_all j Hwf); [rewrite app_length; lia|exact Hr].
Qed.

Theorem json_print_parse_wf j : json_wf j -> json_parse (json_print j) = Some j.
Proof.
  intros Hwf. unfold json_parse.
  rewrite <- (app_nil_r (json_print j)).
  rewrite json_parse_prefix_app_wf; [reflexivity|exact Hwf|reflexivity].
Qed.

(* canonical values are well-formed (and strict) *)
Lemma json_canonical_wf j : json_canonical j -> json_wf j.
Proof.
  unfold json_canonical, json_wf.
  induction j using json_ind'; cbn [json_canonicalb json_wfb]; try congruence.
  - intros H. apply andb_true_iff in H. destruct H as [-> ->]. reflexivity.
  - induction H as [|x l Hx Hl IH]; [reflexivity|]. cbn [forallb]. intros E.
    apply andb_true_iff in E. destruct E as [E1 E2]. rewrite (Hx E1), (IH E2). reflexivity.
  - induction H as [|x l Hx Hl IH]; [reflexivity|]. cbn [forallb]. intros E.
    apply andb_true_iff in E. destruct E as [E1 E2]. apply andb_true_iff in E1.
    rewrite (Hx (proj2 E1)), (IH E2). reflexivity.
Qed.

Lemma json_canonical_strict j : json_canonical j -> json_strict j = true.
Proof.
  unfold json_canonical.
  induction j using json_ind'; cbn [json_canonicalb json_strict]; try congruence.
  - intros H. apply andb_true_iff in H. tauto.
  - induction H as [|x l Hx Hl IH]; [reflexivity|]. cbn [forallb]. intros E.
    apply andb_true_iff in E. destruct E as [E1 E2]. rewrite (Hx E1), (IH E2). reflexivity.
  - induction H as [|x l Hx Hl IH]; [reflexivity|]. cbn [forallb]. intros E.
    apply andb_true_iff in E. destruct E as [E1 E2]. apply andb_true_iff in E1. destruct E1 as [K V].
    rewrite K, (Hx V), (IH E2). reflexivity.
Qed.

(* THE round-trip theorem: what serde_json prints from typed, float-free data is read back
   as the same value. *)
Theorem json_print_parse : forall j, json_canonical j -> json_parse (json_print j) = Some j.
Proof. intros j H. apply json_print_parse_wf, json_canonical_wf, H. Qed.

(* Prefix form.  The side condition is only needed when j is a number: what follows must
   not start with a character that extends the token (a digit, '.', 'e', 'E'). *)
Theorem json_parse_prefix_app j rest :
  json_canonical j -> (json_is_number j = true -> ok_rest rest = true) ->
  json_parse_prefix (json_print j ++ rest) = Some (j, rest).
Proof. intros H. apply json_parse_prefix_app_wf, json_canonical_wf, H. Qed.

(* ========================================================================= *)
(* 6. everything the parser returns is well-formed                            *)

(* the significand kept by acc_int / acc_frac is a u64 *)
Lemma acc_int_bound sig ds : sig <= u64_max -> fst (acc_int sig ds) <= u64_max.
Proof.
  revert sig. induction ds as [|d ds IH]; intros sig H; cbn [acc_int]; [exact H|].
  destruct (u64_max <? sig * 10 + dval d) eqn:E; [exact H|].
  apply IH. apply N.ltb_ge in E. exact E.
Qed.

Lemma acc_frac_bound sig e fs : sig <= u64_max -> fst (acc_frac sig e fs) <= u64_max.
Proof.
  revert sig e. induction fs as [|d fs IH]; intros sig e H; cbn [acc_frac]; [exact H|].
  destruct (u64_max <? sig * 10 + dval d) eqn:E; [exact H|].
  apply IH. apply N.ltb_ge in E. exact E.
Qed.

Lemma classify_number_wf neg ids fds ex : json_wfb (classify_number neg ids fds ex) = true.
Proof.
  unfold classify_number. destruct fds, ex; try reflexivity.
  pose proof (acc_int_bound 0 ids ltac:(discriminate)) as E1.
  destruct (acc_int 0 ids) as [n e1]. cbn [fst] in E1. unfold u64_max in E1.
  destruct (e1 =? 0)%Z; [|reflexivity].
  destruct neg.
  - destruct (n =? 0); [reflexivity|].
    destruct (n <=? i64_min_abs) eqn:E2; [|reflexivity].
    apply N.leb_le in E2. unfold i64_min_abs in E2.
    cbn [json_wfb]. apply andb_true_iff. split; apply Z.leb_le; lia.
  - cbn [json_wfb]. apply andb_true_iff. split; apply Z.leb_le; lia.
Qed.

Lemma parse_number_wf s j r : parse_number s = Some (j, r) -> json_wfb j = true.
Proof.
  unfold parse_number.
  destruct (match s with
            | [] => (false, s)
            | c :: r0 => if Ascii.eqb c "-" then (true, r0) else (false, s)
            end) as [neg s1].
  destruct (scan_int s1) as [[ids r1]|]; [|discriminate].
  destruct (scan_frac r1) as [[fds r2]|]; [|discriminate].
  destruct (scan_exp r2) as [[ex r3]|]; [|discriminate].
  intros H. inversion H; subst. apply classify_number_wf.
Qed.

Lemma parse_lit_wf lit v s j r : json_wfb v = true -> parse_lit lit v s = Some (j, r) -> json_wfb j = true.
Proof.
  unfold parse_lit. intros Hv. destruct (strip_prefix lit s); [|discriminate].
  intros H. inversion H; subst. exact Hv.
Qed.

Lemma parse_wf_fuel fuel :
  (forall s j r, parse_value fuel s = Some (j, r) -> json_wfb j = true) /\
  (forall s l r, parse_elems fuel s = Some (l, r) -> forallb json_wfb l = true) /\
  (forall s m r, parse_members fuel s = Some (m, r) ->
                 forallb (fun kv => json_wfb (snd kv)) m = true).
Proof.
  induction fuel as [|f (IHv & IHe & IHm)]; [repeat split; intros; discriminate|].
  repeat split.
  - intros s j r. cbn [parse_value].
    destruct (skip_ws s) as [|c r0]; [discriminate|].
    destruct (is_digit c || Ascii.eqb c "-"); [apply parse_number_wf|].
    destruct (Ascii.eqb c """").
    { destruct (parse_str_body r0) as [[d r']|]; [|discriminate].
      intros H. inversion H; subst. cbn [json_wfb]. apply Bool.eqb_reflx. }
    destruct (Ascii.eqb c "[").
    { destruct (skip_ws r0) as [|c2 r2]; [discriminate|].
      destruct (Ascii.eqb c2 "]"); [intros H; inversion H; subst; reflexivity|].
      destruct (parse_elems f (c2 :: r2)) as [[l r']|] eqn:E; [|discriminate].
      intros H. inversion H; subst. cbn [json_wfb]. exact (IHe _ _ _ E). }
    destruct (Ascii.eqb c "{").
    { destruct (skip_ws r0) as [|c2 r2]; [discriminate|].
      destruct (Ascii.eqb c2 "}"); [intros H; inversion H; subst; reflexivity|].
      destruct (parse_members f (c2 :: r2)) as [[m r']|] eqn:E; [|discriminate].
      intros H. inversion H; subst. cbn [json_wfb]. exact (IHm _ _ _ E). }
    destruct (Ascii.eqb c "t"); [apply parse_lit_wf; reflexivity|].
    destruct (Ascii.eqb c "f"); [apply parse_lit_wf; reflexivity|].
    destruct (Ascii.eqb c "n"); [apply parse_lit_wf; reflexivity|].
    discriminate.
  - intros s l r. cbn [parse_elems].
    destruct (parse_value f s) as [[v r0]|] eqn:Ev; [|discriminate].
    destruct (skip_ws r0) as [|c r']; [discriminate|].
    destruct (Ascii.eqb c ",").
    { destruct (parse_elems f r') as [[l' r'']|] eqn:Ee; [|discriminate].
      intros H. inversion H; subst. cbn [forallb].
      rewrite (IHv _ _ _ Ev), (IHe _ _ _ Ee). reflexivity. }
    destruct (Ascii.eqb c "]"); [|discriminate].
    intros H. inversion H; subst. cbn [forallb]. rewrite (IHv _ _ _ Ev). reflexivity.
  - intros s m r. cbn [parse_members].
    destruct (skip_ws s) as [|q r0]; [discriminate|].
    destruct (Ascii.eqb q """"); [|discriminate].
    destruct (parse_str_body r0) as [[k r1]|]; [|discriminate].
    destruct (skip_ws r1) as [|col r2]; [discriminate|].
    destruct (Ascii.eqb col ":"); [|discriminate].
    destruct (parse_value f r2) as [[v r3]|] eqn:Ev; [|discriminate].
    destruct (skip_ws r3) as [|c r4]; [discriminate|].
    destruct (Ascii.eqb c ",").
    { destruct (parse_members f r4) as [[m' r5]|] eqn:Em; [|discriminate].
      intros H. inversion H; subst. cbn [forallb snd].
      rewrite (IHv _ _ _ Ev), (IHm _ _ _ Em). reflexivity. }
    destruct (Ascii.eqb c "}"); [|discriminate].
    intros H. inversion H; subst. cbn [forallb snd]. rewrite (IHv _ _ _ Ev). reflexivity.
Qed.

Theorem json_parse_prefix_wf s j r : json_parse_prefix s = Some (j, r) -> json_wf j.
Proof. unfold json_parse_prefix. apply (proj1 (parse_wf_fuel (length s))). Qed.

Theorem json_parse_wf s j : json_parse s = Some j -> json_wf j.
Proof.
  unfold json_parse. destruct (json_parse_prefix s) as [[j' r]|] eqn:E; [|discriminate].
  destruct (all_ws r); [|discriminate]. intros H. inversion H; subst.
  exact (json_parse_prefix_wf _ _ _ E).
Qed.

(* json_print is a normaliser: re-reading what it prints gives the same tree *)
Theorem json_parse_reprint s j : json_parse s = Some j -> json_parse (json_print j) = Some j.
Proof. intros H. apply json_print_parse_wf. exact (json_parse_wf _ _ H). Qed.

(* ========================================================================= *)
(* 7. fuel: the length of the text is always enough                            *)

Lemma skip_ws_length s : (length (skip_ws s) <= length s)%nat.
Proof.
  induction s as [|c s IH]; [reflexivity|]. cbn [skip_ws].
  destruct (is_ws c); cbn [length]; lia.
Qed.

Lemma prepend_inv p o d r : prepend p o = Some (d, r) -> exists d', o = Some (d', r).
Proof.
  unfold prepend. destruct o as [[d' r']|]; [|discriminate].
  intros H. inversion H; subst. eexists. reflexivity.
Qed.

Lemma parse_str_body_length_n n : forall s d r,
  (length s <= n)%nat -> parse_str_body s = Some (d, r) -> (length r < length s)%nat.
Proof.
  induction n as [|n IHn]; intros s d r Hn H.
  - destruct s; [discriminate|cbn [length] in Hn; lia].
  - destruct s as [|c s1]; [discriminate|]. cbn [parse_str_body] in H.
    repeat match goal with
    | H : match ?x with _ => _ end = Some _ |- _ => destruct x eqn:?; try discriminate
    | H : (if ?b then _ else _) = Some _ |- _ => destruct b eqn:?; try discriminate
    | H : prepend _ _ = Some _ |- _ => apply prepend_inv in H; destruct H as [? H]
    | H : Some _ = Some _ |- _ => inversion H; subst; clear H
    end;
    cbn [length] in *;
    try lia;
    match goal with
    | H : parse_str_body ?x = Some _ |- _ => apply IHn in H; cbn [length] in *; lia
    end.
Qed.

Lemma parse_str_body_length s d r :
  parse_str_body s = Some (d, r) -> (length r < length s)%nat.
Proof. apply (parse_str_body_length_n (length s)). lia. Qed.

Lemma span_digits_length s ds r :
  span_digits s = (ds, r) -> length s = (length ds + length r)%nat.
Proof.
  revert ds r. induction s as [|c s IH]; intros ds r H; cbn [span_digits] in H.
  - inversion H; subst. reflexivity.
  - destruct (is_digit c).
    + destruct (span_digits s) as [ds' r'] eqn:E. inversion H; subst.
      cbn [length]. rewrite (IH _ _ eq_refl). lia.
    + inversion H; subst. reflexivity.
Qed.

Lemma scan_int_length s ids r : scan_int s = Some (ids, r) -> (length r < length s)%nat.
Proof.
  unfold scan_int. destruct (span_digits s) as [ds r'] eqn:E.
  apply span_digits_length in E.
  destruct ds as [|d ds]; [discriminate|].
  destruct (Ascii.eqb d "0"); [destruct ds; [|discriminate]|];
    intros H; inversion H; subst; cbn [length] in *; lia.
Qed.

Lemma scan_frac_length s fds r : scan_frac s = Some (fds, r) -> (length r <= length s)%nat.
Proof.
  unfold scan_frac. destruct s as [|c s]; [intros H; inversion H; subst; lia|].
  destruct (Ascii.eqb c ".").
  - destruct (span_digits s) as [ds r'] eqn:E. apply span_digits_length in E.
    destruct ds; [discriminate|]. intros H; inversion H; subst. cbn [length] in *. lia.
  - intros H; inversion H; subst. lia.
Qed.

Lemma scan_exp_length s ex r : scan_exp s = Some (ex, r) -> (length r <= length s)%nat.
Proof.
  unfold scan_exp. destruct s as [|c s]; [intros H; inversion H; subst; lia|].
  destruct (Ascii.eqb c "e" || Ascii.eqb c "E"); [|intros H; inversion H; subst; lia].
  destruct (match s with
            | [] => (true, s)
            | sg :: r0 => if Ascii.eqb sg "+" then (true, r0)
                          else if Ascii.eqb sg "-" then (false, r0) else (true, s)
            end) as [pos r1] eqn:E1.
  assert (L1 : (length r1 <= length s)%nat).
  { destruct s as [|sg r0]; [inversion E1; subst; lia|].
    destruct (Ascii.eqb sg "+"); [inversion E1; subst; cbn [length]; lia|].
    destruct (Ascii.eqb sg "-"); inversion E1; subst; cbn [length]; lia. }
  destruct (span_digits r1) as [ds r'] eqn:E. apply span_digits_length in E.
  destruct ds; [discriminate|]. intros H; inversion H; subst. cbn [length] in *. lia.
Qed.

Lemma parse_number_length s j r : parse_number s = Some (j, r) -> (length r < length s)%nat.
Proof.
  unfold parse_number.
  destruct (match s with
            | [] => (false, s)
            | c :: r0 => if Ascii.eqb c "-" then (true, r0) else (false, s)
            end) as [neg s1] eqn:E0.
  assert (L0 : (length s1 <= length s)%nat).
  { destruct s as [|c r0]; [inversion E0; subst; lia|].
    destruct (Ascii.eqb c "-"); inversion E0; subst; cbn [length]; lia. }
  destruct (scan_int s1) as [[ids r1]|] eqn:E1; [|discriminate].
  destruct (scan_frac r1) as [[fds r2]|] eqn:E2; [|discriminate].
  destruct (scan_exp r2) as [[ex r3]|] eqn:E3; [|discriminate].
  apply scan_int_length in E1. apply scan_frac_length in E2. apply scan_exp_length in E3.
  intros H; inversion H; subst. lia.
Qed.

Lemma strip_prefix_length p s r : strip_prefix p s = Some r -> (length r <= length s)%nat.
Proof.
  revert s. induction p as [|x p IH]; intros s; cbn [strip_prefix].
  - intros H; inversion H; subst. lia.
  - destruct s as [|y s]; [discriminate|]. destruct (Ascii.eqb x y); [|discriminate].
    intros H. apply IH in H. cbn [length]. lia.
Qed.

Lemma parse_lit_length lit v s j r : parse_lit lit v s = Some (j, r) -> (length r <= length s)%nat.
Proof.
  unfold parse_lit. destruct (strip_prefix lit s) eqn:E; [|discriminate].
  intros H; inversion H; subst. exact (strip_prefix_length _ _ _ E).
Qed.

(* A successful parse consumes input, and succeeds identically with any fuel that is at
   least the number of bytes it consumed. *)
Lemma parse_fuel_enough fuel :
  (forall s j r, parse_value fuel s = Some (j, r) ->
     (length r < length s)%nat /\
     forall f0, (length s - length r <= f0)%nat -> parse_value f0 s = Some (j, r)) /\
  (forall s l r, parse_elems fuel s = Some (l, r) ->
     (length r < length s)%nat /\
     forall f0, (length s - length r <= f0)%nat -> parse_elems f0 s = Some (l, r)) /\
  (forall s m r, parse_members fuel s = Some (m, r) ->
     (length r < length s)%nat /\
     forall f0, (length s - length r <= f0)%nat -> parse_members f0 s = Some (m, r)).
Proof.
  induction fuel as [|f (IHv & IHe & IHm)]; [repeat split; intros; discriminate|].
  split; [|split].
  - intros s j r. cbn [parse_value].
    pose proof (skip_ws_length s) as Lws.
    destruct (skip_ws s) as [|c r0] eqn:Es; [discriminate|]. cbn [length] in Lws.
    destruct (is_digit c || Ascii.eqb c "-") eqn:C1.
    { intros H. pose proof (parse_number_length _ _ _ H) as L. cbn [length] in L.
      split; [lia|]. intros [|f0] Hf0; [lia|]. cbn [parse_value]. rewrite Es, C1. exact H. }
    destruct (Ascii.eqb c """") eqn:C2.
    { destruct (parse_str_body r0) as [[d r']|] eqn:Eb; [|discriminate].
      intros H; inversion H; subst. pose proof (parse_str_body_length _ _ _ Eb).
      split; [lia|]. intros [|f0] Hf0; [lia|].
      cbn [parse_value]. rewrite Es, C1, C2, Eb. reflexivity. }
    destruct (Ascii.eqb c "[") eqn:C3.
    { pose proof (skip_ws_length r0) as Lws2.
      destruct (skip_ws r0) as [|c2 r2] eqn:Es2; [discriminate|]. cbn [length] in Lws2.
      destruct (Ascii.eqb c2 "]") eqn:C4.
      { intros H; inversion H; subst. split; [lia|]. intros [|f0] Hf0; [lia|].
        cbn [parse_value]. rewrite Es, C1, C2, C3, Es2, C4. reflexivity. }
      destruct (parse_elems f (c2 :: r2)) as [[l r']|] eqn:Ee; [|discriminate].
      intros H; inversion H; subst. destruct (IHe _ _ _ Ee) as [Le He]. cbn [length] in Le.
      split; [lia|]. intros [|f0] Hf0; [lia|].
      cbn [parse_value]. rewrite Es, C1, C2, C3, Es2, C4.
      rewrite (He f0); [reflexivity|cbn [length]; lia]. }
    destruct (Ascii.eqb c "{") eqn:C4.
    { pose proof (skip_ws_length r0) as Lws2.
      destruct (skip_ws r0) as [|c2 r2] eqn:Es2; [discriminate|]. cbn [length] in Lws2.
      destruct (Ascii.eqb c2 "}") eqn:C5.
      { intros H; inversion H; subst. split; [lia|]. intros [|f0] Hf0; [lia|].
        cbn [parse_value]. rewrite Es, C1, C2, C3, C4, Es2, C5. reflexivity. }
      destruct (parse_members f (c2 :: r2)) as [[m r']|] eqn:Em; [|discriminate].
      intros H; inversion H; subst. destruct (IHm _ _ _ Em) as [Lm Hm]. cbn [length] in Lm.
      split; [lia|]. intros [|f0] Hf0; [lia|].
      cbn [parse_value]. rewrite Es, C1, C2, C3, C4, Es2, C5.
      rewrite (Hm f0); [reflexivity|cbn [length]; lia]. }
    destruct (Ascii.eqb c "t") eqn:C5.
    { intros H. pose proof (parse_lit_length _ _ _ _ _ H). split; [lia|].
      intros [|f0] Hf0; [lia|]. cbn [parse_value]. rewrite Es, C1, C2, C3, C4, C5. exact H. }
    destruct (Ascii.eqb c "f") eqn:C6.
    { intros H. pose proof (parse_lit_length _ _ _ _ _ H). split; [lia|].
      intros [|f0] Hf0; [lia|]. cbn [parse_value]. rewrite Es, C1, C2, C3, C4, C5, C6. exact H. }
    destruct (Ascii.eqb c "n") eqn:C7; [|discriminate].
    intros H. pose proof (parse_lit_length _ _ _ _ _ H). split; [lia|].
    intros [|f0] Hf0; [lia|]. cbn [parse_value]. rewrite Es, C1, C2, C3, C4, C5, C6, C7. exact H.
  - intros s l r. cbn [parse_elems].
    destruct (parse_value f s) as [[v r0]|] eqn:Ev; [|discriminate].
    destruct (IHv _ _ _ Ev) as [Lv Hv].
    pose proof (skip_ws_length r0) as Lws.
    destruct (skip_ws r0) as [|c r'] eqn:Es; [discriminate|]. cbn [length] in Lws.
    destruct (Ascii.eqb c ",") eqn:C1.
    { destruct (parse_elems f r') as [[l' r'']|] eqn:Ee; [|discriminate].
      destruct (IHe _ _ _ Ee) as [Le He].
      intros H; inversion H; subst. split; [lia|]. intros [|f0] Hf0; [lia|].
      cbn [parse_elems]. rewrite (Hv f0) by lia. rewrite Es, C1. rewrite (He f0) by lia.
      reflexivity. }
    destruct (Ascii.eqb c "]") eqn:C2; [|discriminate].
    intros H; inversion H; subst. split; [lia|]. intros [|f0] Hf0; [lia|].
    cbn [parse_elems]. rewrite (Hv f0) by lia. rewrite Es, C1, C2. reflexivity.
  - intros s m r. cbn [parse_members].
    pose proof (skip_ws_length s) as Lws0.
    destruct (skip_ws s) as [|q r0] eqn:Es0; [discriminate|]. cbn [length] in Lws0.
    destruct (Ascii.eqb q """") eqn:C0; [|discriminate].
    destruct (parse_str_body r0) as [[k r1]|] eqn:Ek; [|discriminate].
    pose proof (parse_str_body_length _ _ _ Ek) as Lk.
    pose proof (skip_ws_length r1) as Lws1.
    destruct (skip_ws r1) as [|col r2] eqn:Es1; [discriminate|]. cbn [length] in Lws1.
    destruct (Ascii.eqb col ":") eqn:C1; [|discriminate].
    destruct (parse_value f r2) as [[v r3]|] eqn:Ev; [|discriminate].
    destruct (IHv _ _ _ Ev) as [Lv Hv].
    pose proof (skip_ws_length r3) as Lws3.
    destruct (skip_ws r3) as [|c r4] eqn:Es3; [discriminate|]. cbn [length] in Lws3.
    destruct (Ascii.eqb c ",") eqn:C2.
    { destruct (parse_members f r4) as [[m' r5]|] eqn:Em; [|discriminate].
      destruct (IHm _ _ _ Em) as [Lm Hm].
      intros H; inversion H; subst. split; [lia|]. intros [|f0] Hf0; [lia|].
      cbn [parse_members]. rewrite Es0, C0, Ek, Es1, C1. rewrite (Hv f0) by lia.
      rewrite Es3, C2. rewrite (Hm f0) by lia. reflexivity. }
    destruct (Ascii.eqb c "}") eqn:C3; [|discriminate].
    intros H; inversion H; subst. split; [lia|]. intros [|f0] Hf0; [lia|].
    cbn [parse_members]. rewrite Es0, C0, Ek, Es1, C1. rewrite (Hv f0) by lia.
    rewrite Es3, C2, C3. reflexivity.
Qed.

(* Hence more fuel than the length of the text never changes the result. *)
Theorem parse_value_fuel f s :
  (length s <= f)%nat -> parse_value f s = json_parse_prefix s.
Proof.
  intros Hf. unfold json_parse_prefix.
  destruct (parse_value f s) as [[j r]|] eqn:E1.
  - destruct (proj1 (parse_fuel_enough f) _ _ _ E1) as [_ H]. symmetry. apply H. lia.
  - destruct (parse_value (length s) s) as [[j r]|] eqn:E2; [|reflexivity].
    destruct (proj1 (parse_fuel_enough _) _ _ _ E2) as [_ H].
    rewrite H in E1 by lia. discriminate.
Qed.

(* the rest is a proper suffix: a value is never empty *)
Theorem json_parse_prefix_consumes s j r :
  json_parse_prefix s = Some (j, r) -> (length r < length s)%nat.
Proof. intros H. exact (proj1 (proj1 (parse_fuel_enough _) _ _ _ H)). Qed.

Local Close Scope char_scope.

(* ========================================================================= *)
(* 8. the float overflow test: the bit-size shortcuts are sound               *)

Lemma round53_le n : round53 n <= 2 ^ N.size n.
Proof.
  unfold round53. destruct (N.size n <=? 53) eqn:E.
  - apply N.lt_le_incl, N.size_gt.
  - apply N.leb_gt in E.
    set (k := N.size n - 53).
    assert (Hk : N.size n = 53 + k) by (unfold k; lia).
    assert (Hq : N.shiftr n k < 2 ^ 53).
    { rewrite N.shiftr_div_pow2. apply N.div_lt_upper_bound.
      - apply N.pow_nonzero. discriminate.
      - rewrite <- N.pow_add_r. rewrite N.add_comm, <- Hk. apply N.size_gt. }
    set (q := N.shiftr n k) in *.
    match goal with |- N.shiftl ?q' k <= _ => assert (Hq' : q' <= 2 ^ 53) end.
    { destruct (_ || _); lia. }
    rewrite N.shiftl_mul_pow2, Hk, N.pow_add_r.
    apply N.mul_le_mono_r. exact Hq'.
Qed.

Lemma size_pred_le n : n <> 0 -> 2 ^ (N.size n - 1) <= n.
Proof.
  intros Hn. rewrite N.size_log2 by exact Hn.
  replace (N.succ (N.log2 n) - 1) with (N.log2 n) by lia.
  apply N.log2_spec. lia.
Qed.

Lemma round53_ge n : n <> 0 -> 2 ^ (N.size n - 1) <= round53 n.
Proof.
  intros Hn. unfold round53. destruct (N.size n <=? 53) eqn:E.
  - apply size_pred_le, Hn.
  - apply N.leb_gt in E.
    set (k := N.size n - 53).
    assert (Hk : N.size n - 1 = 52 + k) by (unfold k; lia).
    assert (Hq : 2 ^ 52 <= N.shiftr n k).
    { rewrite N.shiftr_div_pow2. apply N.div_le_lower_bound.
      - apply N.pow_nonzero. discriminate.
      - rewrite <- N.pow_add_r. rewrite N.add_comm, <- Hk. apply size_pred_le, Hn. }
    set (q := N.shiftr n k) in *.
    match goal with |- _ <= N.shiftl ?q' k => assert (Hq' : 2 ^ 52 <= q') end.
    { destruct (_ || _); lia. }
    rewrite N.shiftl_mul_pow2, Hk, N.pow_add_r.
    apply N.mul_le_mono_r. exact Hq'.
Qed.

(* 2^(e*3321/1000) <= 10^e < 2^(e*3322/1000+1) for e <= 308, by enumeration *)
Definition pow10_ok (e : N) : bool :=
  (2 ^ (e * 3321 / 1000) <=? 10 ^ e) && (10 ^ e <? 2 ^ (e * 3322 / 1000 + 1)).

Fixpoint pow10_ok_upto (n : nat) : bool :=
  pow10_ok (N.of_nat n) && match n with O => true | S m => pow10_ok_upto m end.

Lemma pow10_ok_upto_sound n :
  pow10_ok_upto n = true -> forall k, (k <= n)%nat -> pow10_ok (N.of_nat k) = true.
Proof.
  induction n as [|n IH]; cbn [pow10_ok_upto]; intros H k Hk;
    apply andb_true_iff in H; destruct H as [H1 H2].
  - replace k with O by lia. exact H1.
  - destruct (Nat.eq_dec k (S n)) as [->|Hne]; [exact H1|]. apply IH; [exact H2|lia].
Qed.

Lemma pow10_bounds e :
  e <= 308 -> 2 ^ (e * 3321 / 1000) <= 10 ^ e /\ 10 ^ e < 2 ^ (e * 3322 / 1000 + 1).
Proof.
  intros He.
  assert (H : pow10_ok_upto 308 = true) by (vm_compute; reflexivity).
  pose proof (pow10_ok_upto_sound 308 H (N.to_nat e) ltac:(lia)) as K.
  rewrite N2Nat.id in K. unfold pow10_ok in K. apply andb_true_iff in K.
  destruct K as [K1 K2]. apply N.leb_le in K1. apply N.ltb_lt in K2. split; assumption.
Qed.

Lemma size_le_of_lt n m : n < 2 ^ m -> N.size n <= m.
Proof.
  intros H. destruct (N.eq_dec n 0) as [->|Hn]; [simpl; lia|].
  rewrite N.size_log2 by exact Hn. apply N.le_succ_l. apply N.log2_lt_pow2; [lia|exact H].
Qed.

Lemma size_ge_of_le n m : 2 ^ m <= n -> m <= N.size n - 1.
Proof.
  intros H. assert (Hn : n <> 0) by (pose proof (N.pow_nonzero 2 m); lia).
  rewrite N.size_log2 by exact Hn.
  replace (N.succ (N.log2 n) - 1) with (N.log2 n) by lia.
  apply N.log2_le_pow2; [lia|exact H].
Qed.

(* What f64_from_parts_inf computes, stated without the two shortcuts. *)
Theorem f64_from_parts_inf_spec sig e :
  f64_from_parts_inf sig e =
  negb (sig =? 0) && (0 <=? e)%Z &&
  ((308 <? e)%Z || (f64_overflow_threshold <=? round53 sig * round53 (10 ^ Z.to_N e))).
Proof.
  unfold f64_from_parts_inf.
  destruct (sig =? 0) eqn:Es; [reflexivity|]. apply N.eqb_neq in Es. cbn [negb andb].
  destruct (e <? 0)%Z eqn:E0.
  { apply Z.ltb_lt in E0. replace (0 <=? e)%Z with false by (symmetry; apply Z.leb_gt; lia).
    reflexivity. }
  apply Z.ltb_ge in E0. replace (0 <=? e)%Z with true by (symmetry; apply Z.leb_le; lia).
  cbn [andb]. destruct (308 <? e)%Z eqn:E1; [reflexivity|]. cbn [orb].
  apply Z.ltb_ge in E1.
  set (en := Z.to_N e). assert (Hen : en <= 308) by (unfold en; lia).
  destruct (pow10_bounds en Hen) as [PL PU].
  set (U := en * 3322 / 1000 + 1) in *. set (L := en * 3321 / 1000) in *.
  pose proof (round53_le sig) as S1. pose proof (round53_ge sig Es) as S2.
  assert (P0 : 10 ^ en <> 0) by (apply N.pow_nonzero; discriminate).
  pose proof (round53_le (10 ^ en)) as P1. pose proof (round53_ge (10 ^ en) P0) as P2.
  pose proof (size_le_of_lt _ _ PU) as Q1. pose proof (size_ge_of_le _ _ PL) as Q2.
  destruct (N.size sig + U <=? 1023) eqn:F1.
  { (* product < 2^1023 *)
    apply N.leb_le in F1. symmetry. apply N.leb_gt.
    apply N.le_lt_trans with (2 ^ N.size sig * 2 ^ N.size (10 ^ en)).
    - apply N.mul_le_mono; assumption.
    - rewrite <- N.pow_add_r.
      apply N.le_lt_trans with (2 ^ 1023); [apply N.pow_le_mono_r; lia|].
      vm_compute. reflexivity. }
  destruct (1025 <=? N.size sig + L) eqn:F2; [|reflexivity].
  (* product >= 2^1024 *)
  apply N.leb_le in F2. symmetry. apply N.leb_le.
  apply N.le_trans with (2 ^ (N.size sig - 1) * 2 ^ (N.size (10 ^ en) - 1)).
  - rewrite <- N.pow_add_r.
    apply N.le_trans with (2 ^ 1024); [vm_compute; discriminate|].
    apply N.pow_le_mono_r; lia.
  - apply N.mul_le_mono; assumption.
Qed.

(* ========================================================================= *)
(* 9. examples                                                                 *)

Local Open Scope string_scope.
Local Open Scope Z_scope.

Definition B (l : list N) : bytes := map nb l.

(* escapes: a, \n, \u0041, \/, escaped quote, escaped backslash, \t *)
Example ex_escapes :
  json_parse (s2b """a\n\u0041\/\""\\\t""") = Some (JStr (B [97; 10; 65; 47; 34; 92; 9]%N) true).
Proof. vm_compute. reflexivity. Qed.

(* a surrogate pair is one code point: U+1F600 = F0 9F 98 80 *)
Example ex_surrogate_pair :
  json_parse (s2b """😀""") = Some (JStr (B [240; 159; 152; 128]%N) true).
Proof. vm_compute. reflexivity. Qed.

(* raw UTF-8 is copied *)
Example ex_raw_utf8 :
  json_parse (""""%char :: B [240; 159; 152; 128]%N ++ [""""%char])%list
  = Some (JStr (B [240; 159; 152; 128]%N) true).
Proof. vm_compute. reflexivity. Qed.

(* lone surrogates and ill-formed UTF-8 are tolerated when skipped: ok = false *)
Example ex_lone_lead :
  json_parse (s2b """\ud800x""") = Some (JStr (B [237; 160; 128; 120]%N) false).
Proof. vm_compute. reflexivity. Qed.
Example ex_lone_trail :
  json_parse (s2b """\udc00""") = Some (JStr (B [237; 176; 128]%N) false).
Proof. vm_compute. reflexivity. Qed.
Example ex_lead_then_pair :
  json_parse (s2b """\ud800😀""")
  = Some (JStr (B [237; 160; 128; 240; 159; 152; 128]%N) false).
Proof. vm_compute. reflexivity. Qed.
Example ex_bad_utf8 :
  json_parse (""""%char :: B [255]%N ++ [""""%char])%list = Some (JStr (B [255]%N) false).
Proof. vm_compute. reflexivity. Qed.
Example ex_overlong : utf8_valid (B [192; 128]%N) = false. Proof. reflexivity. Qed.
Example ex_utf8_surrogate : utf8_valid (B [237; 160; 128]%N) = false. Proof. reflexivity. Qed.
Example ex_utf8_max : utf8_valid (B [244; 143; 191; 191]%N) = true. Proof. reflexivity. Qed.
Example ex_utf8_too_big : utf8_valid (B [244; 144; 128; 128]%N) = false. Proof. reflexivity. Qed.

(* ... but a control character, a bad escape or an unterminated string never is *)
Example ex_control : json_parse (""""%char :: B [31]%N ++ [""""%char])%list = None.
Proof. vm_compute. reflexivity. Qed.
Example ex_bad_escape : json_parse (s2b """\a""") = None. Proof. vm_compute. reflexivity. Qed.
Example ex_short_u : json_parse (s2b """\u12""") = None. Proof. vm_compute. reflexivity. Qed.
Example ex_unterminated : json_parse (s2b """abc") = None. Proof. vm_compute. reflexivity. Qed.

(* numbers *)
Example ex_minus_zero : json_parse (s2b "-0") = Some (JFloat false).
Proof. vm_compute. reflexivity. Qed.
Example ex_zero : json_parse (s2b "0") = Some (JInt 0). Proof. vm_compute. reflexivity. Qed.
Example ex_1e999 : json_parse (s2b "1e999") = Some (JFloat true).
Proof. vm_compute. reflexivity. Qed.
Example ex_0e999 : json_parse (s2b "0e99999999999") = Some (JFloat false).
Proof. vm_compute. reflexivity. Qed.
Example ex_u64_max :
  json_parse (s2b "18446744073709551615") = Some (JInt 18446744073709551615).
Proof. vm_compute. reflexivity. Qed.
Example ex_u64_max_plus_1 : json_parse (s2b "18446744073709551616") = Some (JFloat false).
Proof. vm_compute. reflexivity. Qed.
Example ex_i64_min :
  json_parse (s2b "-9223372036854775808") = Some (JInt (-9223372036854775808)).
Proof. vm_compute. reflexivity. Qed.
Example ex_i64_min_minus_1 : json_parse (s2b "-9223372036854775809") = Some (JFloat false).
Proof. vm_compute. reflexivity. Qed.
Example ex_float : json_parse (s2b "-12.50E+3") = Some (JFloat false).
Proof. vm_compute. reflexivity. Qed.
(* f64::MAX is fine; the next 17-digit literal overflows in serde_json's
   `significand as f64 * 1e292` although it is below f64::MAX + half an ulp *)
Example ex_f64_max : json_parse (s2b "1.7976931348623157e308") = Some (JFloat false).
Proof. vm_compute. reflexivity. Qed.
Example ex_f64_over : json_parse (s2b "1.7976931348623158e308") = Some (JFloat true).
Proof. vm_compute. reflexivity. Qed.
Example ex_10e308 : json_parse (s2b "10e308") = Some (JFloat true).
Proof. vm_compute. reflexivity. Qed.
Example ex_point1e309 : json_parse (s2b "0.1e309") = Some (JFloat false).
Proof. vm_compute. reflexivity. Qed.
Example ex_bad_numbers :
  map (fun s => json_parse (s2b s)) ["01"; "-01"; "1."; ".5"; "1e"; "1e+"; "+1"; "-"; "--1"; "0x1"; "1.e5"]
  = [None; None; None; None; None; None; None; None; None; None; None].
Proof. vm_compute. reflexivity. Qed.

(* literals, structure *)
Example ex_literals :
  map (fun s => json_parse (s2b s)) ["null"; "true"; "false"; " null "; "nul"; "nulll"; "NaN"; "Infinity"; "'a'"; ""]
  = [Some JNull; Some (JBool true); Some (JBool false); Some JNull; None; None; None; None; None; None].
Proof. vm_compute. reflexivity. Qed.

Example ex_duplicates :
  json_parse (s2b "{""a"":1,""a"":2}") = Some (JObj [(s2b "a", JInt 1); (s2b "a", JInt 2)]).
Proof. vm_compute. reflexivity. Qed.

Example ex_nested :
  json_parse (s2b " { ""k"" : [ 1 , [ ] , { } , ""x"" ] , ""n"" : null } ")
  = Some (JObj [(s2b "k", JArr [JInt 1; JArr []; JObj []; JStr (s2b "x") true]); (s2b "n", JNull)]).
Proof. vm_compute. reflexivity. Qed.

Example ex_bad_structure :
  map (fun s => json_parse (s2b s))
      ["[1,]"; "[,1]"; "{""a"":1,}"; "{""a"" 1}"; "{a:1}"; "[1 2]"; "[1"; "{""a"":"; "[1}"; "1 2"; "[]x"; "// c"]
  = [None; None; None; None; None; None; None; None; None; None; None; None].
Proof. vm_compute. reflexivity. Qed.

(* prefix parsing stops right after the value *)
Example ex_prefix : json_parse_prefix (s2b " 12 x") = Some (JInt 12, s2b " x").
Proof. vm_compute. reflexivity. Qed.
Example ex_prefix2 : json_parse_prefix (s2b "nullx") = Some (JNull, s2b "x").
Proof. vm_compute. reflexivity. Qed.
Example ex_bom : json_parse (B [239; 187; 191; 49]%N) = None. Proof. vm_compute. reflexivity. Qed.
Example ex_formfeed : json_parse (B [12; 49]%N) = None. Proof. vm_compute. reflexivity. Qed.

(* keys are read leniently inside skipped values; json_strict tells *)
Example ex_key_lone_surrogate :
  option_map json_strict (json_parse (s2b "[{""\ud800"":1}]")) = Some false.
Proof. vm_compute. reflexivity. Qed.
Example ex_strict :
  option_map json_strict (json_parse (s2b "[{""k"":1.5e3}]")) = Some true.
Proof. vm_compute. reflexivity. Qed.
Example ex_not_strict :
  option_map json_strict (json_parse (s2b "[{""k"":1e400}]")) = Some false.
Proof. vm_compute. reflexivity. Qed.

Example ex_depth :
  option_map json_depth (json_parse (s2b "[[],{""a"":[1]},2]")) = Some 3%nat.
Proof. vm_compute. reflexivity. Qed.
Example ex_depth_scalar : json_depth (JInt 1) = 0%nat. Proof. reflexivity. Qed.
Example ex_depth_empty : json_depth (JArr []) = 1%nat. Proof. reflexivity. Qed.

(* printing *)
Example ex_print :
  json_print (JObj [(s2b "k", JArr [JInt (-5); JStr (B [97; 34; 98; 92; 10; 1; 31; 127; 195; 169]%N) true;
                                    JNull; JBool true; JInt 18446744073709551615]);
                    (s2b "", JObj [])])
  = (s2b "{""k"":[-5,""a\""b\\\n\u0001\u001f" ++ B [127; 195; 169]%N
     ++ s2b """,null,true,18446744073709551615],"""":{}}")%list.
Proof. vm_compute. reflexivity. Qed.

(* ========================================================================= *)

Print Assumptions json_print_parse.
Print Assumptions json_parse_prefix_app.
Print Assumptions json_print_parse_wf.
Print Assumptions json_parse_prefix_app_wf.
Print Assumptions json_canonical_strict.
Print Assumptions json_parse_wf.
Print Assumptions json_parse_reprint.
Print Assumptions parse_value_fuel.
Print Assumptions json_parse_prefix_consumes.
Print Assumptions f64_from_parts_inf_spec.
