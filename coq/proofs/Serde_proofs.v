(* Proofs about the serde decoder/encoder models of Serde.v (statements use SerdeSpec.v). *)
From OA Require Import Bytes Json Json_proofs Lower Lower_proofs ErrorCodes Serde SerdeSpec.
From Coq Require Import ZArith Lia Permutation.

(* ========================================================================= *)
(* 1. generic facts                                                            *)

Lemma count_key_perm n m m' : Permutation m m' -> count_key n m = count_key n m'.
Proof.
  intros HP. induction HP as [|[k v] l l' HP IH|[k1 v1] [k2 v2] l|l1 l2 l3 HP1 IH1 HP2 IH2].
  - reflexivity.
  - cbn [count_key]. rewrite IH. reflexivity.
  - cbn [count_key]. lia.
  - congruence.
Qed.

Lemma find_key_perm n m m' :
  Permutation m m' -> (count_key n m <= 1)%nat -> find_key n m = find_key n m'.
Proof.
  intros HP. induction HP as [|[k v] l l' HP IH|[k1 v1] [k2 v2] l|l1 l2 l3 HP1 IH1 HP2 IH2];
    intros Hc.
  - reflexivity.
  - cbn [find_key count_key] in *. destruct (bytes_eqb n k); [reflexivity|].
    apply IH. lia.
  - cbn [find_key count_key] in *.
    destruct (bytes_eqb n k1), (bytes_eqb n k2); try reflexivity. lia.
  - rewrite IH1 by exact Hc. apply IH2. rewrite <- (count_key_perm n _ _ HP1). exact Hc.
Qed.

Lemma group_count_perm g m m' : Permutation m m' -> group_count g m = group_count g m'.
Proof.
  intros HP. induction g as [|n g IH]; [reflexivity|].
  unfold group_count in *. cbn [fold_right]. rewrite IH, (count_key_perm n _ _ HP). reflexivity.
Qed.

Lemma group_count_cons n g m : group_count (n :: g) m = (count_key n m + group_count g m)%nat.
Proof. reflexivity. Qed.

Lemma find_group_perm g m m' :
  Permutation m m' -> (group_count g m <= 1)%nat -> find_group g m = find_group g m'.
Proof.
  intros HP. induction g as [|n g IH]; intros Hc; [reflexivity|].
  rewrite group_count_cons in Hc. cbn [find_group].
  rewrite <- (find_key_perm n _ _ HP) by lia. rewrite <- IH by lia. reflexivity.
Qed.

Lemma forallb_ext' {A} (f g : A -> bool) l : (forall x, f x = g x) -> forallb f l = forallb g l.
Proof. intros H. induction l as [|x l IH]; cbn [forallb]; [reflexivity|]. rewrite H, IH. reflexivity. Qed.

Lemma no_dups_perm gs m m' : Permutation m m' -> no_dups gs m = no_dups gs m'.
Proof.
  intros HP. unfold no_dups. apply forallb_ext'. intros g.
  rewrite (group_count_perm g _ _ HP). reflexivity.
Qed.

Lemma forallb_perm {A} (f : A -> bool) l l' : Permutation l l' -> forallb f l = forallb f l'.
Proof.
  intros HP. induction HP as [|x l l' HP IH|x y l|l1 l2 l3 HP1 IH1 HP2 IH2]; cbn [forallb].
  - reflexivity.
  - rewrite IH. reflexivity.
  - destruct (f x), (f y); reflexivity.
  - congruence.
Qed.

Lemma fold_max_perm {A} (f : A -> nat) l l' :
  Permutation l l' ->
  fold_right (fun x a => Nat.max (f x) a) O l = fold_right (fun x a => Nat.max (f x) a) O l'.
Proof.
  intros HP. induction HP as [|x l l' HP IH|x y l|l1 l2 l3 HP1 IH1 HP2 IH2]; cbn [fold_right].
  - reflexivity.
  - rewrite IH. reflexivity.
  - lia.
  - congruence.
Qed.

Lemma flatten_ok_perm m m' : Permutation m m' -> flatten_ok m = flatten_ok m'.
Proof.
  intros HP. unfold flatten_ok. cbn [json_strict json_depth].
  rewrite (forallb_perm _ _ _ HP).
  rewrite (fold_max_perm (fun kv : bytes * json => json_depth (snd kv)) _ _ HP). reflexivity.
Qed.

Lemma filter_perm {A} (f : A -> bool) l l' : Permutation l l' -> Permutation (filter f l) (filter f l').
Proof.
  intros HP. induction HP as [|x l l' HP IH|x y l|l1 l2 l3 HP1 IH1 HP2 IH2]; cbn [filter].
  - constructor.
  - destruct (f x); [constructor|]; exact IH.
  - destruct (f x), (f y); try apply Permutation_refl. constructor.
  - eapply Permutation_trans; eassumption.
Qed.

Lemma unknown_members_perm names m m' :
  Permutation m m' -> Permutation (unknown_members names m) (unknown_members names m').
Proof. apply filter_perm. Qed.

(* ---- split / join ------------------------------------------------------- *)

Lemma split_on_nonempty sep s : split_on sep s <> [].
Proof.
  destruct s as [|c s]; cbn [split_on]; [discriminate|].
  destruct (Ascii.eqb c sep); [discriminate|]. destruct (split_on sep s); discriminate.
Qed.

Lemma split_on_nospace x : has_space x = false -> split_on space x = [x].
Proof.
  induction x as [|c x IH]; intros H; [reflexivity|].
  unfold has_space in H. cbn [existsb] in H. apply orb_false_iff in H. destruct H as [Hc Hx].
  cbn [split_on]. rewrite Ascii.eqb_sym, Hc. rewrite (IH Hx). reflexivity.
Qed.

Lemma split_on_app_space x r :
  has_space x = false -> split_on space (x ++ space :: r) = x :: split_on space r.
Proof.
  induction x as [|c x IH]; intros H.
  - cbn [app split_on]. rewrite Ascii.eqb_refl. reflexivity.
  - unfold has_space in H. cbn [existsb] in H. apply orb_false_iff in H. destruct H as [Hc Hx].
    cbn [app split_on]. rewrite Ascii.eqb_sym, Hc. rewrite (IH Hx). reflexivity.
Qed.

Lemma split_join l : scopes_ok l = true -> split_on space (join [space] l) = l.
Proof.
  destruct l as [|x l]; [discriminate|]. unfold scopes_ok.
  revert x. induction l as [|y l IH]; intros x H.
  - cbn [forallb] in H. rewrite andb_true_r in H. apply negb_true_iff in H.
    cbn [join]. apply split_on_nospace. exact H.
  - cbn [forallb] in H. apply andb_true_iff in H. destruct H as [Hx Hr].
    apply negb_true_iff in Hx. rewrite join_cons2. cbn [app].
    rewrite split_on_app_space by exact Hx. rewrite IH; [reflexivity|]. exact Hr.
Qed.

Lemma split_pieces_nospace s : forallb (fun p => negb (has_space p)) (split_on space s) = true.
Proof.
  induction s as [|c s IH]; [reflexivity|].
  cbn [split_on]. destruct (Ascii.eqb c space) eqn:Ec.
  - cbn [forallb]. rewrite IH. reflexivity.
  - destruct (split_on space s) as [|p ps]; [unfold has_space; cbn [forallb existsb]; rewrite Ascii.eqb_sym, Ec; reflexivity|].
    cbn [forallb] in *. apply andb_true_iff in IH. destruct IH as [Hp Hps].
    rewrite Hps, andb_true_r. unfold has_space in *. cbn [existsb].
    rewrite Ascii.eqb_sym, Ec. exact Hp.
Qed.

Lemma split_scopes_ok s : scopes_ok (split_on space s) = true.
Proof.
  unfold scopes_ok. pose proof (split_on_nonempty space s) as Hne.
  pose proof (split_pieces_nospace s) as Hp.
  destruct (split_on space s); [congruence|exact Hp].
Qed.

Lemma join_split s : join [space] (split_on space s) = s.
Proof.
  induction s as [|c s IH]; [reflexivity|].
  cbn [split_on]. pose proof (split_on_nonempty space s) as Hne.
  destruct (Ascii.eqb c space) eqn:Ec.
  - apply Ascii.eqb_eq in Ec. subst c.
    destruct (split_on space s) as [|p ps]; [congruence|].
    rewrite join_cons2, IH. reflexivity.
  - destruct (split_on space s) as [|p ps]; [congruence|].
    destruct ps as [|q ps].
    + cbn [join] in *. rewrite IH. reflexivity.
    + rewrite join_cons2 in *. rewrite <- IH. reflexivity.
Qed.

Lemma lower_idem s : lower_tt (lower_tt s) = lower_tt s.
Proof. apply lower_tt_idem. Qed.

(* ========================================================================= *)
(* 2. infrastructure: skipping a member, field decoders, encoder lists         *)

Local Open Scope Z_scope.

Lemma find_group1 n m : find_group [n] m = find_key n m.
Proof. cbn [find_group]. destruct (find_key n m); reflexivity. Qed.

Lemma group_count1 n m : group_count [n] m = count_key n m.
Proof. unfold group_count. cbn [fold_right]. lia. Qed.

Lemma is_known_false_neq names k n : is_known names k = false -> In n names -> bytes_eqb n k = false.
Proof.
  intros H HI. apply bytes_eqb_neq. intros ->. apply mem_bytes_In in HI.
  unfold is_known in H. congruence.
Qed.

Lemma is_known_sub names g k :
  is_known names k = false -> forallb (fun n => mem_bytes n names) g = true -> is_known g k = false.
Proof.
  intros H Hs. destruct (is_known g k) eqn:E; [|reflexivity].
  unfold is_known in *. apply mem_bytes_In in E.
  rewrite forallb_forall in Hs. apply Hs in E. congruence.
Qed.

Lemma mem_bytes_app x a b : mem_bytes x (a ++ b) = mem_bytes x a || mem_bytes x b.
Proof. induction a as [|y a IH]; cbn [mem_bytes app]; [reflexivity|]. rewrite IH, orb_assoc. reflexivity. Qed.

Lemma count_key_cons_ne n k v m : bytes_eqb n k = false -> count_key n ((k, v) :: m) = count_key n m.
Proof. intros H. cbn [count_key]. rewrite H. reflexivity. Qed.

Lemma find_key_cons_ne n k v m : bytes_eqb n k = false -> find_key n ((k, v) :: m) = find_key n m.
Proof. intros H. cbn [find_key]. rewrite H. reflexivity. Qed.

Lemma group_count_skip g k v m : is_known g k = false -> group_count g ((k, v) :: m) = group_count g m.
Proof.
  induction g as [|n g IH]; intros H; [reflexivity|].
  rewrite !group_count_cons. unfold is_known in *. cbn [mem_bytes] in H.
  apply orb_false_iff in H. destruct H as [H1 H2].
  rewrite count_key_cons_ne by (rewrite bytes_eqb_sym; exact H1). rewrite IH by exact H2. reflexivity.
Qed.

Lemma find_group_skip g k v m : is_known g k = false -> find_group g ((k, v) :: m) = find_group g m.
Proof.
  induction g as [|n g IH]; intros H; [reflexivity|].
  unfold is_known in *. cbn [mem_bytes] in H.
  apply orb_false_iff in H. destruct H as [H1 H2]. cbn [find_group].
  rewrite find_key_cons_ne by (rewrite bytes_eqb_sym; exact H1). rewrite IH by exact H2. reflexivity.
Qed.

Lemma no_dups_skip gs k v m : is_known (concat gs) k = false -> no_dups gs ((k, v) :: m) = no_dups gs m.
Proof.
  induction gs as [|g gs IH]; intros H; [reflexivity|].
  unfold is_known in H. cbn [concat] in H. rewrite mem_bytes_app in H.
  apply orb_false_iff in H. destruct H as [H1 H2].
  unfold no_dups in *. cbn [forallb]. rewrite group_count_skip by exact H1.
  rewrite IH by exact H2. reflexivity.
Qed.

Lemma unknown_members_skip names k v m :
  is_known names k = false -> unknown_members names ((k, v) :: m) = (k, v) :: unknown_members names m.
Proof. intros H. unfold unknown_members. cbn [filter fst]. rewrite H. reflexivity. Qed.

Lemma unknown_members_known names k v m :
  is_known names k = true -> unknown_members names ((k, v) :: m) = unknown_members names m.
Proof. intros H. unfold unknown_members. cbn [filter fst]. rewrite H. reflexivity. Qed.

Definition odepth (m : obj) : nat := fold_right (fun kv a => Nat.max (json_depth (snd kv)) a) O m.

Lemma json_depth_obj m : json_depth (JObj m) = S (odepth m).
Proof. reflexivity. Qed.

Lemma odepth_cons k v m : odepth ((k, v) :: m) = Nat.max (json_depth v) (odepth m).
Proof. reflexivity. Qed.

Lemma json_strict_obj_cons k v m :
  json_strict (JObj ((k, v) :: m)) = utf8_valid k && json_strict v && json_strict (JObj m).
Proof. reflexivity. Qed.

Lemma flatten_ok_spec m :
  flatten_ok m = true <-> json_strict (JObj m) = true /\ (S (odepth m) <= json_max_strict_depth)%nat.
Proof.
  unfold flatten_ok. rewrite json_depth_obj, andb_true_iff, Nat.leb_le. reflexivity.
Qed.

Lemma flatten_ok_cons k v m :
  utf8_valid k = true -> json_strict v = true -> (json_depth v < json_max_strict_depth)%nat ->
  flatten_ok ((k, v) :: m) = flatten_ok m.
Proof.
  intros Hk Hv Hd. unfold flatten_ok.
  rewrite json_strict_obj_cons, Hk, Hv, !json_depth_obj, odepth_cons. cbn [andb]. f_equal.
  destruct (Nat.leb_spec (S (Nat.max (json_depth v) (odepth m))) json_max_strict_depth),
           (Nat.leb_spec (S (odepth m)) json_max_strict_depth); try reflexivity; lia.
Qed.

Lemma no_dups_In gs g m : no_dups gs m = true -> In g gs -> (group_count g m <= 1)%nat.
Proof.
  unfold no_dups. rewrite forallb_forall. intros H HI. apply Nat.leb_le. apply H. exact HI.
Qed.

Lemma req_perm {A} (d : json -> option A) g m m' :
  Permutation m m' -> (group_count g m <= 1)%nat -> req d g m = req d g m'.
Proof. intros HP Hc. unfold req. rewrite (find_group_perm g _ _ HP Hc). reflexivity. Qed.

Lemma optm_perm {A} (d : json -> option A) dflt g m m' :
  Permutation m m' -> (group_count g m <= 1)%nat -> optm d dflt g m = optm d dflt g m'.
Proof. intros HP Hc. unfold optm. rewrite (find_group_perm g _ _ HP Hc). reflexivity. Qed.

Lemma req_skip {A} (d : json -> option A) g k v m :
  is_known g k = false -> req d g ((k, v) :: m) = req d g m.
Proof. intros H. unfold req. rewrite find_group_skip by exact H. reflexivity. Qed.

Lemma optm_skip {A} (d : json -> option A) dflt g k v m :
  is_known g k = false -> optm d dflt g ((k, v) :: m) = optm d dflt g m.
Proof. intros H. unfold optm. rewrite find_group_skip by exact H. reflexivity. Qed.

Lemma req1 {A} (d : json -> option A) n m :
  req d [n] m = match find_key n m with Some j => d j | None => None end.
Proof. unfold req. rewrite find_group1. reflexivity. Qed.

Lemma optm1 {A} (d : json -> option A) dflt n m :
  optm d dflt [n] m = match find_key n m with Some j => d j | None => Some dflt end.
Proof. unfold optm. rewrite find_group1. reflexivity. Qed.

Lemma find_key_count n m : find_key n m <> None -> (1 <= count_key n m)%nat.
Proof.
  induction m as [|[k v] m IH]; cbn [find_key count_key]; [congruence|].
  destruct (bytes_eqb n k); [lia|]. intros H. apply IH in H. lia.
Qed.

(* ---- field decoders ----------------------------------------------------- *)

Lemma d_string_inv j s : d_string j = Some s -> j = JStr s true.
Proof. destruct j as [| | | |s' [|]| |]; cbn [d_string]; congruence. Qed.

Lemma d_bool_inv j b : d_bool j = Some b -> j = JBool b.
Proof. destruct j; cbn [d_bool]; congruence. Qed.

Lemma d_u64_inv j n : d_u64 j = Some n -> exists z, j = JInt z /\ (0 <= z <= U64MAXZ) /\ n = Z.to_N z.
Proof.
  destruct j as [| |z| | | |]; cbn [d_u64]; try discriminate.
  destruct ((0 <=? z) && (z <=? U64MAXZ)) eqn:E; [|discriminate].
  intros H. injection H as <-. apply andb_true_iff in E. destruct E as [E1 E2].
  apply Z.leb_le in E1, E2. exists z. auto.
Qed.

Lemma d_u64_int z : 0 <= z <= U64MAXZ -> d_u64 (JInt z) = Some (Z.to_N z).
Proof.
  intros [H1 H2]. cbn [d_u64]. apply Z.leb_le in H1, H2. rewrite H1, H2. reflexivity.
Qed.

Lemma d_u64_of_N n : u64_ok n = true -> d_u64 (JInt (Z.of_N n)) = Some n.
Proof.
  unfold u64_ok. intros H. apply Z.leb_le in H. rewrite d_u64_int by lia. rewrite N2Z.id. reflexivity.
Qed.

Lemma u64_ok_to_N z : 0 <= z <= U64MAXZ -> u64_ok (Z.to_N z) = true.
Proof. intros H. unfold u64_ok. apply Z.leb_le. rewrite Z2N.id by lia. lia. Qed.

Lemma d_interval_of_N n : u64_ok n = true -> d_interval (JInt (Z.of_N n)) = Some n.
Proof. intros H. apply d_u64_of_N in H. exact H. Qed.

Lemma d_token_type_inv j t :
  d_token_type j = Some t -> exists s, j = JStr s true /\ t = token_type_from_str (lower_tt s).
Proof.
  destruct j as [| | | |s [|]| |]; cbn [d_token_type]; try discriminate.
  intros H. injection H as <-. exists s. auto.
Qed.

Lemma tt_canon_from_str s : tt_canon (token_type_from_str (lower_tt s)) = true.
Proof.
  unfold token_type_from_str.
  destruct (bytes_eqb (lower_tt s) (s2b "bearer")) eqn:E1; [reflexivity|].
  destruct (bytes_eqb (lower_tt s) (s2b "mac")) eqn:E2; [reflexivity|].
  cbn [tt_canon]. rewrite lower_idem, bytes_eqb_refl, E1, E2. reflexivity.
Qed.

Lemma tt_roundtrip t : tt_canon t = true -> token_type_from_str (lower_tt (token_type_as_ref t)) = t.
Proof.
  destruct t as [| |s]; try reflexivity.
  cbn [tt_canon token_type_as_ref]. intros H.
  apply andb_true_iff in H. destruct H as [H H3]. apply andb_true_iff in H. destruct H as [H1 H2].
  apply bytes_eqb_eq in H1. apply negb_true_iff in H2, H3.
  rewrite H1. unfold token_type_from_str. rewrite H2, H3. reflexivity.
Qed.

Lemma all_strings_jstr l : all_strings (map jstr l) = Some l.
Proof. induction l as [|s l IH]; [reflexivity|]. cbn [map all_strings jstr d_string]. rewrite IH. reflexivity. Qed.

Lemma strict_jstr_list l : forallb json_strict (map jstr l) = true.
Proof. induction l as [|s l IH]; [reflexivity|]. cbn [map forallb jstr json_strict]. exact IH. Qed.

Lemma depth_jstr_list l : fold_right (fun x a => Nat.max (json_depth x) a) O (map jstr l) = O.
Proof. induction l as [|s l IH]; [reflexivity|]. cbn [map fold_right jstr json_depth]. rewrite IH. reflexivity. Qed.

(* ---- encoder lists: [omem l tl] is what the encoders build --------------- *)

Fixpoint omem (l : list (string * option json)) (tl : obj) : obj :=
  match l with
  | [] => tl
  | (n, v) :: l' => opt_member n v ++ omem l' tl
  end.

Definition onames (l : list (string * option json)) : list bytes := map (fun p => s2b (fst p)) l.

Fixpoint nodupb (l : list bytes) : bool :=
  match l with
  | [] => true
  | x :: l' => negb (mem_bytes x l') && nodupb l'
  end.

Lemma count_key_app n a b : count_key n (a ++ b) = (count_key n a + count_key n b)%nat.
Proof. induction a as [|[k v] a IH]; cbn [app count_key]; [reflexivity|]. rewrite IH. lia. Qed.

Lemma find_key_app n a b :
  find_key n (a ++ b) = match find_key n a with Some v => Some v | None => find_key n b end.
Proof. induction a as [|[k v] a IH]; cbn [app find_key]; [reflexivity|]. destruct (bytes_eqb n k); auto. Qed.

Lemma count_key_omem_notin n l tl :
  mem_bytes n (onames l) = false -> count_key n (omem l tl) = count_key n tl.
Proof.
  induction l as [|[k v] l IH]; intros H; [reflexivity|].
  cbn [onames map fst mem_bytes] in H. apply orb_false_iff in H. destruct H as [H1 H2].
  cbn [omem]. rewrite count_key_app, (IH H2).
  destruct v as [j|]; cbn [opt_member count_key]; [rewrite H1|]; reflexivity.
Qed.

Lemma find_key_omem_notin n l tl :
  mem_bytes n (onames l) = false -> find_key n (omem l tl) = find_key n tl.
Proof.
  induction l as [|[k v] l IH]; intros H; [reflexivity|].
  cbn [onames map fst mem_bytes] in H. apply orb_false_iff in H. destruct H as [H1 H2].
  cbn [omem]. rewrite find_key_app, (IH H2).
  destruct v as [j|]; cbn [opt_member find_key]; [rewrite H1|]; reflexivity.
Qed.

Lemma count_key_omem_le n l tl :
  nodupb (onames l) = true -> (count_key n (omem l tl) <= 1 + count_key n tl)%nat.
Proof.
  induction l as [|[k v] l IH]; intros H; [cbn [omem]; lia|].
  cbn [onames map fst nodupb] in H. apply andb_true_iff in H. destruct H as [H1 H2].
  apply negb_true_iff in H1. cbn [omem]. rewrite count_key_app.
  destruct (bytes_eqb n (s2b k)) eqn:E.
  - apply bytes_eqb_eq in E. subst n. rewrite (count_key_omem_notin _ _ _ H1).
    destruct v; cbn [opt_member count_key]; [rewrite bytes_eqb_refl|]; lia.
  - specialize (IH H2). destruct v; cbn [opt_member count_key]; [rewrite E|]; lia.
Qed.

Lemma find_key_omem k v l tl :
  nodupb (onames l) = true -> In (k, v) l -> find_key (s2b k) tl = None ->
  find_key (s2b k) (omem l tl) = v.
Proof.
  intros Hnd HI Htl. induction l as [|[k' v'] l IH]; [contradiction|].
  cbn [onames map fst nodupb] in Hnd. apply andb_true_iff in Hnd. destruct Hnd as [H1 H2].
  apply negb_true_iff in H1. cbn [omem]. rewrite find_key_app.
  destruct HI as [HI|HI].
  - injection HI as -> ->. rewrite (find_key_omem_notin _ _ _ H1), Htl.
    destruct v; cbn [opt_member find_key]; [rewrite bytes_eqb_refl|]; reflexivity.
  - assert (E : bytes_eqb (s2b k) (s2b k') = false).
    { apply bytes_eqb_neq. intros E. rewrite <- E in H1.
      assert (HI' : In (s2b k) (onames l)).
      { unfold onames. apply (in_map (fun p : string * option json => s2b (fst p)) _ _ HI). }
      apply mem_bytes_In in HI'. pose proof (eq_trans (eq_sym HI') H1) as Habs. discriminate Habs. }
    rewrite (IH H2 HI).
    destruct v'; cbn [opt_member find_key]; [rewrite E|]; destruct v; reflexivity.
Qed.

Lemma unknown_members_app names a b :
  unknown_members names (a ++ b) = unknown_members names a ++ unknown_members names b.
Proof. apply filter_app. Qed.

Lemma unknown_members_omem names l tl :
  forallb (is_known names) (onames l) = true ->
  unknown_members names (omem l tl) = unknown_members names tl.
Proof.
  induction l as [|[k v] l IH]; intros H; [reflexivity|].
  cbn [onames map fst forallb] in H. apply andb_true_iff in H. destruct H as [H1 H2].
  cbn [omem]. rewrite unknown_members_app, (IH H2).
  destruct v; cbn [opt_member]; [rewrite unknown_members_known by exact H1|]; reflexivity.
Qed.

Lemma unknown_members_all names tl :
  (forall kv, In kv tl -> is_known names (fst kv) = false) -> unknown_members names tl = tl.
Proof.
  induction tl as [|[k v] tl IH]; intros H; [reflexivity|].
  rewrite unknown_members_skip by (apply (H (k, v)); left; reflexivity).
  rewrite IH; [reflexivity|]. intros kv HI. apply H. right. exact HI.
Qed.

Lemma tl_count_find names tl n :
  (forall kv, In kv tl -> is_known names (fst kv) = false) -> In n names ->
  count_key n tl = O /\ find_key n tl = None.
Proof.
  intros H Hn. induction tl as [|[k v] tl IH]; [split; reflexivity|].
  assert (E : bytes_eqb n k = false).
  { apply (is_known_false_neq names); [|exact Hn]. apply (H (k, v)). left. reflexivity. }
  rewrite count_key_cons_ne, find_key_cons_ne by exact E. apply IH.
  intros kv HI. apply H. right. exact HI.
Qed.

Definition leaf_ok (v : option json) : Prop :=
  match v with Some j => json_strict j = true /\ (json_depth j <= 1)%nat | None => True end.

Lemma strict_depth_omem l tl :
  forallb utf8_valid (onames l) = true -> Forall (fun p => leaf_ok (snd p)) l ->
  json_strict (JObj tl) = true -> (odepth tl <= 1)%nat ->
  json_strict (JObj (omem l tl)) = true /\ (odepth (omem l tl) <= 1)%nat.
Proof.
  intros Hu Hl Hs Hd. induction l as [|[k v] l IH]; [split; assumption|].
  cbn [onames map fst forallb] in Hu. apply andb_true_iff in Hu. destruct Hu as [Hu1 Hu2].
  inversion Hl as [|p l' Hv Hl']; subst. cbn [snd] in Hv.
  destruct (IH Hu2 Hl') as [IH1 IH2]. cbn [omem].
  destruct v as [j|]; cbn [opt_member app]; [|split; assumption].
  destruct Hv as [Hv1 Hv2]. rewrite json_strict_obj_cons, odepth_cons, Hu1, Hv1, IH1.
  split; [reflexivity|lia].
Qed.

Lemma flatten_ok_omem l tl :
  forallb utf8_valid (onames l) = true -> Forall (fun p => leaf_ok (snd p)) l ->
  flatten_ok tl = true -> (json_depth (JObj tl) <= 1)%nat ->
  flatten_ok (omem l tl) = true.
Proof.
  intros Hu Hl Hf Hd. apply flatten_ok_spec in Hf. destruct Hf as [Hs _].
  rewrite json_depth_obj in Hd.
  destruct (strict_depth_omem l tl Hu Hl Hs) as [H1 H2]; [lia|].
  apply flatten_ok_spec. split; [exact H1|]. unfold json_max_strict_depth. lia.
Qed.

Lemma keys_valid_omem l :
  forallb utf8_valid (onames l) = true ->
  forallb (fun kv : bytes * json => utf8_valid (fst kv)) (omem l []) = true.
Proof.
  induction l as [|[k v] l IH]; intros Hu; [reflexivity|].
  cbn [onames map fst forallb] in Hu. apply andb_true_iff in Hu. destruct Hu as [Hu1 Hu2].
  cbn [omem]. destruct v; cbn [opt_member app forallb fst]; [rewrite Hu1|]; apply IH; exact Hu2.
Qed.

(* ---- the two extension schemas ------------------------------------------ *)

Lemma ef_empty_good outer : ef_good ef_empty (fun _ => true) outer.
Proof.
  constructor.
  - reflexivity.
  - reflexivity.
  - intros []. reflexivity.
  - reflexivity.
  - intros x kv [].
  - intros x. split; [reflexivity|]. cbn. lia.
Qed.

Lemma d_opt_u64_ok j b : d_opt d_u64 j = Some b -> opt_u64_ok b = true.
Proof.
  unfold d_opt. destruct (d_u64 j) as [n|] eqn:E.
  - apply d_u64_inv in E. destruct E as (z' & -> & Hr & ->). cbn [option_map].
    intros H. injection H as <-. cbn [opt_u64_ok]. apply u64_ok_to_N. exact Hr.
  - destruct j; cbn [option_map]; try discriminate.
    intros H. injection H as <-. reflexivity.
Qed.

Lemma optm_u64_ok g m b : optm (d_opt d_u64) None g m = Some b -> opt_u64_ok b = true.
Proof.
  unfold optm. destruct (find_group g m) as [j|].
  - apply d_opt_u64_ok.
  - intros H. injection H as <-. reflexivity.
Qed.

Lemma ext_encode_omem e :
  ext_encode e = omem [("id_token"%string, option_map (fun s => JStr s true) (ext_id_token e));
                       ("x_num"%string, option_map (fun n => JInt (Z.of_N n)) (ext_num e))] [].
Proof. destruct e as [[s|] [n|]]; reflexivity. Qed.

Lemma ef_ext_good outer :
  (forall n, In n (ef_names ef_ext) -> is_known outer n = false) -> ef_good ef_ext ext_canon outer.
Proof.
  intros Hout. constructor.
  - intros m m' HP. cbn [ef_decode ef_ext]. unfold ext_decode.
    rewrite <- (no_dups_perm _ _ _ HP).
    destruct (no_dups [[s2b "id_token"]; [s2b "x_num"]] m) eqn:Hnd; [|reflexivity].
    rewrite <- (optm_perm _ _ [s2b "id_token"] _ _ HP)
      by (apply (no_dups_In _ _ _ Hnd); left; reflexivity).
    rewrite <- (optm_perm _ _ [s2b "x_num"] _ _ HP)
      by (apply (no_dups_In _ _ _ Hnd); right; left; reflexivity).
    reflexivity.
  - intros m k v Hk. cbn [ef_decode ef_ext ef_names] in *. unfold ext_decode.
    rewrite no_dups_skip by exact Hk.
    rewrite !optm_skip by (apply (is_known_sub _ _ _ Hk); reflexivity).
    reflexivity.
  - intros x Hc. cbn [ef_decode ef_encode ef_ext]. rewrite ext_encode_omem.
    set (l := [("id_token"%string, option_map (fun s => JStr s true) (ext_id_token x));
               ("x_num"%string, option_map (fun n => JInt (Z.of_N n)) (ext_num x))]).
    assert (Hnd : nodupb (onames l) = true) by reflexivity.
    unfold ext_decode.
    assert (Hd : no_dups [[s2b "id_token"]; [s2b "x_num"]] (omem l []) = true).
    { unfold no_dups. cbn [forallb]. rewrite !group_count1.
      pose proof (count_key_omem_le (s2b "id_token") l [] Hnd) as H1.
      pose proof (count_key_omem_le (s2b "x_num") l [] Hnd) as H2.
      cbn [count_key] in H1, H2.
      rewrite !andb_true_iff, !Nat.leb_le. repeat split; lia. }
    rewrite Hd, !optm1.
    rewrite (find_key_omem "id_token" _ l [] Hnd (or_introl eq_refl) eq_refl).
    rewrite (find_key_omem "x_num" _ l [] Hnd (or_intror (or_introl eq_refl)) eq_refl).
    destruct x as [[s|] [n|]]; cbn [ext_id_token ext_num option_map d_opt d_string] in *;
      unfold ext_canon in Hc; cbn [ext_num opt_u64_ok] in Hc;
      try rewrite (d_u64_of_N _ Hc); reflexivity.
  - intros m x. cbn [ef_decode ef_ext]. unfold ext_decode.
    destruct (no_dups _ m); [|discriminate].
    destruct (optm (d_opt d_string) None [s2b "id_token"] m) as [a|]; [|discriminate].
    destruct (optm (d_opt d_u64) None [s2b "x_num"] m) as [b|] eqn:E; [|discriminate].
    intros H. injection H as <-. unfold ext_canon. cbn [ext_num]. exact (optm_u64_ok _ _ _ E).
  - intros x kv HI. cbn [ef_encode ef_ext ef_names] in *.
    assert (Hin : In (fst kv) [s2b "id_token"; s2b "x_num"]).
    { destruct x as [[s|] [n|]]; unfold ext_encode in HI; cbn [ext_id_token ext_num app] in HI;
        repeat (destruct HI as [HI|HI]; [subst kv; cbn [fst In]; tauto|]); contradiction. }
    split; [apply mem_bytes_In; exact Hin|]. apply Hout. exact Hin.
  - intros x. cbn [ef_encode ef_ext].
    destruct x as [[s|] [n|]]; split; try reflexivity; cbn; lia.
Qed.

(* ---- more encoder-list facts: duplicate check, per-field views ------------ *)

Ltac solve_or := repeat first [left; reflexivity | right].

Lemma group_count_omem g l tl :
  nodupb (onames l) = true -> (forall n, In n g -> count_key n tl = O) ->
  (group_count g (omem l tl) <= length (filter (fun n => mem_bytes n (onames l)) g))%nat.
Proof.
  intros Hnd. induction g as [|n g IH]; intros Htl; [cbn; lia|].
  rewrite group_count_cons. cbn [filter].
  assert (IH' := IH (fun n' Hn' => Htl n' (or_intror Hn'))).
  pose proof (Htl n (or_introl eq_refl)) as Hn.
  destruct (mem_bytes n (onames l)) eqn:E.
  - pose proof (count_key_omem_le n l tl Hnd). cbn [length]. lia.
  - rewrite (count_key_omem_notin _ _ _ E). lia.
Qed.

Lemma no_dups_omem names gs l tl :
  nodupb (onames l) = true ->
  (forall kv, In kv tl -> is_known names (fst kv) = false) ->
  forallb (fun g => forallb (fun n => mem_bytes n names) g
                    && Nat.leb (length (filter (fun n => mem_bytes n (onames l)) g)) 1) gs = true ->
  no_dups gs (omem l tl) = true.
Proof.
  intros Hnd Htl Hgs. unfold no_dups. rewrite forallb_forall in *. intros g Hg.
  specialize (Hgs g Hg). apply andb_true_iff in Hgs. destruct Hgs as [Hin Hlen].
  apply Nat.leb_le in Hlen. apply Nat.leb_le.
  rewrite forallb_forall in Hin.
  pose proof (group_count_omem g l tl Hnd) as H.
  assert (Hz : forall n, In n g -> count_key n tl = O).
  { intros n Hn. apply (tl_count_find names tl n Htl). apply mem_bytes_In. apply Hin. exact Hn. }
  specialize (H Hz). lia.
Qed.

Lemma d_scopes_ok j o : d_scopes j = Some o -> opt_scopes_ok o = true.
Proof.
  destruct j as [| | | |s [|]| |]; cbn [d_scopes]; try discriminate; intros H; injection H as <-.
  - reflexivity.
  - cbn [opt_scopes_ok]. apply split_scopes_ok.
Qed.

Lemma optm_scopes_ok g m o : optm d_scopes None g m = Some o -> opt_scopes_ok o = true.
Proof.
  unfold optm. destruct (find_group g m); [apply d_scopes_ok|].
  intros H. injection H as <-. reflexivity.
Qed.

Lemma opt_u64_field n m e :
  optm (d_opt d_u64) None [n] m = Some e ->
  match find_key n m with
  | None | Some JNull => e = None
  | Some (JInt z) => e = Some (Z.to_N z) /\ (0 <= z <= U64MAXZ)%Z
  | Some _ => False end.
Proof.
  rewrite optm1. destruct (find_key n m) as [j|]; [|congruence].
  unfold d_opt. destruct (d_u64 j) as [x|] eqn:E.
  - apply d_u64_inv in E. destruct E as (z & -> & Hr & ->). cbn [option_map].
    intros H. injection H as <-. auto.
  - destruct j; cbn [option_map]; try discriminate. congruence.
Qed.

Lemma opt_string_field n m r :
  optm (d_opt d_string) None [n] m = Some r ->
  match find_key n m with
  | None | Some JNull => r = None
  | Some (JStr s true) => r = Some s
  | Some _ => False end.
Proof.
  rewrite optm1. destruct (find_key n m) as [j|]; [|congruence].
  destruct j as [| | | |s [|]| |]; cbn [d_opt d_string option_map]; congruence.
Qed.

Lemma scopes_field n m r :
  optm d_scopes None [n] m = Some r ->
  match find_key n m with
  | None | Some JNull => r = None
  | Some (JStr s true) => r = Some (split_on space s)
  | Some _ => False end.
Proof.
  rewrite optm1. destruct (find_key n m) as [j|]; [|congruence].
  destruct j as [| | | |s [|]| |]; cbn [d_scopes]; congruence.
Qed.

Lemma req_string_field n m a : req d_string [n] m = Some a -> find_key n m = Some (JStr a true).
Proof.
  rewrite req1. destruct (find_key n m) as [j|]; [|discriminate].
  intros H. apply d_string_inv in H. congruence.
Qed.

Lemma leaf_ok_str o : leaf_ok (option_map (fun s => JStr s true) o).
Proof. destruct o; cbn; auto. Qed.
Lemma leaf_ok_jstr o : leaf_ok (option_map jstr o).
Proof. destruct o; cbn; auto. Qed.
Lemma leaf_ok_int {A} (f : A -> Z) o : leaf_ok (option_map (fun n => JInt (f n)) o).
Proof. destruct o; cbn; auto. Qed.
Lemma leaf_ok_JInt o : leaf_ok (option_map JInt o).
Proof. destruct o; cbn; auto. Qed.
Lemma leaf_ok_strf {A} (f : A -> bytes) o : leaf_ok (option_map (fun l => JStr (f l) true) o).
Proof. destruct o; cbn; auto. Qed.
Lemma leaf_ok_jstrf {A} (f : A -> bytes) o : leaf_ok (option_map (fun l => jstr (f l)) o).
Proof. destruct o; cbn; auto. Qed.

(* ========================================================================= *)
(* 3. the token response                                                       *)

Definition token_l {EF} (t : token_resp EF) : list (string * option json) :=
  [("access_token", Some (JStr (tr_access t) true));
   ("token_type", Some (JStr (token_type_as_ref (tr_type t)) true));
   ("expires_in", option_map (fun n => JInt (Z.of_N n)) (tr_expires t));
   ("refresh_token", option_map (fun s => JStr s true) (tr_refresh t));
   ("scope", option_map (fun l => JStr (join [space] l) true) (tr_scopes t))]%string.

Section Token.
Context {EF : Type} (ef : ef_schema EF) (efc : EF -> bool) (G : ef_good ef efc token_names).

Lemma encode_token_omem t :
  encode_token ef t = JObj (omem (token_l t) (ef_encode ef (tr_extra t))).
Proof. reflexivity. Qed.

Lemma decode_token_inv m t :
  decode_token ef (JObj m) = Some t ->
  flatten_ok m = true /\ no_dups (map (fun n => [n]) token_names) m = true /\
  req d_string [s2b "access_token"] m = Some (tr_access t) /\
  req d_token_type [s2b "token_type"] m = Some (tr_type t) /\
  optm (d_opt d_u64) None [s2b "expires_in"] m = Some (tr_expires t) /\
  optm (d_opt d_string) None [s2b "refresh_token"] m = Some (tr_refresh t) /\
  optm d_scopes None [s2b "scope"] m = Some (tr_scopes t) /\
  ef_decode ef (unknown_members token_names m) = Some (tr_extra t).
Proof.
  unfold decode_token. intros H.
  destruct (flatten_ok m); [|discriminate H].
  destruct (no_dups _ m); [|discriminate H]. cbn [andb] in H.
  destruct (req d_string _ m) as [a|]; [|discriminate H].
  destruct (req d_token_type _ m) as [ty|]; [|discriminate H].
  destruct (optm (d_opt d_u64) None _ m) as [e|]; [|discriminate H].
  destruct (optm (d_opt d_string) None _ m) as [r|]; [|discriminate H].
  destruct (optm d_scopes None _ m) as [s|]; [|discriminate H].
  destruct (ef_decode ef _) as [x|]; [|discriminate H].
  injection H as <-. cbn. repeat split; reflexivity.
Qed.

Lemma decode_token_intro m a ty e r s x :
  flatten_ok m = true -> no_dups (map (fun n => [n]) token_names) m = true ->
  req d_string [s2b "access_token"] m = Some a ->
  req d_token_type [s2b "token_type"] m = Some ty ->
  optm (d_opt d_u64) None [s2b "expires_in"] m = Some e ->
  optm (d_opt d_string) None [s2b "refresh_token"] m = Some r ->
  optm d_scopes None [s2b "scope"] m = Some s ->
  ef_decode ef (unknown_members token_names m) = Some x ->
  decode_token ef (JObj m) =
  Some {| tr_access := a; tr_type := ty; tr_expires := e; tr_refresh := r; tr_scopes := s; tr_extra := x |}.
Proof.
  intros H1 H2 H3 H4 H5 H6 H7 H8. unfold decode_token.
  rewrite H1, H2, H3, H4, H5, H6, H7, H8. reflexivity.
Qed.

Theorem decode_token_perm m m' :
  Permutation m m' -> decode_token ef (JObj m) = decode_token ef (JObj m').
Proof.
  intros HP. unfold decode_token.
  rewrite <- (flatten_ok_perm _ _ HP), <- (no_dups_perm _ _ _ HP).
  destruct (flatten_ok m && no_dups (map (fun n => [n]) token_names) m) eqn:E; [|reflexivity].
  apply andb_true_iff in E. destruct E as [_ Hnd].
  rewrite <- (req_perm d_string [s2b "access_token"] m m' HP)
    by (apply (no_dups_In _ _ _ Hnd); solve_or).
  rewrite <- (req_perm d_token_type [s2b "token_type"] m m' HP)
    by (apply (no_dups_In _ _ _ Hnd); solve_or).
  rewrite <- (optm_perm (d_opt d_u64) None [s2b "expires_in"] m m' HP)
    by (apply (no_dups_In _ _ _ Hnd); solve_or).
  rewrite <- (optm_perm (d_opt d_string) None [s2b "refresh_token"] m m' HP)
    by (apply (no_dups_In _ _ _ Hnd); solve_or).
  rewrite <- (optm_perm d_scopes None [s2b "scope"] m m' HP)
    by (apply (no_dups_In _ _ _ Hnd); solve_or).
  rewrite <- (efg_perm _ _ _ G _ _ (unknown_members_perm token_names _ _ HP)).
  reflexivity.
Qed.

Theorem decode_token_unknown m k v :
  is_known token_names k = false -> is_known (ef_names ef) k = false -> utf8_valid k = true ->
  json_strict v = true -> (json_depth v < json_max_strict_depth)%nat ->
  decode_token ef (JObj ((k, v) :: m)) = decode_token ef (JObj m).
Proof.
  intros Hk Hke Hu Hs Hd. unfold decode_token.
  rewrite flatten_ok_cons by assumption.
  rewrite no_dups_skip by exact Hk.
  rewrite !req_skip, !optm_skip by (apply (is_known_sub _ _ _ Hk); reflexivity).
  rewrite unknown_members_skip by exact Hk.
  rewrite (efg_skip _ _ _ G) by exact Hke. reflexivity.
Qed.

Lemma token_tl_unknown x kv : In kv (ef_encode ef x) -> is_known token_names (fst kv) = false.
Proof. intros HI. apply (efg_names _ _ _ G x kv HI). Qed.

Theorem token_roundtrip t :
  token_canon efc t = true -> decode_token ef (encode_token ef t) = Some t.
Proof.
  intros Hc. unfold token_canon in Hc.
  apply andb_true_iff in Hc. destruct Hc as [Hc Hx].
  apply andb_true_iff in Hc. destruct Hc as [Hc Hs].
  apply andb_true_iff in Hc. destruct Hc as [Hty He].
  rewrite encode_token_omem.
  assert (Hnd : nodupb (onames (token_l t)) = true) by reflexivity.
  pose proof (token_tl_unknown (tr_extra t)) as Htl.
  assert (Hfk : forall n, In n token_names -> find_key n (ef_encode ef (tr_extra t)) = None).
  { intros n Hn. apply (tl_count_find token_names _ n Htl Hn). }
  destruct t as [a ty e r s x]. cbn [tr_access tr_type tr_expires tr_refresh tr_scopes tr_extra] in *.
  apply decode_token_intro.
  - apply flatten_ok_omem.
    + reflexivity.
    + unfold token_l. cbn [tr_access tr_type tr_expires tr_refresh tr_scopes].
      repeat constructor; cbn [snd].
      * apply leaf_ok_int.
      * apply leaf_ok_str.
      * apply leaf_ok_strf.
    + apply (efg_strict _ _ _ G).
    + apply (efg_strict _ _ _ G).
  - apply (no_dups_omem token_names); [exact Hnd|exact Htl|reflexivity].
  - rewrite req1. erewrite (find_key_omem "access_token"); [|exact Hnd|solve_or|apply Hfk; solve_or].
    reflexivity.
  - rewrite req1. erewrite (find_key_omem "token_type"); [|exact Hnd|solve_or|apply Hfk; solve_or].
    cbn [tr_type d_token_type]. rewrite (tt_roundtrip _ Hty). reflexivity.
  - rewrite optm1. erewrite (find_key_omem "expires_in"); [|exact Hnd|solve_or|apply Hfk; solve_or].
    cbn [tr_expires]. destruct e as [n|]; cbn [option_map]; [|reflexivity].
    cbn [opt_u64_ok] in He. unfold d_opt. rewrite (d_u64_of_N _ He). reflexivity.
  - rewrite optm1. erewrite (find_key_omem "refresh_token"); [|exact Hnd|solve_or|apply Hfk; solve_or].
    cbn [tr_refresh]. destruct r; reflexivity.
  - rewrite optm1. erewrite (find_key_omem "scope"); [|exact Hnd|solve_or|apply Hfk; solve_or].
    cbn [tr_scopes]. destruct s as [l|]; cbn [option_map d_scopes]; [|reflexivity].
    cbn [opt_scopes_ok] in Hs. rewrite (split_join _ Hs). reflexivity.
  - rewrite unknown_members_omem by reflexivity.
    rewrite (unknown_members_all _ _ Htl). apply (efg_roundtrip _ _ _ G). exact Hx.
Qed.

Theorem token_image j t : decode_token ef j = Some t -> token_canon efc t = true.
Proof.
  destruct j as [| | | | | |m]; try discriminate. intros H.
  apply decode_token_inv in H. destruct H as (_ & _ & _ & Hty & He & _ & Hs & Hx).
  unfold token_canon. rewrite !andb_true_iff. repeat split.
  - rewrite req1 in Hty. destruct (find_key _ m) as [j|]; [|discriminate].
    apply d_token_type_inv in Hty. destruct Hty as (s & _ & ->). apply tt_canon_from_str.
  - exact (optm_u64_ok _ _ _ He).
  - exact (optm_scopes_ok _ _ _ Hs).
  - exact (efg_image _ _ _ G _ _ Hx).
Qed.

Theorem token_fields m t :
  decode_token ef (JObj m) = Some t ->
  find_key (s2b "access_token") m = Some (JStr (tr_access t) true) /\
  (exists s, find_key (s2b "token_type") m = Some (JStr s true) /\ tr_type t = token_type_from_str (lower_tt s)) /\
  match find_key (s2b "expires_in") m with
  | None | Some JNull => tr_expires t = None
  | Some (JInt z) => tr_expires t = Some (Z.to_N z) /\ (0 <= z <= U64MAXZ)%Z
  | Some _ => False end /\
  match find_key (s2b "refresh_token") m with
  | None | Some JNull => tr_refresh t = None
  | Some (JStr s true) => tr_refresh t = Some s
  | Some _ => False end /\
  match find_key (s2b "scope") m with
  | None | Some JNull => tr_scopes t = None
  | Some (JStr s true) => tr_scopes t = Some (split_on space s)
  | Some _ => False end /\
  ef_decode ef (unknown_members token_names m) = Some (tr_extra t).
Proof.
  intros H. apply decode_token_inv in H. destruct H as (_ & _ & Ha & Hty & He & Hr & Hs & Hx).
  split; [exact (req_string_field _ _ _ Ha)|].
  split.
  { rewrite req1 in Hty. destruct (find_key _ m) as [j|]; [|discriminate].
    apply d_token_type_inv in Hty. destruct Hty as (s & -> & ->). exists s. auto. }
  split; [exact (opt_u64_field _ _ _ He)|].
  split; [exact (opt_string_field _ _ _ Hr)|].
  split; [exact (scopes_field _ _ _ Hs)|exact Hx].
Qed.

Theorem token_reject m :
  (forall s, find_key (s2b "access_token") m <> Some (JStr s true)) \/
  (forall s, find_key (s2b "token_type") m <> Some (JStr s true)) ->
  decode_token ef (JObj m) = None.
Proof.
  intros H. destruct (decode_token ef (JObj m)) as [t|] eqn:E; [exfalso|reflexivity].
  apply token_fields in E. destruct E as (Ha & (s & Hs & _) & _).
  destruct H as [H|H]; eapply H; eassumption.
Qed.

Theorem token_not_object j : (forall m, j <> JObj m) -> decode_token ef j = None.
Proof. intros H. destruct j; try reflexivity. exfalso. eapply H. reflexivity. Qed.

Theorem token_type_case_insensitive s :
  d_token_type (JStr s true) = Some (token_type_from_str (lower_tt s)) /\
  d_token_type (JStr (lower_tt s) true) = d_token_type (JStr s true).
Proof. split; [reflexivity|]. cbn [d_token_type]. rewrite lower_idem. reflexivity. Qed.

End Token.

(* ========================================================================= *)
(* 4. introspection                                                            *)

Lemma opt_tt_field n m o :
  optm d_opt_token_type None [n] m = Some o ->
  match find_key n m with
  | None | Some JNull => o = None
  | Some (JStr s true) => o = Some (token_type_from_str (lower_tt s))
  | Some _ => False end.
Proof.
  rewrite optm1. destruct (find_key n m) as [j|]; [|congruence].
  destruct j as [| | | |s [|]| |]; cbn [d_opt_token_type d_token_type option_map]; congruence.
Qed.

Lemma ts_field n m o :
  optm d_timestamp None [n] m = Some o ->
  match find_key n m with
  | None | Some JNull => o = None
  | Some (JInt z) => o = Some z /\ (TS_MIN <= z <= TS_MAX)%Z
  | Some _ => False end.
Proof.
  rewrite optm1. destruct (find_key n m) as [j|]; [|congruence].
  destruct j as [| |z| | | |]; cbn [d_timestamp]; try congruence.
  destruct ((TS_MIN <=? z) && (z <=? TS_MAX)) eqn:E; [|discriminate].
  apply andb_true_iff in E. destruct E as [E1 E2]. apply Z.leb_le in E1, E2.
  intros H. injection H as <-. auto.
Qed.

Lemma aud_field n m o :
  optm d_aud None [n] m = Some o ->
  match find_key n m with
  | None | Some JNull => o = None
  | Some (JStr s true) => o = Some [s]
  | Some (JArr l) => exists ss, all_strings l = Some ss /\ o = Some ss
  | Some _ => False end.
Proof.
  rewrite optm1. destruct (find_key n m) as [j|]; [|congruence].
  destruct j as [| | | |s [|]|l|]; cbn [d_aud]; try congruence.
  destruct (all_strings l) as [ss|]; cbn [option_map]; [|discriminate].
  intros H. injection H as <-. exists ss. auto.
Qed.

Lemma optm_tt_canon g m o : optm d_opt_token_type None g m = Some o -> opt_tt_canon o = true.
Proof.
  unfold optm. destruct (find_group g m) as [j|].
  - destruct j as [| | | |s [|]| |]; cbn [d_opt_token_type d_token_type option_map]; try discriminate;
      intros H; injection H as <-; [reflexivity|]. cbn [opt_tt_canon]. apply tt_canon_from_str.
  - intros H. injection H as <-. reflexivity.
Qed.

Lemma optm_ts_ok g m o : optm d_timestamp None g m = Some o -> opt_ts_ok o = true.
Proof.
  unfold optm. destruct (find_group g m) as [j|].
  - destruct j as [| |z| | | |]; cbn [d_timestamp]; try discriminate.
    + intros H. injection H as <-. reflexivity.
    + destruct ((TS_MIN <=? z) && (z <=? TS_MAX)) eqn:E; [|discriminate].
      intros H. injection H as <-. exact E.
  - intros H. injection H as <-. reflexivity.
Qed.

Lemma leaf_ok_aud o : leaf_ok (option_map (fun l => JArr (map jstr l)) o).
Proof.
  destruct o as [l|]; cbn [option_map leaf_ok]; [|exact I].
  cbn [json_strict json_depth]. rewrite strict_jstr_list, depth_jstr_list. auto.
Qed.

Definition intro_l {EF} (r : introspection EF) : list (string * option json) :=
  [("active", Some (JBool (ir_active r)));
   ("scope", option_map (fun l => jstr (join [space] l)) (ir_scopes r));
   ("client_id", option_map jstr (ir_client_id r));
   ("username", option_map jstr (ir_username r));
   ("token_type", option_map (fun t => jstr (token_type_as_ref t)) (ir_token_type r));
   ("exp", option_map JInt (ir_exp r));
   ("iat", option_map JInt (ir_iat r));
   ("nbf", option_map JInt (ir_nbf r));
   ("sub", option_map jstr (ir_sub r));
   ("aud", option_map (fun l => JArr (map jstr l)) (ir_aud r));
   ("iss", option_map jstr (ir_iss r));
   ("jti", option_map jstr (ir_jti r))]%string.

Section Introspection.
Context {EF : Type} (ef : ef_schema EF) (efc : EF -> bool) (G : ef_good ef efc introspection_names).

Lemma encode_introspection_omem r :
  encode_introspection ef r = JObj (omem (intro_l r) (ef_encode ef (ir_extra r))).
Proof. reflexivity. Qed.

Lemma decode_introspection_inv m r :
  decode_introspection ef (JObj m) = Some r ->
  flatten_ok m = true /\ no_dups (map (fun n => [n]) introspection_names) m = true /\
  req d_bool [s2b "active"] m = Some (ir_active r) /\
  optm d_scopes None [s2b "scope"] m = Some (ir_scopes r) /\
  optm (d_opt d_string) None [s2b "client_id"] m = Some (ir_client_id r) /\
  optm (d_opt d_string) None [s2b "username"] m = Some (ir_username r) /\
  optm d_opt_token_type None [s2b "token_type"] m = Some (ir_token_type r) /\
  optm d_timestamp None [s2b "exp"] m = Some (ir_exp r) /\
  optm d_timestamp None [s2b "iat"] m = Some (ir_iat r) /\
  optm d_timestamp None [s2b "nbf"] m = Some (ir_nbf r) /\
  optm (d_opt d_string) None [s2b "sub"] m = Some (ir_sub r) /\
  optm d_aud None [s2b "aud"] m = Some (ir_aud r) /\
  optm (d_opt d_string) None [s2b "iss"] m = Some (ir_iss r) /\
  optm (d_opt d_string) None [s2b "jti"] m = Some (ir_jti r) /\
  ef_decode ef (unknown_members introspection_names m) = Some (ir_extra r).
Proof.
  unfold decode_introspection. intros H.
  destruct (flatten_ok m); [|discriminate H].
  destruct (no_dups _ m); [|discriminate H]. cbn [andb] in H.
  destruct (req d_bool _ m) as [a|]; [|discriminate H].
  destruct (optm d_scopes None _ m) as [sc|]; [|discriminate H].
  destruct (optm (d_opt d_string) None [s2b "client_id"] m) as [ci|]; [|discriminate H].
  destruct (optm (d_opt d_string) None [s2b "username"] m) as [un|]; [|discriminate H].
  destruct (optm d_opt_token_type None _ m) as [tty|]; [|discriminate H].
  destruct (optm d_timestamp None [s2b "exp"] m) as [ex|]; [|discriminate H].
  destruct (optm d_timestamp None [s2b "iat"] m) as [ia|]; [|discriminate H].
  destruct (optm d_timestamp None [s2b "nbf"] m) as [nb|]; [|discriminate H].
  destruct (optm (d_opt d_string) None [s2b "sub"] m) as [su|]; [|discriminate H].
  destruct (optm d_aud None _ m) as [au|]; [|discriminate H].
  destruct (optm (d_opt d_string) None [s2b "iss"] m) as [iss|]; [|discriminate H].
  destruct (optm (d_opt d_string) None [s2b "jti"] m) as [jt|]; [|discriminate H].
  destruct (ef_decode ef _) as [x|]; [|discriminate H].
  injection H as <-. cbn. repeat split; reflexivity.
Qed.

Lemma decode_introspection_intro m a sc ci un tty ex ia nb su au iss jt x :
  flatten_ok m = true -> no_dups (map (fun n => [n]) introspection_names) m = true ->
  req d_bool [s2b "active"] m = Some a ->
  optm d_scopes None [s2b "scope"] m = Some sc ->
  optm (d_opt d_string) None [s2b "client_id"] m = Some ci ->
  optm (d_opt d_string) None [s2b "username"] m = Some un ->
  optm d_opt_token_type None [s2b "token_type"] m = Some tty ->
  optm d_timestamp None [s2b "exp"] m = Some ex ->
  optm d_timestamp None [s2b "iat"] m = Some ia ->
  optm d_timestamp None [s2b "nbf"] m = Some nb ->
  optm (d_opt d_string) None [s2b "sub"] m = Some su ->
  optm d_aud None [s2b "aud"] m = Some au ->
  optm (d_opt d_string) None [s2b "iss"] m = Some iss ->
  optm (d_opt d_string) None [s2b "jti"] m = Some jt ->
  ef_decode ef (unknown_members introspection_names m) = Some x ->
  decode_introspection ef (JObj m) =
  Some {| ir_active := a; ir_scopes := sc; ir_client_id := ci; ir_username := un;
          ir_token_type := tty; ir_exp := ex; ir_iat := ia; ir_nbf := nb;
          ir_sub := su; ir_aud := au; ir_iss := iss; ir_jti := jt; ir_extra := x |}.
Proof.
  intros H1 H2 H3 H4 H5 H6 H7 H8 H9 H10 H11 H12 H13 H14 H15. unfold decode_introspection.
  rewrite H1, H2, H3, H4, H5, H6, H7, H8, H9, H10, H11, H12, H13, H14, H15. reflexivity.
Qed.

Theorem decode_introspection_perm m m' :
  Permutation m m' -> decode_introspection ef (JObj m) = decode_introspection ef (JObj m').
Proof.
  intros HP. unfold decode_introspection.
  rewrite <- (flatten_ok_perm _ _ HP), <- (no_dups_perm _ _ _ HP).
  destruct (flatten_ok m && no_dups (map (fun n => [n]) introspection_names) m) eqn:E; [|reflexivity].
  apply andb_true_iff in E. destruct E as [_ Hnd].
  assert (Hg : forall n, In n introspection_names -> (group_count [n] m <= 1)%nat).
  { intros n Hn. apply (no_dups_In _ _ _ Hnd). apply (in_map (fun n => [n]) _ _ Hn). }
  rewrite <- (req_perm d_bool [s2b "active"] m m' HP) by (apply Hg; solve_or).
  rewrite <- (optm_perm d_scopes None [s2b "scope"] m m' HP) by (apply Hg; solve_or).
  rewrite <- (optm_perm (d_opt d_string) None [s2b "client_id"] m m' HP) by (apply Hg; solve_or).
  rewrite <- (optm_perm (d_opt d_string) None [s2b "username"] m m' HP) by (apply Hg; solve_or).
  rewrite <- (optm_perm d_opt_token_type None [s2b "token_type"] m m' HP) by (apply Hg; solve_or).
  rewrite <- (optm_perm d_timestamp None [s2b "exp"] m m' HP) by (apply Hg; solve_or).
  rewrite <- (optm_perm d_timestamp None [s2b "iat"] m m' HP) by (apply Hg; solve_or).
  rewrite <- (optm_perm d_timestamp None [s2b "nbf"] m m' HP) by (apply Hg; solve_or).
  rewrite <- (optm_perm (d_opt d_string) None [s2b "sub"] m m' HP) by (apply Hg; solve_or).
  rewrite <- (optm_perm d_aud None [s2b "aud"] m m' HP) by (apply Hg; solve_or).
  rewrite <- (optm_perm (d_opt d_string) None [s2b "iss"] m m' HP) by (apply Hg; solve_or).
  rewrite <- (optm_perm (d_opt d_string) None [s2b "jti"] m m' HP) by (apply Hg; solve_or).
  rewrite <- (efg_perm _ _ _ G _ _ (unknown_members_perm introspection_names _ _ HP)).
  reflexivity.
Qed.

Theorem introspection_roundtrip r :
  introspection_canon efc r = true -> decode_introspection ef (encode_introspection ef r) = Some r.
Proof.
  intros Hc. unfold introspection_canon in Hc.
  apply andb_true_iff in Hc. destruct Hc as [Hc Hx].
  apply andb_true_iff in Hc. destruct Hc as [Hc Hnb].
  apply andb_true_iff in Hc. destruct Hc as [Hc Hia].
  apply andb_true_iff in Hc. destruct Hc as [Hc Hex].
  apply andb_true_iff in Hc. destruct Hc as [Hsc Hty].
  rewrite encode_introspection_omem.
  assert (Hnd : nodupb (onames (intro_l r)) = true) by reflexivity.
  assert (Htl : forall kv, In kv (ef_encode ef (ir_extra r)) -> is_known introspection_names (fst kv) = false).
  { intros kv HI. apply (efg_names _ _ _ G _ kv HI). }
  assert (Hfk : forall n, In n introspection_names -> find_key n (ef_encode ef (ir_extra r)) = None).
  { intros n Hn. apply (tl_count_find introspection_names _ n Htl Hn). }
  destruct r as [a sc ci un tty ex ia nb su au iss jt x].
  cbn [ir_active ir_scopes ir_client_id ir_username ir_token_type ir_exp ir_iat ir_nbf ir_sub
       ir_aud ir_iss ir_jti ir_extra] in *.
  apply decode_introspection_intro.
  - apply flatten_ok_omem.
    + reflexivity.
    + unfold intro_l.
      cbn [ir_active ir_scopes ir_client_id ir_username ir_token_type ir_exp ir_iat ir_nbf ir_sub
           ir_aud ir_iss ir_jti].
      repeat (apply Forall_cons; [cbn [snd]|]); try apply Forall_nil;
        first [apply leaf_ok_jstr | apply leaf_ok_JInt | apply leaf_ok_jstrf | apply leaf_ok_aud
              | (cbn; auto)].
    + apply (efg_strict _ _ _ G).
    + apply (efg_strict _ _ _ G).
  - apply (no_dups_omem introspection_names); [exact Hnd|exact Htl|reflexivity].
  - rewrite req1. erewrite (find_key_omem "active"); [|exact Hnd|solve_or|apply Hfk; solve_or].
    reflexivity.
  - rewrite optm1. erewrite (find_key_omem "scope"); [|exact Hnd|solve_or|apply Hfk; solve_or].
    cbn [ir_scopes]. destruct sc as [l|]; cbn [option_map jstr d_scopes]; [|reflexivity].
    cbn [opt_scopes_ok] in Hsc. rewrite (split_join _ Hsc). reflexivity.
  - rewrite optm1. erewrite (find_key_omem "client_id"); [|exact Hnd|solve_or|apply Hfk; solve_or].
    cbn [ir_client_id]. destruct ci; reflexivity.
  - rewrite optm1. erewrite (find_key_omem "username"); [|exact Hnd|solve_or|apply Hfk; solve_or].
    cbn [ir_username]. destruct un; reflexivity.
  - rewrite optm1. erewrite (find_key_omem "token_type"); [|exact Hnd|solve_or|apply Hfk; solve_or].
    cbn [ir_token_type]. destruct tty as [t|]; cbn [option_map jstr d_opt_token_type d_token_type]; [|reflexivity].
    cbn [opt_tt_canon] in Hty. rewrite (tt_roundtrip _ Hty). reflexivity.
  - rewrite optm1. erewrite (find_key_omem "exp"); [|exact Hnd|solve_or|apply Hfk; solve_or].
    cbn [ir_exp]. destruct ex as [z|]; cbn [option_map d_timestamp]; [|reflexivity].
    cbn [opt_ts_ok] in Hex. unfold ts_ok in Hex. rewrite Hex. reflexivity.
  - rewrite optm1. erewrite (find_key_omem "iat"); [|exact Hnd|solve_or|apply Hfk; solve_or].
    cbn [ir_iat]. destruct ia as [z|]; cbn [option_map d_timestamp]; [|reflexivity].
    cbn [opt_ts_ok] in Hia. unfold ts_ok in Hia. rewrite Hia. reflexivity.
  - rewrite optm1. erewrite (find_key_omem "nbf"); [|exact Hnd|solve_or|apply Hfk; solve_or].
    cbn [ir_nbf]. destruct nb as [z|]; cbn [option_map d_timestamp]; [|reflexivity].
    cbn [opt_ts_ok] in Hnb. unfold ts_ok in Hnb. rewrite Hnb. reflexivity.
  - rewrite optm1. erewrite (find_key_omem "sub"); [|exact Hnd|solve_or|apply Hfk; solve_or].
    cbn [ir_sub]. destruct su; reflexivity.
  - rewrite optm1. erewrite (find_key_omem "aud"); [|exact Hnd|solve_or|apply Hfk; solve_or].
    cbn [ir_aud]. destruct au as [l|]; cbn [option_map d_aud]; [|reflexivity].
    rewrite all_strings_jstr. reflexivity.
  - rewrite optm1. erewrite (find_key_omem "iss"); [|exact Hnd|solve_or|apply Hfk; solve_or].
    cbn [ir_iss]. destruct iss; reflexivity.
  - rewrite optm1. erewrite (find_key_omem "jti"); [|exact Hnd|solve_or|apply Hfk; solve_or].
    cbn [ir_jti]. destruct jt; reflexivity.
  - rewrite unknown_members_omem by reflexivity.
    rewrite (unknown_members_all _ _ Htl). apply (efg_roundtrip _ _ _ G). exact Hx.
Qed.

Theorem introspection_active m r :
  decode_introspection ef (JObj m) = Some r -> find_key (s2b "active") m = Some (JBool (ir_active r)).
Proof.
  intros H. apply decode_introspection_inv in H. destruct H as (_ & _ & Ha & _).
  rewrite req1 in Ha. destruct (find_key _ m) as [j|]; [|discriminate].
  apply d_bool_inv in Ha. congruence.
Qed.

Ltac null_tac F Hn := intros ->; destruct Hn as [Hn|Hn]; rewrite Hn in F; exact F.

Theorem introspection_null_optional m r n :
  decode_introspection ef (JObj m) = Some r ->
  In n (map s2b ["scope"; "client_id"; "username"; "token_type"; "exp"; "iat"; "nbf"; "sub"; "aud"; "iss"; "jti"]%string) ->
  (find_key n m = None \/ find_key n m = Some JNull) ->
  (n = s2b "scope" -> ir_scopes r = None) /\ (n = s2b "client_id" -> ir_client_id r = None) /\
  (n = s2b "username" -> ir_username r = None) /\ (n = s2b "token_type" -> ir_token_type r = None) /\
  (n = s2b "exp" -> ir_exp r = None) /\ (n = s2b "iat" -> ir_iat r = None) /\ (n = s2b "nbf" -> ir_nbf r = None) /\
  (n = s2b "sub" -> ir_sub r = None) /\ (n = s2b "aud" -> ir_aud r = None) /\ (n = s2b "iss" -> ir_iss r = None) /\
  (n = s2b "jti" -> ir_jti r = None).
Proof.
  intros H _ Hn. apply decode_introspection_inv in H.
  destruct H as (_ & _ & _ & Hsc & Hci & Hun & Htt & Hex & Hia & Hnb & Hsu & Hau & His & Hjt & _).
  apply scopes_field in Hsc. apply opt_string_field in Hci, Hun, Hsu, His, Hjt.
  apply opt_tt_field in Htt. apply ts_field in Hex, Hia, Hnb. apply aud_field in Hau.
  split; [null_tac Hsc Hn|]. split; [null_tac Hci Hn|]. split; [null_tac Hun Hn|].
  split; [null_tac Htt Hn|]. split; [null_tac Hex Hn|]. split; [null_tac Hia Hn|].
  split; [null_tac Hnb Hn|]. split; [null_tac Hsu Hn|]. split; [null_tac Hau Hn|].
  split; [null_tac His Hn|]. null_tac Hjt Hn.
Qed.

Ltac field_tac F := let x := fresh "x" in let Hx := fresh "Hx" in
  intros x Hx; rewrite Hx in F; first [exact F | exact (proj1 F)].

Theorem introspection_fields m r :
  decode_introspection ef (JObj m) = Some r ->
  (forall s, find_key (s2b "scope") m = Some (JStr s true) -> ir_scopes r = Some (split_on space s)) /\
  (forall s, find_key (s2b "client_id") m = Some (JStr s true) -> ir_client_id r = Some s) /\
  (forall s, find_key (s2b "username") m = Some (JStr s true) -> ir_username r = Some s) /\
  (forall s, find_key (s2b "sub") m = Some (JStr s true) -> ir_sub r = Some s) /\
  (forall s, find_key (s2b "iss") m = Some (JStr s true) -> ir_iss r = Some s) /\
  (forall s, find_key (s2b "jti") m = Some (JStr s true) -> ir_jti r = Some s) /\
  (forall s, find_key (s2b "token_type") m = Some (JStr s true) -> ir_token_type r = Some (token_type_from_str (lower_tt s))) /\
  (forall z, find_key (s2b "exp") m = Some (JInt z) -> ir_exp r = Some z /\ (TS_MIN <= z <= TS_MAX)%Z) /\
  (forall z, find_key (s2b "iat") m = Some (JInt z) -> ir_iat r = Some z) /\
  (forall z, find_key (s2b "nbf") m = Some (JInt z) -> ir_nbf r = Some z) /\
  (forall s, find_key (s2b "aud") m = Some (JStr s true) -> ir_aud r = Some [s]) /\
  (forall l, find_key (s2b "aud") m = Some (JArr l) -> exists ss, all_strings l = Some ss /\ ir_aud r = Some ss).
Proof.
  intros H. apply decode_introspection_inv in H.
  destruct H as (_ & _ & _ & Hsc & Hci & Hun & Htt & Hex & Hia & Hnb & Hsu & Hau & His & Hjt & _).
  apply scopes_field in Hsc. apply opt_string_field in Hci, Hun, Hsu, His, Hjt.
  apply opt_tt_field in Htt. apply ts_field in Hex, Hia, Hnb.
  pose proof (aud_field _ _ _ Hau) as Hau1. apply aud_field in Hau.
  split; [field_tac Hsc|]. split; [field_tac Hci|]. split; [field_tac Hun|].
  split; [field_tac Hsu|]. split; [field_tac His|]. split; [field_tac Hjt|].
  split; [field_tac Htt|]. split; [field_tac Hex|]. split; [field_tac Hia|].
  split; [field_tac Hnb|]. split; [field_tac Hau|]. field_tac Hau1.
Qed.

Theorem introspection_image j r :
  decode_introspection ef j = Some r -> introspection_canon efc r = true.
Proof.
  destruct j as [| | | | | |m]; try discriminate. intros H.
  apply decode_introspection_inv in H.
  destruct H as (_ & _ & _ & Hsc & _ & _ & Htt & Hex & Hia & Hnb & _ & _ & _ & _ & Hx).
  unfold introspection_canon. rewrite !andb_true_iff. repeat split.
  - exact (optm_scopes_ok _ _ _ Hsc).
  - exact (optm_tt_canon _ _ _ Htt).
  - exact (optm_ts_ok _ _ _ Hex).
  - exact (optm_ts_ok _ _ _ Hia).
  - exact (optm_ts_ok _ _ _ Hnb).
  - exact (efg_image _ _ _ G _ _ Hx).
Qed.

End Introspection.

(* ========================================================================= *)
(* 5. device authorization                                                     *)

Definition device_l {EF} (d : device_auth EF) : list (string * option json) :=
  [("device_code", Some (jstr (da_device_code d)));
   ("user_code", Some (jstr (da_user_code d)));
   ("verification_uri", Some (jstr (da_verification_uri d)));
   ("verification_uri_complete", option_map jstr (da_uri_complete d));
   ("expires_in", Some (JInt (Z.of_N (da_expires d))));
   ("interval", Some (JInt (Z.of_N (da_interval d))))]%string.

Lemma interval_field n m iv :
  optm d_interval 5%N [n] m = Some iv ->
  match find_key n m with
  | None | Some JNull => iv = 5%N
  | Some (JInt z) => iv = Z.to_N z /\ (0 <= z <= U64MAXZ)%Z
  | Some _ => False end.
Proof.
  rewrite optm1. destruct (find_key n m) as [j|]; [|congruence].
  destruct j as [| |z| | | |]; cbn [d_interval]; try congruence.
  destruct ((0 <=? z) && (z <=? U64MAXZ)) eqn:E; [|discriminate].
  apply andb_true_iff in E. destruct E as [E1 E2]. apply Z.leb_le in E1, E2.
  intros H. injection H as <-. auto.
Qed.

Lemma d_url_inv url_ok j s : d_url url_ok j = Some s -> j = JStr s true /\ url_ok s = true.
Proof.
  destruct j as [| | | |s' [|]| |]; cbn [d_url]; try discriminate.
  destruct (url_ok s') eqn:E; [|discriminate]. intros H. injection H as <-. auto.
Qed.

Section Device.
Context {EF : Type} (ef : ef_schema EF) (efc : EF -> bool) (url_ok : bytes -> bool)
        (G : ef_good ef efc device_names).

Lemma encode_device_omem d :
  encode_device_auth ef d = JObj (omem (device_l d) (ef_encode ef (da_extra d))).
Proof. reflexivity. Qed.

Lemma decode_device_inv m d :
  decode_device_auth url_ok ef (JObj m) = Some d ->
  flatten_ok m = true /\ no_dups device_groups m = true /\
  req d_string [s2b "device_code"] m = Some (da_device_code d) /\
  req d_string [s2b "user_code"] m = Some (da_user_code d) /\
  req (d_url url_ok) [s2b "verification_uri"; s2b "verification_url"] m = Some (da_verification_uri d) /\
  optm (d_opt d_string) None [s2b "verification_uri_complete"] m = Some (da_uri_complete d) /\
  req d_u64 [s2b "expires_in"] m = Some (da_expires d) /\
  optm d_interval 5%N [s2b "interval"] m = Some (da_interval d) /\
  ef_decode ef (unknown_members device_names m) = Some (da_extra d).
Proof.
  unfold decode_device_auth. intros H.
  destruct (flatten_ok m); [|discriminate H].
  destruct (no_dups _ m); [|discriminate H]. cbn [andb] in H.
  destruct (req d_string [s2b "device_code"] m) as [dc|]; [|discriminate H].
  destruct (req d_string [s2b "user_code"] m) as [uc|]; [|discriminate H].
  destruct (req (d_url url_ok) _ m) as [vu|]; [|discriminate H].
  destruct (optm (d_opt d_string) None _ m) as [vc|]; [|discriminate H].
  destruct (req d_u64 _ m) as [ex|]; [|discriminate H].
  destruct (optm d_interval _ _ m) as [iv|]; [|discriminate H].
  destruct (ef_decode ef _) as [x|]; [|discriminate H].
  injection H as <-. cbn. repeat split; reflexivity.
Qed.

Lemma decode_device_intro m dc uc vu vc ex iv x :
  flatten_ok m = true -> no_dups device_groups m = true ->
  req d_string [s2b "device_code"] m = Some dc ->
  req d_string [s2b "user_code"] m = Some uc ->
  req (d_url url_ok) [s2b "verification_uri"; s2b "verification_url"] m = Some vu ->
  optm (d_opt d_string) None [s2b "verification_uri_complete"] m = Some vc ->
  req d_u64 [s2b "expires_in"] m = Some ex ->
  optm d_interval 5%N [s2b "interval"] m = Some iv ->
  ef_decode ef (unknown_members device_names m) = Some x ->
  decode_device_auth url_ok ef (JObj m) =
  Some {| da_device_code := dc; da_user_code := uc; da_verification_uri := vu;
          da_uri_complete := vc; da_expires := ex; da_interval := iv; da_extra := x |}.
Proof.
  intros H1 H2 H3 H4 H5 H6 H7 H8 H9. unfold decode_device_auth.
  rewrite H1, H2, H3, H4, H5, H6, H7, H8, H9. reflexivity.
Qed.

Theorem decode_device_perm m m' :
  Permutation m m' -> decode_device_auth url_ok ef (JObj m) = decode_device_auth url_ok ef (JObj m').
Proof.
  intros HP. unfold decode_device_auth.
  rewrite <- (flatten_ok_perm _ _ HP), <- (no_dups_perm _ _ _ HP).
  destruct (flatten_ok m && no_dups device_groups m) eqn:E; [|reflexivity].
  apply andb_true_iff in E. destruct E as [_ Hnd].
  rewrite <- (req_perm d_string [s2b "device_code"] m m' HP)
    by (apply (no_dups_In _ _ _ Hnd); solve_or).
  rewrite <- (req_perm d_string [s2b "user_code"] m m' HP)
    by (apply (no_dups_In _ _ _ Hnd); solve_or).
  rewrite <- (req_perm (d_url url_ok) [s2b "verification_uri"; s2b "verification_url"] m m' HP)
    by (apply (no_dups_In _ _ _ Hnd); solve_or).
  rewrite <- (optm_perm (d_opt d_string) None [s2b "verification_uri_complete"] m m' HP)
    by (apply (no_dups_In _ _ _ Hnd); solve_or).
  rewrite <- (req_perm d_u64 [s2b "expires_in"] m m' HP)
    by (apply (no_dups_In _ _ _ Hnd); solve_or).
  rewrite <- (optm_perm d_interval 5%N [s2b "interval"] m m' HP)
    by (apply (no_dups_In _ _ _ Hnd); solve_or).
  rewrite <- (efg_perm _ _ _ G _ _ (unknown_members_perm device_names _ _ HP)).
  reflexivity.
Qed.

Theorem device_roundtrip d :
  device_canon_b url_ok efc d = true ->
  decode_device_auth url_ok ef (encode_device_auth ef d) = Some d.
Proof.
  intros Hc. unfold device_canon_b in Hc.
  apply andb_true_iff in Hc. destruct Hc as [Hc Hx].
  apply andb_true_iff in Hc. destruct Hc as [Hc Hiv].
  apply andb_true_iff in Hc. destruct Hc as [Hurl Hex].
  rewrite encode_device_omem.
  assert (Hnd : nodupb (onames (device_l d)) = true) by reflexivity.
  assert (Htl : forall kv, In kv (ef_encode ef (da_extra d)) -> is_known device_names (fst kv) = false).
  { intros kv HI. apply (efg_names _ _ _ G _ kv HI). }
  assert (Hfk : forall n, In n device_names -> find_key n (ef_encode ef (da_extra d)) = None).
  { intros n Hn. apply (tl_count_find device_names _ n Htl Hn). }
  destruct d as [dc uc vu vc ex iv x].
  cbn [da_device_code da_user_code da_verification_uri da_uri_complete da_expires da_interval da_extra] in *.
  apply decode_device_intro.
  - apply flatten_ok_omem.
    + reflexivity.
    + unfold device_l.
      cbn [da_device_code da_user_code da_verification_uri da_uri_complete da_expires da_interval].
      repeat (apply Forall_cons; [cbn [snd]|]); try apply Forall_nil;
        first [apply leaf_ok_jstr | (cbn; auto)].
    + apply (efg_strict _ _ _ G).
    + apply (efg_strict _ _ _ G).
  - apply (no_dups_omem device_names); [exact Hnd|exact Htl|reflexivity].
  - rewrite req1. erewrite (find_key_omem "device_code"); [|exact Hnd|solve_or|apply Hfk; solve_or].
    reflexivity.
  - rewrite req1. erewrite (find_key_omem "user_code"); [|exact Hnd|solve_or|apply Hfk; solve_or].
    reflexivity.
  - unfold req. cbn [find_group].
    erewrite (find_key_omem "verification_uri"); [|exact Hnd|solve_or|apply Hfk; solve_or].
    cbn [da_verification_uri jstr d_url]. rewrite Hurl. reflexivity.
  - rewrite optm1.
    erewrite (find_key_omem "verification_uri_complete"); [|exact Hnd|solve_or|apply Hfk; solve_or].
    cbn [da_uri_complete]. destruct vc; reflexivity.
  - rewrite req1. erewrite (find_key_omem "expires_in"); [|exact Hnd|solve_or|apply Hfk; solve_or].
    cbn [da_expires]. apply d_u64_of_N. exact Hex.
  - rewrite optm1. erewrite (find_key_omem "interval"); [|exact Hnd|solve_or|apply Hfk; solve_or].
    cbn [da_interval]. apply d_interval_of_N. exact Hiv.
  - rewrite unknown_members_omem by reflexivity.
    rewrite (unknown_members_all _ _ Htl). apply (efg_roundtrip _ _ _ G). exact Hx.
Qed.

Theorem device_fields m d :
  decode_device_auth url_ok ef (JObj m) = Some d ->
  find_key (s2b "device_code") m = Some (JStr (da_device_code d) true) /\
  find_key (s2b "user_code") m = Some (JStr (da_user_code d) true) /\
  (find_key (s2b "verification_uri") m = Some (JStr (da_verification_uri d) true) \/
   find_key (s2b "verification_url") m = Some (JStr (da_verification_uri d) true)) /\
  url_ok (da_verification_uri d) = true /\
  (exists z, find_key (s2b "expires_in") m = Some (JInt z) /\ da_expires d = Z.to_N z /\ (0 <= z <= U64MAXZ)%Z) /\
  match find_key (s2b "interval") m with
  | None | Some JNull => da_interval d = 5%N
  | Some (JInt z) => da_interval d = Z.to_N z /\ (0 <= z <= U64MAXZ)%Z
  | Some _ => False end /\
  match find_key (s2b "verification_uri_complete") m with
  | None | Some JNull => da_uri_complete d = None
  | Some (JStr s true) => da_uri_complete d = Some s
  | Some _ => False end.
Proof.
  intros H. apply decode_device_inv in H.
  destruct H as (_ & _ & Hdc & Huc & Hvu & Hvc & Hex & Hiv & _).
  split; [exact (req_string_field _ _ _ Hdc)|].
  split; [exact (req_string_field _ _ _ Huc)|].
  assert (Hu : (find_key (s2b "verification_uri") m = Some (JStr (da_verification_uri d) true) \/
                find_key (s2b "verification_url") m = Some (JStr (da_verification_uri d) true)) /\
               url_ok (da_verification_uri d) = true).
  { unfold req in Hvu. cbn [find_group] in Hvu.
    destruct (find_key (s2b "verification_uri") m) as [j|].
    - apply d_url_inv in Hvu. destruct Hvu as [-> Hok]. auto.
    - destruct (find_key (s2b "verification_url") m) as [j|]; [|discriminate].
      apply d_url_inv in Hvu. destruct Hvu as [-> Hok]. auto. }
  destruct Hu as [Hu1 Hu2].
  split; [exact Hu1|]. split; [exact Hu2|].
  split.
  { rewrite req1 in Hex. destruct (find_key _ m) as [j|]; [|discriminate].
    apply d_u64_inv in Hex. destruct Hex as (z & -> & Hr & Hz). exists z. auto. }
  split; [exact (interval_field _ _ _ Hiv)|exact (opt_string_field _ _ _ Hvc)].
Qed.

Theorem device_both_names_rejected m :
  find_key (s2b "verification_uri") m <> None -> find_key (s2b "verification_url") m <> None ->
  decode_device_auth url_ok ef (JObj m) = None.
Proof.
  intros H1 H2. destruct (decode_device_auth url_ok ef (JObj m)) as [d|] eqn:E; [exfalso|reflexivity].
  apply decode_device_inv in E. destruct E as (_ & Hnd & _).
  assert (Hg : (group_count [s2b "verification_uri"; s2b "verification_url"] m <= 1)%nat).
  { apply (no_dups_In _ _ _ Hnd). solve_or. }
  rewrite !group_count_cons in Hg.
  apply find_key_count in H1, H2. lia.
Qed.

Theorem device_reject_missing m n :
  In n (map s2b ["device_code"; "user_code"; "expires_in"]%string) -> find_key n m = None ->
  decode_device_auth url_ok ef (JObj m) = None.
Proof.
  intros Hin Hf. destruct (decode_device_auth url_ok ef (JObj m)) as [d|] eqn:E; [exfalso|reflexivity].
  apply decode_device_inv in E. destruct E as (_ & _ & Hdc & Huc & _ & _ & Hex & _).
  rewrite req1 in Hdc. rewrite req1 in Huc. rewrite req1 in Hex.
  destruct Hin as [<-|[<-|[<-|[]]]].
  - rewrite Hf in Hdc. discriminate.
  - rewrite Hf in Huc. discriminate.
  - rewrite Hf in Hex. discriminate.
Qed.

Theorem device_reject_no_uri m :
  find_key (s2b "verification_uri") m = None -> find_key (s2b "verification_url") m = None ->
  decode_device_auth url_ok ef (JObj m) = None.
Proof.
  intros H1 H2. destruct (decode_device_auth url_ok ef (JObj m)) as [d|] eqn:E; [exfalso|reflexivity].
  apply decode_device_inv in E. destruct E as (_ & _ & _ & _ & Hvu & _).
  unfold req in Hvu. cbn [find_group] in Hvu. rewrite H1, H2 in Hvu. discriminate.
Qed.

End Device.

(* ========================================================================= *)
(* 6. error responses                                                          *)

Definition error_l {T} (as_ref : T -> bytes) (e : error_response T) : list (string * option json) :=
  [("error", Some (jstr (as_ref (er_error e))));
   ("error_description", option_map jstr (er_description e));
   ("error_uri", option_map jstr (er_uri e))]%string.

Section Error.
Context {T : Type} (from_str : bytes -> T) (as_ref : T -> bytes).

Lemma encode_error_omem e : encode_error as_ref e = JObj (omem (error_l as_ref e) []).
Proof. unfold encode_error, error_l. cbn [omem]. rewrite app_nil_r. reflexivity. Qed.

Lemma decode_error_inv m e :
  decode_error from_str (JObj m) = Some e ->
  forallb (fun kv : bytes * json => utf8_valid (fst kv)) m = true /\
  no_dups (map (fun n => [n]) error_names) m = true /\
  (exists c, req d_string [s2b "error"] m = Some c /\ er_error e = from_str c) /\
  optm (d_opt d_string) None [s2b "error_description"] m = Some (er_description e) /\
  optm (d_opt d_string) None [s2b "error_uri"] m = Some (er_uri e).
Proof.
  unfold decode_error. intros H.
  destruct (forallb _ m); [|discriminate H].
  destruct (no_dups _ m); [|discriminate H]. cbn [andb] in H.
  destruct (req d_string _ m) as [c|]; [|discriminate H].
  destruct (optm (d_opt d_string) None [s2b "error_description"] m) as [d|]; [|discriminate H].
  destruct (optm (d_opt d_string) None [s2b "error_uri"] m) as [u|]; [|discriminate H].
  injection H as <-. cbn. repeat split; try reflexivity. exists c. auto.
Qed.

Theorem decode_error_perm m m' :
  Permutation m m' -> decode_error from_str (JObj m) = decode_error from_str (JObj m').
Proof.
  intros HP. unfold decode_error.
  rewrite <- (forallb_perm _ _ _ HP), <- (no_dups_perm _ _ _ HP).
  destruct (forallb (fun kv : bytes * json => utf8_valid (fst kv)) m
            && no_dups (map (fun n => [n]) error_names) m) eqn:E; [|reflexivity].
  apply andb_true_iff in E. destruct E as [_ Hnd].
  rewrite <- (req_perm d_string [s2b "error"] m m' HP)
    by (apply (no_dups_In _ _ _ Hnd); solve_or).
  rewrite <- (optm_perm (d_opt d_string) None [s2b "error_description"] m m' HP)
    by (apply (no_dups_In _ _ _ Hnd); solve_or).
  rewrite <- (optm_perm (d_opt d_string) None [s2b "error_uri"] m m' HP)
    by (apply (no_dups_In _ _ _ Hnd); solve_or).
  reflexivity.
Qed.

Theorem error_roundtrip e :
  from_str (as_ref (er_error e)) = er_error e ->
  decode_error from_str (encode_error as_ref e) = Some e.
Proof.
  intros Hc. rewrite encode_error_omem.
  assert (Hnd : nodupb (onames (error_l as_ref e)) = true) by reflexivity.
  destruct e as [c d u]. cbn [er_error] in Hc. unfold decode_error.
  rewrite keys_valid_omem by reflexivity.
  rewrite (no_dups_omem error_names) by (try reflexivity; intros kv []).
  cbn [andb]. rewrite req1, !optm1.
  erewrite (find_key_omem "error"); [|exact Hnd|solve_or|reflexivity].
  erewrite (find_key_omem "error_description"); [|exact Hnd|solve_or|reflexivity].
  erewrite (find_key_omem "error_uri"); [|exact Hnd|solve_or|reflexivity].
  cbn [er_error er_description er_uri jstr d_string]. rewrite Hc.
  destruct d, u; reflexivity.
Qed.

Theorem error_fields m e :
  decode_error from_str (JObj m) = Some e ->
  (exists c, find_key (s2b "error") m = Some (JStr c true) /\ er_error e = from_str c) /\
  match find_key (s2b "error_description") m with
  | None | Some JNull => er_description e = None
  | Some (JStr s true) => er_description e = Some s
  | Some _ => False end /\
  match find_key (s2b "error_uri") m with
  | None | Some JNull => er_uri e = None
  | Some (JStr s true) => er_uri e = Some s
  | Some _ => False end.
Proof.
  intros H. apply decode_error_inv in H. destruct H as (_ & _ & (c & Hc & He) & Hd & Hu).
  split; [exists c; split; [exact (req_string_field _ _ _ Hc)|exact He]|].
  split; [exact (opt_string_field _ _ _ Hd)|exact (opt_string_field _ _ _ Hu)].
Qed.

Theorem error_unknown_skipped m k v :
  is_known error_names k = false -> utf8_valid k = true ->
  decode_error from_str (JObj ((k, v) :: m)) = decode_error from_str (JObj m).
Proof.
  intros Hk Hu. unfold decode_error. cbn [forallb fst]. rewrite Hu. cbn [andb].
  rewrite no_dups_skip by exact Hk.
  rewrite !req_skip, !optm_skip by (apply (is_known_sub _ _ _ Hk); reflexivity).
  reflexivity.
Qed.

End Error.

(* ========================================================================= *)
Print Assumptions count_key_perm.
Print Assumptions find_key_perm.
Print Assumptions group_count_perm.
Print Assumptions find_group_perm.
Print Assumptions no_dups_perm.
Print Assumptions flatten_ok_perm.
Print Assumptions unknown_members_perm.
Print Assumptions split_join.
Print Assumptions split_scopes_ok.
Print Assumptions join_split.
Print Assumptions lower_idem.
Print Assumptions ef_empty_good.
Print Assumptions ef_ext_good.
Print Assumptions decode_token_perm.
Print Assumptions decode_token_unknown.
Print Assumptions token_roundtrip.
Print Assumptions token_image.
Print Assumptions token_fields.
Print Assumptions token_reject.
Print Assumptions token_not_object.
Print Assumptions token_type_case_insensitive.
Print Assumptions decode_introspection_perm.
Print Assumptions introspection_roundtrip.
Print Assumptions introspection_active.
Print Assumptions introspection_null_optional.
Print Assumptions introspection_fields.
Print Assumptions introspection_image.
Print Assumptions decode_device_perm.
Print Assumptions device_roundtrip.
Print Assumptions device_fields.
Print Assumptions device_both_names_rejected.
Print Assumptions device_reject_missing.
Print Assumptions device_reject_no_uri.
Print Assumptions decode_error_perm.
Print Assumptions error_roundtrip.
Print Assumptions error_fields.
Print Assumptions error_unknown_skipped.
