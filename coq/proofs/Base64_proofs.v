(* Proofs about the RFC 4648 base64 codec of Base64.v. *)
From OA Require Import Bytes Base64.
From Coq Require Import ZArith Zify ZifyN ZifyNat Lia.
Local Open Scope N_scope.

(* lia understands N.div / N.modulo (ZifyN) and Nat.div / Nat.modulo (ZifyNat) by constants; note that zify maps N.modulo to Z.rem,
   so Z.div_mod_to_equations alone is not enough. *)
Ltac Zify.zify_post_hook ::= Z.to_euclidean_division_equations.

(* ================================================================== *)
(* Induction principles: lists three / four elements at a time.         *)
(* ================================================================== *)

Lemma list_ind3 {A} (P : list A -> Prop) :
  P [] -> (forall a, P [a]) -> (forall a b, P [a; b]) ->
  (forall a b c l, P l -> P (a :: b :: c :: l)) ->
  forall l, P l.
Proof.
  intros H0 H1 H2 H3. fix IH 1. intros [|a [|b [|c l]]].
  - exact H0.
  - apply H1.
  - apply H2.
  - apply H3. apply IH.
Qed.

Lemma list_ind4 {A} (P : list A -> Prop) :
  P [] -> (forall a, P [a]) -> (forall a b, P [a; b]) -> (forall a b c, P [a; b; c]) ->
  (forall a b c d l, P l -> P (a :: b :: c :: d :: l)) ->
  forall l, P l.
Proof.
  intros H0 H1 H2 H3 H4. fix IH 1. intros [|a [|b [|c [|d l]]]].
  - exact H0.
  - apply H1.
  - apply H2.
  - apply H3.
  - apply H4. apply IH.
Qed.

(* ================================================================== *)
(* Brute force over an initial segment of N.                            *)
(* ================================================================== *)

Lemma forall_below (f : N -> bool) (k : nat) :
  forallb f (map N.of_nat (seq 0 k)) = true ->
  forall n, n < N.of_nat k -> f n = true.
Proof.
  intros Hall n Hn. rewrite forallb_forall in Hall. apply Hall.
  apply in_map_iff. exists (N.to_nat n). split.
  - apply N2Nat.id.
  - apply in_seq. lia.
Qed.

Lemma bn_lt (c : ascii) : bn c < 256.
Proof. apply N_ascii_bounded. Qed.

Lemma bn_nb (n : N) : n < 256 -> bn (nb n) = n.
Proof. apply N_ascii_embedding. Qed.

Lemma nb_bn (c : ascii) : nb (bn c) = c.
Proof. apply ascii_N_embedding. Qed.

Lemma forall_ascii (f : ascii -> bool) :
  forallb (fun n => f (nb n)) (map N.of_nat (seq 0 256)) = true ->
  forall c, f c = true.
Proof.
  intros Hall c. rewrite <- (nb_bn c).
  apply (forall_below (fun n => f (nb n)) 256 Hall). apply bn_lt.
Qed.

(* ================================================================== *)
(* The alphabets.                                                       *)
(* ================================================================== *)

Definition val_char_ok (val : ascii -> option N) (alpha : N -> ascii) (n : N) : bool :=
  match val (alpha n) with Some m => m =? n | None => false end.

Definition char_val_ok (val : ascii -> option N) (alpha : N -> ascii) (c : ascii) : bool :=
  match val c with Some m => (m <? 64) && Ascii.eqb (alpha m) c | None => true end.

(* An alphabet and its inverse. *)
Record alphabet_ok (alpha : N -> ascii) (val : ascii -> option N) : Prop := {
  val_char : forall n, n < 64 -> val (alpha n) = Some n;
  char_val : forall c m, val c = Some m -> m < 64 /\ alpha m = c;
  char_not_pad : forall n, n < 64 -> Ascii.eqb (alpha n) b64_pad = false
}.

Lemma alphabet_ok_intro alpha val :
  forallb (val_char_ok val alpha) (map N.of_nat (seq 0 64)) = true ->
  forallb (fun n => char_val_ok val alpha (nb n)) (map N.of_nat (seq 0 256)) = true ->
  forallb (fun n => negb (Ascii.eqb (alpha n) b64_pad)) (map N.of_nat (seq 0 64)) = true ->
  alphabet_ok alpha val.
Proof.
  intros H1 H2 H3. split.
  - intros n Hn. pose proof (forall_below _ 64 H1 n Hn) as H.
    unfold val_char_ok in H. destruct (val (alpha n)) as [m|]; [|discriminate].
    apply N.eqb_eq in H. congruence.
  - intros c m Hc. pose proof (forall_ascii _ H2 c) as H.
    unfold char_val_ok in H. rewrite Hc in H.
    apply andb_true_iff in H. destruct H as [Hlt Heq].
    apply N.ltb_lt in Hlt. apply Ascii.eqb_eq in Heq. auto.
  - intros n Hn. pose proof (forall_below _ 64 H3 n Hn) as H.
    cbv beta in H. apply negb_true_iff in H. exact H.
Qed.

Lemma url_alphabet_ok : alphabet_ok b64_url_char b64_url_val.
Proof. apply alphabet_ok_intro; vm_compute; reflexivity. Qed.

Lemma std_alphabet_ok : alphabet_ok b64_std_char b64_std_val.
Proof. apply alphabet_ok_intro; vm_compute; reflexivity. Qed.

Lemma b64_url_val_char n : n < 64 -> b64_url_val (b64_url_char n) = Some n.
Proof. apply (val_char _ _ url_alphabet_ok). Qed.

Lemma b64_std_val_char n : n < 64 -> b64_std_val (b64_std_char n) = Some n.
Proof. apply (val_char _ _ std_alphabet_ok). Qed.

Lemma b64_url_char_val c m : b64_url_val c = Some m -> m < 64 /\ b64_url_char m = c.
Proof. apply (char_val _ _ url_alphabet_ok). Qed.

Lemma b64_std_char_val c m : b64_std_val c = Some m -> m < 64 /\ b64_std_char m = c.
Proof. apply (char_val _ _ std_alphabet_ok). Qed.

Lemma b64_std_val_pad : b64_std_val b64_pad = None.
Proof. reflexivity. Qed.

Lemma b64_url_char_class n : n < 64 -> b64_url_charb (b64_url_char n) = true.
Proof.
  apply (forall_below (fun n => b64_url_charb (b64_url_char n)) 64).
  vm_compute; reflexivity.
Qed.

Lemma b64_std_char_class n : n < 64 -> b64_std_charb (b64_std_char n) = true.
Proof.
  apply (forall_below (fun n => b64_std_charb (b64_std_char n)) 64).
  vm_compute; reflexivity.
Qed.

(* ================================================================== *)
(* Group arithmetic: 3 bytes <-> 4 sextets.                             *)
(* ================================================================== *)

Lemma sx0_lt x : x < 256 -> sx0 x < 64.
Proof. unfold sx0. lia. Qed.
Lemma sx1_lt x y : y < 256 -> sx1 x y < 64.
Proof. unfold sx1. lia. Qed.
Lemma sx2_lt y z : z < 256 -> sx2 y z < 64.
Proof. unfold sx2. lia. Qed.
Lemma sx3_lt z : sx3 z < 64.
Proof. unfold sx3. lia. Qed.

Lemma by0_lt p q : p < 64 -> q < 64 -> by0 p q < 256.
Proof. unfold by0. lia. Qed.
Lemma by1_lt q r : r < 64 -> by1 q r < 256.
Proof. unfold by1. lia. Qed.
Lemma by2_lt r t : t < 64 -> by2 r t < 256.
Proof. unfold by2. lia. Qed.

(* bytes -> sextets -> bytes *)
Lemma by0_sx x y : x < 256 -> y < 256 -> by0 (sx0 x) (sx1 x y) = x.
Proof. unfold by0, sx0, sx1. lia. Qed.
Lemma by1_sx x y z : y < 256 -> z < 256 -> by1 (sx1 x y) (sx2 y z) = y.
Proof. unfold by1, sx1, sx2. lia. Qed.
Lemma by2_sx y z : z < 256 -> by2 (sx2 y z) (sx3 z) = z.
Proof. unfold by2, sx2, sx3. lia. Qed.
Lemma sx1_0_low x : sx1 x 0 mod 16 = 0.
Proof. unfold sx1. lia. Qed.
Lemma sx2_0_low y : sx2 y 0 mod 4 = 0.
Proof. unfold sx2. lia. Qed.

(* sextets -> bytes -> sextets *)
Lemma sx0_by p q : q < 64 -> sx0 (by0 p q) = p.
Proof. unfold by0, sx0. lia. Qed.
Lemma sx1_by p q r : q < 64 -> r < 64 -> sx1 (by0 p q) (by1 q r) = q.
Proof. unfold by0, by1, sx1. lia. Qed.
Lemma sx2_by q r t : r < 64 -> t < 64 -> sx2 (by1 q r) (by2 r t) = r.
Proof. unfold by1, by2, sx2. lia. Qed.
Lemma sx3_by r t : t < 64 -> sx3 (by2 r t) = t.
Proof. unfold by2, sx3. lia. Qed.
Lemma sx1_by_last p q : q < 64 -> q mod 16 = 0 -> sx1 (by0 p q) 0 = q.
Proof. unfold by0, sx1. lia. Qed.
Lemma sx2_by_last q r : r < 64 -> r mod 4 = 0 -> sx2 (by1 q r) 0 = r.
Proof. unfold by1, sx2. lia. Qed.

(* ================================================================== *)
(* Unfolding equations (all by computation).                            *)
(* ================================================================== *)

Lemma enc_1 alpha pad a :
  b64_encode alpha pad [a] =
  alpha (sx0 (bn a)) :: alpha (sx1 (bn a) 0) :: (if pad then [b64_pad; b64_pad] else []).
Proof. reflexivity. Qed.

Lemma enc_2 alpha pad a b :
  b64_encode alpha pad [a; b] =
  alpha (sx0 (bn a)) :: alpha (sx1 (bn a) (bn b)) :: alpha (sx2 (bn b) 0)
    :: (if pad then [b64_pad] else []).
Proof. reflexivity. Qed.

Lemma enc_3 alpha pad a b c rest :
  b64_encode alpha pad (a :: b :: c :: rest) =
  alpha (sx0 (bn a)) :: alpha (sx1 (bn a) (bn b)) :: alpha (sx2 (bn b) (bn c))
    :: alpha (sx3 (bn c)) :: b64_encode alpha pad rest.
Proof. reflexivity. Qed.

Lemma enc_cons alpha pad a s :
  exists h t, b64_encode alpha pad (a :: s) = h :: t.
Proof. destruct s as [|b [|c s]]; eexists; eexists; reflexivity. Qed.

Lemma nopad_dec_4 val c0 c1 c2 c3 rest :
  b64_nopad_decode val (c0 :: c1 :: c2 :: c3 :: rest) =
  match b64_dec4 val c0 c1 c2 c3 with
  | Some g => match b64_nopad_decode val rest with
              | Some r => Some (g ++ r)
              | None => None
              end
  | None => None
  end.
Proof. reflexivity. Qed.

Lemma pad_dec_last val c0 c1 c2 c3 :
  b64_pad_decode val [c0; c1; c2; c3] = b64_pad_last val c0 c1 c2 c3.
Proof. reflexivity. Qed.

Lemma pad_dec_more val c0 c1 c2 c3 h t :
  b64_pad_decode val (c0 :: c1 :: c2 :: c3 :: h :: t) =
  match b64_dec4 val c0 c1 c2 c3 with
  | Some g => match b64_pad_decode val (h :: t) with
              | Some r => Some (g ++ r)
              | None => None
              end
  | None => None
  end.
Proof. reflexivity. Qed.

(* ================================================================== *)
(* Group round trips.                                                   *)
(* ================================================================== *)

Section Generic.
Variables (alpha : N -> ascii) (val : ascii -> option N).
Hypothesis OK : alphabet_ok alpha val.

Let vc := val_char alpha val OK.
Let cv := char_val alpha val OK.
Let np := char_not_pad alpha val OK.

Lemma dec4_enc a b c :
  b64_dec4 val (alpha (sx0 (bn a))) (alpha (sx1 (bn a) (bn b)))
               (alpha (sx2 (bn b) (bn c))) (alpha (sx3 (bn c))) = Some [a; b; c].
Proof.
  pose proof (bn_lt a) as Ha. pose proof (bn_lt b) as Hb. pose proof (bn_lt c) as Hc.
  unfold b64_dec4.
  rewrite (vc (sx0 (bn a))) by (apply sx0_lt; assumption).
  rewrite (vc (sx1 (bn a) (bn b))) by (apply sx1_lt; assumption).
  rewrite (vc (sx2 (bn b) (bn c))) by (apply sx2_lt; assumption).
  rewrite (vc (sx3 (bn c))) by (apply sx3_lt).
  rewrite by0_sx, by1_sx, by2_sx by assumption.
  rewrite !nb_bn. reflexivity.
Qed.

Lemma dec3_enc a b :
  b64_dec3 val (alpha (sx0 (bn a))) (alpha (sx1 (bn a) (bn b))) (alpha (sx2 (bn b) 0))
  = Some [a; b].
Proof.
  pose proof (bn_lt a) as Ha. pose proof (bn_lt b) as Hb.
  assert (H0 : 0 < 256) by reflexivity.
  unfold b64_dec3.
  rewrite (vc (sx0 (bn a))) by (apply sx0_lt; assumption).
  rewrite (vc (sx1 (bn a) (bn b))) by (apply sx1_lt; assumption).
  rewrite (vc (sx2 (bn b) 0)) by (apply sx2_lt; assumption).
  rewrite sx2_0_low, N.eqb_refl.
  rewrite by0_sx, by1_sx by assumption.
  rewrite !nb_bn. reflexivity.
Qed.

Lemma dec2_enc a :
  b64_dec2 val (alpha (sx0 (bn a))) (alpha (sx1 (bn a) 0)) = Some [a].
Proof.
  pose proof (bn_lt a) as Ha.
  assert (H0 : 0 < 256) by reflexivity.
  unfold b64_dec2.
  rewrite (vc (sx0 (bn a))) by (apply sx0_lt; assumption).
  rewrite (vc (sx1 (bn a) 0)) by (apply sx1_lt; assumption).
  rewrite sx1_0_low, N.eqb_refl.
  rewrite by0_sx by assumption.
  rewrite nb_bn. reflexivity.
Qed.

(* The group decoders only accept what the group encoder produces. *)

Lemma dec4_canon c0 c1 c2 c3 g :
  b64_dec4 val c0 c1 c2 c3 = Some g ->
  exists x y z, g = [x; y; z] /\
    alpha (sx0 (bn x)) = c0 /\ alpha (sx1 (bn x) (bn y)) = c1 /\
    alpha (sx2 (bn y) (bn z)) = c2 /\ alpha (sx3 (bn z)) = c3.
Proof.
  unfold b64_dec4.
  destruct (val c0) as [p|] eqn:E0; [|discriminate].
  destruct (val c1) as [q|] eqn:E1; [|discriminate].
  destruct (val c2) as [r|] eqn:E2; [|discriminate].
  destruct (val c3) as [t|] eqn:E3; [|discriminate].
  intros Hg. injection Hg as <-.
  destruct (cv _ _ E0) as [Hp <-]. destruct (cv _ _ E1) as [Hq <-].
  destruct (cv _ _ E2) as [Hr <-]. destruct (cv _ _ E3) as [Ht <-].
  exists (nb (by0 p q)), (nb (by1 q r)), (nb (by2 r t)).
  rewrite (bn_nb (by0 p q)) by (apply by0_lt; assumption).
  rewrite (bn_nb (by1 q r)) by (apply by1_lt; assumption).
  rewrite (bn_nb (by2 r t)) by (apply by2_lt; assumption).
  rewrite sx0_by, sx1_by, sx2_by, sx3_by by assumption.
  repeat split; reflexivity.
Qed.

Lemma dec3_canon pad c0 c1 c2 s :
  b64_dec3 val c0 c1 c2 = Some s ->
  b64_encode alpha pad s = c0 :: c1 :: c2 :: (if pad then [b64_pad] else []).
Proof.
  unfold b64_dec3.
  destruct (val c0) as [p|] eqn:E0; [|discriminate].
  destruct (val c1) as [q|] eqn:E1; [|discriminate].
  destruct (val c2) as [r|] eqn:E2; [|discriminate].
  destruct (r mod 4 =? 0) eqn:Elow; [|discriminate].
  apply N.eqb_eq in Elow.
  intros Hs. injection Hs as <-.
  destruct (cv _ _ E0) as [Hp <-]. destruct (cv _ _ E1) as [Hq <-].
  destruct (cv _ _ E2) as [Hr <-].
  rewrite enc_2.
  rewrite (bn_nb (by0 p q)) by (apply by0_lt; assumption).
  rewrite (bn_nb (by1 q r)) by (apply by1_lt; assumption).
  rewrite sx0_by, sx1_by, sx2_by_last by assumption.
  reflexivity.
Qed.

Lemma dec2_canon pad c0 c1 s :
  b64_dec2 val c0 c1 = Some s ->
  b64_encode alpha pad s = c0 :: c1 :: (if pad then [b64_pad; b64_pad] else []).
Proof.
  unfold b64_dec2.
  destruct (val c0) as [p|] eqn:E0; [|discriminate].
  destruct (val c1) as [q|] eqn:E1; [|discriminate].
  destruct (q mod 16 =? 0) eqn:Elow; [|discriminate].
  apply N.eqb_eq in Elow.
  intros Hs. injection Hs as <-.
  destruct (cv _ _ E0) as [Hp <-]. destruct (cv _ _ E1) as [Hq <-].
  rewrite enc_1.
  rewrite (bn_nb (by0 p q)) by (apply by0_lt; assumption).
  rewrite sx0_by, sx1_by_last by assumption.
  reflexivity.
Qed.

(* ================================================================== *)
(* Whole-string round trips and canonicity, for any alphabet.           *)
(* ================================================================== *)

Lemma nopad_roundtrip s : b64_nopad_decode val (b64_encode alpha false s) = Some s.
Proof.
  induction s as [|a|a b|a b c l IH] using list_ind3.
  - reflexivity.
  - rewrite enc_1. apply dec2_enc.
  - rewrite enc_2. apply dec3_enc.
  - rewrite enc_3, nopad_dec_4, dec4_enc, IH. reflexivity.
Qed.

Lemma pad_roundtrip s : b64_pad_decode val (b64_encode alpha true s) = Some s.
Proof.
  induction s as [|a|a b|a b c l IH] using list_ind3.
  - reflexivity.
  - rewrite enc_1, pad_dec_last. unfold b64_pad_last.
    rewrite Ascii.eqb_refl. apply dec2_enc.
  - rewrite enc_2, pad_dec_last. unfold b64_pad_last.
    rewrite Ascii.eqb_refl.
    rewrite np by (apply sx2_lt; reflexivity).
    apply dec3_enc.
  - rewrite enc_3. destruct l as [|d l].
    + change (b64_encode alpha true []) with (@nil ascii).
      rewrite pad_dec_last. unfold b64_pad_last.
      rewrite np by (apply sx3_lt).
      apply dec4_enc.
    + destruct (enc_cons alpha true d l) as (h & t & Eht).
      rewrite Eht in *.
      rewrite pad_dec_more, dec4_enc, IH. reflexivity.
Qed.

Lemma nopad_canonical t : forall s,
  b64_nopad_decode val t = Some s -> b64_encode alpha false s = t.
Proof.
  induction t as [|c0|c0 c1|c0 c1 c2|c0 c1 c2 c3 l IH] using list_ind4; intros s Hs.
  - injection Hs as <-. reflexivity.
  - discriminate Hs.
  - apply (dec2_canon false). exact Hs.
  - apply (dec3_canon false). exact Hs.
  - rewrite nopad_dec_4 in Hs.
    destruct (b64_dec4 val c0 c1 c2 c3) as [g|] eqn:Eg; [|discriminate].
    destruct (b64_nopad_decode val l) as [r|] eqn:Er; [|discriminate].
    injection Hs as <-.
    destruct (dec4_canon _ _ _ _ _ Eg) as (x & y & z & -> & <- & <- & <- & <-).
    cbn [app]. rewrite enc_3. rewrite (IH r eq_refl). reflexivity.
Qed.

Lemma pad_canonical t : forall s,
  b64_pad_decode val t = Some s -> b64_encode alpha true s = t.
Proof.
  induction t as [|c0|c0 c1|c0 c1 c2|c0 c1 c2 c3 l IH] using list_ind4; intros s Hs.
  - injection Hs as <-. reflexivity.
  - discriminate Hs.
  - discriminate Hs.
  - discriminate Hs.
  - destruct l as [|h t].
    + rewrite pad_dec_last in Hs. unfold b64_pad_last in Hs.
      destruct (Ascii.eqb c3 b64_pad) eqn:E3.
      * apply Ascii.eqb_eq in E3. subst c3.
        destruct (Ascii.eqb c2 b64_pad) eqn:E2.
        -- apply Ascii.eqb_eq in E2. subst c2. apply (dec2_canon true). exact Hs.
        -- apply (dec3_canon true). exact Hs.
      * destruct (dec4_canon _ _ _ _ _ Hs) as (x & y & z & -> & <- & <- & <- & <-).
        reflexivity.
    + rewrite pad_dec_more in Hs.
      destruct (b64_dec4 val c0 c1 c2 c3) as [g|] eqn:Eg; [|discriminate].
      destruct (b64_pad_decode val (h :: t)) as [r|] eqn:Er; [|discriminate].
      injection Hs as <-.
      destruct (dec4_canon _ _ _ _ _ Eg) as (x & y & z & -> & <- & <- & <- & <-).
      cbn [app]. rewrite enc_3. rewrite (IH r eq_refl). reflexivity.
Qed.

End Generic.

(* ================================================================== *)
(* Length and alphabet of the output, for any alphabet.                 *)
(* ================================================================== *)

Lemma encode_nopad_length_nat alpha s :
  List.length (b64_encode alpha false s) = ((4 * List.length s + 2) / 3)%nat.
Proof.
  induction s as [|a|a b|a b c l IH] using list_ind3.
  - reflexivity.
  - reflexivity.
  - reflexivity.
  - rewrite enc_3. cbn [List.length]. rewrite IH. lia.
Qed.

Lemma encode_pad_length_nat alpha s :
  List.length (b64_encode alpha true s) = (4 * ((List.length s + 2) / 3))%nat.
Proof.
  induction s as [|a|a b|a b c l IH] using list_ind3.
  - reflexivity.
  - reflexivity.
  - reflexivity.
  - rewrite enc_3. cbn [List.length]. rewrite IH. lia.
Qed.

Lemma encode_forallb alpha pad (f : ascii -> bool) :
  (forall n, n < 64 -> f (alpha n) = true) ->
  (pad = true -> f b64_pad = true) ->
  forall s, forallb f (b64_encode alpha pad s) = true.
Proof.
  intros Hf Hp s.
  induction s as [|a|a b|a b c l IH] using list_ind3.
  - reflexivity.
  - pose proof (bn_lt a) as Ha.
    rewrite enc_1. cbn [forallb].
    rewrite Hf by (apply sx0_lt; assumption).
    rewrite Hf by (apply sx1_lt; reflexivity).
    destruct pad; cbn [forallb andb]; [rewrite Hp by reflexivity|]; reflexivity.
  - pose proof (bn_lt a) as Ha. pose proof (bn_lt b) as Hb.
    rewrite enc_2. cbn [forallb].
    rewrite Hf by (apply sx0_lt; assumption).
    rewrite Hf by (apply sx1_lt; assumption).
    rewrite Hf by (apply sx2_lt; reflexivity).
    destruct pad; cbn [forallb andb]; [rewrite Hp by reflexivity|]; reflexivity.
  - pose proof (bn_lt a) as Ha. pose proof (bn_lt b) as Hb. pose proof (bn_lt c) as Hc.
    rewrite enc_3. cbn [forallb].
    rewrite Hf by (apply sx0_lt; assumption).
    rewrite Hf by (apply sx1_lt; assumption).
    rewrite Hf by (apply sx2_lt; assumption).
    rewrite Hf by (apply sx3_lt).
    rewrite IH. reflexivity.
Qed.

(* ================================================================== *)
(* The theorems.                                                        *)
(* ================================================================== *)

Theorem b64_url_nopad_roundtrip :
  forall s, b64_url_nopad_decode (b64_url_nopad_encode s) = Some s.
Proof. exact (nopad_roundtrip _ _ url_alphabet_ok). Qed.

Theorem b64_std_roundtrip :
  forall s, b64_std_decode (b64_std_encode s) = Some s.
Proof. exact (pad_roundtrip _ _ std_alphabet_ok). Qed.

Theorem b64_url_nopad_inj :
  forall a b, b64_url_nopad_encode a = b64_url_nopad_encode b -> a = b.
Proof.
  intros a b H.
  pose proof (b64_url_nopad_roundtrip a) as Ha. rewrite H in Ha.
  rewrite b64_url_nopad_roundtrip in Ha. congruence.
Qed.

Theorem b64_std_inj :
  forall a b, b64_std_encode a = b64_std_encode b -> a = b.
Proof.
  intros a b H.
  pose proof (b64_std_roundtrip a) as Ha. rewrite H in Ha.
  rewrite b64_std_roundtrip in Ha. congruence.
Qed.

(* Stated in N, as ceil(4n/3). *)
Theorem b64_url_nopad_length :
  forall s, N.of_nat (List.length (b64_url_nopad_encode s)) = (4 * N.of_nat (List.length s) + 2) / 3.
Proof.
  intros s. unfold b64_url_nopad_encode. rewrite encode_nopad_length_nat. lia.
Qed.

(* The same in nat. *)
Theorem b64_url_nopad_length_nat :
  forall s, List.length (b64_url_nopad_encode s) = ((4 * List.length s + 2) / 3)%nat.
Proof. intros s. apply encode_nopad_length_nat. Qed.

Theorem b64_std_length :
  forall s, List.length (b64_std_encode s) = (4 * ((List.length s + 2) / 3))%nat.
Proof. intros s. apply encode_pad_length_nat. Qed.

Theorem b64_url_nopad_alphabet :
  forall s, forallb b64_url_charb (b64_url_nopad_encode s) = true.
Proof.
  apply encode_forallb.
  - apply b64_url_char_class.
  - discriminate.
Qed.

Theorem b64_std_alphabet :
  forall s, forallb b64_std_charb (b64_std_encode s) = true.
Proof.
  apply encode_forallb.
  - apply b64_std_char_class.
  - reflexivity.
Qed.

Theorem b64_url_nopad_decode_canonical :
  forall t s, b64_url_nopad_decode t = Some s -> b64_url_nopad_encode s = t.
Proof. exact (nopad_canonical _ _ url_alphabet_ok). Qed.

(* Not requested, same proof: the padded decoder is canonical too. *)
Theorem b64_std_decode_canonical :
  forall t s, b64_std_decode t = Some s -> b64_std_encode s = t.
Proof. exact (pad_canonical _ _ std_alphabet_ok). Qed.

(* Hence decoding is injective on its domain, and decode/encode are mutually inverse. *)
Corollary b64_url_nopad_decode_iff :
  forall t s, b64_url_nopad_decode t = Some s <-> b64_url_nopad_encode s = t.
Proof.
  intros t s. split.
  - apply b64_url_nopad_decode_canonical.
  - intros <-. apply b64_url_nopad_roundtrip.
Qed.

Corollary b64_std_decode_iff :
  forall t s, b64_std_decode t = Some s <-> b64_std_encode s = t.
Proof.
  intros t s. split.
  - apply b64_std_decode_canonical.
  - intros <-. apply b64_std_roundtrip.
Qed.

Corollary b64_url_nopad_encode_32 :
  forall s, List.length s = 32%nat -> List.length (b64_url_nopad_encode s) = 43%nat.
Proof. intros s H. rewrite b64_url_nopad_length_nat, H. reflexivity. Qed.

Corollary b64_url_nopad_encode_32_96 :
  forall s, (32 <= List.length s <= 96)%nat ->
            (43 <= List.length (b64_url_nopad_encode s) <= 128)%nat.
Proof. intros s H. rewrite b64_url_nopad_length_nat. lia. Qed.

(* ================================================================== *)
(* Test vectors.                                                        *)
(* ================================================================== *)

Local Open Scope string_scope.

(* RFC 4648 section 10, standard alphabet with padding *)
Example std_tv0 : b64_std_encode (list_ascii_of_string "") = list_ascii_of_string "".
Proof. reflexivity. Qed.
Example std_tv1 : b64_std_encode (list_ascii_of_string "f") = list_ascii_of_string "Zg==".
Proof. reflexivity. Qed.
Example std_tv2 : b64_std_encode (list_ascii_of_string "fo") = list_ascii_of_string "Zm8=".
Proof. reflexivity. Qed.
Example std_tv3 : b64_std_encode (list_ascii_of_string "foo") = list_ascii_of_string "Zm9v".
Proof. reflexivity. Qed.
Example std_tv4 : b64_std_encode (list_ascii_of_string "foob") = list_ascii_of_string "Zm9vYg==".
Proof. reflexivity. Qed.
Example std_tv5 : b64_std_encode (list_ascii_of_string "fooba") = list_ascii_of_string "Zm9vYmE=".
Proof. reflexivity. Qed.
Example std_tv6 : b64_std_encode (list_ascii_of_string "foobar") = list_ascii_of_string "Zm9vYmFy".
Proof. reflexivity. Qed.
Example std_tv7 : b64_std_encode (map nb [251; 255; 191]%N) = list_ascii_of_string "+/+/".
Proof. reflexivity. Qed.
Example std_tv8 : b64_std_encode (map nb [251; 255]%N) = list_ascii_of_string "+/8=".
Proof. reflexivity. Qed.

Example std_dec4 : b64_std_decode (list_ascii_of_string "Zm9vYg==") = Some (list_ascii_of_string "foob").
Proof. reflexivity. Qed.
Example std_dec5 : b64_std_decode (list_ascii_of_string "Zm9vYmE=") = Some (list_ascii_of_string "fooba").
Proof. reflexivity. Qed.
Example std_dec6 : b64_std_decode (list_ascii_of_string "Zm9vYmFy") = Some (list_ascii_of_string "foobar").
Proof. reflexivity. Qed.
(* rejected: non-zero trailing bits, missing / excess / inner padding, URL-safe characters *)
Example std_rej1 : b64_std_decode (list_ascii_of_string "Zh==") = None.
Proof. reflexivity. Qed.
Example std_rej2 : b64_std_decode (list_ascii_of_string "Zm9=") = None.
Proof. reflexivity. Qed.
Example std_rej3 : b64_std_decode (list_ascii_of_string "Zg") = None.
Proof. reflexivity. Qed.
Example std_rej4 : b64_std_decode (list_ascii_of_string "Zg=") = None.
Proof. reflexivity. Qed.
Example std_rej5 : b64_std_decode (list_ascii_of_string "Zg==Zg==") = None.
Proof. reflexivity. Qed.
Example std_rej6 : b64_std_decode (list_ascii_of_string "Zm9v====") = None.
Proof. reflexivity. Qed.
Example std_rej7 : b64_std_decode (list_ascii_of_string "Z===") = None.
Proof. reflexivity. Qed.
Example std_rej8 : b64_std_decode (list_ascii_of_string "-_8=") = None.
Proof. reflexivity. Qed.
Example std_rej9 : b64_std_decode (list_ascii_of_string "Zg=v") = None.
Proof. reflexivity. Qed.

(* URL-safe alphabet without padding *)
Example url_tv0 : b64_url_nopad_encode (list_ascii_of_string "") = list_ascii_of_string "".
Proof. reflexivity. Qed.
Example url_tv1 : b64_url_nopad_encode (list_ascii_of_string "f") = list_ascii_of_string "Zg".
Proof. reflexivity. Qed.
Example url_tv2 : b64_url_nopad_encode (list_ascii_of_string "fo") = list_ascii_of_string "Zm8".
Proof. reflexivity. Qed.
Example url_tv3 : b64_url_nopad_encode (list_ascii_of_string "foo") = list_ascii_of_string "Zm9v".
Proof. reflexivity. Qed.
Example url_tv4 : b64_url_nopad_encode (list_ascii_of_string "foob") = list_ascii_of_string "Zm9vYg".
Proof. reflexivity. Qed.
Example url_tv6 : b64_url_nopad_encode (list_ascii_of_string "foobar") = list_ascii_of_string "Zm9vYmFy".
Proof. reflexivity. Qed.
(* 0xFB 0xFF (0xBF): sextets 62 63 (62 63) *)
Example url_tv7 : b64_url_nopad_encode (map nb [251; 255]%N) = list_ascii_of_string "-_8".
Proof. reflexivity. Qed.
Example url_tv8 : b64_url_nopad_encode (map nb [251; 255; 191]%N) = list_ascii_of_string "-_-_".
Proof. reflexivity. Qed.
Example url_tv9 : b64_url_nopad_encode (map nb [251]%N) = list_ascii_of_string "-w".
Proof. reflexivity. Qed.

Example url_dec7 : b64_url_nopad_decode (list_ascii_of_string "-_8") = Some (map nb [251; 255]%N).
Proof. reflexivity. Qed.
Example url_dec8 : b64_url_nopad_decode (list_ascii_of_string "-_-_") = Some (map nb [251; 255; 191]%N).
Proof. reflexivity. Qed.
(* rejected: length 1 mod 4, non-zero trailing bits, padding, standard-only characters *)
Example url_rej1 : b64_url_nopad_decode (list_ascii_of_string "Z") = None.
Proof. reflexivity. Qed.
Example url_rej2 : b64_url_nopad_decode (list_ascii_of_string "Zm9vY") = None.
Proof. reflexivity. Qed.
Example url_rej3 : b64_url_nopad_decode (list_ascii_of_string "Zh") = None.
Proof. reflexivity. Qed.
Example url_rej4 : b64_url_nopad_decode (list_ascii_of_string "-_9") = None.
Proof. reflexivity. Qed.
Example url_rej5 : b64_url_nopad_decode (list_ascii_of_string "Zg==") = None.
Proof. reflexivity. Qed.
Example url_rej6 : b64_url_nopad_decode (list_ascii_of_string "+/8") = None.
Proof. reflexivity. Qed.

(* a 32-byte input (e.g. a SHA-256 digest / PKCE verifier) gives 43 characters *)
Example url_len32 : List.length (b64_url_nopad_encode (repeat (nb 0) 32)) = 43%nat.
Proof. vm_compute. reflexivity. Qed.

(* ================================================================== *)

Print Assumptions b64_url_nopad_roundtrip.
Print Assumptions b64_std_roundtrip.
Print Assumptions b64_url_nopad_inj.
Print Assumptions b64_std_inj.
Print Assumptions b64_url_nopad_length.
Print Assumptions b64_url_nopad_length_nat.
Print Assumptions b64_std_length.
Print Assumptions b64_url_nopad_alphabet.
Print Assumptions b64_std_alphabet.
Print Assumptions b64_url_nopad_decode_canonical.
Print Assumptions b64_std_decode_canonical.
Print Assumptions b64_url_nopad_decode_iff.
Print Assumptions b64_std_decode_iff.
Print Assumptions b64_url_nopad_encode_32.
Print Assumptions b64_url_nopad_encode_32_96.
