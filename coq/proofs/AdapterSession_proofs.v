From OA Require Import Bytes Json Requests Adapters Adapters_proofs Endpoint DevicePoll DevicePoll_proofs DeviceKinds Http
     AdapterSession.
From Coq Require Import ZArith.
Local Open Scope N_scope.

Section Session.
  Variable idx : result -> N.

  (* one exchange: every adapter, every server behaviour *)
  Lemma exchange_via_direct a s : exchange_via idx a s = exchange_direct idx s.
  Proof.
    unfold exchange_via, exchange_direct. destruct s as [r|].
    - rewrite response_glue. reflexivity.
    - rewrite fault_is_error. reflexivity.
  Qed.

  Lemma map_exchange a servers :
    map (exchange_via idx a) servers = map (exchange_direct idx) servers.
  Proof. apply map_ext. intros s. apply exchange_via_direct. Qed.

  (* whole sessions of any length, any configuration, any clock *)
  Lemma session_via_direct a c clock servers :
    session_via idx a c clock servers = session_direct idx c clock servers.
  Proof. unfold session_via, session_direct. rewrite map_exchange. reflexivity. Qed.

  (* hence two adapters never differ either *)
  Lemma session_adapters_agree a b c clock servers :
    session_via idx a c clock servers = session_via idx b c clock servers.
  Proof. rewrite !session_via_direct. reflexivity. Qed.

  (* an adapter that hides no status is the in-memory client *)
  Lemma hiding_nothing s : exchange_hiding idx (fun _ => false) s = exchange_direct idx s.
  Proof. destruct s; reflexivity. Qed.
End Session.

(* What goes wrong when an adapter turns replies into errors.  The server answers the first poll
   with 503 and an access_denied document: the session must end there with that error.  An
   adapter that reports every status >= 500 as a transport error keeps polling instead (here until
   the script runs out: the loop would go on to the deadline). *)
Definition idx0 (r : result) : N := 7.
Definition denied503 : server_behaviour :=
  SReply {| w_status := 503; w_ct := Some (s2b "application/json");
            w_body := s2b "{""error"":""access_denied""}" |}.
Definition cfg0 : poll_cfg :=
  {| pc_interval_s := 1; pc_expires_s := 30; pc_backoff := None; pc_timeout := None; pc_req_ok := true |}.

Lemma hiding_5xx_changes_the_session :
  snd (session_direct idx0 cfg0 [0; 1; 2; 3]%Z [denied503; denied503]) = OFinished 7 /\
  polls (fst (session_direct idx0 cfg0 [0; 1; 2; 3]%Z [denied503; denied503])) = 1%nat /\
  polls (fst (poll_run cfg0 [0; 1; 2; 3]%Z
                (map (exchange_hiding idx0 (fun st => 500 <=? st)) [denied503; denied503]))) = 2%nat /\
  snd (poll_run cfg0 [0; 1; 2; 3]%Z
         (map (exchange_hiding idx0 (fun st => 500 <=? st)) [denied503; denied503])) <> OFinished 7.
Proof. vm_compute. repeat split; discriminate. Qed.
