(* Glue between the serde theorems (Serde_proofs.v), the JSON text layer (Json_proofs.v) and the
   property statements: schema instances, text-level round trips, "none is omitted", RFC names,
   the empty-scope-list counterexample. *)
From OA Require Import Bytes Json Json_proofs ErrorCodes ErrorCodes_proofs Serde SerdeSpec Serde_proofs
     DevicePoll.
From Coq Require Import ZArith Lia.

(* the two extension schemas used by the harness are well behaved for every family *)
Lemma ext_good_token : ef_good ef_ext ext_canon token_names.
Proof. apply ef_ext_good. intros n [<-|[<-|[]]]; reflexivity. Qed.
Lemma ext_good_introspection : ef_good ef_ext ext_canon introspection_names.
Proof. apply ef_ext_good. intros n [<-|[<-|[]]]; reflexivity. Qed.
Lemma ext_good_device : ef_good ef_ext ext_canon device_names.
Proof. apply ef_ext_good. intros n [<-|[<-|[]]]; reflexivity. Qed.

(* text level: what serde_json::to_string writes is read back to the same value *)
Section Text.
  Context {A : Type} (dec : json -> option A) (enc : A -> json).
  Lemma text_roundtrip v :
    json_canonical (enc v) -> dec (enc v) = Some v ->
    from_body dec (json_print (enc v)) = Some v /\
    (forall v', from_body dec (json_print (enc v)) = Some v' -> json_print (enc v') = json_print (enc v)).
  Proof.
    intros Hc Hd. unfold from_body. rewrite (json_print_parse _ Hc), Hd. split; [reflexivity|].
    intros v' H. injection H as <-. reflexivity.
  Qed.
End Text.

(* a body that parses is a well-formed document: every accepted string is valid UTF-8 *)
Lemma from_body_wf {A} (dec : json -> option A) body v :
  from_body dec body = Some v -> exists j, json_parse body = Some j /\ json_wf j /\ dec j = Some v.
Proof.
  unfold from_body. destruct (json_parse body) as [j|] eqn:E; [|discriminate].
  intros H. exists j. repeat split; auto. eapply json_parse_wf; eauto.
Qed.

(* members written by the encoders *)
Definition members (j : json) : obj := match j with JObj m => m | _ => [] end.

Lemma opt_member_no_null n (o : option json) kv :
  (forall j, o = Some j -> j <> JNull) -> In kv (opt_member n o) -> snd kv <> JNull.
Proof.
  destruct o as [j|]; cbn; [|tauto]. intros H [<-|[]]. cbn. apply H. reflexivity.
Qed.

Ltac no_null_tac :=
  repeat match goal with
  | H : In _ (_ ++ _) |- _ => apply in_app_or in H; destruct H as [H|H]
  | H : In _ (opt_member _ (option_map _ ?o)) |- _ =>
      destruct o; cbn in H; [destruct H as [<-|[]]; cbn; discriminate|contradiction]
  | H : In _ (_ :: _) |- _ => destruct H as [<-|H]; [cbn; discriminate|]
  | H : In _ [] |- _ => contradiction
  end.

Lemma encode_token_no_null {EF} (ef : ef_schema EF) t kv :
  (forall x kv, In kv (ef_encode ef x) -> snd kv <> JNull) ->
  In kv (members (encode_token ef t)) -> snd kv <> JNull.
Proof. intros Hef H. cbn [members encode_token] in H. no_null_tac. eapply Hef; eauto. Qed.

Lemma encode_introspection_no_null {EF} (ef : ef_schema EF) r kv :
  (forall x kv, In kv (ef_encode ef x) -> snd kv <> JNull) ->
  In kv (members (encode_introspection ef r)) -> snd kv <> JNull.
Proof. intros Hef H. cbn [members encode_introspection] in H. no_null_tac. eapply Hef; eauto. Qed.

Lemma encode_device_no_null {EF} (ef : ef_schema EF) d kv :
  (forall x kv, In kv (ef_encode ef x) -> snd kv <> JNull) ->
  In kv (members (encode_device_auth ef d)) -> snd kv <> JNull.
Proof. intros Hef H. cbn [members encode_device_auth] in H. no_null_tac. eapply Hef; eauto. Qed.

Lemma encode_error_no_null {T} (as_ref : T -> bytes) e kv :
  In kv (members (encode_error as_ref e)) -> snd kv <> JNull.
Proof. intros H. cbn [members encode_error] in H. no_null_tac. Qed.

Lemma ext_no_null x kv : In kv (ef_encode ef_ext x) -> snd kv <> JNull.
Proof.
  cbn [ef_encode ef_ext]. unfold ext_encode. intros H.
  apply in_app_or in H. destruct H as [H|H].
  - destruct (ext_id_token x); cbn in H; [destruct H as [<-|[]]; discriminate|contradiction].
  - destruct (ext_num x); cbn in H; [destruct H as [<-|[]]; discriminate|contradiction].
Qed.
Lemma empty_no_null x kv : In kv (ef_encode ef_empty x) -> snd kv <> JNull.
Proof. cbn. tauto. Qed.

(* RFC member names *)
Lemma encode_device_names {EF} (ef : ef_schema EF) d :
  find_key (s2b "verification_uri") (members (encode_device_auth ef d))
    = Some (JStr (da_verification_uri d) true) /\
  count_key (s2b "verification_url")
    ([(s2b "device_code", jstr (da_device_code d)); (s2b "user_code", jstr (da_user_code d));
      (s2b "verification_uri", jstr (da_verification_uri d))]
     ++ opt_member "verification_uri_complete" (option_map jstr (da_uri_complete d))
     ++ [(s2b "expires_in", JInt (Z.of_N (da_expires d)));
         (s2b "interval", JInt (Z.of_N (da_interval d)))]) = 0%nat.
Proof. split; [reflexivity|]. destruct (da_uri_complete d); reflexivity. Qed.

Lemma encode_token_scope {EF} (ef : ef_schema EF) t :
  find_key (s2b "scope") (members (encode_token ef t)) =
  match tr_scopes t with
  | Some l => Some (JStr (join [space] l) true)
  | None => find_key (s2b "scope") (ef_encode ef (tr_extra t))
  end.
Proof.
  cbn [members encode_token].
  destruct (tr_expires t), (tr_refresh t), (tr_scopes t); reflexivity.
Qed.

(* D6: a scope LIST that is empty does not survive the space-delimited codec *)
Lemma empty_scopes_refuted :
  let t := {| tr_access := s2b "t"; tr_type := Bearer; tr_expires := None; tr_refresh := None;
              tr_scopes := Some []; tr_extra := tt |} in
  decode_token ef_empty (encode_token ef_empty t) =
  Some {| tr_access := s2b "t"; tr_type := Bearer; tr_expires := None; tr_refresh := None;
          tr_scopes := Some [[]]; tr_extra := tt |} /\
  token_canon (fun _ => true) t = false.
Proof. vm_compute. split; reflexivity. Qed.

(* error codes: canonical variants satisfy the round-trip premise *)
Lemma basic_error_roundtrip e :
  basic_canon (er_error e) ->
  decode_error basic_from_str (encode_error basic_as_ref e) = Some e.
Proof. intros H. apply error_roundtrip. apply basic_from_str_as_ref. exact H. Qed.
Lemma device_error_roundtrip e :
  device_canon (er_error e) ->
  decode_error device_from_str (encode_error device_as_ref e) = Some e.
Proof. intros H. apply error_roundtrip. apply device_from_str_as_ref. exact H. Qed.
Lemma revocation_error_roundtrip e :
  revocation_canon (er_error e) ->
  decode_error revocation_from_str (encode_error revocation_as_ref e) = Some e.
Proof. intros H. apply error_roundtrip. apply revocation_from_str_as_ref. exact H. Qed.

(* C19: polling started from an accepted response begins with exactly the reported interval and
   lifetime *)
Definition poll_cfg_of {EF} (d : device_auth EF) (backoff timeout : option N) (req_ok : bool)
  : poll_cfg :=
  {| pc_interval_s := da_interval d; pc_expires_s := da_expires d; pc_backoff := backoff;
     pc_timeout := timeout; pc_req_ok := req_ok |}.

Lemma first_poll {EF} (d : device_auth EF) backoff t0 t1 clock script :
  (da_expires d * NS <= MAXDELTA)%N ->
  (t0 + Z.of_N (da_expires d * NS) <= DTMAX)%Z ->
  (t1 <= t0 + Z.of_N (da_expires d * NS))%Z ->
  exists tr o,
    poll_run (poll_cfg_of d backoff None true) (t0 :: t1 :: clock) (RPending :: script)
    = (ENow t0 :: ENow t1 :: EPoll :: ESleep (da_interval d * NS) :: tr, o) /\
    compute_timeout t0 (timeout_of (poll_cfg_of d backoff None true))
    = Some (t0 + Z.of_N (da_expires d * NS))%Z.
Proof.
  intros H1 H2 H3. unfold poll_run, timeout_of, compute_timeout. cbn [poll_cfg_of pc_timeout pc_expires_s pc_interval_s pc_req_ok].
  destruct (N.leb_spec (da_expires d * NS) MAXDELTA) as [_|]; [|lia]. cbn [negb].
  destruct (Z.leb_spec (t0 + Z.of_N (da_expires d * NS)) DTMAX) as [_|]; [|lia].
  cbn [poll_loop].
  destruct (Z.gtb_spec t1 (t0 + Z.of_N (da_expires d * NS))) as [|_]; [lia|].
  cbn [negb process_response].
  destruct (poll_loop true _ _ _ clock script) as [tr o].
  exists tr, o. split; reflexivity.
Qed.
