From OA Require Import Bytes FormUrlencoded FormUrlencoded_proofs Requests Pkce AuthUrl.

Lemma form_append_app q a b : form_append (form_append q a) b = form_append q (a ++ b).
Proof. revert q. induction a as [|p a IH]; intros q; cbn; [reflexivity|apply IH]. Qed.

Lemma url_frame r :
  u_prefix (fst (url_of r)) = u_prefix (ar_endpoint r) /\
  u_fragment (fst (url_of r)) = u_fragment (ar_endpoint r).
Proof. split; reflexivity. Qed.

Lemma url_query r :
  exists q, u_query (fst (url_of r)) = Some q /\
    form_parse q = form_parse (query0 (ar_endpoint r)) ++ auth_main_pairs r ++ ar_extra r /\
    exists t, q = query0 (ar_endpoint r) ++ t.
Proof.
  eexists. split; [reflexivity|]. rewrite form_append_app. split.
  - apply form_parse_append.
  - apply form_append_prefix.
Qed.

Lemma url_state r : snd (url_of r) = ar_state r /\
  lookup (s2b "state") (auth_main_pairs r) = Some (ar_state r) /\
  count_name (s2b "state") (auth_main_pairs r) = 1.
Proof.
  unfold auth_main_pairs, redirect_pairs. repeat split;
  destruct (ar_pkce r), (ar_redirect r), (join [space] (ar_scopes r)); reflexivity.
Qed.

Lemma main_pairs_once r :
  Forall (fun p => count_name (fst p) (auth_main_pairs r) = 1) (auth_main_pairs r).
Proof.
  unfold auth_main_pairs, redirect_pairs.
  destruct (ar_pkce r), (ar_redirect r), (join [space] (ar_scopes r)); repeat constructor.
Qed.

Lemma main_pairs_lookup r :
  lookup (s2b "response_type") (auth_main_pairs r) = Some (ar_response_type r) /\
  lookup (s2b "client_id") (auth_main_pairs r) = Some (ar_client_id r) /\
  lookup (s2b "code_challenge") (auth_main_pairs r) = option_map ch_value (ar_pkce r) /\
  lookup (s2b "code_challenge_method") (auth_main_pairs r) = option_map ch_method (ar_pkce r) /\
  lookup (s2b "redirect_uri") (auth_main_pairs r) = ar_redirect r /\
  lookup (s2b "scope") (auth_main_pairs r) =
    match join [space] (ar_scopes r) with [] => None | sc => Some sc end.
Proof.
  unfold auth_main_pairs, redirect_pairs.
  destruct (ar_pkce r), (ar_redirect r), (join [space] (ar_scopes r)); repeat split; reflexivity.
Qed.

Lemma authorize_url_gen ep id dr gen calls :
  snd (authorize_url ep id dr gen calls) = S calls /\
  ar_state (fst (authorize_url ep id dr gen calls)) = gen calls.
Proof. split; reflexivity. Qed.

Lemma fold_ops_spec ops : forall r,
  let r' := fold_left apply_auth_op ops r in
  ar_endpoint r' = ar_endpoint r /\ ar_client_id r' = ar_client_id r /\
  ar_state r' = ar_state r /\
  ar_response_type r' = last_response_type ops (ar_response_type r) /\
  ar_redirect r' = last_redirect ops (ar_redirect r) /\
  ar_pkce r' = last_pkce ops (ar_pkce r) /\
  ar_scopes r' = ar_scopes r ++ all_scopes ops /\
  ar_extra r' = ar_extra r ++ all_extras ops.
Proof.
  induction ops as [|o ops IH]; intros r; cbn [fold_left].
  - cbn. rewrite !app_nil_r. repeat split; reflexivity.
  - specialize (IH (apply_auth_op r o)). cbn zeta in *.
    destruct IH as (H1 & H2 & H3 & H4 & H5 & H6 & H7 & H8).
    rewrite H1, H2, H3, H4, H5, H6, H7, H8.
    destruct o; cbn; rewrite <- ?app_assoc; repeat split; reflexivity.
Qed.
