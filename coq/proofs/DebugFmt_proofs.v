From OA Require Import Bytes DebugFmt.

(* induction principle for the nested type *)
Section Ind.
  Variable P : dbg -> Prop.
  Hypothesis Hstr : forall s, P (DStr s).
  Hypothesis Hraw : forall s, P (DRaw s).
  Hypothesis Hsec : forall n p, P (DSecret n p).
  Hypothesis Hstruct : forall n fs, Forall (fun fv => P (snd fv)) fs -> P (DStruct n fs).
  Hypothesis Htuple : forall n l, Forall P l -> P (DTuple n l).
  Hypothesis Hlist : forall l, Forall P l -> P (DList l).

  Fixpoint dbg_ind' (d : dbg) : P d :=
    match d with
    | DStr s => Hstr s
    | DRaw s => Hraw s
    | DSecret n p => Hsec n p
    | DStruct n fs =>
        Hstruct n fs ((fix go (l : list (bytes * dbg)) : Forall (fun fv => P (snd fv)) l :=
                         match l with
                         | [] => Forall_nil _
                         | fv :: r => Forall_cons fv (dbg_ind' (snd fv)) (go r)
                         end) fs)
    | DTuple n l =>
        Htuple n l ((fix go (l : list dbg) : Forall P l :=
                       match l with
                       | [] => Forall_nil _
                       | v :: r => Forall_cons v (dbg_ind' v) (go r)
                       end) l)
    | DList l =>
        Hlist l ((fix go (l : list dbg) : Forall P l :=
                    match l with
                    | [] => Forall_nil _
                    | v :: r => Forall_cons v (dbg_ind' v) (go r)
                    end) l)
    end.
End Ind.

(* the rendering does not depend on any secret payload, in either mode, at any nesting depth *)
Lemma render_erase : forall d pretty ind, render pretty ind (erase d) = render pretty ind d.
Proof.
  induction d as [s|s|n p|n fs IH|n l IH|l IH] using dbg_ind'; intros pretty ind;
    try reflexivity.
  - cbn [erase render]. f_equal. rewrite map_map. cbn [fst snd].
    induction IH as [|fv r Hv Hr IHr]; [reflexivity|].
    cbn [map]. rewrite Hv, IHr. reflexivity.
  - cbn [erase render].
    assert (E : map (render pretty (child_ind pretty ind)) (map erase l)
                = map (render pretty (child_ind pretty ind)) l).
    { rewrite map_map. induction IH as [|v r Hv Hr IHr]; [reflexivity|].
      cbn [map]. rewrite Hv, IHr. reflexivity. }
    destruct l as [|v0 l0]; [reflexivity|]. cbn [map] in *. rewrite E. reflexivity.
  - cbn [erase render]. f_equal.
    rewrite map_map. induction IH as [|v r Hv Hr IHr]; [reflexivity|].
    cbn [map]. rewrite Hv, IHr. reflexivity.
Qed.

(* non-interference: two values that differ only in secret payloads render identically *)
Lemma noninterference d1 d2 pretty ind :
  erase d1 = erase d2 -> render pretty ind d1 = render pretty ind d2.
Proof. intros H. rewrite <- (render_erase d1), <- (render_erase d2), H. reflexivity. Qed.

Lemma secret_leaf n p pretty ind : render pretty ind (DSecret n p) = n ++ s2b "([redacted])".
Proof. reflexivity. Qed.
