From OA Require Import Bytes Requests Requests_proofs Pkce AuthUrl ClientCfg.

Definition ep_eqb (e e' : ep_name) : bool :=
  match e, e' with
  | EAuth, EAuth | EToken, EToken | EDevAuth, EDevAuth
  | EIntrospect, EIntrospect | ERevoke, ERevoke => true
  | _, _ => false
  end.

(* setting one endpoint's field touches that endpoint only *)
Lemma set_field_frame e e' v t s :
  c_id (set_field e' v t s) = c_id s /\ c_secret (set_field e' v t s) = c_secret s /\
  c_auth (set_field e' v t s) = c_auth s /\ c_redirect (set_field e' v t s) = c_redirect s /\
  (field e (set_field e' v t s), tstate e (set_field e' v t s)) =
    if ep_eqb e e' then (v, t) else (field e s, tstate e s).
Proof. destruct e, e'; repeat split; reflexivity. Qed.

(* refinement to the abstract specification "most recent write per item" *)
Lemma last_write ops : forall s,
  let s' := fold_left apply_op ops s in
  c_id s' = c_id s /\
  c_secret s' = last_secret ops (c_secret s) /\
  c_redirect s' = last_redirect_uri ops (c_redirect s) /\
  c_auth s' = last_auth_type ops (c_auth s) /\
  forall e, (field e s', tstate e s') = last_url e ops (field e s, tstate e s).
Proof.
  induction ops as [|o ops IH]; intros s; cbn [fold_left].
  - cbn. repeat split; reflexivity.
  - specialize (IH (apply_op s o)). cbn zeta in *.
    destruct o as [e' u|e' u|x|x|a]; cbn [apply_op] in IH |- *;
      destruct IH as (H1 & H2 & H3 & H4 & H5); rewrite H1, H2, H3, H4;
      cbn [apply_op last_secret last_redirect_uri last_auth_type last_url];
      try (repeat split; try reflexivity; intros e; rewrite H5; destruct e; reflexivity).
    + destruct (set_field_frame EAuth e' (Some u) IsSet s) as (F1 & F2 & F3 & F4 & _).
      rewrite F1, F2, F3, F4. repeat split; try reflexivity.
      intros e. rewrite H5. destruct (set_field_frame e e' (Some u) IsSet s) as (_ & _ & _ & _ & F5).
      rewrite F5. unfold ep_eqb. destruct e, e'; reflexivity.
    + destruct (set_field_frame EAuth e' u MaybeSet s) as (F1 & F2 & F3 & F4 & _).
      rewrite F1, F2, F3, F4. repeat split; try reflexivity.
      intros e. rewrite H5. destruct (set_field_frame e e' u MaybeSet s) as (_ & _ & _ & _ & F5).
      rewrite F5. unfold ep_eqb. destruct e, e'; reflexivity.
Qed.

(* typestate Set => the field is present, in every reachable configuration *)
Definition Inv (s : cstate) : Prop :=
  forall e, (tstate e s = IsSet -> field e s <> None) /\ (tstate e s = NotSet -> field e s = None).

Lemma inv_init id : Inv (init id).
Proof. intros e. destruct e; split; cbn; congruence. Qed.

Lemma inv_step s o : Inv s -> Inv (apply_op s o).
Proof.
  intros H e. specialize (H e).
  destruct o as [e' u|e' u|x|x|a]; cbn [apply_op]; try (destruct e; exact H).
  - destruct (set_field_frame e e' (Some u) IsSet s) as (_ & _ & _ & _ & F5).
    destruct (ep_eqb e e'); injection F5 as F6 F7; rewrite F6, F7; [|exact H].
    split; congruence.
  - destruct (set_field_frame e e' u MaybeSet s) as (_ & _ & _ & _ & F5).
    destruct (ep_eqb e e'); injection F5 as F6 F7; rewrite F6, F7; [|exact H].
    split; congruence.
Qed.

Lemma inv_reachable id ops : Inv (fold_left apply_op ops (init id)).
Proof.
  assert (G : forall s, Inv s -> Inv (fold_left apply_op ops s)).
  { induction ops as [|o ops IH]; intros s H; cbn [fold_left]; [exact H|].
    apply IH. apply inv_step. exact H. }
  apply G. apply inv_init.
Qed.

Lemma no_panic s : Inv s ->
  (forall e, getter e s <> GPanic) /\ (forall e, op_url e s <> GPanic) /\
  (forall o, run_operation s o <> GPanic) /\ (forall st, run_authorize s st <> GPanic).
Proof.
  intros H.
  assert (G : forall e, op_url e s <> GPanic).
  { intros e. unfold op_url. destruct (H e) as [H1 _].
    destruct (tstate e s); try discriminate.
    - destruct (field e s); [discriminate|]. exfalso. apply H1; reflexivity.
    - destruct (field e s); discriminate. }
  repeat split.
  - intros e. unfold getter. destruct (H e) as [H1 _].
    destruct (tstate e s); try discriminate.
    destruct (field e s); [discriminate|]. exfalso. apply H1; reflexivity.
  - exact G.
  - intros o. unfold run_operation. specialize (G (op_endpoint o)).
    destruct (op_url (op_endpoint o) s); try discriminate; try congruence.
    destruct o; try discriminate.
    destruct (bytes_eqb _ _); discriminate.
  - intros st. unfold run_authorize. specialize (G EAuth).
    destruct (op_url EAuth s); try discriminate; congruence.
Qed.

(* each operation uses the URL stored for ITS endpoint and the client's current credentials *)
Lemma operation_endpoint s o r :
  run_operation s o = GValue (Some r) ->
  exists u, field (op_endpoint o) s = Some u /\
            rq_target r = strip_fragment (ep_text (uv_ep u)) /\
            request_of (creds_of s) (uv_ep u) (op_kind s o) [] = Some r.
Proof.
  unfold run_operation, op_url.
  destruct (tstate (op_endpoint o) s); try discriminate;
    destruct (field (op_endpoint o) s) as [u|] eqn:Ef; try discriminate;
    (destruct o; cbn [op_endpoint] in *;
     try (destruct (bytes_eqb (ep_scheme (uv_ep u)) (s2b "https")); try discriminate);
     intros H; injection H as H; exists u; repeat split; try exact H;
     destruct (envelope _ _ _ _ _ H) as (_ & Ht & _); exact Ht).
Qed.

Lemma authorize_endpoint s st u q :
  run_authorize s st = GValue (u, q) ->
  exists v, field EAuth s = Some v /\ u_prefix u = u_prefix (uv_abs v) /\
            u_fragment u = u_fragment (uv_abs v) /\ q = st.
Proof.
  unfold run_authorize, op_url.
  destruct (tstate EAuth s); try discriminate;
    destruct (field EAuth s) as [v|]; try discriminate;
    intros H; injection H as <- <-; exists v; repeat split; reflexivity.
Qed.

(* conditionally-set endpoints *)
Lemma maybe_absent s e :
  tstate e s = MaybeSet -> field e s = None -> op_url e s = GMissing (ep_label e).
Proof. intros Ht Hf. unfold op_url. rewrite Ht, Hf. reflexivity. Qed.

Lemma maybe_present_as_set s s' e :
  tstate e s = MaybeSet -> tstate e s' = IsSet -> field e s = field e s' -> field e s <> None ->
  op_url e s = op_url e s'.
Proof.
  intros Ht Ht' Hf Hn. unfold op_url. rewrite Ht, Ht', <- Hf.
  destruct (field e s); [reflexivity|contradiction].
Qed.

Lemma not_set_absent s e :
  tstate e s = NotSet ->
  getter e s = GAbsent /\ op_url e s = GAbsent /\
  (forall o, op_endpoint o = e -> run_operation s o = GAbsent) /\
  (e = EAuth -> forall st, run_authorize s st = GAbsent).
Proof.
  intros Ht. unfold getter, op_url, run_operation, run_authorize. rewrite Ht. repeat split.
  - intros o <-. unfold op_url. rewrite Ht. reflexivity.
  - intros -> st. unfold op_url. rewrite Ht. reflexivity.
Qed.

Lemma labels :
  map ep_label [EAuth; EToken; EDevAuth; EIntrospect; ERevoke] =
  map s2b ["authorization"; "token"; "device authorization"; "introspection"; "revocation"]%string.
Proof. reflexivity. Qed.

(* revocation gate *)
Lemma revoke_gate s t h :
  match run_operation s (OpRevoke t h) with
  | GValue _ => exists u, field ERevoke s = Some u /\ ep_scheme (uv_ep u) = s2b "https"
  | GInsecure n => n = s2b "revocation" /\
                   exists u, field ERevoke s = Some u /\ ep_scheme (uv_ep u) <> s2b "https"
  | GMissing n => n = s2b "revocation" /\ field ERevoke s = None /\ tstate ERevoke s = MaybeSet
  | GAbsent => tstate ERevoke s = NotSet
  | GPanic => tstate ERevoke s = IsSet /\ field ERevoke s = None
  end.
Proof.
  unfold run_operation, op_url. cbn [op_endpoint].
  destruct (tstate ERevoke s) eqn:Et; try reflexivity;
    destruct (field ERevoke s) as [u|] eqn:Ef; try (repeat split; reflexivity);
    destruct (bytes_eqb (ep_scheme (uv_ep u)) (s2b "https")) eqn:Es;
    try (apply bytes_eqb_eq in Es; exists u; split; [reflexivity|exact Es]);
    try (apply bytes_eqb_neq in Es; split; [reflexivity|]; exists u; split; [reflexivity|exact Es]).
Qed.

(* the two public entry points of every flow agree: a client whose endpoint is conditionally set
   AND present builds exactly the request / authorization URL of a client that has the same
   endpoint set unconditionally and is otherwise configured the same (id, secret, auth type,
   redirect): in particular the client's default redirect is carried by both *)
Lemma authorize_maybe_present_as_set s s' st :
  tstate EAuth s = MaybeSet -> tstate EAuth s' = IsSet -> field EAuth s = field EAuth s' ->
  field EAuth s <> None -> c_id s = c_id s' -> c_redirect s = c_redirect s' ->
  run_authorize s st = run_authorize s' st.
Proof.
  intros Ht Ht' Hf Hn Hid Hred. unfold run_authorize.
  rewrite (maybe_present_as_set s s' EAuth Ht Ht' Hf Hn), Hid, Hred. reflexivity.
Qed.

Lemma operation_maybe_present_as_set s s' o :
  tstate (op_endpoint o) s = MaybeSet -> tstate (op_endpoint o) s' = IsSet ->
  field (op_endpoint o) s = field (op_endpoint o) s' -> field (op_endpoint o) s <> None ->
  creds_of s = creds_of s' -> op_kind s o = op_kind s' o ->
  run_operation s o = run_operation s' o.
Proof.
  intros Ht Ht' Hf Hn Hc Hk. unfold run_operation.
  rewrite (maybe_present_as_set s s' (op_endpoint o) Ht Ht' Hf Hn), Hc, Hk. reflexivity.
Qed.
