From OA Require Import Bytes DevicePoll.
From Coq Require Import ZArith Lia ZifyBool ZifyN.
Local Open Scope N_scope.

Arguments N.mul : simpl never.
Arguments N.add : simpl never.
Arguments N.leb : simpl never.
Arguments N.eqb : simpl never.
Arguments N.min : simpl never.
Arguments N.max : simpl never.
Arguments Z.gtb : simpl never.
Arguments Z.leb : simpl never.
Arguments Z.add : simpl never.

(* ---------- one step --------------------------------------------------------------------- *)

Lemma doubled_bounds cur : cur <= doubled cur /\ (cur <= DMAX -> doubled cur <= DMAX).
Proof. unfold doubled. destruct (2 * cur <=? DMAX) eqn:E; lia. Qed.

Lemma step_ok ceiling cur r d :
  process_response ceiling cur r = Continue d -> step_okb ceiling cur r d = true.
Proof.
  destruct r as [| | |k]; cbn [process_response step_okb]; intros H; try discriminate;
    injection H as <-.
  - lia.
  - unfold slow. lia.
  - unfold backoff. pose proof (doubled_bounds cur). lia.
Qed.

Lemma step_done ceiling cur r k :
  process_response ceiling cur r = Done k -> r = RDecisive k.
Proof. destruct r; cbn; intros H; try discriminate. injection H as ->. reflexivity. Qed.

Lemma step_bounded ceiling cur r d :
  cur <= DMAX -> ceiling <= DMAX ->
  process_response ceiling cur r = Continue d -> d <= DMAX.
Proof.
  intros Hc Hm. destruct r as [| | |k]; cbn [process_response]; intros H; try discriminate;
    injection H as <-.
  - exact Hc.
  - unfold slow. lia.
  - unfold backoff. pose proof (doubled_bounds cur). lia.
Qed.

(* ---------- the loop: waits obey the step clauses ------------------------------------------ *)

Lemma loop_sleeps_ok req_ok ceiling dl clock :
  forall interval script,
    sleeps_okb ceiling interval script
      (sleeps (fst (poll_loop req_ok ceiling dl interval clock script))) = true.
Proof.
  induction clock as [|now clock IH]; intros interval script; cbn [poll_loop fst sleeps sleeps_okb];
    [reflexivity|].
  destruct (now >? dl)%Z; [reflexivity|].
  destruct (negb req_ok); [reflexivity|].
  destruct script as [|r script]; [reflexivity|].
  destruct (process_response ceiling interval r) as [i'|k] eqn:E; [|reflexivity].
  specialize (IH i' script).
  destruct (poll_loop req_ok ceiling dl i' clock script) as [tr o].
  cbn [fst sleeps sleeps_okb] in *.
  rewrite (step_ok _ _ _ _ E), IH. reflexivity.
Qed.

(* any sequence of waits obeying the step clauses stays above the RFC 8628 floor *)
Lemma sleeps_ok_floor ceiling :
  forall ds cur base script,
    base <= cur ->
    sleeps_okb ceiling cur script ds = true ->
    all_geb ds (floors base script) = true.
Proof.
  induction ds as [|d ds IH]; intros cur base script Hb H; [reflexivity|].
  destruct script as [|r script]; [discriminate H|].
  cbn [sleeps_okb floors all_geb] in *.
  apply andb_true_iff in H. destruct H as [Hs Hr].
  apply andb_true_iff. split.
  - destruct r; cbn [step_okb] in Hs; try discriminate; lia.
  - apply (IH d); [|exact Hr].
    destruct r; cbn [step_okb] in Hs; try discriminate; lia.
Qed.

Lemma loop_floor req_ok ceiling dl clock interval script :
  all_geb (sleeps (fst (poll_loop req_ok ceiling dl interval clock script)))
          (floors interval script) = true.
Proof.
  apply (sleeps_ok_floor ceiling _ interval); [lia|]. apply loop_sleeps_ok.
Qed.

Lemma loop_bounded req_ok ceiling dl clock :
  forall interval script,
    interval <= DMAX -> ceiling <= DMAX ->
    Forall (fun d => d <= DMAX)
      (sleeps (fst (poll_loop req_ok ceiling dl interval clock script))).
Proof.
  induction clock as [|now clock IH]; intros interval script Hi Hc; cbn [poll_loop];
    [constructor|].
  destruct (now >? dl)%Z; [constructor|].
  destruct (negb req_ok); [constructor|].
  destruct script as [|r script]; [constructor|].
  destruct (process_response ceiling interval r) as [i'|k] eqn:E; [|constructor].
  pose proof (step_bounded _ _ _ _ Hi Hc E) as Hb.
  specialize (IH i' script Hb Hc).
  destruct (poll_loop req_ok ceiling dl i' clock script) as [tr o].
  cbn [fst sleeps] in *. constructor; assumption.
Qed.

(* ---------- shape ------------------------------------------------------------------------- *)

Lemma loop_shape req_ok ceiling dl clock :
  forall interval script,
    snd (poll_loop req_ok ceiling dl interval clock script) <> OStuck ->
    shape_okb (fst (poll_loop req_ok ceiling dl interval clock script)) = true.
Proof.
  induction clock as [|now clock IH]; intros interval script; cbn [poll_loop].
  - cbn. congruence.
  - destruct (now >? dl)%Z; [reflexivity|].
    destruct (negb req_ok); [reflexivity|].
    destruct script as [|r script]; [cbn; congruence|].
    destruct (process_response ceiling interval r) as [i'|k] eqn:E; [|reflexivity].
    specialize (IH i' script).
    destruct (poll_loop req_ok ceiling dl i' clock script) as [tr o].
    cbn [fst snd shape_okb] in *. exact IH.
Qed.

(* ---------- C08: first decisive reply, deadline -------------------------------------------- *)

Definition non_decisive (r : reply) : Prop :=
  match r with RDecisive _ => False | _ => True end.

Fixpoint last_event (tr : list event) : option event :=
  match tr with
  | [] => None
  | [e] => Some e
  | _ :: tr' => last_event tr'
  end.

Lemma last_event_cons3 a b c tr :
  last_event (a :: b :: c :: tr) = last_event (c :: tr).
Proof. reflexivity. Qed.

Lemma loop_finished req_ok ceiling dl clock :
  forall interval script tr k,
    poll_loop req_ok ceiling dl interval clock script = (tr, OFinished k) ->
    exists pre rest,
      script = pre ++ RDecisive k :: rest /\ Forall non_decisive pre /\
      polls tr = S (length pre) /\ length (sleeps tr) = length pre /\
      last_event tr = Some EPoll.
Proof.
  induction clock as [|now clock IH]; intros interval script tr k; cbn [poll_loop].
  - intros H; discriminate H.
  - destruct (now >? dl)%Z; [intros H; discriminate H|].
    destruct (negb req_ok); [intros H; discriminate H|].
    destruct script as [|r script]; [intros H; discriminate H|].
    destruct (process_response ceiling interval r) as [i'|k'] eqn:E.
    + destruct (poll_loop req_ok ceiling dl i' clock script) as [tr' o'] eqn:EL.
      intros H. injection H as <- ->.
      destruct (IH _ _ _ _ EL) as (pre & rest & -> & Hpre & Hp & Hs & Hl).
      exists (r :: pre), rest. repeat split.
      * constructor; [|exact Hpre]. destruct r; cbn; auto. discriminate E.
      * cbn [polls length]. rewrite Hp. reflexivity.
      * cbn [sleeps length]. rewrite Hs. reflexivity.
      * rewrite last_event_cons3. destruct tr' as [|e tr']; [discriminate Hl|].
        cbn [last_event] in *. exact Hl.
    + intros H. injection H as <- <-.
      apply step_done in E. subst r.
      exists [], script. repeat split. constructor.
Qed.

(* the instants at which a poll was sent: every [ENow t] directly followed by [EPoll] *)
Fixpoint poll_times (tr : list event) : list Z :=
  match tr with
  | ENow t :: ((EPoll :: _) as tr') => t :: poll_times tr'
  | _ :: tr' => poll_times tr'
  | [] => []
  end.

Lemma loop_deadline req_ok ceiling dl clock :
  forall interval script,
    Forall (fun t => (t <= dl)%Z)
      (poll_times (fst (poll_loop req_ok ceiling dl interval clock script))).
Proof.
  induction clock as [|now clock IH]; intros interval script; cbn [poll_loop];
    [constructor|].
  destruct (now >? dl)%Z eqn:Eg; [cbn; constructor|].
  destruct (negb req_ok); [cbn; constructor|].
  destruct script as [|r script]; [cbn; constructor|].
  destruct (process_response ceiling interval r) as [i'|k] eqn:E.
  - specialize (IH i' script).
    destruct (poll_loop req_ok ceiling dl i' clock script) as [tr o].
    cbn [fst poll_times] in *. constructor; [lia|].
    destruct tr as [|[t| |d] tr]; cbn [poll_times] in *; exact IH.
  - cbn. constructor; [lia|constructor].
Qed.

Lemma loop_expired req_ok ceiling dl clock :
  forall interval script tr,
    poll_loop req_ok ceiling dl interval clock script = (tr, OExpired) ->
    exists pre t post,
      clock = pre ++ t :: post /\ Forall (fun x => (x <= dl)%Z) pre /\ (t > dl)%Z /\
      last_event tr = Some (ENow t) /\ polls tr = length pre /\
      length (sleeps tr) = length pre /\
      Forall non_decisive (firstn (length pre) script) /\ (length pre <= length script)%nat.
Proof.
  induction clock as [|now clock IH]; intros interval script tr; cbn [poll_loop].
  - intros H; discriminate H.
  - destruct (now >? dl)%Z eqn:Eg.
    + intros H. injection H as <-.
      exists [], now, clock. repeat split; try constructor; cbn; try lia.
    + destruct (negb req_ok); [intros H; discriminate H|].
      destruct script as [|r script]; [intros H; discriminate H|].
      destruct (process_response ceiling interval r) as [i'|k'] eqn:E;
        [|intros H; discriminate H].
      destruct (poll_loop req_ok ceiling dl i' clock script) as [tr' o'] eqn:EL.
      intros H. injection H as <- ->.
      destruct (IH _ _ _ EL) as (pre & t & post & -> & Hpre & Ht & Hl & Hp & Hs & Hnd & Hlen).
      exists (now :: pre), t, post. repeat split.
      * constructor; [lia|exact Hpre].
      * exact Ht.
      * rewrite last_event_cons3. destruct tr' as [|e tr']; [discriminate Hl|].
        cbn [last_event] in *. exact Hl.
      * cbn [polls length]. rewrite Hp. reflexivity.
      * cbn [sleeps length]. rewrite Hs. reflexivity.
      * cbn [length firstn]. constructor; [|exact Hnd].
        destruct r; cbn; auto. discriminate E.
      * cbn [length]. lia.
Qed.

(* an expired outcome needs a reading past the deadline: the loop never gives up early *)
Lemma loop_not_early req_ok ceiling dl clock interval script :
  Forall (fun x => (x <= dl)%Z) clock ->
  snd (poll_loop req_ok ceiling dl interval clock script) <> OExpired.
Proof.
  intros Hall Hs.
  destruct (poll_loop req_ok ceiling dl interval clock script) as [tr o] eqn:E.
  cbn in Hs. subst o.
  destruct (loop_expired _ _ _ _ _ _ _ E) as (pre & t & post & -> & _ & Ht & _).
  apply Forall_app in Hall. destruct Hall as [_ Hall].
  inversion Hall as [|? ? Hle _]; subst. lia.
Qed.

(* ---------- whole run --------------------------------------------------------------------- *)

Lemma compute_timeout_spec t0 tmo :
  (compute_timeout t0 tmo = None <-> (tmo > MAXDELTA \/ (t0 + Z.of_N tmo > DTMAX)%Z)) /\
  (forall dl, compute_timeout t0 tmo = Some dl -> dl = (t0 + Z.of_N tmo)%Z).
Proof.
  unfold compute_timeout.
  destruct (tmo <=? MAXDELTA) eqn:E1.
  - destruct (t0 + Z.of_N tmo <=? DTMAX)%Z eqn:E2; split.
    + split; [discriminate|]. intros [H|H]; lia.
    + intros dl H. injection H as <-. reflexivity.
    + split; [intros _; right; lia|reflexivity].
    + intros dl H; discriminate H.
  - split.
    + split; [intros _; left; lia|reflexivity].
    + intros dl H; discriminate H.
Qed.

Lemma compute_timeout_le t0 tmo dl : compute_timeout t0 tmo = Some dl -> tmo <=? MAXDELTA = true.
Proof. unfold compute_timeout. destruct (tmo <=? MAXDELTA); [reflexivity|discriminate]. Qed.

(* the three ways a run can start *)
Lemma run_cases c clock script :
  (timeout_of c <=? MAXDELTA = false /\ poll_run c clock script = ([], OOther)) \/
  (clock = [] /\ poll_run c clock script = ([], OStuck)) \/
  (exists t0 clock', clock = t0 :: clock' /\ timeout_of c <=? MAXDELTA = true /\
     compute_timeout t0 (timeout_of c) = None /\ poll_run c clock script = ([ENow t0], OOther)) \/
  (exists t0 clock' dl, clock = t0 :: clock' /\ compute_timeout t0 (timeout_of c) = Some dl /\
     poll_run c clock script =
     (ENow t0 :: fst (poll_loop (pc_req_ok c) (ceiling_of c) dl (pc_interval_s c * NS) clock' script),
      snd (poll_loop (pc_req_ok c) (ceiling_of c) dl (pc_interval_s c * NS) clock' script))).
Proof.
  unfold poll_run. destruct (timeout_of c <=? MAXDELTA) eqn:E; cbn [negb].
  - destruct clock as [|t0 clock']; [right; left; auto|].
    destruct (compute_timeout t0 (timeout_of c)) as [dl|] eqn:E2.
    + right; right; right. exists t0, clock', dl.
      split; [reflexivity|]. split; [exact E2|].
      destruct (poll_loop (pc_req_ok c) (ceiling_of c) dl (pc_interval_s c * NS) clock' script) as [tr o].
      reflexivity.
    + right; right; left. exists t0, clock'. auto.
  - left. auto.
Qed.

Lemma run_unrepresentable c clock script :
  (timeout_of c > MAXDELTA ->
     poll_run c clock script = ([], OOther)) /\
  (forall t0 clock', clock = t0 :: clock' -> timeout_of c <= MAXDELTA ->
     (t0 + Z.of_N (timeout_of c) > DTMAX)%Z ->
     poll_run c clock script = ([ENow t0], OOther)).
Proof.
  split.
  - intros H. unfold poll_run. destruct (timeout_of c <=? MAXDELTA) eqn:E; [lia|reflexivity].
  - intros t0 clock' -> H1 H2. unfold poll_run.
    destruct (timeout_of c <=? MAXDELTA) eqn:E; [|lia]. cbn [negb].
    replace (compute_timeout t0 (timeout_of c)) with (@None Z); [reflexivity|].
    symmetry. apply (compute_timeout_spec t0 (timeout_of c)). right. exact H2.
Qed.

Lemma run_some c t0 clock script dl :
  compute_timeout t0 (timeout_of c) = Some dl ->
  poll_run c (t0 :: clock) script =
  (ENow t0 :: fst (poll_loop (pc_req_ok c) (ceiling_of c) dl (pc_interval_s c * NS) clock script),
   snd (poll_loop (pc_req_ok c) (ceiling_of c) dl (pc_interval_s c * NS) clock script)).
Proof.
  intros H. unfold poll_run. rewrite (compute_timeout_le _ _ _ H). cbn [negb]. rewrite H.
  destruct (poll_loop (pc_req_ok c) (ceiling_of c) dl (pc_interval_s c * NS) clock script) as [tr o]. reflexivity.
Qed.

Lemma timeout_choice c :
  (forall t, pc_timeout c = Some t -> timeout_of c = t) /\
  (pc_timeout c = None -> timeout_of c = pc_expires_s c * NS).
Proof. unfold timeout_of. split; [intros t ->|intros ->]; reflexivity. Qed.

Lemma sleeps_cons_now t tr : sleeps (ENow t :: tr) = sleeps tr.
Proof. reflexivity. Qed.

Lemma run_floor c clock script :
  all_geb (sleeps (fst (poll_run c clock script))) (floors (pc_interval_s c * NS) script) = true.
Proof.
  destruct (run_cases c clock script) as [[_ ->]|[[_ ->]|[(t0 & cl & _ & _ & _ & ->)|(t0 & cl & dl & _ & _ & ->)]]];
    try reflexivity.
  cbn [fst]. rewrite sleeps_cons_now. apply loop_floor.
Qed.

Lemma run_sleeps_ok c clock script :
  sleeps_okb (ceiling_of c) (pc_interval_s c * NS) script
             (sleeps (fst (poll_run c clock script))) = true.
Proof.
  destruct (run_cases c clock script) as [[_ ->]|[[_ ->]|[(t0 & cl & _ & _ & _ & ->)|(t0 & cl & dl & _ & _ & ->)]]];
    try reflexivity.
  cbn [fst]. rewrite sleeps_cons_now. apply loop_sleeps_ok.
Qed.

Lemma run_bounded c clock script :
  pc_interval_s c <= U64MAX -> ceiling_of c <= DMAX ->
  Forall (fun d => d <= DMAX) (sleeps (fst (poll_run c clock script))).
Proof.
  intros Hi Hc.
  destruct (run_cases c clock script) as [[_ ->]|[[_ ->]|[(t0 & cl & _ & _ & _ & ->)|(t0 & cl & dl & _ & _ & ->)]]];
    try (cbn; constructor).
  cbn [fst]. rewrite sleeps_cons_now.
  apply loop_bounded; [|exact Hc]. unfold DMAX, NS, U64MAX in *. lia.
Qed.

Lemma run_shape c clock script :
  snd (poll_run c clock script) <> OStuck ->
  match fst (poll_run c clock script) with
  | [] => snd (poll_run c clock script) = OOther
  | ENow _ :: tr => tr = [] \/ shape_okb tr = true
  | _ => False
  end.
Proof.
  destruct (run_cases c clock script) as [[_ ->]|[[_ ->]|[(t0 & cl & _ & _ & _ & ->)|(t0 & cl & dl & _ & _ & ->)]]];
    cbn [fst snd]; try congruence.
  - intros _. left. reflexivity.
  - intros H. right. apply loop_shape. exact H.
Qed.

(* completeness of the loop: a decisive reply to a poll that was SENT in time is the outcome,
   whatever the clock reads afterwards (no reading follows it) and whatever the script holds
   after it; [cl1] are the readings before each of the polls up to and including the decisive one *)
Lemma loop_decisive_in_time ceiling dl :
  forall pre cl1 interval cl2 k rest,
    Forall non_decisive pre -> length cl1 = S (length pre) -> Forall (fun t => (t <= dl)%Z) cl1 ->
    snd (poll_loop true ceiling dl interval (cl1 ++ cl2) (pre ++ RDecisive k :: rest)) = OFinished k /\
    polls (fst (poll_loop true ceiling dl interval (cl1 ++ cl2) (pre ++ RDecisive k :: rest))) = S (length pre) /\
    last_event (fst (poll_loop true ceiling dl interval (cl1 ++ cl2) (pre ++ RDecisive k :: rest))) = Some EPoll.
Proof.
  induction pre as [|r pre IH]; intros cl1 interval cl2 k rest Hnd Hlen Hle.
  - destruct cl1 as [|t [|t' cl1']]; try discriminate Hlen.
    inversion Hle as [|? ? Ht _]; subst.
    cbn [app poll_loop]. destruct (Z.gtb_spec t dl) as [Hgt|_]; [lia|].
    cbn [negb process_response]. cbn. repeat split.
  - destruct cl1 as [|t cl1']; [discriminate Hlen|].
    inversion Hle as [|? ? Ht Hle']; subst. inversion Hnd as [|? ? Hr Hnd']; subst.
    cbn [length] in Hlen. injection Hlen as Hlen.
    change ((t :: cl1') ++ cl2) with (t :: (cl1' ++ cl2)).
    change ((r :: pre) ++ RDecisive k :: rest) with (r :: (pre ++ RDecisive k :: rest)).
    cbn [poll_loop]. destruct (Z.gtb_spec t dl) as [Hgt|_]; [lia|]. cbn [negb].
    destruct r as [| | |k0]; try (exfalso; exact Hr); cbn [process_response];
      match goal with |- context [poll_loop true ceiling dl ?i (cl1' ++ cl2) _] =>
        specialize (IH cl1' i cl2 k rest Hnd' Hlen Hle');
        destruct (poll_loop true ceiling dl i (cl1' ++ cl2) (pre ++ RDecisive k :: rest)) as [tr o] eqn:E
      end; cbn [fst snd] in *; destruct IH as (Ho & Hp & Hl); repeat split;
      try exact Ho; try (cbn [polls]; rewrite Hp; reflexivity);
      try (destruct tr as [|e tr']; [discriminate Hl|]; rewrite last_event_cons3; exact Hl).
Qed.
