From OA Require Import Bytes ErrorCodes.

Ltac case_eqb :=
  repeat match goal with
  | |- context [bytes_eqb ?a ?b] =>
      let E := fresh "E" in
      destruct (bytes_eqb a b) eqn:E;
      [apply bytes_eqb_eq in E; try subst; try reflexivity | ]
  end.

Lemma basic_as_ref_from_str s : basic_as_ref (basic_from_str s) = s.
Proof. unfold basic_from_str. case_eqb. reflexivity. Qed.

Lemma basic_from_str_ext s :
  mem_bytes s basic_codes = false -> basic_from_str s = BExtension s.
Proof.
  unfold basic_codes, mem_bytes, basic_from_str. intros H.
  repeat (apply orb_false_iff in H; destruct H as [?E H]).
  repeat match goal with E : bytes_eqb _ _ = false |- _ => rewrite E; clear E end.
  reflexivity.
Qed.

Lemma basic_from_str_ext_inv s x :
  basic_from_str s = BExtension x -> x = s /\ mem_bytes s basic_codes = false.
Proof.
  unfold basic_from_str, basic_codes, mem_bytes.
  destruct (bytes_eqb s c_invalid_client); [discriminate|].
  destruct (bytes_eqb s c_invalid_grant); [discriminate|].
  destruct (bytes_eqb s c_invalid_request); [discriminate|].
  destruct (bytes_eqb s c_invalid_scope); [discriminate|].
  destruct (bytes_eqb s c_unauthorized_client); [discriminate|].
  destruct (bytes_eqb s c_unsupported_grant_type); [discriminate|].
  intros H; injection H as <-. split; reflexivity.
Qed.

Definition basic_canon (v : basic_err) : Prop :=
  match v with BExtension x => mem_bytes x basic_codes = false | _ => True end.
Definition device_canon (v : device_err) : Prop :=
  match v with DBasic (BExtension x) => mem_bytes x device_codes = false | _ => True end.
Definition revocation_canon (v : revocation_err) : Prop :=
  match v with RBasic (BExtension x) => mem_bytes x revocation_codes = false | _ => True end.

Lemma basic_from_str_as_ref v : basic_canon v -> basic_from_str (basic_as_ref v) = v.
Proof.
  destruct v; cbn [basic_canon basic_as_ref]; intros H; try (vm_compute; reflexivity).
  apply basic_from_str_ext; exact H.
Qed.

Lemma basic_image s : basic_canon (basic_from_str s).
Proof.
  destruct (basic_from_str s) eqn:E; cbn; try exact I.
  apply basic_from_str_ext_inv in E. destruct E as [-> E]. exact E.
Qed.

Lemma mem_app_false x l1 l2 :
  mem_bytes x (l1 ++ l2) = false <-> mem_bytes x l1 = false /\ mem_bytes x l2 = false.
Proof.
  induction l1 as [|y l1 IH]; cbn; [tauto|].
  rewrite !orb_false_iff, IH. tauto.
Qed.

Lemma device_as_ref_from_str s : device_as_ref (device_from_str s) = s.
Proof.
  unfold device_from_str. destruct (basic_from_str s) eqn:E;
    try (rewrite <- (basic_as_ref_from_str s), E; reflexivity).
  apply basic_from_str_ext_inv in E. destruct E as [-> _].
  case_eqb. reflexivity.
Qed.

Lemma device_from_str_ext s :
  mem_bytes s device_codes = false -> device_from_str s = DBasic (BExtension s).
Proof.
  unfold device_codes. rewrite mem_app_false. intros [H1 H2].
  unfold device_from_str. rewrite (basic_from_str_ext _ H1).
  unfold mem_bytes in H2.
  repeat (apply orb_false_iff in H2; destruct H2 as [?E H2]).
  repeat match goal with E : bytes_eqb _ _ = false |- _ => rewrite E; clear E end.
  reflexivity.
Qed.

Lemma device_from_str_as_ref v : device_canon v -> device_from_str (device_as_ref v) = v.
Proof.
  destruct v as [| | | |b]; try (intros _; vm_compute; reflexivity).
  destruct b; try (intros _; vm_compute; reflexivity).
  cbn [device_canon device_as_ref basic_as_ref]. apply device_from_str_ext.
Qed.

Lemma device_image s : device_canon (device_from_str s).
Proof.
  unfold device_from_str. destruct (basic_from_str s) eqn:E; try exact I.
  apply basic_from_str_ext_inv in E. destruct E as [-> E].
  destruct (bytes_eqb s c_authorization_pending) eqn:E1; [exact I|].
  destruct (bytes_eqb s c_slow_down) eqn:E2; [exact I|].
  destruct (bytes_eqb s c_access_denied) eqn:E3; [exact I|].
  destruct (bytes_eqb s c_expired_token) eqn:E4; [exact I|].
  unfold device_canon, device_codes. apply mem_app_false. split; [exact E|].
  unfold mem_bytes. rewrite E1, E2, E3, E4. reflexivity.
Qed.

Lemma revocation_as_ref_from_str s : revocation_as_ref (revocation_from_str s) = s.
Proof.
  unfold revocation_from_str. destruct (basic_from_str s) eqn:E;
    try (rewrite <- (basic_as_ref_from_str s), E; reflexivity).
  apply basic_from_str_ext_inv in E. destruct E as [-> _].
  case_eqb. reflexivity.
Qed.

Lemma revocation_from_str_ext s :
  mem_bytes s revocation_codes = false -> revocation_from_str s = RBasic (BExtension s).
Proof.
  unfold revocation_codes. rewrite mem_app_false. intros [H1 H2].
  unfold revocation_from_str. rewrite (basic_from_str_ext _ H1).
  unfold mem_bytes in H2.
  repeat (apply orb_false_iff in H2; destruct H2 as [?E H2]).
  repeat match goal with E : bytes_eqb _ _ = false |- _ => rewrite E; clear E end.
  reflexivity.
Qed.

Lemma revocation_from_str_as_ref v :
  revocation_canon v -> revocation_from_str (revocation_as_ref v) = v.
Proof.
  destruct v as [|b]; try (intros _; vm_compute; reflexivity).
  destruct b; try (intros _; vm_compute; reflexivity).
  cbn [revocation_canon revocation_as_ref basic_as_ref]. apply revocation_from_str_ext.
Qed.

Lemma revocation_image s : revocation_canon (revocation_from_str s).
Proof.
  unfold revocation_from_str. destruct (basic_from_str s) eqn:E; try exact I.
  apply basic_from_str_ext_inv in E. destruct E as [-> E].
  destruct (bytes_eqb s c_unsupported_token_type) eqn:E1; [exact I|].
  unfold revocation_canon, revocation_codes. apply mem_app_false. split; [exact E|].
  unfold mem_bytes. rewrite E1. reflexivity.
Qed.

(* The dedicated tables, as closed computations. *)
Definition basic_table : list (bytes * basic_err) :=
  [(c_invalid_client, InvalidClient); (c_invalid_grant, InvalidGrant);
   (c_invalid_request, InvalidRequest); (c_invalid_scope, InvalidScope);
   (c_unauthorized_client, UnauthorizedClient);
   (c_unsupported_grant_type, UnsupportedGrantType)].
Definition device_table : list (bytes * device_err) :=
  map (fun p => (fst p, DBasic (snd p))) basic_table ++
  [(c_authorization_pending, AuthorizationPending); (c_slow_down, SlowDown);
   (c_access_denied, AccessDenied); (c_expired_token, ExpiredToken)].
Definition revocation_table : list (bytes * revocation_err) :=
  map (fun p => (fst p, RBasic (snd p))) basic_table ++
  [(c_unsupported_token_type, UnsupportedTokenType)].

Lemma basic_dedicated : Forall (fun p => basic_from_str (fst p) = snd p) basic_table.
Proof. repeat constructor. Qed.
Lemma device_dedicated : Forall (fun p => device_from_str (fst p) = snd p) device_table.
Proof. repeat constructor. Qed.
Lemma revocation_dedicated :
  Forall (fun p => revocation_from_str (fst p) = snd p) revocation_table.
Proof. repeat constructor. Qed.

Lemma basic_table_codes : map fst basic_table = basic_codes. Proof. reflexivity. Qed.
Lemma device_table_codes : map fst device_table = device_codes. Proof. reflexivity. Qed.
Lemma revocation_table_codes : map fst revocation_table = revocation_codes.
Proof. reflexivity. Qed.

(* the dedicated variants are pairwise distinct and none is an Extension *)
Lemma device_table_nodup : NoDup (map snd device_table).
Proof.
  repeat (constructor; [cbn; intuition discriminate|]). constructor.
Qed.
Lemma revocation_table_nodup : NoDup (map snd revocation_table).
Proof.
  repeat (constructor; [cbn; intuition discriminate|]). constructor.
Qed.
Lemma basic_table_nodup : NoDup (map snd basic_table).
Proof.
  repeat (constructor; [cbn; intuition discriminate|]). constructor.
Qed.

Lemma display_error_spec {T} (as_ref : T -> bytes) c d u :
  display_error as_ref (mkErr c d u) =
  as_ref c ++ match d with Some d => s2b ": " ++ d | None => [] end
          ++ match u with Some u => s2b " (see " ++ u ++ s2b ")" | None => [] end.
Proof. reflexivity. Qed.
