(* C01 — endpoint requests carry exactly the intended, losslessly encoded parameters.
   Statements only; proofs in proofs/{FormUrlencoded,Requests,ReqSpec}_proofs.v.
   [request_of c ep k extra] is the model of the eight prepare_request functions through
   endpoint_request, for arbitrary credentials c, endpoint oracle ep, request kind k with
   arbitrary byte strings as arguments, and arbitrary extra parameters. *)
From OA Require Import Bytes FormUrlencoded FormUrlencoded_proofs Requests Requests_proofs
     ReqSpec ReqSpec_proofs.

(* the codec law everything rests on: any list of pairs of ANY byte strings is read back
   exactly by a conforming form decoder *)
Theorem C01_form_roundtrip : forall ps, form_parse (form_serialize ps) = ps.
Proof. exact form_roundtrip. Qed.

(* the body decodes to exactly: what the grant requires (RFC lists), the optional parameters
   exactly when supplied, scope, body credentials, redirect, then the caller's extras *)
Theorem C01_body_exact :
  forall c ep k extra r,
    request_of c ep k extra = Some r ->
    form_parse (rq_body r) =
    rfc_required k ++ rfc_optional k ++ scope_pairs (kind_scopes k) ++ cred_pairs c
    ++ redirect_pairs (kind_redirect k) ++ extra.
Proof.
  intros c ep k extra r H. rewrite (request_body_exact _ _ _ _ _ H).
  unfold all_pairs. rewrite lib_pairs_intended, <- !app_assoc. reflexivity.
Qed.

(* no value can introduce, hide, truncate or alter another parameter: whatever bytes v is,
   the decoded list is the intended list with v at its own position *)
Theorem C01_no_injection :
  forall (ps1 ps2 : list pair) n v,
    form_parse (form_serialize (ps1 ++ (n, v) :: ps2)) = ps1 ++ (n, v) :: ps2.
Proof. exact no_injection. Qed.

(* each protocol parameter the library generates occurs exactly once *)
Theorem C01_once :
  forall c k, Forall (fun p => count_name (fst p) (lib_pairs c k) = 1) (lib_pairs c k).
Proof. exact lib_pairs_once. Qed.

(* the optional ones occur exactly when supplied; scopes space-joined in insertion order *)
Theorem C01_optional :
  forall c k,
    lookup (s2b "scope") (lib_pairs c k) =
      match kind_scopes k with Some (s :: l) => Some (join [space] (s :: l)) | _ => None end /\
    lookup (s2b "redirect_uri") (lib_pairs c k) = kind_redirect k /\
    lookup (s2b "code_verifier") (lib_pairs c k) = kind_verifier k /\
    lookup (s2b "token_type_hint") (lib_pairs c k) = kind_hint k.
Proof.
  intros c k. exact (conj (lookup_scope c k) (conj (lookup_redirect c k)
                    (conj (lookup_verifier c k) (lookup_hint c k)))).
Qed.

(* POST, Accept, Content-Type (each exactly once), target = endpoint text minus fragment *)
Theorem C01_envelope :
  forall c ep k extra r,
    request_of c ep k extra = Some r ->
    rq_method r = s2b "POST" /\ rq_target r = strip_fragment (ep_text ep) /\
    In h_accept (rq_headers r) /\ In h_content_type (rq_headers r) /\
    count_name (s2b "accept") (rq_headers r) = 1 /\
    count_name (s2b "content-type") (rq_headers r) = 1.
Proof. exact envelope. Qed.

Theorem C01_target_has_no_fragment :
  forall s, ~ In "#"%char (strip_fragment s) /\ (exists t, s = strip_fragment s ++ t) /\
            (~ In "#"%char s -> strip_fragment s = s).
Proof.
  intros s. exact (conj (strip_fragment_no_hash s) (conj (strip_fragment_prefix s)
                                                        (strip_fragment_id s))).
Qed.

(* the body uses only [A-Za-z0-9*-._+%&=]: immune to legacy ';' separators *)
Theorem C01_alphabet :
  forall c ep k extra r,
    request_of c ep k extra = Some r -> forallb form_charb (rq_body r) = true.
Proof. exact body_alphabet. Qed.

(* a request is built iff http::Uri accepts the endpoint text; otherwise no HTTP call *)
Theorem C01_unbuildable :
  forall c ep k extra, request_of c ep k extra = None <-> ep_uri_ok ep = false.
Proof. exact request_unbuildable. Qed.

(* the extracted monitor (the executable statement judged on the implementation's observed
   request) accepts the model's request *)
Theorem C01_monitor_accepts_model :
  forall c ep k extra r, request_of c ep k extra = Some r -> c01_okb c ep k extra r = true.
Proof. exact c01_model_ok. Qed.

Example C01_example :
  let c := {| cr_auth := RequestBody; cr_id := s2b "a&b"; cr_secret := Some (s2b "s=1") |} in
  let ep := {| ep_text := s2b "https://e/t?x=1#f"; ep_uri_ok := true; ep_scheme := s2b "https" |} in
  option_map (fun r => (rq_target r, rq_body r))
    (request_of c ep (KRefresh (s2b "r t") [s2b "a"; s2b "b"]) [(s2b "k", s2b "v&scope=evil")]) =
  Some (s2b "https://e/t?x=1",
        s2b "grant_type=refresh_token&refresh_token=r+t&scope=a+b&client_id=a%26b&client_secret=s%3D1&k=v%26scope%3Devil").
Proof. vm_compute. reflexivity. Qed.
