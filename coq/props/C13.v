(* C13 — revocation is HTTPS-only and succeeds exactly on HTTP 200 (RFC 7009).  Statements only. *)
From OA Require Import Bytes Requests Requests_proofs Endpoint Endpoint_proofs ClientCfg
     ClientCfg_proofs.
Local Open Scope N_scope.

(* a revocation request exists only for an https endpoint; any other scheme gives the
   insecure-URL error, an absent conditionally-set endpoint the missing-URL error; in both cases
   no request value exists, hence no network activity *)
Theorem C13_gate :
  forall s t h,
    match run_operation s (OpRevoke t h) with
    | GValue _ => exists u, field ERevoke s = Some u /\ ep_scheme (uv_ep u) = s2b "https"
    | GInsecure n => n = s2b "revocation" /\
                     exists u, field ERevoke s = Some u /\ ep_scheme (uv_ep u) <> s2b "https"
    | GMissing n => n = s2b "revocation" /\ field ERevoke s = None /\ tstate ERevoke s = MaybeSet
    | GAbsent => tstate ERevoke s = NotSet
    | GPanic => tstate ERevoke s = IsSet /\ field ERevoke s = None
    end.
Proof. exact revoke_gate. Qed.

(* the request carries token, and token_type_hint exactly when the token type provides one *)
Theorem C13_hint :
  forall c t h,
    lookup (s2b "token") (lib_pairs c (KRevoke t h)) = Some t /\
    lookup (s2b "token_type_hint") (lib_pairs c (KRevoke t h)) = h /\
    count_name (s2b "token") (lib_pairs c (KRevoke t h)) = 1%nat.
Proof. exact revoke_pairs. Qed.

(* success exactly when the status is 200, whatever body or Content-Type; any other status is an
   error: the typed error document, else a parse error carrying the body, else "empty" *)
Theorem C13_status :
  forall (E RE : Type) (parse_err : bytes -> option E) status body,
    (endpoint_response_status_only unit E RE parse_err status body = None <-> status = 200) /\
    (forall o, endpoint_response_status_only unit E RE parse_err status body = Some o ->
       status <> 200 /\
       match body with
       | [] => o = OOther EmptyErrorBody
       | _ => match parse_err body with Some e => o = OServer e | None => o = OParse body end
       end).
Proof. exact status_only_spec. Qed.

Example C13_example :
  endpoint_response_status_only unit bytes unit (fun b => Some b) 200 (s2b "{""error"":""x""}") = None /\
  endpoint_response_status_only unit bytes unit (fun b => Some b) 204 [] = Some (OOther EmptyErrorBody).
Proof. split; reflexivity. Qed.
