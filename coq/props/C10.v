(* C10 — secrets are never revealed by debug formatting, however deeply nested.
   Statements only; proofs in proofs/DebugFmt_proofs.v.  [render pretty ind d] is the model of
   {:?} / {:#?} on a value tree [d] of arbitrary shape and nesting depth. *)
From OA Require Import Bytes DebugFmt DebugFmt_proofs Secrets.

(* non-interference: two values that differ only in the contents of their secrets are formatted
   identically, in both modes, at every indentation — the output carries no information about any
   secret, which is the strongest form of "no recognisable part of it" *)
Theorem C10_noninterference :
  forall d1 d2 pretty ind, erase d1 = erase d2 -> render pretty ind d1 = render pretty ind d2.
Proof. exact noninterference. Qed.

Theorem C10_independent_of_payloads :
  forall d pretty ind, render pretty ind (erase d) = render pretty ind d.
Proof. exact render_erase. Qed.

(* every secret type renders as Name([redacted]) *)
Theorem C10_leaf :
  forall n p pretty ind, render pretty ind (DSecret n p) = n ++ s2b "([redacted])".
Proof. exact secret_leaf. Qed.

(* compile-time facts, as a table over the 10 secret types: no Display, no Deref, no conversion
   into String; equality and hashing exactly under the timing-resistant feature; the PKCE verifier
   cannot be duplicated (entries validated by rustc probes) *)
Theorem C10_table :
  forall timing,
    Forall (fun t => impls t TrDisplay timing = false /\ impls t TrDeref timing = false /\
                     impls t TrIntoString timing = false /\
                     impls t TrPartialEq timing = timing /\ impls t TrEq timing = timing /\
                     impls t TrHash timing = timing /\ impls t TrDebug timing = true)
           all_secret_tys /\
    impls TPkceCodeVerifier TrClone timing = false /\
    length all_secret_tys = 10%nat.
Proof. intros []; repeat constructor. Qed.

(* no secret type, with or without the feature, implements any trait through which generic code
   could read, order, copy or conjure its contents (validated by the trait-surface probes) *)
Theorem C10_surface :
  forall timing t tr, In tr revealing_traits -> impls t tr timing = false.
Proof.
  intros timing t tr H. unfold revealing_traits in H. cbn [In] in H.
  repeat (destruct H as [<-|H]; [reflexivity|]). contradiction.
Qed.

Example C10_example :
  render false 0 (DStruct (s2b "R") [(s2b "a", DSecret (s2b "AccessToken") (s2b "hunter2"));
                                     (s2b "b", DTuple (s2b "Some") [DList [DStr (s2b "x")]])])
  = s2b "R { a: AccessToken([redacted]), b: Some([""x""]) }".
Proof. vm_compute. reflexivity. Qed.
