(* C04 — PKCE challenge, verifier and their binding follow RFC 7636.  Statements only. *)
From OA Require Import Bytes FormUrlencoded Base64 Base64_proofs Sha256 Sha256_proofs Requests
     Requests_proofs Pkce Pkce_proofs AuthUrl AuthUrl_proofs.

(* a verifier of illegal length (byte length, as the code measures it) is refused loudly; a legal
   one yields b64url-nopad(SHA-256(verifier)), method S256, always 43 characters *)
Theorem C04_s256 :
  forall v,
    (from_verifier_sha256 v = PPanic <-> ~ (43 <= length v <= 128)%nat) /\
    (forall c, from_verifier_sha256 v = POk c ->
       (43 <= length v <= 128)%nat /\
       ch_value c = b64_url_nopad_encode (sha256 v) /\ ch_method c = s2b "S256" /\
       length (ch_value c) = 43%nat).
Proof. exact from_verifier_sha256_guard. Qed.

Theorem C04_plain :
  forall v,
    (from_verifier_plain v = PPanic <-> ~ (43 <= length v <= 128)%nat) /\
    (forall c, from_verifier_plain v = POk c ->
       (43 <= length v <= 128)%nat /\ ch_value c = v /\ ch_method c = s2b "plain").
Proof. exact from_verifier_plain_guard. Qed.

(* generated verifiers, for every byte count n and every random stream: refused iff n is outside
   32..=96 (u32::MAX included); otherwise unreserved characters only, every random byte
   recoverable, length ceil(4n/3) within 43..=128 *)
Theorem C04_random_shape :
  forall n stream,
    (new_random_verifier n stream = PPanic <-> ~ (32 <= n <= 96)%N) /\
    (forall v, new_random_verifier n stream = POk v ->
       (32 <= n <= 96)%N /\ v = b64_url_nopad_encode (firstn (N.to_nat n) stream) /\
       forallb b64_url_charb v = true /\ forallb unreservedb v = true /\
       b64_url_nopad_decode v = Some (firstn (N.to_nat n) stream) /\
       ((N.to_nat n <= length stream)%nat ->
          N.of_nat (length v) = ((4 * n + 2) / 3)%N /\ (43 <= length v <= 128)%nat)).
Proof. exact new_random_verifier_spec. Qed.

(* ... and the challenge returned with it is the challenge of that verifier *)
Theorem C04_random_matches :
  forall n stream,
    (N.to_nat n <= length stream)%nat ->
    ((32 <= n <= 96)%N ->
       exists c v, new_random_sha256_len n stream = POk (c, v) /\
                   new_random_verifier n stream = POk v /\ from_verifier_sha256 v = POk c) /\
    (~ (32 <= n <= 96)%N -> new_random_sha256_len n stream = PPanic).
Proof. exact new_random_sha256_len_spec. Qed.

(* end to end: the code_challenge placed in the authorization URL and the code_verifier sent with
   the code exchange satisfy the server's check of RFC 7636 section 4.6 *)
Theorem C04_end_to_end :
  forall v c r cr code red,
    (from_verifier_sha256 v = POk c \/ from_verifier_plain v = POk c) ->
    ar_pkce r = Some c ->
    exists ch m ver,
      lookup (s2b "code_challenge") (auth_main_pairs r) = Some ch /\
      lookup (s2b "code_challenge_method") (auth_main_pairs r) = Some m /\
      lookup (s2b "code_verifier") (lib_pairs cr (KCode code (Some v) red)) = Some ver /\
      server_check m ch ver = true.
Proof.
  intros v c r cr code red Hc Hp.
  exists (ch_value c), (ch_method c), v.
  destruct (main_pairs_lookup r) as (_ & _ & H3 & H4 & _).
  rewrite H3, H4, Hp, lookup_verifier. repeat split.
  destruct Hc as [Hc|Hc]; [apply server_check_s256|apply server_check_plain]; exact Hc.
Qed.

(* RFC 7636 appendix B *)
Example C04_rfc_vector :
  from_verifier_sha256 (s2b "dBjftJeZ4CVP-mB92K27uhbUJU1p1r_wW1gFWFOEjXk") =
  POk {| ch_value := s2b "E9Melhoa2OwvFrEMTJguCHaoeK1t8URWbuGJSstw-cM"; ch_method := s2b "S256" |}.
Proof. vm_compute. reflexivity. Qed.
