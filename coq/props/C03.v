(* C03 — authorization URL = endpoint + exactly the intended parameters; state is bound.
   Statements only; proofs in proofs/{AuthUrl,ReqSpec}_proofs.v. *)
From OA Require Import Bytes FormUrlencoded FormUrlencoded_proofs Requests Pkce AuthUrl
     AuthUrl_proofs ReqSpec ReqSpec_proofs.

(* scheme/authority/path (everything before '?') and fragment are untouched *)
Theorem C03_frame :
  forall r, u_prefix (fst (url_of r)) = u_prefix (ar_endpoint r) /\
            u_fragment (fst (url_of r)) = u_fragment (ar_endpoint r).
Proof. exact url_frame. Qed.

(* the new query decodes to: the pre-existing pairs, the library's pairs, the extras; and the
   pre-existing query BYTES are kept as a prefix *)
Theorem C03_query :
  forall r, exists q, u_query (fst (url_of r)) = Some q /\
    form_parse q = form_parse (query0 (ar_endpoint r)) ++ auth_main_pairs r ++ ar_extra r /\
    exists t, q = query0 (ar_endpoint r) ++ t.
Proof. exact url_query. Qed.

(* exactly response_type, client_id, state and — only when supplied — challenge+method,
   redirect_uri, scope; each exactly once; values verbatim *)
Theorem C03_pairs :
  forall r,
    Forall (fun p => count_name (fst p) (auth_main_pairs r) = 1) (auth_main_pairs r) /\
    lookup (s2b "response_type") (auth_main_pairs r) = Some (ar_response_type r) /\
    lookup (s2b "client_id") (auth_main_pairs r) = Some (ar_client_id r) /\
    lookup (s2b "code_challenge") (auth_main_pairs r) = option_map ch_value (ar_pkce r) /\
    lookup (s2b "code_challenge_method") (auth_main_pairs r) = option_map ch_method (ar_pkce r) /\
    lookup (s2b "redirect_uri") (auth_main_pairs r) = ar_redirect r /\
    lookup (s2b "scope") (auth_main_pairs r) =
      match join [space] (ar_scopes r) with [] => None | sc => Some sc end.
Proof. intros r. exact (conj (main_pairs_once r) (main_pairs_lookup r)). Qed.

(* the returned CSRF token is the state embedded in the URL ... *)
Theorem C03_state_bound :
  forall r, snd (url_of r) = ar_state r /\
    lookup (s2b "state") (auth_main_pairs r) = Some (ar_state r) /\
    count_name (s2b "state") (auth_main_pairs r) = 1.
Proof. exact url_state. Qed.

(* ... and is what the generator returned on its single invocation *)
Theorem C03_gen_once :
  forall ep id dr gen calls,
    snd (authorize_url ep id dr gen calls) = S calls /\
    ar_state (fst (authorize_url ep id dr gen calls)) = gen calls.
Proof. exact authorize_url_gen. Qed.

(* any sequence of builder calls: last response type / redirect / challenge wins, scopes and
   extras accumulate in insertion order, endpoint, client id and state never change *)
Theorem C03_builder :
  forall ops r,
    let r' := fold_left apply_auth_op ops r in
    ar_endpoint r' = ar_endpoint r /\ ar_client_id r' = ar_client_id r /\
    ar_state r' = ar_state r /\
    ar_response_type r' = last_response_type ops (ar_response_type r) /\
    ar_redirect r' = last_redirect ops (ar_redirect r) /\
    ar_pkce r' = last_pkce ops (ar_pkce r) /\
    ar_scopes r' = ar_scopes r ++ all_scopes ops /\
    ar_extra r' = ar_extra r ++ all_extras ops.
Proof. exact fold_ops_spec. Qed.

Theorem C03_monitor_accepts_model :
  forall ep id dr gen calls ops,
    let '(r0, calls') := authorize_url ep id dr gen calls in
    let '(u, st) := url_of (fold_left apply_auth_op ops r0) in
    c03_okb ep id (gen calls) dr ops calls u st calls' = true.
Proof. exact c03_model_ok. Qed.

Example C03_example :
  let ep := {| u_prefix := s2b "https://e/auth"; u_query := Some (s2b "a=1");
               u_fragment := Some (s2b "f") |} in
  let (r0, _) := authorize_url ep (s2b "id") None (fun _ => s2b "st&x") 0 in
  url_text (fst (url_of (fold_left apply_auth_op [UseImplicit; AddScope (s2b "r w")] r0))) =
  s2b "https://e/auth?a=1&response_type=token&client_id=id&state=st%26x&scope=r+w#f".
Proof. vm_compute. reflexivity. Qed.
