(* C14 — server error codes map one-to-one onto typed variants and survive unchanged.
   Only statements, each closed by [exact] of a lemma from proofs/. *)
From OA Require Import Bytes Json ErrorCodes ErrorCodes_proofs Serde Serde_proofs Responses_proofs.

(* serialising a parsed code gives back the original string — every byte string, 3 families *)
Theorem C14_as_ref_from_str :
  forall s : bytes,
    basic_as_ref (basic_from_str s) = s /\
    device_as_ref (device_from_str s) = s /\
    revocation_as_ref (revocation_from_str s) = s.
Proof.
  intros s. exact (conj (basic_as_ref_from_str s)
                  (conj (device_as_ref_from_str s) (revocation_as_ref_from_str s))).
Qed.

(* parsing a serialised variant gives back the same variant, for every variant the parser can
   produce (canonical = dedicated variant, or Extension of a string that is not a defined code);
   Extension "<defined code>" can only be built by hand and is outside the image (stated). *)
Theorem C14_from_str_as_ref :
  (forall v, basic_canon v -> basic_from_str (basic_as_ref v) = v) /\
  (forall v, device_canon v -> device_from_str (device_as_ref v) = v) /\
  (forall v, revocation_canon v -> revocation_from_str (revocation_as_ref v) = v) /\
  (forall s, basic_canon (basic_from_str s)) /\
  (forall s, device_canon (device_from_str s)) /\
  (forall s, revocation_canon (revocation_from_str s)).
Proof.
  exact (conj basic_from_str_as_ref (conj device_from_str_as_ref
        (conj revocation_from_str_as_ref (conj basic_image (conj device_image revocation_image))))).
Qed.

(* each RFC-defined code has its dedicated variant, pairwise distinct (6 / 10 / 7 codes) *)
Theorem C14_dedicated :
  Forall (fun p => basic_from_str (fst p) = snd p) basic_table /\
  Forall (fun p => device_from_str (fst p) = snd p) device_table /\
  Forall (fun p => revocation_from_str (fst p) = snd p) revocation_table /\
  map fst basic_table = basic_codes /\ map fst device_table = device_codes /\
  map fst revocation_table = revocation_codes /\
  NoDup (map snd basic_table) /\ NoDup (map snd device_table) /\
  NoDup (map snd revocation_table).
Proof.
  exact (conj basic_dedicated (conj device_dedicated (conj revocation_dedicated
        (conj basic_table_codes (conj device_table_codes (conj revocation_table_codes
        (conj basic_table_nodup (conj device_table_nodup revocation_table_nodup)))))))).
Qed.

(* exact, case-sensitive match: every string that is not byte-for-byte a defined code is
   preserved verbatim as an extension code *)
Theorem C14_case :
  (forall s, mem_bytes s basic_codes = false -> basic_from_str s = BExtension s) /\
  (forall s, mem_bytes s device_codes = false -> device_from_str s = DBasic (BExtension s)) /\
  (forall s, mem_bytes s revocation_codes = false ->
             revocation_from_str s = RBasic (BExtension s)).
Proof.
  exact (conj basic_from_str_ext (conj device_from_str_ext revocation_from_str_ext)).
Qed.

(* human-readable rendering: code, then ": description" and " (see uri)" when present *)
Theorem C14_display :
  forall (T : Type) (as_ref : T -> bytes) c d u,
    display_error as_ref (mkErr c d u) =
    as_ref c ++ match d with Some d => s2b ": " ++ d | None => [] end
            ++ match u with Some u => s2b " (see " ++ u ++ s2b ")" | None => [] end.
Proof. exact (@display_error_spec). Qed.

(* error_description and error_uri are delivered unchanged; absent or null means none; the code
   goes through from_str; unknown members are skipped; a serialised canonical error reads back *)
Theorem C14_fields :
  forall (T : Type) (from_str : bytes -> T) m e,
    decode_error from_str (JObj m) = Some e ->
    (exists c, find_key (s2b "error") m = Some (JStr c true) /\ er_error e = from_str c) /\
    match find_key (s2b "error_description") m with
    | None | Some JNull => er_description e = None
    | Some (JStr s true) => er_description e = Some s
    | Some _ => False end /\
    match find_key (s2b "error_uri") m with
    | None | Some JNull => er_uri e = None
    | Some (JStr s true) => er_uri e = Some s
    | Some _ => False end.
Proof. exact @error_fields. Qed.

Theorem C14_unknown_skipped :
  forall (T : Type) (from_str : bytes -> T) m k v,
    is_known error_names k = false -> utf8_valid k = true ->
    decode_error from_str (JObj ((k, v) :: m)) = decode_error from_str (JObj m).
Proof. exact @error_unknown_skipped. Qed.

Theorem C14_roundtrip :
  (forall e, basic_canon (er_error e) ->
             decode_error basic_from_str (encode_error basic_as_ref e) = Some e) /\
  (forall e, device_canon (er_error e) ->
             decode_error device_from_str (encode_error device_as_ref e) = Some e) /\
  (forall e, revocation_canon (er_error e) ->
             decode_error revocation_from_str (encode_error revocation_as_ref e) = Some e).
Proof.
  exact (conj basic_error_roundtrip (conj device_error_roundtrip revocation_error_roundtrip)).
Qed.

(* non-vacuity: a case variant of a defined code satisfies the hypothesis of C14_case *)
Example C14_case_nonvacuous :
  mem_bytes (s2b "Invalid_Grant") device_codes = false /\
  device_from_str (s2b "Invalid_Grant") = DBasic (BExtension (s2b "Invalid_Grant")).
Proof. split; reflexivity. Qed.
