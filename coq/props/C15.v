(* C15 — introspection is faithful; a token is active only if the server said so.
   Statements only; proofs in proofs/Serde_proofs.v. *)
From OA Require Import Bytes Json Json_proofs Lower Serde SerdeSpec Serde_proofs MapExt_proofs Responses_proofs.
From Coq Require Import ZArith Permutation.
Local Open Scope Z_scope.

Section C15.
  Context {EF : Type} (ef : ef_schema EF) (efc : EF -> bool) (G : ef_good ef efc introspection_names).

  (* `active` is reported exactly as the server's JSON boolean: in particular a response is
     reported active only if the member is the literal true; missing / null / 0 / "true" / [] ...
     never decode at all *)
  Theorem C15_active :
    forall m r, decode_introspection ef (JObj m) = Some r ->
                find_key (s2b "active") m = Some (JBool (ir_active r)).
  Proof. exact (introspection_active ef). Qed.

  (* absent or null optional members are none *)
  Theorem C15_null_optional :
    forall m r n,
      decode_introspection ef (JObj m) = Some r ->
      In n (map s2b ["scope"; "client_id"; "username"; "token_type"; "exp"; "iat"; "nbf"; "sub";
                     "aud"; "iss"; "jti"]%string) ->
      (find_key n m = None \/ find_key n m = Some JNull) ->
      (n = s2b "scope" -> ir_scopes r = None) /\ (n = s2b "client_id" -> ir_client_id r = None) /\
      (n = s2b "username" -> ir_username r = None) /\ (n = s2b "token_type" -> ir_token_type r = None) /\
      (n = s2b "exp" -> ir_exp r = None) /\ (n = s2b "iat" -> ir_iat r = None) /\
      (n = s2b "nbf" -> ir_nbf r = None) /\ (n = s2b "sub" -> ir_sub r = None) /\
      (n = s2b "aud" -> ir_aud r = None) /\ (n = s2b "iss" -> ir_iss r = None) /\
      (n = s2b "jti" -> ir_jti r = None).
  Proof. exact (introspection_null_optional ef). Qed.

  (* present members are reported verbatim: scope split on spaces, strings byte for byte,
     token_type case-insensitively, exp/iat/nbf as that many seconds after the epoch (within
     chrono's range, negative included), aud as a list whether one string or an array *)
  Theorem C15_reported_exactly :
    forall m r,
      decode_introspection ef (JObj m) = Some r ->
      (forall s, find_key (s2b "scope") m = Some (JStr s true) -> ir_scopes r = Some (split_on space s)) /\
      (forall s, find_key (s2b "client_id") m = Some (JStr s true) -> ir_client_id r = Some s) /\
      (forall s, find_key (s2b "username") m = Some (JStr s true) -> ir_username r = Some s) /\
      (forall s, find_key (s2b "sub") m = Some (JStr s true) -> ir_sub r = Some s) /\
      (forall s, find_key (s2b "iss") m = Some (JStr s true) -> ir_iss r = Some s) /\
      (forall s, find_key (s2b "jti") m = Some (JStr s true) -> ir_jti r = Some s) /\
      (forall s, find_key (s2b "token_type") m = Some (JStr s true) ->
                 ir_token_type r = Some (token_type_from_str (lower_tt s))) /\
      (forall z, find_key (s2b "exp") m = Some (JInt z) -> ir_exp r = Some z /\ (TS_MIN <= z <= TS_MAX)) /\
      (forall z, find_key (s2b "iat") m = Some (JInt z) -> ir_iat r = Some z) /\
      (forall z, find_key (s2b "nbf") m = Some (JInt z) -> ir_nbf r = Some z) /\
      (forall s, find_key (s2b "aud") m = Some (JStr s true) -> ir_aud r = Some [s]) /\
      (forall l, find_key (s2b "aud") m = Some (JArr l) ->
                 exists ss, all_strings l = Some ss /\ ir_aud r = Some ss).
  Proof. exact (introspection_fields ef). Qed.

  Theorem C15_any_order :
    forall m m', Permutation m m' ->
                 decode_introspection ef (JObj m) = decode_introspection ef (JObj m').
  Proof. exact (decode_introspection_perm ef efc G). Qed.

  (* every conforming response is accepted *)
  Theorem C15_accept :
    forall r, introspection_canon efc r = true ->
              decode_introspection ef (encode_introspection ef r) = Some r.
  Proof. exact (introspection_roundtrip ef efc G). Qed.
End C15.

Theorem C15_instances :
  ef_good ef_empty (fun _ => true) introspection_names /\ ef_good ef_ext ext_canon introspection_names.
Proof. exact (conj (ef_empty_good introspection_names) ext_good_introspection). Qed.

(* a map-typed extension is handed exactly the members the library does not know itself *)
Theorem C15_map_extension :
  forall m v, decode_introspection ef_map (JObj m) = Some v ->
  forall k, In k (ir_extra v) <-> In k (map fst m) /\ is_known introspection_names k = false.
Proof. exact introspection_map_extension. Qed.

Example C15_example :
  option_map (fun r => (ir_active r, ir_token_type r, ir_exp r, ir_aud r))
    (from_body (decode_introspection ef_empty)
       (s2b "{""aud"":""one"",""token_type"":null,""exp"":-1,""active"":true,""unknown"":{}}"))
  = Some (true, None, Some (-1), Some [s2b "one"]) /\
  from_body (decode_introspection ef_empty) (s2b "{""active"":""true""}") = None /\
  from_body (decode_introspection ef_empty) (s2b "{""active"":1}") = None /\
  from_body (decode_introspection ef_empty) (s2b "{""client_id"":""c""}") = None.
Proof. vm_compute. repeat split. Qed.
