(* C08 — device-flow polling stops at the first decisive reply and at the deadline.
   Statements only; proofs in proofs/DevicePoll_proofs.v. *)
From OA Require Import Bytes DevicePoll DevicePoll_proofs DeviceKinds Http Http_proofs.
From Coq Require Import ZArith.
Local Open Scope N_scope.

(* the loop ends with the FIRST decisive reply: everything before it was pending / slow_down /
   transport failure, exactly one poll per reply was sent, and nothing follows the last poll *)
Theorem C08_first_decisive :
  forall req_ok ceiling dl clock interval script tr k,
    poll_loop req_ok ceiling dl interval clock script = (tr, OFinished k) ->
    exists pre rest,
      script = pre ++ RDecisive k :: rest /\ Forall non_decisive pre /\
      polls tr = S (length pre) /\ length (sleeps tr) = length pre /\
      last_event tr = Some EPoll.
Proof. exact loop_finished. Qed.

(* ... and conversely: a decisive reply to a poll that was SENT in time ([cl1] = the readings before
   each poll up to that one, all <= deadline) is the outcome, whatever the clock reads once the
   reply has arrived ([cl2] is arbitrary: no reading follows a decisive reply) and whatever the
   server would have said next.  A token answering an in-time poll is never turned into the
   synthetic expired_token. *)
Theorem C08_decisive_in_time_wins :
  forall ceiling dl pre cl1 interval cl2 k rest,
    Forall non_decisive pre -> length cl1 = S (length pre) -> Forall (fun t => (t <= dl)%Z) cl1 ->
    snd (poll_loop true ceiling dl interval (cl1 ++ cl2) (pre ++ RDecisive k :: rest)) = OFinished k /\
    polls (fst (poll_loop true ceiling dl interval (cl1 ++ cl2) (pre ++ RDecisive k :: rest))) = S (length pre) /\
    last_event (fst (poll_loop true ceiling dl interval (cl1 ++ cl2) (pre ++ RDecisive k :: rest))) = Some EPoll.
Proof. exact loop_decisive_in_time. Qed.

(* no poll is sent once the clock has passed the deadline: every poll follows a reading <= deadline,
   for an arbitrary (even non-monotone) clock *)
Theorem C08_no_poll_after_deadline :
  forall req_ok ceiling dl clock interval script,
    Forall (fun t => (t <= dl)%Z)
      (poll_times (fst (poll_loop req_ok ceiling dl interval clock script))).
Proof. exact loop_deadline. Qed.

(* the synthetic expired_token is returned exactly at the first reading past the deadline:
   all earlier readings were <= deadline, one poll was sent per earlier reading, and the trace
   ends with that reading (no further request or wait) *)
Theorem C08_expired :
  forall req_ok ceiling dl clock interval script tr,
    poll_loop req_ok ceiling dl interval clock script = (tr, OExpired) ->
    exists pre t post,
      clock = pre ++ t :: post /\ Forall (fun x => (x <= dl)%Z) pre /\ (t > dl)%Z /\
      last_event tr = Some (ENow t) /\ polls tr = length pre /\
      length (sleeps tr) = length pre /\
      Forall non_decisive (firstn (length pre) script) /\ (length pre <= length script)%nat.
Proof. exact loop_expired. Qed.

(* it never gives up before that instant *)
Theorem C08_not_early :
  forall req_ok ceiling dl clock interval script,
    Forall (fun x => (x <= dl)%Z) clock ->
    snd (poll_loop req_ok ceiling dl interval clock script) <> OExpired.
Proof. exact loop_not_early. Qed.

(* the deadline is start + (the caller's timeout if given, else the device code's expires_in) *)
Theorem C08_timeout_choice :
  forall c,
    (forall t, pc_timeout c = Some t -> timeout_of c = t) /\
    (pc_timeout c = None -> timeout_of c = pc_expires_s c * NS).
Proof. exact timeout_choice. Qed.

Theorem C08_deadline_value :
  forall t0 tmo,
    (compute_timeout t0 tmo = None <-> (tmo > MAXDELTA \/ (t0 + Z.of_N tmo > DTMAX)%Z)) /\
    (forall dl, compute_timeout t0 tmo = Some dl -> dl = (t0 + Z.of_N tmo)%Z).
Proof. exact compute_timeout_spec. Qed.

(* an unrepresentable timeout is an error value: at most one clock reading, no request, no wait
   (a Duration above TimeDelta::MAX is refused before the clock is read; an instant beyond
   DateTime::MAX_UTC after one reading) *)
Theorem C08_unrepresentable :
  forall c clock script,
    (timeout_of c > MAXDELTA -> poll_run c clock script = ([], OOther)) /\
    (forall t0 clock', clock = t0 :: clock' -> timeout_of c <= MAXDELTA ->
       (t0 + Z.of_N (timeout_of c) > DTMAX)%Z ->
       poll_run c clock script = ([ENow t0], OOther)).
Proof. exact run_unrepresentable. Qed.

(* the whole run is the initial reading followed by the loop *)
Theorem C08_run :
  forall c t0 clock script dl,
    compute_timeout t0 (timeout_of c) = Some dl ->
    poll_run c (t0 :: clock) script =
    (ENow t0 :: fst (poll_loop (pc_req_ok c) (ceiling_of c) dl (pc_interval_s c * NS) clock script),
     snd (poll_loop (pc_req_ok c) (ceiling_of c) dl (pc_interval_s c * NS) clock script)).
Proof. exact run_some. Qed.

(* which HTTP replies are pending / slow_down / decisive: the 19 scripted server behaviours of the
   correspondence runs are classified by the Endpoint + JSON + serde model (one device-token
   exchange = endpoint_response with the device error family) exactly as the loop model assumes *)
Theorem C08_reply_classes : forallb kind_consistent kinds = true.
Proof. exact kinds_consistent. Qed.

(* non-vacuity: deadline 10 s after start; the fourth reading is past it *)
Example C08_example :
  let c := {| pc_interval_s := 1; pc_expires_s := 10; pc_backoff := None;
              pc_timeout := None; pc_req_ok := true |} in
  snd (poll_run c [0; 0; 10000000000; 10000000001; 5]%Z
                  [RPending; RPending; RPending; RDecisive 6]) = OExpired /\
  compute_timeout 0 (U64MAX * NS) = None /\ (U64MAX * NS > MAXDELTA).
Proof. vm_compute. repeat split; reflexivity. Qed.
