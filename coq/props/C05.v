(* C05 — tokens come only from a 200 JSON success; each reply maps to one typed outcome.
   Statements only; proofs in proofs/Endpoint_proofs.v.  The theorems hold for ANY pair of
   decoders (success document / error document), so for every request kind and response type. *)
From OA Require Import Bytes Json Endpoint Endpoint_proofs Serde Http Http_proofs.
Local Open Scope N_scope.

Section C05.
  Variables T E RE : Type.
  Variable parse_ok : bytes -> option T.
  Variable parse_err : bytes -> option E.
  Notation resp := (endpoint_response T E RE parse_ok parse_err).

  (* the total, disjoint decision table: every (status, Content-Type, body) lands in exactly one
     of the seven rows *)
  Theorem C05_table :
    forall status ct body,
    (status <> 200 /\ body = [] /\ resp status ct body = OOther EmptyErrorBody) \/
    (status <> 200 /\ body <> [] /\ exists e, parse_err body = Some e /\ resp status ct body = OServer e) \/
    (status <> 200 /\ body <> [] /\ parse_err body = None /\ resp status ct body = OParse body) \/
    (status = 200 /\ (exists v, ct = Some v /\ is_json_ct v = false) /\
       resp status ct body = OOther BadContentType) \/
    (status = 200 /\ ct_ok ct /\ body = [] /\ resp status ct body = OOther EmptySuccessBody) \/
    (status = 200 /\ ct_ok ct /\ body <> [] /\ exists v, parse_ok body = Some v /\ resp status ct body = OSuccess v) \/
    (status = 200 /\ ct_ok ct /\ body <> [] /\ parse_ok body = None /\ resp status ct body = OParse body).
  Proof. exact (resp_table T E RE parse_ok parse_err). Qed.

  (* a success value only for 200 + JSON-or-absent Content-Type + non-empty body of the expected
     shape: in particular a non-200 reply never yields a token *)
  Theorem C05_success_iff :
    forall status ct body v,
      resp status ct body = OSuccess v <->
      status = 200 /\ ct_ok ct /\ body <> [] /\ parse_ok body = Some v.
  Proof. exact (success_iff T E RE parse_ok parse_err). Qed.

  Theorem C05_server_error_iff :
    forall status ct body e,
      resp status ct body = OServer e <-> status <> 200 /\ body <> [] /\ parse_err body = Some e.
  Proof. exact (server_iff T E RE parse_ok parse_err). Qed.

  (* a parse error carries the ORIGINAL body bytes *)
  Theorem C05_parse_iff :
    forall status ct body b',
      resp status ct body = OParse b' <->
      b' = body /\ body <> [] /\
      ((status <> 200 /\ parse_err body = None) \/
       (status = 200 /\ ct_ok ct /\ parse_ok body = None)).
  Proof. exact (parse_iff T E RE parse_ok parse_err). Qed.

  Theorem C05_other_iff :
    forall status ct body,
      (exists why, resp status ct body = OOther why) <->
      body = [] \/ (status = 200 /\ exists v, ct = Some v /\ is_json_ct v = false).
  Proof. exact (other_iff T E RE parse_ok parse_err). Qed.

  (* each non-polling request calls the HTTP client exactly once (never if the request cannot be
     built); a transport failure is returned as the caller's own error value, unchanged *)
  Theorem C05_once_and_transport :
    forall (Req : Type) (req : option Req) (client : Req -> RE + http_reply),
      fst (do_request T E RE parse_ok parse_err req client) =
        match req with Some r => [r] | None => [] end /\
      (req = None -> snd (do_request T E RE parse_ok parse_err req client) = OOther Unbuildable) /\
      (forall r e, req = Some r -> client r = inl e ->
         snd (do_request T E RE parse_ok parse_err req client) = ORequest e) /\
      (forall r rp, req = Some r -> client r = inr rp ->
         snd (do_request T E RE parse_ok parse_err req client) =
         resp (rp_status rp) (rp_ct rp) (rp_body rp)).
  Proof. intros Req req client. exact (do_request_calls T E RE parse_ok parse_err req client). Qed.
End C05.

(* the table instantiated with the crate's token decoder (any extension schema) *)
Theorem C05_no_token_unless_200 :
  forall (EF : Type) (ef : ef_schema EF) status ct body v,
    token_outcome ef status ct body = OSuccess v -> status = 200.
Proof. exact @non200_never_token. Qed.

Theorem C05_200_error_doc_no_token :
  forall (EF : Type) (ef : ef_schema EF) ct body m v,
    json_parse body = Some (JObj m) ->
    (forall s, find_key (s2b "access_token") m <> Some (JStr s true)) ->
    token_outcome ef 200 ct body <> OSuccess v.
Proof. exact @error_doc_200_never_token. Qed.

Theorem C05_token_needs_whole_document :
  forall (EF : Type) (ef : ef_schema EF) status ct body v,
    token_outcome ef status ct body = OSuccess v ->
    exists j, json_parse body = Some j /\ decode_token ef j = Some v.
Proof. exact @token_needs_whole_document. Qed.

Example C05_example :
  is_json_ct (s2b "Application/JSON; charset=utf-8") = true /\
  is_json_ct (s2b "text/plain") = false /\ is_json_ct (s2b "application/jso") = false.
Proof. vm_compute. repeat split. Qed.
