(* C20 — timing-resistant secret comparison is a true equality consistent with hashing
   (partial: "equal only if contents are equal" holds up to SHA-256 collisions, which exist by
   counting; that direction is stated under the explicit no-collision premise.  Timing itself is
   not expressible in the model). *)
From OA Require Import Bytes Sha256 Secrets Pkce_proofs.

Theorem C20_refl : forall a, secret_eq a a = true.
Proof. exact secret_eq_refl. Qed.
Theorem C20_sym : forall a b, secret_eq a b = secret_eq b a.
Proof. exact secret_eq_sym. Qed.
Theorem C20_trans :
  forall a b c, secret_eq a b = true -> secret_eq b c = true -> secret_eq a c = true.
Proof. exact secret_eq_trans. Qed.
Theorem C20_eq_hash :
  forall (H : Type) (h : bytes -> H) a b,
    secret_eq a b = true -> secret_hash h a = secret_hash h b.
Proof. exact @secret_eq_hash. Qed.
Theorem C20_complete : forall a b, a = b -> secret_eq a b = true.
Proof. exact secret_eq_complete. Qed.
Theorem C20_sound_partial :
  forall a b, (sha256 a = sha256 b -> a = b) -> secret_eq a b = true -> a = b.
Proof. exact secret_eq_sound_partial. Qed.
(* no length or prefix shortcut: the verdict depends on the digests of the whole inputs only *)
Theorem C20_whole_input :
  forall a b a' b',
    sha256 a = sha256 a' -> sha256 b = sha256 b' -> secret_eq a b = secret_eq a' b'.
Proof. exact secret_eq_whole_input. Qed.

Example C20_example :
  secret_eq (s2b "secret") (s2b "secret") = true /\ secret_eq (s2b "secret") (s2b "secreT") = false
  /\ secret_eq (s2b "secret") (s2b "secre") = false.
Proof. vm_compute. repeat split. Qed.
