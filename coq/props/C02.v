(* C02 — client credentials travel in exactly one place, correctly encoded.  Statements only. *)
From OA Require Import Bytes FormUrlencoded FormUrlencoded_proofs Base64 Base64_proofs
     Requests Requests_proofs ReqSpec ReqSpec_proofs.

(* Basic is used exactly when it is selected AND a secret is configured *)
Theorem C02_total :
  forall c,
    (forall s, use_basic c = Some s <-> cr_auth c = BasicAuth /\ cr_secret c = Some s) /\
    (use_basic c = None <-> cr_auth c = RequestBody \/ cr_secret c = None).
Proof. intros c. exact (conj (use_basic_spec c) (use_basic_none c)). Qed.

(* one Authorization header; its payload is b64(enc id ':' enc secret); a server that decodes the
   base64, splits at the FIRST ':' and form-decodes both halves recovers id and secret exactly,
   whatever bytes they contain; the body names neither client_id nor client_secret *)
Theorem C02_basic :
  forall c ep k extra r s,
    request_of c ep k extra = Some r -> use_basic c = Some s ->
    count_name (s2b "authorization") (rq_headers r) = 1 /\
    lookup (s2b "authorization") (rq_headers r) =
      Some (s2b "Basic " ++ b64_std_encode (basic_payload (cr_id c) s)) /\
    b64_std_decode (b64_std_encode (basic_payload (cr_id c) s)) = Some (basic_payload (cr_id c) s) /\
    split_first ":"%char (basic_payload (cr_id c) s)
      = Some (byte_serialize (cr_id c), byte_serialize s) /\
    form_decode (byte_serialize (cr_id c)) = cr_id c /\ form_decode (byte_serialize s) = s /\
    count_name (s2b "client_id") (lib_pairs c k) = 0 /\
    count_name (s2b "client_secret") (lib_pairs c k) = 0.
Proof. exact basic_header. Qed.

Theorem C02_server_reads_back :
  forall id s, read_basic (basic_value id s) = Some (id, s).
Proof. exact read_basic_value. Qed.

(* every other case: no Authorization header, client_id exactly once, client_secret exactly once
   iff a secret is configured *)
Theorem C02_body :
  forall c ep k extra r,
    request_of c ep k extra = Some r -> use_basic c = None ->
    count_name (s2b "authorization") (rq_headers r) = 0 /\
    count_name (s2b "client_id") (lib_pairs c k) = 1 /\
    lookup (s2b "client_id") (lib_pairs c k) = Some (cr_id c) /\
    count_name (s2b "client_secret") (lib_pairs c k)
      = match cr_secret c with Some _ => 1 | None => 0 end /\
    lookup (s2b "client_secret") (lib_pairs c k) = cr_secret c.
Proof. exact body_credentials. Qed.

(* credentials never appear in the request URL: the target is a function of the endpoint alone *)
Theorem C02_not_in_url :
  forall c c' ep k k' extra extra' r r',
    request_of c ep k extra = Some r -> request_of c' ep k' extra' = Some r' ->
    rq_target r = rq_target r'.
Proof. exact target_only_endpoint. Qed.

Theorem C02_monitor_accepts_model :
  forall c ep k extra r, request_of c ep k extra = Some r -> c02_okb c ep extra r = true.
Proof. exact c02_model_ok. Qed.

Example C02_example :
  read_basic (s2b "Basic YSUzQWI6cCUzQXcrJUMzJUE0") = Some (s2b "a:b", [ "p"; ":"; "w"; " "; "195"; "164" ]%char).
Proof. vm_compute. reflexivity. Qed.
