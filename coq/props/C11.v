(* C11 — client configuration is compositional and each flow uses its own endpoint.
   Statements only; proofs in proofs/ClientCfg_proofs.v.  [apply_op] models the 19 configuration
   operations, [fold_left apply_op ops (init id)] any sequence of them of any length. *)
From OA Require Import Bytes Requests Pkce AuthUrl ClientCfg ClientCfg_proofs.

(* refinement to "every item holds its most recent value, or its initial one": setting one item
   never disturbs another *)
Theorem C11_last_write :
  forall ops s,
    let s' := fold_left apply_op ops s in
    c_id s' = c_id s /\
    c_secret s' = last_secret ops (c_secret s) /\
    c_redirect s' = last_redirect_uri ops (c_redirect s) /\
    c_auth s' = last_auth_type ops (c_auth s) /\
    forall e, (field e s', tstate e s') = last_url e ops (field e s, tstate e s).
Proof. exact last_write. Qed.

(* in every reachable configuration a Set typestate has its URL (and NotSet has none) ... *)
Theorem C11_inv : forall id ops, Inv (fold_left apply_op ops (init id)).
Proof. exact inv_reachable. Qed.

(* ... hence no getter or operation panics in any reachable configuration *)
Theorem C11_no_panic :
  forall id ops,
    let s := fold_left apply_op ops (init id) in
    (forall e, getter e s <> GPanic) /\ (forall e, op_url e s <> GPanic) /\
    (forall o, run_operation s o <> GPanic) /\ (forall st, run_authorize s st <> GPanic).
Proof. intros id ops. apply no_panic. apply inv_reachable. Qed.

(* each operation sends its request to the URL currently stored for ITS endpoint, carrying the
   client's current id / secret / auth type (and redirect for the code exchange) *)
Theorem C11_endpoint_of_op :
  forall s o r,
    run_operation s o = GValue (Some r) ->
    exists u, field (op_endpoint o) s = Some u /\
              rq_target r = strip_fragment (ep_text (uv_ep u)) /\
              request_of (creds_of s) (uv_ep u) (op_kind s o) [] = Some r.
Proof. exact operation_endpoint. Qed.

Theorem C11_authorize_endpoint :
  forall s st u q,
    run_authorize s st = GValue (u, q) ->
    exists v, field EAuth s = Some v /\ u_prefix u = u_prefix (uv_abs v) /\
              u_fragment u = u_fragment (uv_abs v) /\ q = st.
Proof. exact authorize_endpoint. Qed.

(* conditionally set and absent: the missing-URL error naming that endpoint *)
Theorem C11_maybe_absent :
  forall s e, tstate e s = MaybeSet -> field e s = None -> op_url e s = GMissing (ep_label e).
Proof. exact maybe_absent. Qed.

Theorem C11_labels :
  map ep_label [EAuth; EToken; EDevAuth; EIntrospect; ERevoke] =
  map s2b ["authorization"; "token"; "device authorization"; "introspection"; "revocation"]%string.
Proof. exact labels. Qed.

(* conditionally set and present: exactly as if set unconditionally *)
Theorem C11_maybe_present :
  forall s s' e,
    tstate e s = MaybeSet -> tstate e s' = IsSet -> field e s = field e s' -> field e s <> None ->
    op_url e s = op_url e s'.
Proof. exact maybe_present_as_set. Qed.

(* ... for whole flows too: the two public entry points of a flow (endpoint set / conditionally set
   and present) build the same authorization URL and the same request, the client's default
   redirect, id, secret and authentication type included *)
Theorem C11_entry_points_agree :
  (forall s s' st,
     tstate EAuth s = MaybeSet -> tstate EAuth s' = IsSet -> field EAuth s = field EAuth s' ->
     field EAuth s <> None -> c_id s = c_id s' -> c_redirect s = c_redirect s' ->
     run_authorize s st = run_authorize s' st) /\
  (forall s s' o,
     tstate (op_endpoint o) s = MaybeSet -> tstate (op_endpoint o) s' = IsSet ->
     field (op_endpoint o) s = field (op_endpoint o) s' -> field (op_endpoint o) s <> None ->
     creds_of s = creds_of s' -> op_kind s o = op_kind s' o ->
     run_operation s o = run_operation s' o).
Proof. exact (conj authorize_maybe_present_as_set operation_maybe_present_as_set). Qed.

(* never configured: every gated method of that endpoint is absent (a compile error; the 15
   entries are validated by rustc reject-probes in the correspondence run) *)
Theorem C11_not_set_absent :
  forall s e,
    tstate e s = NotSet ->
    getter e s = GAbsent /\ op_url e s = GAbsent /\
    (forall o, op_endpoint o = e -> run_operation s o = GAbsent) /\
    (e = EAuth -> forall st, run_authorize s st = GAbsent).
Proof. exact not_set_absent. Qed.

Example C11_example :
  let u := {| uv_orig := s2b "https://t/"; uv_ep := {| ep_text := s2b "https://t/"; ep_uri_ok := true;
              ep_scheme := s2b "https" |};
              uv_abs := {| u_prefix := s2b "https://t/"; u_query := None; u_fragment := None |} |} in
  let s := fold_left apply_op [SetUrlOpt EToken None; SetSecret (s2b "x"); SetUrl EToken u;
                               SetUrlOpt ERevoke None] (init (s2b "id")) in
  tstate EToken s = IsSet /\ c_secret s = Some (s2b "x") /\
  run_operation s (OpRevoke (s2b "t") None) = GMissing (s2b "revocation") /\
  run_operation s OpDeviceAuth = GAbsent.
Proof. vm_compute. repeat split. Qed.

(* non-vacuity of C11_entry_points_agree: two reachable configurations that meet its premises,
   and the redirect really is in the authorization URL of both *)
Example C11_entry_points_example :
  let u := {| uv_orig := s2b "https://a/"; uv_ep := {| ep_text := s2b "https://a/"; ep_uri_ok := true;
              ep_scheme := s2b "https" |};
              uv_abs := {| u_prefix := s2b "https://a/"; u_query := None; u_fragment := None |} |} in
  let s := fold_left apply_op [SetRedirectUri (s2b "https://Client.Example.COM"); SetUrlOpt EAuth (Some u)] (init (s2b "id")) in
  let s' := fold_left apply_op [SetUrl EAuth u; SetRedirectUri (s2b "https://Client.Example.COM")] (init (s2b "id")) in
  tstate EAuth s = MaybeSet /\ tstate EAuth s' = IsSet /\ field EAuth s = field EAuth s' /\
  c_redirect s = c_redirect s' /\ run_authorize s (s2b "st") = run_authorize s' (s2b "st") /\
  match run_authorize s (s2b "st") with
  | GValue (url, _) => u_query url = Some (s2b "response_type=code&client_id=id&state=st&redirect_uri=https%3A%2F%2FClient.Example.COM")
  | _ => False
  end.
Proof. vm_compute. repeat split. Qed.
