(* C19 — device-authorization responses are reported exactly; default interval is 5 s.
   Statements only; proofs in proofs/Serde_proofs.v and proofs/Responses_proofs.v.
   [url_ok] is Url::parse acceptance (oracle). *)
From OA Require Import Bytes Json Json_proofs Serde SerdeSpec Serde_proofs MapExt_proofs Responses_proofs DevicePoll.
From Coq Require Import ZArith Permutation.
Local Open Scope Z_scope.

Section C19.
  Context {EF : Type} (ef : ef_schema EF) (efc : EF -> bool) (url_ok : bytes -> bool)
          (G : ef_good ef efc device_names).

  (* codes and verification_uri_complete verbatim, the URI (under either member name) a valid URL,
     expires_in and interval exact for every u64, missing or null interval = 5, explicit 0 = 0 *)
  Theorem C19_reported_exactly :
    forall m d,
      decode_device_auth url_ok ef (JObj m) = Some d ->
      find_key (s2b "device_code") m = Some (JStr (da_device_code d) true) /\
      find_key (s2b "user_code") m = Some (JStr (da_user_code d) true) /\
      (find_key (s2b "verification_uri") m = Some (JStr (da_verification_uri d) true) \/
       find_key (s2b "verification_url") m = Some (JStr (da_verification_uri d) true)) /\
      url_ok (da_verification_uri d) = true /\
      (exists z, find_key (s2b "expires_in") m = Some (JInt z) /\ da_expires d = Z.to_N z /\
                 (0 <= z <= U64MAXZ)) /\
      match find_key (s2b "interval") m with
      | None | Some JNull => da_interval d = 5%N
      | Some (JInt z) => da_interval d = Z.to_N z /\ (0 <= z <= U64MAXZ)
      | Some _ => False end /\
      match find_key (s2b "verification_uri_complete") m with
      | None | Some JNull => da_uri_complete d = None
      | Some (JStr s true) => da_uri_complete d = Some s
      | Some _ => False end.
  Proof. exact (device_fields ef url_ok). Qed.

  (* rejected: a missing device_code / user_code / expires_in / verification URI, or both member
     names at once (a negative, fractional or string interval falls under `Some _ => False`) *)
  Theorem C19_reject_missing :
    forall m n, In n (map s2b ["device_code"; "user_code"; "expires_in"]%string) ->
                find_key n m = None -> decode_device_auth url_ok ef (JObj m) = None.
  Proof. exact (device_reject_missing ef url_ok). Qed.
  Theorem C19_reject_no_uri :
    forall m, find_key (s2b "verification_uri") m = None -> find_key (s2b "verification_url") m = None ->
              decode_device_auth url_ok ef (JObj m) = None.
  Proof. exact (device_reject_no_uri ef url_ok). Qed.
  Theorem C19_both_names_rejected :
    forall m, find_key (s2b "verification_uri") m <> None -> find_key (s2b "verification_url") m <> None ->
              decode_device_auth url_ok ef (JObj m) = None.
  Proof. exact (device_both_names_rejected ef url_ok). Qed.

  Theorem C19_any_order :
    forall m m', Permutation m m' ->
                 decode_device_auth url_ok ef (JObj m) = decode_device_auth url_ok ef (JObj m').
  Proof. exact (decode_device_perm ef efc url_ok G). Qed.

  Theorem C19_accept :
    forall d, device_canon_b url_ok efc d = true ->
              decode_device_auth url_ok ef (encode_device_auth ef d) = Some d.
  Proof. exact (device_roundtrip ef efc url_ok G). Qed.

  (* polling started from an accepted response begins with exactly the reported interval, and its
     deadline is the first clock reading plus the reported lifetime *)
  Theorem C19_first_poll :
    forall (d : device_auth EF) backoff t0 t1 clock script,
      (da_expires d * NS <= MAXDELTA)%N ->
      (t0 + Z.of_N (da_expires d * NS) <= DTMAX) ->
      (t1 <= t0 + Z.of_N (da_expires d * NS)) ->
      exists tr o,
        poll_run (poll_cfg_of d backoff None true) (t0 :: t1 :: clock) (RPending :: script)
        = (ENow t0 :: ENow t1 :: EPoll :: ESleep (da_interval d * NS) :: tr, o) /\
        compute_timeout t0 (timeout_of (poll_cfg_of d backoff None true))
        = Some (t0 + Z.of_N (da_expires d * NS)).
  Proof. exact first_poll. Qed.
End C19.

(* a map-typed extension is handed exactly the members the library does not know itself *)
Theorem C19_map_extension :
  forall url_ok m v, decode_device_auth url_ok ef_map (JObj m) = Some v ->
  forall k, In k (da_extra v) <-> In k (map fst m) /\ is_known device_names k = false.
Proof. exact device_map_extension. Qed.

Example C19_example :
  option_map (fun d => (da_interval d, da_expires d, da_verification_uri d))
    (from_body (decode_device_auth (fun _ => true) ef_empty)
       (s2b "{""device_code"":""d"",""user_code"":""u"",""verification_url"":""https://v/"",""expires_in"":1800,""interval"":null}"))
  = Some (5%N, 1800%N, s2b "https://v/") /\
  from_body (decode_device_auth (fun _ => true) ef_empty)
    (s2b "{""device_code"":""d"",""user_code"":""u"",""verification_uri"":""https://v/"",""expires_in"":1800,""interval"":-1}") = None.
Proof. vm_compute. split; reflexivity. Qed.
