(* C09 — bundled HTTP adapters are transparent in both directions for every status
   (partial: what is proved is the adapters' glue under the stated contract of each HTTP library
   [lib_behaviour]; sockets, framing, hangs and the libraries' internals are exercised only by the
   loopback correspondence run).  Statements only. *)
From OA Require Import Bytes Requests Adapters Adapters_proofs Endpoint DevicePoll DeviceKinds Http
     AdapterSession AdapterSession_proofs.
From Coq Require Import ZArith.
Local Open Scope N_scope.

(* method, target, every header and the exact body reach the library (curl: with its length) *)
Theorem C09_request_glue :
  forall a r,
    lr_method (to_lib a r) = rq_method r /\ lr_target (to_lib a r) = rq_target r /\
    lr_headers (to_lib a r) = rq_headers r /\ lr_body (to_lib a r) = rq_body r /\
    (a = Curl -> lr_post_size (to_lib a r) = Some (length (rq_body r))).
Proof. exact request_glue. Qed.

(* status, Content-Type and body come back unchanged for EVERY status (2xx..5xx) and body *)
Theorem C09_response_glue_partial : forall a r, adapter_call a (SReply r) = Some r.
Proof. exact response_glue. Qed.

(* so an OAuth error reply is classified identically through every adapter and in memory *)
Theorem C09_classified_identically :
  forall (T E RE : Type) (parse_ok : bytes -> option T) (parse_err : bytes -> option E) a r,
    match adapter_call a (SReply r) with
    | Some r' => endpoint_response T E RE parse_ok parse_err (w_status r') (w_ct r') (w_body r')
    | None => Endpoint.OOther Unbuildable
    end = endpoint_response T E RE parse_ok parse_err (w_status r) (w_ct r) (w_body r).
Proof. exact classified_identically. Qed.

(* ... and so is a whole device-flow poll session: for every adapter, configuration, clock and
   sequence of server behaviours (replies and connection faults) of any length, the session through
   the adapter is the session of an in-memory client handed the same replies — same requests, same
   waits, same outcome (400 authorization_pending keeps polling, a 5xx error document ends it, a
   fault backs off) *)
Theorem C09_session_identical :
  forall (idx : result -> N) a c clock servers,
    session_via idx a c clock servers = session_direct idx c clock servers.
Proof. exact session_via_direct. Qed.

Theorem C09_adapters_agree :
  forall (idx : result -> N) a b c clock servers,
    session_via idx a c clock servers = session_via idx b c clock servers.
Proof. exact session_adapters_agree. Qed.

(* non-vacuity, and what the theorem excludes: an adapter reporting 5xx replies as errors polls on
   after a 503 access_denied (two polls instead of one, no access_denied outcome) *)
Theorem C09_hiding_5xx_refuted :
  snd (session_direct idx0 cfg0 [0; 1; 2; 3]%Z [denied503; denied503]) = OFinished 7 /\
  polls (fst (session_direct idx0 cfg0 [0; 1; 2; 3]%Z [denied503; denied503])) = 1%nat /\
  polls (fst (poll_run cfg0 [0; 1; 2; 3]%Z
                (map (exchange_hiding idx0 (fun st => 500 <=? st)) [denied503; denied503]))) = 2%nat /\
  snd (poll_run cfg0 [0; 1; 2; 3]%Z
         (map (exchange_hiding idx0 (fun st => 500 <=? st)) [denied503; denied503])) <> OFinished 7.
Proof. exact hiding_5xx_changes_the_session. Qed.

(* a connection fault surfaces as an error value *)
Theorem C09_faults_partial : forall a, adapter_call a SFault = None.
Proof. exact fault_is_error. Qed.

Example C09_example :
  adapter_call Ureq (SReply {| w_status := 400; w_ct := None; w_body := s2b "{}" |})
  = Some {| w_status := 400; w_ct := None; w_body := s2b "{}" |}.
Proof. reflexivity. Qed.
