(* C09 — bundled HTTP adapters are transparent in both directions for every status
   (partial: what is proved is the adapters' glue under the stated contract of each HTTP library
   [lib_behaviour]; sockets, framing, hangs and the libraries' internals are exercised only by the
   loopback correspondence run).  Statements only. *)
From OA Require Import Bytes Requests Adapters Adapters_proofs Endpoint.
Local Open Scope N_scope.

(* method, target, every header and the exact body reach the library (curl: with its length) *)
Theorem C09_request_glue :
  forall a r,
    lr_method (to_lib a r) = rq_method r /\ lr_target (to_lib a r) = rq_target r /\
    lr_headers (to_lib a r) = rq_headers r /\ lr_body (to_lib a r) = rq_body r /\
    (a = Curl -> lr_post_size (to_lib a r) = Some (length (rq_body r))).
Proof. exact request_glue. Qed.

(* status, Content-Type and body come back unchanged for EVERY status (2xx..5xx) and body *)
Theorem C09_response_glue_partial : forall a r, adapter_call a (SReply r) = Some r.
Proof. exact response_glue. Qed.

(* so an OAuth error reply is classified identically through every adapter and in memory *)
Theorem C09_classified_identically :
  forall (T E RE : Type) (parse_ok : bytes -> option T) (parse_err : bytes -> option E) a r,
    match adapter_call a (SReply r) with
    | Some r' => endpoint_response T E RE parse_ok parse_err (w_status r') (w_ct r') (w_body r')
    | None => OOther Unbuildable
    end = endpoint_response T E RE parse_ok parse_err (w_status r) (w_ct r) (w_body r).
Proof. exact classified_identically. Qed.

(* a connection fault surfaces as an error value *)
Theorem C09_faults_partial : forall a, adapter_call a SFault = None.
Proof. exact fault_is_error. Qed.

Example C09_example :
  adapter_call Ureq (SReply {| w_status := 400; w_ct := None; w_body := s2b "{}" |})
  = Some {| w_status := 400; w_ct := None; w_body := s2b "{}" |}.
Proof. reflexivity. Qed.
