(* C07 — device-flow polling never goes faster than the server allows (RFC 8628 section 3.5).
   Statements only; proofs in proofs/DevicePoll_proofs.v.  [poll_run] is the model of
   DeviceAccessTokenRequest::request / request_async for an arbitrary configuration [c], an
   arbitrary list of clock readings and an arbitrary script of server behaviours, of any length. *)
From OA Require Import Bytes DevicePoll DevicePoll_proofs.
From Coq Require Import ZArith.
Local Open Scope N_scope.

(* every wait is at least the server's interval plus 5 s per slow_down received so far
   (capped only by what a Duration can hold) *)
Theorem C07_floor :
  forall c clock script,
    all_geb (sleeps (fst (poll_run c clock script)))
            (floors (pc_interval_s c * NS) script) = true.
Proof. exact run_floor. Qed.

(* clause by clause: pending keeps the wait, slow_down adds exactly 5 s (saturating), a transport
   failure never shortens it and lengthens it at most up to the back-off ceiling *)
Theorem C07_steps :
  forall c clock script,
    sleeps_okb (ceiling_of c) (pc_interval_s c * NS) script
               (sleeps (fst (poll_run c clock script))) = true.
Proof. exact run_sleeps_ok. Qed.

(* ... and the clauses imply the floor for ANY sequence of waits (this is what lets the extracted
   monitor [sleeps_okb] judge the implementation's observed waits) *)
Theorem C07_steps_imply_floor :
  forall ceiling ds cur base script,
    base <= cur -> sleeps_okb ceiling cur script ds = true ->
    all_geb ds (floors base script) = true.
Proof. exact sleeps_ok_floor. Qed.

(* exactly one wait separates consecutive polls: the trace is Now (Now Poll Sleep)* Now [Poll] *)
Theorem C07_shape :
  forall c clock script,
    snd (poll_run c clock script) <> OStuck ->
    match fst (poll_run c clock script) with
    | [] => snd (poll_run c clock script) = OOther   (* timeout rejected before any clock read *)
    | ENow _ :: tr => tr = [] \/ shape_okb tr = true
    | _ => False
    end.
Proof. exact run_shape. Qed.

(* no server-chosen interval (any u64 number of seconds) takes a wait outside the range of
   Duration: the additions saturate instead of overflowing (the model has no panic outcome;
   the pinned code had one: history/C07_pinned.v) *)
Theorem C07_no_overflow :
  forall c clock script,
    pc_interval_s c <= U64MAX -> ceiling_of c <= DMAX ->
    Forall (fun d => d <= DMAX) (sleeps (fst (poll_run c clock script))).
Proof. exact run_bounded. Qed.

(* non-vacuity: interval 30 s, replies pending, failure, slow_down, pending, then success *)
Example C07_example :
  let c := {| pc_interval_s := 30; pc_expires_s := 1000; pc_backoff := None;
              pc_timeout := None; pc_req_ok := true |} in
  let r := poll_run c [0; 1; 2; 3; 4; 5; 6]%Z
                    [RPending; RFailure; RSlowDown; RPending; RDecisive 6] in
  sleeps (fst r) = [30 * NS; 30 * NS; 35 * NS; 35 * NS] /\ snd r = OFinished 6.
Proof. vm_compute. split; reflexivity. Qed.
