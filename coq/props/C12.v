(* C12 — CSRF states and PKCE verifiers are the unpadded URL-safe base64 of the requested number
   of random bytes (partial: what is proved is the deterministic shape and that every generator
   byte is preserved; freshness, unbiasedness and independence are properties of
   rand::thread_rng, an oracle here — the byte stream is universally quantified). *)
From OA Require Import Bytes Base64 Base64_proofs Pkce Pkce_proofs.

Theorem C12_shape_partial :
  forall n stream,
    forallb b64_url_charb (csrf_new_random_len n stream) = true /\
    b64_url_nopad_decode (csrf_new_random_len n stream) = Some (firstn (N.to_nat n) stream) /\
    ((N.to_nat n <= length stream)%nat ->
       N.of_nat (length (csrf_new_random_len n stream)) = ((4 * n + 2) / 3)%N).
Proof. exact csrf_shape. Qed.

(* the token is an injective image of the random bytes: it inherits all their entropy *)
Theorem C12_injective :
  forall n s1 s2,
    csrf_new_random_len n s1 = csrf_new_random_len n s2 ->
    firstn (N.to_nat n) s1 = firstn (N.to_nat n) s2.
Proof. exact csrf_injective. Qed.

(* defaults: 16 bytes = 128 bits -> 22 characters; 32 bytes = 256 bits -> 43 characters *)
Theorem C12_defaults :
  forall stream, (32 <= length stream)%nat ->
    length (csrf_new_random_len 16 stream) = 22%nat /\
    (exists v, new_random_verifier 32 stream = POk v /\ length v = 43%nat).
Proof.
  intros stream H. split.
  - unfold csrf_new_random_len. rewrite b64_url_nopad_length_nat, firstn_length.
    replace (Nat.min (N.to_nat 16) (length stream)) with 16%nat by (cbn; lia). reflexivity.
  - eexists. split; [reflexivity|]. apply b64_url_nopad_encode_32.
    rewrite firstn_length. cbn. lia.
Qed.

Example C12_example :
  csrf_new_random_len 3 (map nb [251; 255; 191; 7]%N) = s2b "-_-_".
Proof. vm_compute. reflexivity. Qed.
