(* C18 — URL values keep the caller's exact text while exposing a correct parsed form.
   Statements only; they hold for ANY URL parser [parse] (Url::parse rendered by to_string),
   which the correspondence run instantiates with the url crate itself. *)
From OA Require Import Bytes UrlTypes UrlTypes_proofs.

Section C18.
  Variable parse : bytes -> option bytes.

  (* construction succeeds exactly when the string parses *)
  Theorem C18_new_iff :
    forall s, (exists v, url_new parse s = Some v) <-> (exists u, parse s = Some u).
  Proof. exact (new_iff parse). Qed.

  (* display / deref / serialise give the original text, unnormalised; the parsed form is an
     independent parse of that text *)
  Theorem C18_text_and_parsed :
    forall s v, url_new parse s = Some v ->
      url_display v = s /\ url_serialize v = s /\ parse s = Some (uv_url v).
  Proof. exact (new_spec parse). Qed.

  (* ==, cmp and hash are those of the original string, hence mutually consistent *)
  Theorem C18_eq_by_text : forall a b, url_eqb a b = true <-> uv_text a = uv_text b.
  Proof. exact eq_by_text. Qed.
  Theorem C18_cmp_eq : forall a b, url_cmp a b = Eq <-> url_eqb a b = true.
  Proof. exact cmp_eq_consistent. Qed.
  Theorem C18_eq_hash :
    forall (H : Type) (h : bytes -> H) a b, url_eqb a b = true -> url_hash h a = url_hash h b.
  Proof. exact @eq_hash_consistent. Qed.
  Theorem C18_total_order :
    forall a b c,
      url_cmp a a = Eq /\ url_cmp b a = CompOpp (url_cmp a b) /\
      (url_cmp a b = Lt -> url_cmp b c = Lt -> url_cmp a c = Lt).
  Proof. exact cmp_total_order. Qed.

  (* deserialising the serialised form yields an equal value with the same parsed form; invalid
     strings are rejected at deserialisation too; from_url keeps the canonical text *)
  Theorem C18_serde_roundtrip :
    forall s v, url_new parse s = Some v ->
      exists v', url_deserialize parse (url_serialize v) = Some v' /\
                 url_eqb v v' = true /\ uv_url v' = uv_url v.
  Proof. exact (serde_roundtrip parse). Qed.
  Theorem C18_deserialize_invalid :
    forall s, parse s = None -> url_deserialize parse s = None.
  Proof. exact (deserialize_invalid parse). Qed.
  Theorem C18_from_url :
    forall u, url_display (url_from_url u) = u /\ uv_url (url_from_url u) = u.
  Proof. exact from_url_text. Qed.
End C18.

Example C18_example :
  let parse s := if bytes_eqb s (s2b "HTTPS://EXAMPLE.com") then Some (s2b "https://example.com/") else None in
  option_map (fun v => (url_display v, uv_url v)) (url_new parse (s2b "HTTPS://EXAMPLE.com")) =
    Some (s2b "HTTPS://EXAMPLE.com", s2b "https://example.com/") /\
  url_new parse (s2b "nope") = None /\ bytes_cmp (s2b "a") (s2b "ab") = Lt.
Proof. vm_compute. repeat split. Qed.
