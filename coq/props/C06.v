(* C06 — accepted token responses are reported exactly as the server sent them.
   Statements only; proofs in proofs/Serde_proofs.v (decoder = model/Serde.v decode_token over the
   JSON AST of lib/Json.v; from text through from_body/json_parse). *)
From OA Require Import Bytes Json Json_proofs Lower Serde SerdeSpec Serde_proofs MapExt_proofs Responses_proofs.
From Coq Require Import ZArith Permutation.
Local Open Scope Z_scope.

Section C06.
  Context {EF : Type} (ef : ef_schema EF) (efc : EF -> bool) (G : ef_good ef efc token_names).

  (* member order is irrelevant *)
  Theorem C06_any_order :
    forall m m', Permutation m m' -> decode_token ef (JObj m) = decode_token ef (JObj m').
  Proof. exact (decode_token_perm ef efc G). Qed.

  (* unknown members are ignored *)
  Theorem C06_unknown_ignored :
    forall m k v,
      is_known token_names k = false -> is_known (ef_names ef) k = false -> utf8_valid k = true ->
      json_strict v = true -> (json_depth v < json_max_strict_depth)%nat ->
      decode_token ef (JObj ((k, v) :: m)) = decode_token ef (JObj m).
  Proof. exact (decode_token_unknown ef efc G). Qed.

  (* whatever document is accepted, the accessors return exactly what it contains: access_token
     and refresh_token byte for byte, expires_in as that many seconds (any u64), scope split on
     single spaces in order, absent or null = none, token_type case-insensitively, extension
     members handed to the extension type *)
  Theorem C06_reported_exactly :
    forall m t,
      decode_token ef (JObj m) = Some t ->
      find_key (s2b "access_token") m = Some (JStr (tr_access t) true) /\
      (exists s, find_key (s2b "token_type") m = Some (JStr s true) /\
                 tr_type t = token_type_from_str (lower_tt s)) /\
      match find_key (s2b "expires_in") m with
      | None | Some JNull => tr_expires t = None
      | Some (JInt z) => tr_expires t = Some (Z.to_N z) /\ (0 <= z <= U64MAXZ)
      | Some _ => False end /\
      match find_key (s2b "refresh_token") m with
      | None | Some JNull => tr_refresh t = None
      | Some (JStr s true) => tr_refresh t = Some s
      | Some _ => False end /\
      match find_key (s2b "scope") m with
      | None | Some JNull => tr_scopes t = None
      | Some (JStr s true) => tr_scopes t = Some (split_on space s)
      | Some _ => False end /\
      ef_decode ef (unknown_members token_names m) = Some (tr_extra t).
  Proof. exact (token_fields ef). Qed.

  (* a body lacking access_token or token_type, or giving either a non-string value, is never
     accepted; nor is anything that is not an object *)
  Theorem C06_reject :
    forall m,
      (forall s, find_key (s2b "access_token") m <> Some (JStr s true)) \/
      (forall s, find_key (s2b "token_type") m <> Some (JStr s true)) ->
      decode_token ef (JObj m) = None.
  Proof. exact (token_reject ef). Qed.
  Theorem C06_not_object : forall j, (forall m, j <> JObj m) -> decode_token ef j = None.
  Proof. exact (token_not_object ef). Qed.

  (* every conforming document IS accepted: the encoding of any canonical value decodes to it *)
  Theorem C06_accept :
    forall t, token_canon efc t = true -> decode_token ef (encode_token ef t) = Some t.
  Proof. exact (token_roundtrip ef efc G). Qed.
End C06.

Theorem C06_token_type_case_insensitive :
  forall s,
    d_token_type (JStr s true) = Some (token_type_from_str (lower_tt s)) /\
    d_token_type (JStr (lower_tt s) true) = d_token_type (JStr s true).
Proof. exact token_type_case_insensitive. Qed.

(* the standard and the extension response types of the correspondence run are instances *)
Theorem C06_instances :
  ef_good ef_empty (fun _ => true) token_names /\ ef_good ef_ext ext_canon token_names.
Proof. exact (conj (ef_empty_good token_names) ext_good_token). Qed.

(* a map-typed extension is handed exactly the members the library does not know itself: nothing
   is swallowed by the library's struct, nothing known leaks into the extension *)
Theorem C06_map_extension :
  forall m v, decode_token ef_map (JObj m) = Some v ->
  forall k, In k (tr_extra v) <-> In k (map fst m) /\ is_known token_names k = false.
Proof. exact token_map_extension. Qed.

Example C06_example :
  from_body (decode_token ef_ext)
    (s2b "{ ""scope"":""a b"", ""x"":[1.5], ""token_type"":""BeArEr"",""access_token"":""12\/34"",""x_num"":7}")
  = Some {| tr_access := s2b "12/34"; tr_type := Bearer; tr_expires := None; tr_refresh := None;
            tr_scopes := Some [s2b "a"; s2b "b"];
            tr_extra := {| ext_id_token := None; ext_num := Some 7%N |} |}.
Proof. vm_compute. reflexivity. Qed.
