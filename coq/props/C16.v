(* C16 — accepted responses survive a serialise / deserialise round trip unchanged.
   Statements only; proofs in proofs/Serde_proofs.v, proofs/Responses_proofs.v, Json_proofs.v. *)
From OA Require Import Bytes Json Json_proofs ErrorCodes ErrorCodes_proofs Serde SerdeSpec Serde_proofs
     Responses_proofs.
From Coq Require Import ZArith.

Section C16.
  Context {EF : Type} (ef : ef_schema EF) (efc : EF -> bool).

  (* values built from canonical leaves (space-free non-empty scope lists, lower-case extension
     token types, in-range numbers) read back unchanged ... *)
  Theorem C16_built_token :
    ef_good ef efc token_names ->
    forall t, token_canon efc t = true -> decode_token ef (encode_token ef t) = Some t.
  Proof. exact (token_roundtrip ef efc). Qed.
  Theorem C16_built_introspection :
    ef_good ef efc introspection_names ->
    forall r, introspection_canon efc r = true ->
              decode_introspection ef (encode_introspection ef r) = Some r.
  Proof. exact (introspection_roundtrip ef efc). Qed.
  Theorem C16_built_device :
    forall url_ok, ef_good ef efc device_names ->
    forall d, device_canon_b url_ok efc d = true ->
              decode_device_auth url_ok ef (encode_device_auth ef d) = Some d.
  Proof. intros url_ok. exact (device_roundtrip ef efc url_ok). Qed.

  (* ... and every value the library ACCEPTED is canonical, so it round-trips too *)
  Theorem C16_parsed_token :
    ef_good ef efc token_names ->
    forall j t, decode_token ef j = Some t -> token_canon efc t = true.
  Proof. exact (token_image ef efc). Qed.
  Theorem C16_parsed_introspection :
    ef_good ef efc introspection_names ->
    forall j r, decode_introspection ef j = Some r -> introspection_canon efc r = true.
  Proof. exact (introspection_image ef efc). Qed.
End C16.

Theorem C16_errors :
  (forall e, basic_canon (er_error e) ->
             decode_error basic_from_str (encode_error basic_as_ref e) = Some e) /\
  (forall e, device_canon (er_error e) ->
             decode_error device_from_str (encode_error device_as_ref e) = Some e) /\
  (forall e, revocation_canon (er_error e) ->
             decode_error revocation_from_str (encode_error revocation_as_ref e) = Some e).
Proof.
  exact (conj basic_error_roundtrip (conj device_error_roundtrip revocation_error_roundtrip)).
Qed.

(* down to the JSON text: the compact text serde_json writes for a value parses back to the same
   value, and serialising that again reproduces the same text (for values whose strings are valid
   UTF-8, as every Rust String is: that is [json_canonical]) *)
Theorem C16_text :
  forall (A : Type) (dec : json -> option A) (enc : A -> json) v,
    json_canonical (enc v) -> dec (enc v) = Some v ->
    from_body dec (json_print (enc v)) = Some v /\
    (forall v', from_body dec (json_print (enc v)) = Some v' ->
                json_print (enc v') = json_print (enc v)).
Proof. exact @text_roundtrip. Qed.

Theorem C16_json_text_roundtrip :
  forall j, json_canonical j -> json_parse (json_print j) = Some j.
Proof. exact json_print_parse. Qed.

(* optional members that are none are omitted rather than written as null *)
Theorem C16_omits_none :
  (forall (EF : Type) (ef : ef_schema EF) t kv,
     (forall x kv, In kv (ef_encode ef x) -> snd kv <> JNull) ->
     In kv (members (encode_token ef t)) -> snd kv <> JNull) /\
  (forall (EF : Type) (ef : ef_schema EF) r kv,
     (forall x kv, In kv (ef_encode ef x) -> snd kv <> JNull) ->
     In kv (members (encode_introspection ef r)) -> snd kv <> JNull) /\
  (forall (EF : Type) (ef : ef_schema EF) d kv,
     (forall x kv, In kv (ef_encode ef x) -> snd kv <> JNull) ->
     In kv (members (encode_device_auth ef d)) -> snd kv <> JNull) /\
  (forall (T : Type) (as_ref : T -> bytes) e kv,
     In kv (members (encode_error as_ref e)) -> snd kv <> JNull).
Proof.
  exact (conj (@encode_token_no_null) (conj (@encode_introspection_no_null)
        (conj (@encode_device_no_null) (@encode_error_no_null)))).
Qed.

(* scopes are written as one space-delimited string; the legacy alias is written under its RFC
   name *)
Theorem C16_names :
  (forall (EF : Type) (ef : ef_schema EF) t,
     find_key (s2b "scope") (members (encode_token ef t)) =
     match tr_scopes t with
     | Some l => Some (JStr (join [space] l) true)
     | None => find_key (s2b "scope") (ef_encode ef (tr_extra t))
     end) /\
  (forall (EF : Type) (ef : ef_schema EF) d,
     find_key (s2b "verification_uri") (members (encode_device_auth ef d))
       = Some (JStr (da_verification_uri d) true)).
Proof.
  split; [exact @encode_token_scope|].
  intros EF ef d. exact (proj1 (encode_device_names ef d)).
Qed.

(* KNOWN FINDING (D6): a scope list that is Some([]) is outside the canonical class, and it
   genuinely does not round-trip: it is written as "" and read back as one empty scope *)
Theorem C16_empty_scopes_refuted :
  let t := {| tr_access := s2b "t"; tr_type := Bearer; tr_expires := None; tr_refresh := None;
              tr_scopes := Some []; tr_extra := tt |} in
  decode_token ef_empty (encode_token ef_empty t) =
  Some {| tr_access := s2b "t"; tr_type := Bearer; tr_expires := None; tr_refresh := None;
          tr_scopes := Some [[]]; tr_extra := tt |} /\
  token_canon (fun _ => true) t = false.
Proof. exact empty_scopes_refuted. Qed.
