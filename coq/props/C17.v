(* C17 — blocking and future-based calls are interchangeable and runtime-independent
   (partial: the theorems are about the poll model of model/AsyncExec.v, whose contract —
   a resumed future continues with the same state — is Rust's async lowering; Send-ness of the
   futures is decided by rustc probes).  Statements only. *)
From OA Require Import Bytes AsyncExec AsyncExec_proofs.

(* for every program (any request flow, including the unbounded poll loop unrolled to any depth),
   every environment (scripted server / clock) and every assignment of pending counts to the
   inner futures, a bare poll loop returns exactly the blocking outcome and issues exactly the
   same sequence of effects (requests, sleeps, clock reads) *)
Theorem C17_schedule_independent :
  forall (Eff Ans R : Type) (env : list Eff -> Eff -> Ans) (p : prog Eff Ans R) hist ds,
    exists fuel0, forall fuel, (fuel0 <= fuel)%nat ->
      run_bare Eff Ans R env fuel (Run p) hist ds = Some (run_sync Eff Ans R env p hist).
Proof. exact bare_eq_sync. Qed.

(* several requests in flight from one shared (immutable) client, polled in any interleaving:
   each one's state is what polling it alone the same number of times gives *)
Theorem C17_isolation :
  forall (Eff Ans R : Type) (env : list Eff -> Eff -> Ans) (d : task Eff Ans R) sched ts i,
    (i < length ts)%nat ->
    nth i (run_sched Eff Ans R env sched ts) d
    = iter (count_in i sched) (poll_task Eff Ans R env) (nth i ts d).
Proof. exact isolation. Qed.

Example C17_example :
  let env := fun (h : list nat) (e : nat) => (e + length h)%nat in
  let p := Do 1%nat (fun a => Do a (fun b => Ret (a, b))) in
  run_bare nat nat (nat * nat) env 10 (Run p) [] [3; 0]%nat = Some (run_sync nat nat (nat * nat) env p []) /\
  run_bare nat nat (nat * nat) env 10 (Run p) [] [0; 5]%nat = Some (run_sync nat nat (nat * nat) env p []).
Proof. vm_compute. split; reflexivity. Qed.
