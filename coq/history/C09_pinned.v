(* Record of the pinned ureq adapter (D5): `.map_err(Box::new)?` on the result of send_bytes turned
   ureq::Error::Status(code, response) — i.e. every 4xx/5xx reply — into Err. *)
From OA Require Import Bytes Adapters.
Local Open Scope N_scope.

Definition from_lib_pinned (a : adapter) (l : lib_result) : option wire_reply :=
  match l with
  | LibResponse r => Some r
  | LibStatusError _ => None
  | LibTransportError => None
  end.

Lemma C09_ureq_refuted :
  exists r, 400 <= w_status r /\
            from_lib_pinned Ureq (lib_behaviour Ureq (SReply r)) = None.
Proof.
  exists {| w_status := 400; w_ct := None; w_body := s2b "{""error"":""invalid_grant""}" |}.
  split; [discriminate|reflexivity].
Qed.
