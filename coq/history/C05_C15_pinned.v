(* Records of two more pinned behaviours repaired by fix: commits (D3, D4). *)
From OA Require Import Bytes Json Serde.

(* D3: endpoint_response never asked the deserializer for end(): anything after the first JSON
   value was ignored *)
Definition from_body_pinned {A} (dec : json -> option A) (body : bytes) : option A :=
  match json_parse_prefix body with Some (j, _) => dec j | None => None end.

Lemma C05_trailing_data_refuted :
  exists body t,
    from_body_pinned (decode_token ef_empty) body = Some t /\
    from_body (decode_token ef_empty) body = None.
Proof.
  exists (s2b "{""access_token"":""t"",""token_type"":""bearer""} trailing garbage }}}").
  eexists. split; vm_compute; reflexivity.
Qed.

(* D4: the case-insensitive helper deserialized a String unconditionally: null was an error *)
Definition d_opt_token_type_pinned (j : json) : option (option token_type) :=
  option_map Some (d_token_type j).

Lemma C15_null_token_type_refuted :
  d_opt_token_type_pinned JNull = None /\ d_opt_token_type JNull = Some None.
Proof. split; reflexivity. Qed.
