(* Record of the pinned (pre-fix) behaviour of process_response and the two refutations that
   were found by proving (DESIGN.md section 6, D1 and D2).  Not part of the model of the
   current tree; kept so the witnesses stay machine-checked and replayable (corpus/C07). *)
From OA Require Import Bytes DevicePoll.
From Coq Require Import ZArith.
Local Open Scope N_scope.

(* pinned: min(checked_mul(2).unwrap_or(cur), ceiling) *)
Definition backoff_pinned (ceiling cur : N) : N := N.min (doubled cur) ceiling.
(* pinned: cur + 5 s, which panics when the sum exceeds Duration::MAX *)
Definition slow_pinned (cur : N) : option N :=
  if cur + five_s <=? DMAX then Some (cur + five_s) else None.

(* D1: server interval 30 s, default ceiling 10 s, one transport failure: the wait drops to 10 s,
   below the server's floor *)
Lemma C07_floor_refuted :
  exists ceiling cur, backoff_pinned ceiling cur < cur /\ cur = 30 * NS /\ ceiling = default_backoff.
Proof. exists default_backoff, (30 * NS). vm_compute. repeat split. Qed.

(* D2: interval u64::MAX seconds, one slow_down: the addition overflows (panic) *)
Lemma C07_no_panic_refuted :
  exists cur, cur <= DMAX /\ cur = U64MAX * NS /\ slow_pinned cur = None.
Proof. exists (U64MAX * NS). vm_compute. repeat split. discriminate. Qed.

(* the repaired functions never do either *)
Lemma backoff_fixed_never_shortens ceiling cur : cur <= backoff ceiling cur.
Proof. unfold backoff. apply N.le_max_l. Qed.
