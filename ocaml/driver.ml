(* Generic driver for the extracted model: one protocol line in, one observation line out.
   All per-property logic lives in the extracted Gallina function Model.run_line; this file
   only converts between OCaml strings and the extracted [ascii list]. *)
let ascii_of_char (c : char) : Model.ascii =
  let n = Char.code c in
  let b i = (n lsr i) land 1 = 1 in
  Model.Ascii (b 0, b 1, b 2, b 3, b 4, b 5, b 6, b 7)

let char_of_ascii (a : Model.ascii) : char =
  match a with
  | Model.Ascii (b0, b1, b2, b3, b4, b5, b6, b7) ->
    let v b i = if b then 1 lsl i else 0 in
    Char.chr (v b0 0 + v b1 1 + v b2 2 + v b3 3 + v b4 4 + v b5 5 + v b6 6 + v b7 7)

let explode (s : string) : Model.ascii list =
  let rec go i acc = if i < 0 then acc else go (i - 1) (ascii_of_char s.[i] :: acc) in
  go (String.length s - 1) []

let implode (l : Model.ascii list) : string =
  let b = Buffer.create 256 in
  List.iter (fun a -> Buffer.add_char b (char_of_ascii a)) l;
  Buffer.contents b

let () =
  try
    while true do
      let line = input_line stdin in
      let out =
        try implode (Model.run_line (explode line))
        with Stack_overflow -> "MODEL-STACK-OVERFLOW"
      in
      print_string out; print_char '\n'
    done
  with End_of_file -> ()
