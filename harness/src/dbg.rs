//! C10: Debug formatting of every library container that can hold a secret.
use crate::proto::*;
use oauth2::basic::*;
use oauth2::*;
use std::borrow::Cow;
use std::marker::PhantomData;

struct P {
    p: Vec<String>,
    s: Vec<String>,
}

fn client(q: &P) -> BasicClient<EndpointSet, EndpointNotSet, EndpointNotSet, EndpointNotSet, EndpointSet> {
    BasicClient::new(ClientId::new(q.p[0].clone()))
        .set_client_secret(ClientSecret::new(q.s[0].clone()))
        .set_auth_uri(AuthUrl::new("https://a.example/auth".to_string()).unwrap())
        .set_token_uri(TokenUrl::new("https://t.example/token".to_string()).unwrap())
        .set_redirect_uri(RedirectUrl::new("https://c.example/cb".to_string()).unwrap())
}

fn fmt<T: std::fmt::Debug>(pretty: bool, t: &T) -> String {
    if pretty {
        format!("{:#?}", t)
    } else {
        format!("{:?}", t)
    }
}

/// the text PhantomData prints for the container's type parameters
pub fn phantom(kind: &str) -> String {
    type TE = BasicErrorResponse;
    type TR = BasicTokenResponse;
    match kind {
        "client" => format!("{:?}", PhantomData::<(TE, TR, BasicTokenIntrospectionResponse, StandardRevocableToken, BasicRevocationErrorResponse, EndpointSet, EndpointNotSet, EndpointNotSet, EndpointNotSet, EndpointSet)>),
        "code_req" | "refresh_req" | "password_req" | "cc_req" => format!("{:?}", PhantomData::<(TE, TR)>),
        "devauth_req" => format!("{:?}", PhantomData::<TE>),
        "introspect_req" => format!("{:?}", PhantomData::<(TE, BasicTokenIntrospectionResponse)>),
        "revoke_req" => format!("{:?}", PhantomData::<(StandardRevocableToken, BasicRevocationErrorResponse)>),
        _ => String::new(),
    }
}

/// `DBGPH container` -> phantom text; `DBG pretty container pubs secs phantom` -> formatted value
pub fn dbgph(ws: &[&str]) -> String {
    match ws.first() {
        Some(k) => tok_bytes(phantom(k).as_bytes()),
        None => BAD.into(),
    }
}

pub fn run(ws: &[&str]) -> String {
    if ws.len() != 5 {
        return BAD.into();
    }
    let pretty = ws[0] == "1";
    let (p, s) = match (untok_list_str(ws[2]), untok_list_str(ws[3])) {
        (Some(p), Some(s)) if p.len() == 5 && s.len() == 4 => (p, s),
        _ => return BAD.into(),
    };
    let q = P { p, s };
    let c = client(&q);
    let c_full = BasicClient::new(ClientId::new(q.p[0].clone()))
        .set_client_secret(ClientSecret::new(q.s[0].clone()))
        .set_device_authorization_url(DeviceAuthorizationUrl::new("https://d.example/device".to_string()).unwrap())
        .set_introspection_url(IntrospectionUrl::new("https://i.example/introspect".to_string()).unwrap())
        .set_revocation_url(RevocationUrl::new("https://r.example/revoke".to_string()).unwrap());
    let out = match ws[1] {
        "client" => fmt(pretty, &c),
        "code_req" => fmt(
            pretty,
            &c.exchange_code(AuthorizationCode::new(q.s[1].clone()))
                .add_extra_param(q.p[1].clone(), q.p[2].clone())
                .set_pkce_verifier(PkceCodeVerifier::new(q.s[2].clone())),
        ),
        "refresh_req" => {
            let rt = RefreshToken::new(q.s[1].clone());
            fmt(pretty, &c.exchange_refresh_token(&rt).add_extra_param(q.p[1].clone(), q.p[2].clone()).add_scope(Scope::new(q.p[3].clone())))
        }
        "password_req" => {
            let u = ResourceOwnerUsername::new(q.p[4].clone());
            let pw = ResourceOwnerPassword::new(q.s[1].clone());
            fmt(pretty, &c.exchange_password(&u, &pw).add_extra_param(q.p[1].clone(), q.p[2].clone()).add_scope(Scope::new(q.p[3].clone())))
        }
        "cc_req" => fmt(pretty, &c.exchange_client_credentials().add_extra_param(q.p[1].clone(), q.p[2].clone()).add_scope(Scope::new(q.p[3].clone()))),
        "devauth_req" => fmt(pretty, &c_full.exchange_device_code().add_extra_param(q.p[1].clone(), q.p[2].clone()).add_scope(Scope::new(q.p[3].clone()))),
        "introspect_req" => {
            let t = AccessToken::new(q.s[1].clone());
            fmt(pretty, &c_full.introspect(&t).set_token_type_hint(q.p[4].clone()).add_extra_param(q.p[1].clone(), q.p[2].clone()))
        }
        "revoke_req" => fmt(
            pretty,
            &c_full
                .revoke_token(StandardRevocableToken::AccessToken(AccessToken::new(q.s[1].clone())))
                .unwrap()
                .add_extra_param(q.p[1].clone(), q.p[2].clone()),
        ),
        "auth_req" => fmt(
            pretty,
            &c.authorize_url(|| CsrfToken::new(q.s[1].clone()))
                .add_extra_param(q.p[1].clone(), q.p[2].clone())
                .set_response_type(&ResponseType::new(q.p[4].clone()))
                .add_scope(Scope::new(q.p[3].clone())),
        ),
        "token_resp" => {
            let mut t = BasicTokenResponse::new(AccessToken::new(q.s[1].clone()), BasicTokenType::Bearer, EmptyExtraTokenFields {});
            t.set_expires_in(Some(&std::time::Duration::from_secs(3600)));
            t.set_refresh_token(Some(RefreshToken::new(q.s[2].clone())));
            t.set_scopes(Some(vec![Scope::new(q.p[3].clone())]));
            fmt(pretty, &t)
        }
        "intro_resp" => {
            let mut r = BasicTokenIntrospectionResponse::new(true, EmptyExtraTokenFields {});
            r.set_scopes(Some(vec![Scope::new(q.p[3].clone())]));
            r.set_client_id(Some(ClientId::new(q.p[0].clone())));
            r.set_username(Some(q.p[4].clone()));
            r.set_token_type(Some(BasicTokenType::Bearer));
            r.set_aud(Some(vec![q.p[1].clone(), q.p[2].clone()]));
            fmt(pretty, &r)
        }
        "dev_resp" => {
            let doc = serde_json::json!({"device_code": q.s[1], "user_code": q.s[2], "verification_uri": "https://v.example/",
                                         "verification_uri_complete": q.s[3], "expires_in": 1800});
            let d: StandardDeviceAuthorizationResponse = serde_json::from_value(doc).unwrap();
            fmt(pretty, &d)
        }
        "dev_resp_nouri" => {
            // only verification_uri_complete (carrying the user code in path and fragment) is sent
            let complete = format!("https://v.example/device/{}?c={}#user_code={}", q.s[2], q.s[2], q.s[2]);
            let doc = serde_json::json!({"device_code": q.s[1], "user_code": q.s[2], "verification_uri_complete": complete, "expires_in": 1800});
            match serde_json::from_value::<StandardDeviceAuthorizationResponse>(doc) {
                Ok(d) => fmt(pretty, &(Some(&d), vec![&d])),
                Err(_) => "rejected".to_string(),
            }
        }
        "revocable" => fmt(pretty, &StandardRevocableToken::RefreshToken(RefreshToken::new(q.s[1].clone()))),
        "nest" => fmt(
            pretty,
            &(
                Some(ClientSecret::new(q.s[0].clone())),
                vec![AccessToken::new(q.s[1].clone()), AccessToken::new(q.s[2].clone())],
                (CsrfToken::new(q.s[3].clone()), q.p[0].clone()),
                None::<DeviceCode>,
                Some(vec![Some(ResourceOwnerPassword::new(q.s[1].clone()))]),
            ),
        ),
        _ => return BAD.into(),
    };
    let _ = Cow::Borrowed("");
    tok_bytes(out.as_bytes())
}


/// `DBGERR pretty secs`: Debug of the ERROR values that carry a reply which could not be used — a 200
/// reply whose body holds four secrets but does not parse (scope sent as an array), and a non-200
/// reply of the same kind.  No recognisable part of the secrets may appear.
pub fn dbgerr(ws: &[&str]) -> String {
    if ws.len() != 2 {
        return BAD.into();
    }
    let secs = match untok_list_str(ws[1]) {
        Some(l) if l.len() == 4 => l,
        _ => return BAD.into(),
    };
    let body = serde_json::json!({"access_token": secs[0], "token_type": "bearer", "refresh_token": secs[1], "device_code": secs[2],
                                  "user_code": secs[3], "verification_uri": "https://v/", "expires_in": "soon", "scope": [1]})
    .to_string()
    .into_bytes();
    let client = BasicClient::new(ClientId::new("id".to_string()))
        .set_token_uri(TokenUrl::new("https://t.example/token".to_string()).unwrap())
        .set_device_authorization_url(DeviceAuthorizationUrl::new("https://t.example/dev".to_string()).unwrap());
    let mut out = String::new();
    for status in [200u16, 400] {
        let b = body.clone();
        let http = move |_r: HttpRequest| -> Result<HttpResponse, crate::kinds::FakeError> {
            Ok(http::Response::builder().status(status).header("content-type", "application/json").body(b.clone()).unwrap())
        };
        let r1 = client.exchange_code(AuthorizationCode::new("c".to_string())).request(&http);
        let r2: Result<StandardDeviceAuthorizationResponse, _> = client.exchange_device_code().request(&http);
        if ws[0] == "1" {
            out.push_str(&format!("{:#?}\n{:#?}\n", r1, r2));
            if let Err(e) = &r1 {
                out.push_str(&format!("{:#?}\n{}\n", e, e));
            }
        } else {
            out.push_str(&format!("{:?}\n{:?}\n", r1, r2));
            if let Err(e) = &r1 {
                out.push_str(&format!("{:?}\n{}\n", e, e));
            }
        }
    }
    // requests whose extension parameters are NAMED like the parameters that carry secrets: whatever the library makes of
    // the collision (it sends both), nothing it returns shows the secrets
    {
        let c2 = client.clone().set_client_secret(ClientSecret::new(secs[0].clone())).set_auth_type(AuthType::RequestBody)
            .set_introspection_url(IntrospectionUrl::new("https://t.example/i".to_string()).unwrap())
            .set_revocation_url(RevocationUrl::new("https://t.example/r".to_string()).unwrap());
        let http = |_r: HttpRequest| -> Result<HttpResponse, crate::kinds::FakeError> {
            Ok(http::Response::builder().status(400).header("content-type", "application/json").body(b"{\"error\":\"invalid_request\"}".to_vec()).unwrap())
        };
        let r1 = c2.exchange_code(AuthorizationCode::new(secs[1].clone())).set_pkce_verifier(PkceCodeVerifier::new(secs[2].clone()))
            .add_extra_param("code", "dup").add_extra_param("code_verifier", "dup").add_extra_param("client_secret", "dup").request(&http);
        let rt = RefreshToken::new(secs[3].clone());
        let r2 = c2.exchange_refresh_token(&rt).add_extra_param("refresh_token", "dup").request(&http);
        let (u, p) = (ResourceOwnerUsername::new("user".to_string()), ResourceOwnerPassword::new(secs[1].clone()));
        let r3 = c2.exchange_password(&u, &p).add_extra_param("password", "dup").request(&http);
        let at = AccessToken::new(secs[2].clone());
        let r4 = c2.introspect(&at).add_extra_param("token", "dup").request(&http);
        let r5 = c2.revoke_token(StandardRevocableToken::AccessToken(AccessToken::new(secs[3].clone()))).unwrap().add_extra_param("token", "dup").request(&http);
        if ws[0] == "1" {
            out.push_str(&format!("{:#?}\n{:#?}\n{:#?}\n{:#?}\n{:#?}\n", r1, r2, r3, r4, r5));
        } else {
            out.push_str(&format!("{:?}\n{:?}\n{:?}\n{:?}\n{:?}\n", r1, r2, r3, r4, r5));
        }
        for e in [r1.err().map(|e| e.to_string()), r2.err().map(|e| e.to_string()), r3.err().map(|e| e.to_string()), r4.err().map(|e| e.to_string()), r5.err().map(|e| e.to_string())].into_iter().flatten() {
            out.push_str(&e);
            out.push('\n');
        }
    }
    // a token response whose application-defined extension type holds library secret types itself (an id token kept as an
    // AccessToken, a list of RefreshTokens): formatted, it reveals none of them
    #[derive(Debug, Clone, serde::Serialize, serde::Deserialize)]
    struct SecretExt {
        id_token: Option<AccessToken>,
        more: Option<Vec<RefreshToken>>,
        pair: Option<(String, RefreshToken)>,
    }
    impl ExtraTokenFields for SecretExt {}
    let doc = serde_json::json!({"access_token": secs[0], "token_type": "bearer", "refresh_token": secs[1], "id_token": secs[2], "more": [secs[3], secs[0]], "pair": ["public", secs[1]]});
    match serde_json::from_value::<StandardTokenResponse<SecretExt, BasicTokenType>>(doc) {
        Ok(t) => {
            if ws[0] == "1" {
                out.push_str(&format!("{:#?}\n{:#?}\n", t, Some(vec![t.clone()])));
            } else {
                out.push_str(&format!("{:?}\n{:?}\n", t, Some(vec![t.clone()])));
            }
        }
        Err(_) => out.push_str("secret-ext-rejected\n"),
    }
    // what a secret feeds to an application's Hasher (timing-resistant feature): nothing recognisable of its contents
    {
        struct Recording(Vec<u8>);
        impl std::hash::Hasher for Recording {
            fn finish(&self) -> u64 {
                0
            }
            fn write(&mut self, b: &[u8]) {
                self.0.extend_from_slice(b);
            }
        }
        use std::hash::Hash;
        let mut rec = Recording(vec![]);
        ClientSecret::new(secs[0].clone()).hash(&mut rec);
        AccessToken::new(secs[1].clone()).hash(&mut rec);
        Some(vec![(RefreshToken::new(secs[2].clone()), 1u8)]).hash(&mut rec);
        UserCode::new(secs[3].clone()).hash(&mut rec);
        out.push_str("hasher-input: ");
        out.push_str(&String::from_utf8_lossy(&rec.0));
        out.push('\n');
    }
    // the errors the library makes up itself at the end of a device-flow poll (deadline passed; access denied), blocking and
    // future-based, from a response holding the device code and the user code
    let details: Result<StandardDeviceAuthorizationResponse, _> = serde_json::from_value(serde_json::json!({
        "device_code": secs[2], "user_code": secs[3], "verification_uri": "https://v/", "verification_uri_complete": format!("https://v/?c={}", secs[1].replace(|c: char| !c.is_ascii_alphanumeric(), "")),
        "expires_in": 10, "interval": 0}));
    if let Ok(details) = details {
        for reply in [&b"{\"error\":\"authorization_pending\"}"[..], &b"{\"error\":\"access_denied\"}"[..]] {
            let http = move |_r: HttpRequest| -> Result<HttpResponse, crate::kinds::FakeError> {
                Ok(http::Response::builder().status(400).header("content-type", "application/json").body(reply.to_vec()).unwrap())
            };
            let n = std::sync::atomic::AtomicI64::new(0);
            let clock = || chrono::DateTime::<chrono::Utc>::from_timestamp(1_700_000_000 + 6 * n.fetch_add(1, std::sync::atomic::Ordering::SeqCst), 0).unwrap();
            let r1 = client.exchange_device_access_token(&details).set_time_fn(clock).request(&http, |_d| {}, None);
            let n2 = std::sync::atomic::AtomicI64::new(0);
            let clock2 = || chrono::DateTime::<chrono::Utc>::from_timestamp(1_700_000_000 + 6 * n2.fetch_add(1, std::sync::atomic::Ordering::SeqCst), 0).unwrap();
            let ahttp = |r: HttpRequest| std::future::ready(http(r));
            let r2 = crate::exec::block_on(client.exchange_device_access_token(&details).set_time_fn(clock2).request_async(&ahttp, |_d| std::future::ready(()), None));
            for r in [&r1, &r2] {
                if ws[0] == "1" {
                    out.push_str(&format!("{:#?}\n", r));
                } else {
                    out.push_str(&format!("{:?}\n", r));
                }
                if let Err(e) = r {
                    out.push_str(&format!("{}\n", e));
                    if let RequestTokenError::ServerResponse(se) = e {
                        out.push_str(&format!("{} | {:?} | {:?}\n", se, se.error_description(), se.error_uri()));
                    }
                }
            }
        }
    }
    tok_bytes(out.as_bytes())
}
