//! C07 / C08 (and the poll-loop part of C17): the device-flow poll loop under a scripted
//! server, a scripted clock and a recording sleep function.
use crate::exec::{parse_variant, Delay};
use crate::kinds::{self, FakeError};
use crate::proto::*;
use chrono::{DateTime, Utc};
use oauth2::basic::{BasicClient, BasicTokenResponse};
use oauth2::{
    ClientId, ClientSecret, DeviceCodeErrorResponse, HttpRequest, HttpResponse, RequestTokenError,
    StandardDeviceAuthorizationResponse, TokenResponse, TokenUrl,
};
use std::cell::RefCell;
use std::sync::Mutex;
use std::time::Duration;

pub fn render_result<RE: std::error::Error + 'static>(
    r: &Result<BasicTokenResponse, RequestTokenError<RE, DeviceCodeErrorResponse>>,
) -> String {
    match r {
        Ok(t) => format!("ok:{}", tok_bytes(t.access_token().secret().as_bytes())),
        Err(RequestTokenError::ServerResponse(e)) => format!(
            "server:{}:{}",
            tok_bytes(e.error().as_ref().as_bytes()),
            tok_opt(e.error_description().map(|s| s.as_bytes()))
        ),
        Err(RequestTokenError::Parse(_, body)) => format!("parse:{}", tok_bytes(body)),
        Err(RequestTokenError::Other(_)) => "other".to_string(),
        Err(RequestTokenError::Request(_)) => "request".to_string(),
    }
}

pub fn dt_of_ns(ns: i128) -> Option<DateTime<Utc>> {
    let secs = ns.div_euclid(1_000_000_000);
    let nanos = ns.rem_euclid(1_000_000_000) as u32;
    DateTime::from_timestamp(i64::try_from(secs).ok()?, nanos)
}
pub fn dur_of_ns(ns: u128) -> Option<Duration> {
    let secs = u64::try_from(ns / 1_000_000_000).ok()?;
    Some(Duration::new(secs, (ns % 1_000_000_000) as u32))
}

pub fn req_fingerprint(r: &HttpRequest) -> String {
    let mut hs: Vec<String> = r
        .headers()
        .iter()
        .map(|(k, v)| format!("{}:{}", k.as_str(), hex(v.as_bytes())))
        .collect();
    hs.sort();
    format!("{} {} {} {}", r.method(), r.uri(), hs.join(","), hex(r.body()))
}

/// `POLL <sync|async[:k]> <abs|null|n> <backoff ns|-> <timeout ns|-> <expires s> <req_ok> <clock> <script>`
pub fn run(ws: &[&str]) -> String {
    if ws.len() != 8 {
        return BAD.into();
    }
    let variant = ws[0];
    let interval_json = match ws[1] {
        "abs" => String::new(),
        "null" => ",\"interval\":null".to_string(),
        n => {
            if n.parse::<u64>().is_err() {
                return BAD.into();
            }
            format!(",\"interval\":{}", n)
        }
    };
    let backoff = match ws[2] {
        "-" => None,
        n => match n.parse::<u128>().ok().and_then(dur_of_ns) {
            Some(d) => Some(d),
            None => return BAD.into(),
        },
    };
    let timeout = match ws[3] {
        "-" => None,
        n => match n.parse::<u128>().ok().and_then(dur_of_ns) {
            Some(d) => Some(d),
            None => return BAD.into(),
        },
    };
    let expires: u64 = match ws[4].parse() {
        Ok(e) => e,
        Err(_) => return BAD.into(),
    };
    let req_ok = ws[5] == "1";
    let clock: Vec<DateTime<Utc>> = if ws[6] == "." {
        vec![]
    } else {
        let mut v = vec![];
        for t in ws[6].split(',') {
            match t.parse::<i128>().ok().and_then(dt_of_ns) {
                Some(d) => v.push(d),
                None => return BAD.into(),
            }
        }
        v
    };
    let script: Vec<&'static kinds::Kind> = if ws[7] == "." {
        vec![]
    } else {
        let mut v = vec![];
        for n in ws[7].split(',') {
            match kinds::find(n) {
                Some(k) => v.push(k),
                None => return BAD.into(),
            }
        }
        v
    };
    let doc = format!(
        "{{\"device_code\":\"dc\",\"user_code\":\"uc\",\"verification_uri\":\"https://v/\",\"expires_in\":{}{}}}",
        expires, interval_json
    );
    let details: StandardDeviceAuthorizationResponse = serde_json::from_str(&doc).unwrap();
    let token_url = if req_ok {
        "https://example.com/token".to_string()
    } else {
        format!("https://example.com/{}", "a".repeat(70000))
    };
    let client = BasicClient::new(ClientId::new("aaa".to_string()))
        .set_client_secret(ClientSecret::new("bbb".to_string()))
        .set_token_uri(TokenUrl::new(token_url).unwrap());

    let events: RefCell<Vec<String>> = RefCell::new(vec![]);
    let events_time: Mutex<(usize, Vec<String>)> = Mutex::new((0, vec![]));
    // time_fn must be Send + Sync: it records into its own Mutex; the order relative to the
    // other events is reconstructed from a shared sequence counter.
    let seq = std::sync::atomic::AtomicUsize::new(0);
    let time_log: Mutex<Vec<(usize, String)>> = Mutex::new(vec![]);
    let other_log: RefCell<Vec<(usize, String)>> = RefCell::new(vec![]);
    let reqs: RefCell<Vec<String>> = RefCell::new(vec![]);
    let script_pos = RefCell::new(0usize);
    let _ = (&events, &events_time);

    let time_fn = || {
        let mut g = time_log.lock().unwrap();
        let i = g.len();
        if i >= clock.len() {
            std::panic::panic_any(Exhausted);
        }
        let t = clock[i];
        let s = seq.fetch_add(1, std::sync::atomic::Ordering::SeqCst);
        let ns = t.timestamp() as i128 * 1_000_000_000 + t.timestamp_subsec_nanos() as i128;
        g.push((s, format!("N{}", ns)));
        t
    };
    let next_reply = |r: HttpRequest| -> Result<HttpResponse, FakeError> {
        let s = seq.fetch_add(1, std::sync::atomic::Ordering::SeqCst);
        other_log.borrow_mut().push((s, "P".to_string()));
        reqs.borrow_mut().push(req_fingerprint(&r));
        if !String::from_utf8_lossy(r.body()).ends_with("&zeta=1&alpha=2&mid=3&alpha=4&beta=5&omega=6") {
            other_log.borrow_mut().push((s, "extras-not-in-the-callers-order".to_string()));
        }
        let mut p = script_pos.borrow_mut();
        if *p >= script.len() {
            std::panic::panic_any(Exhausted);
        }
        let k = script[*p];
        let i = *p;
        *p += 1;
        // every other reply carries headers that say nothing about the protocol state (a rate
        // limiter's Retry-After, cache directives, a Date): the waits may not depend on them
        kinds::response_of(k).map(|mut resp| {
            if (i + script.len()) % 2 == 0 {
                let h = resp.headers_mut();
                h.insert(http::header::RETRY_AFTER, http::HeaderValue::from_static(["0", "1", "120"][i % 3]));
                h.insert(http::header::CACHE_CONTROL, http::HeaderValue::from_static("no-store, max-age=0"));
                h.insert(http::header::PRAGMA, http::HeaderValue::from_static("no-cache"));
                h.insert(http::header::DATE, http::HeaderValue::from_static("Thu, 01 Jan 1970 00:00:00 GMT"));
                h.insert("x-ratelimit-reset", http::HeaderValue::from_static("1"));
                h.insert("x-poll-interval", http::HeaderValue::from_static("1"));
                for (n, v) in extra_noise_headers() {
                    h.insert(http::HeaderName::from_bytes(n.as_bytes()).unwrap(), http::HeaderValue::from_str(v).unwrap());
                }
            }
            resp
        })
    };
    let log_sleep = |d: Duration| {
        let s = seq.fetch_add(1, std::sync::atomic::Ordering::SeqCst);
        other_log.borrow_mut().push((s, format!("S{}", d.as_nanos())));
    };

    // builder order varies from case to case: the ceiling is set before or after the time source
    let order_bit = ws.iter().flat_map(|w| w.bytes()).fold(0xcbf29ce484222325u64, |h, b| (h ^ b as u64).wrapping_mul(0x100000001b3)) >> 17 & 1;
    // in half of the cases each setter is first called with a value that is then superseded (a
    // clock that must never be consulted, another ceiling)
    let twice = ws.iter().flat_map(|w| w.bytes()).fold(0xcbf29ce484222325u64, |h, b| (h ^ b as u64).wrapping_mul(0x100000001b3)) >> 27 & 1 == 0;
    let dead_clock = || -> DateTime<Utc> { std::panic::panic_any(Exhausted) };
    let req = if order_bit == 0 {
        let req = client.exchange_device_access_token(&details).add_extra_param("zeta", "1").add_extra_param("alpha", "2").add_extra_param("mid", "3").add_extra_param("alpha", "4").add_extra_param("beta", "5").add_extra_param("omega", "6");
        let mut req = if twice { req.set_time_fn(dead_clock).set_time_fn(time_fn) } else { req.set_time_fn(time_fn) };
        if let Some(b) = backoff {
            if twice {
                req = req.set_max_backoff_interval(Duration::from_secs(123));
            }
            req = req.set_max_backoff_interval(b);
        }
        req
    } else {
        let mut req = client.exchange_device_access_token(&details).add_extra_param("zeta", "1").add_extra_param("alpha", "2").add_extra_param("mid", "3").add_extra_param("alpha", "4").add_extra_param("beta", "5").add_extra_param("omega", "6");
        if let Some(b) = backoff {
            if twice {
                req = req.set_max_backoff_interval(Duration::from_millis(1));
            }
            req = req.set_max_backoff_interval(b);
        }
        req.set_time_fn(time_fn)
    };
    let var = match parse_variant(variant) {
        Some(v) => v,
        None => return BAD.into(),
    };
    // the transport's error TYPE varies from failure to failure (the library's own HttpClientError
    // with each of its variants, http::Error and io::Error included): a failure is a failure
    let fail_no = std::cell::Cell::new(0usize);
    let typed_reply = |r: HttpRequest| -> Result<HttpResponse, oauth2::HttpClientError<FakeError>> {
        next_reply(r).map_err(|e| {
            let n = fail_no.get();
            fail_no.set(n + 1);
            let kinds = [std::io::ErrorKind::TimedOut, std::io::ErrorKind::ConnectionReset, std::io::ErrorKind::UnexpectedEof, std::io::ErrorKind::InvalidData,
                         std::io::ErrorKind::ConnectionRefused, std::io::ErrorKind::InvalidInput, std::io::ErrorKind::WouldBlock, std::io::ErrorKind::Interrupted];
            // (the variant rotates from a start that depends on the case, so that short scripts see every one)
            match (n + script.len() * 3 + clock.len()) % 4 {
                0 => oauth2::HttpClientError::Other(e.0),
                1 => oauth2::HttpClientError::Http(http::Error::from(http::StatusCode::from_u16(0).unwrap_err())),
                2 => oauth2::HttpClientError::Io(std::io::Error::new(kinds[(n / 4 + script.len() + clock.len()) % kinds.len()], e.0)),
                _ => oauth2::HttpClientError::Reqwest(Box::new(e)),
            }
        })
    };
    // One session = one run of the poll loop; its observation is the outcome plus the ordered
    // event trace.  The request builder is cloned first: a second session run afterwards from the
    // clone, against the same scripted server and clock, must give the same observation, and the
    // device-authorization response the sessions were started from must be untouched by them.
    let details_before = format!("{}|{:?}|{:?}", serde_json::to_string(&details).unwrap(), details.interval(), details.expires_in());
    let req2 = req.clone();
    let mut session = |req: oauth2::DeviceAccessTokenRequest<'_, '_, BasicTokenResponse, oauth2::EmptyExtraDeviceAuthorizationFields>| -> Result<String, String> {
        // fresh scripted world
        seq.store(0, std::sync::atomic::Ordering::SeqCst);
        time_log.lock().unwrap().clear();
        other_log.borrow_mut().clear();
        reqs.borrow_mut().clear();
        *script_pos.borrow_mut() = 0;
        fail_no.set(0);
        let res = if var.is_sync() {
            render_result(&req.request(&typed_reply, log_sleep, timeout))
        } else {
            // every inner future reports Pending k times first
            let k = var.k();
            let http = |r: HttpRequest| Delay { n: k, v: Some(typed_reply(r)) };
            let sleep = |d: Duration| {
                log_sleep(d);
                Delay { n: k, v: Some(()) }
            };
            // a future does nothing until it is polled: no clock reading, request or wait at creation
            let fut = req.request_async(&http, sleep, timeout);
            if seq.load(std::sync::atomic::Ordering::SeqCst) != 0 {
                return Err("eager-future".to_string());
            }
            render_result(&var.drive(fut))
        };
        let mut all: Vec<(usize, String)> = time_log.lock().unwrap().clone();
        all.extend(other_log.borrow().iter().cloned());
        all.sort();
        let reqs = reqs.borrow();
        let same = if reqs.is_empty() {
            "req=none"
        } else if reqs.iter().all(|r| *r == reqs[0]) {
            "req=same"
        } else {
            "req=diff"
        };
        let mut out = vec![res, same.to_string()];
        out.extend(all.into_iter().map(|(_, e)| e));
        Ok(out.join(" "))
    };
    let first = match session(req) {
        Ok(o) => o,
        Err(e) => return e,
    };
    let details_after = format!("{}|{:?}|{:?}", serde_json::to_string(&details).unwrap(), details.interval(), details.expires_in());
    if details_after != details_before {
        return format!("response-changed-by-polling before={} after={}", tok_bytes(details_before.as_bytes()), tok_bytes(details_after.as_bytes()));
    }
    let second = match session(req2) {
        Ok(o) => o,
        Err(e) => return e,
    };
    if second != first {
        return format!("second-session-from-a-clone-differs first={} second={}", tok_bytes(first.as_bytes()), tok_bytes(second.as_bytes()));
    }
    first
}

/// The limits of the linked chrono / std, in the units of the model (ns).
pub fn bounds() -> String {
    let maxdelta = chrono::TimeDelta::MAX;
    let md = maxdelta.num_seconds() as i128 * 1_000_000_000 + maxdelta.subsec_nanos() as i128;
    let ns = |t: DateTime<Utc>| t.timestamp() as i128 * 1_000_000_000 + t.timestamp_subsec_nanos() as i128;
    // from_std must accept exactly up to TimeDelta::MAX
    let ok = chrono::Duration::from_std(dur_of_ns(md as u128).unwrap()).is_ok()
        && chrono::Duration::from_std(dur_of_ns(md as u128 + 1).unwrap()).is_err()
        && DateTime::<Utc>::MAX_UTC.checked_add_signed(chrono::Duration::nanoseconds(1)).is_none()
        && (DateTime::<Utc>::MAX_UTC - chrono::Duration::nanoseconds(1)).checked_add_signed(chrono::Duration::nanoseconds(1)).is_some();
    if !ok {
        return "chrono-limits-behave-differently".to_string();
    }
    format!("{} {} {} {}", md, ns(DateTime::<Utc>::MAX_UTC), ns(DateTime::<Utc>::MIN_UTC), Duration::MAX.as_nanos())
}
