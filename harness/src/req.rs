//! C01 / C02 / C13 (request side): build each of the eight request kinds through the public
//! builders, capture what the HTTP client is handed.  C03: the authorization URL.
use crate::exec::{parse_variant, Delay};
use crate::kinds::FakeError;
use crate::proto::*;
use oauth2::basic::*;
use oauth2::*;
use std::borrow::Cow;
use std::cell::RefCell;
use std::time::Duration;

#[derive(Clone)]
pub struct CustomToken {
    pub secret: String,
    pub hint: Option<String>,
}
impl RevocableToken for CustomToken {
    fn secret(&self) -> &str {
        &self.secret
    }
    fn type_hint(&self) -> Option<&str> {
        self.hint.as_deref()
    }
}
type CustomClient<A, D, I, R, T> = Client<
    BasicErrorResponse,
    BasicTokenResponse,
    BasicTokenIntrospectionResponse,
    CustomToken,
    BasicRevocationErrorResponse,
    A,
    D,
    I,
    R,
    T,
>;

pub fn untok_pairs(t: &str) -> Option<Vec<(String, String)>> {
    if t == "." {
        return Some(vec![]);
    }
    t.split(';')
        .map(|p| {
            let mut it = p.split('=');
            let a = untok_str(it.next()?)?;
            let b = untok_str(it.next()?)?;
            if it.next().is_some() {
                return None;
            }
            Some((a, b))
        })
        .collect()
}

pub fn render_req(r: &HttpRequest) -> String {
    let mut hs: Vec<(String, Vec<u8>)> = r
        .headers()
        .iter()
        .map(|(k, v)| (k.as_str().to_string(), v.as_bytes().to_vec()))
        .collect();
    hs.sort();
    let hs = if hs.is_empty() {
        ".".to_string()
    } else {
        hs.iter()
            .map(|(k, v)| format!("{}={}", tok_bytes(k.as_bytes()), tok_bytes(v)))
            .collect::<Vec<_>>()
            .join(";")
    };
    format!(
        "ok {} {} {} {}",
        tok_bytes(r.method().as_str().as_bytes()),
        tok_bytes(r.uri().to_string().as_bytes()),
        hs,
        tok_bytes(r.body())
    )
}

thread_local! {
    // the status of the canned reply of the current case (set per case from a hash of the line):
    // whatever the server answers, exactly ONE request is sent and it is the same request
    static CANNED_STATUS: std::cell::Cell<u16> = const { std::cell::Cell::new(200) };
}

fn canned() -> HttpResponse {
    http::Response::builder()
        .status(CANNED_STATUS.with(|c| c.get()))
        .header("content-type", "application/json")
        .body(br#"{"access_token":"t","token_type":"bearer","active":true,"device_code":"d","user_code":"u","verification_uri":"https://v/","expires_in":1}"#.to_vec())
        .unwrap()
}

/// `REQ variant kind auth id secret urlorig urltext uriok scheme defred a1 a2 a3 scopes extras`
pub fn run(ws: &[&str]) -> String {
    if ws.len() != 15 {
        return BAD.into();
    }
    let variant = match parse_variant(ws[0]) {
        Some(v) => v,
        None => return BAD.into(),
    };
    let asyncv = !variant.is_sync();
    let kind = ws[1];
    let auth = if ws[2] == "B" { AuthType::BasicAuth } else { AuthType::RequestBody };
    let (id, secret, urlorig, defred) = match (untok_str(ws[3]), untok_opt_str(ws[4]), untok_str(ws[5]), untok_opt_str(ws[9])) {
        (Some(a), Some(b), Some(c), Some(d)) => (a, b, c, d),
        _ => return BAD.into(),
    };
    let (a1, a2, a3) = (ws[10], ws[11], ws[12]);
    {
        let h = ws.iter().flat_map(|w| w.bytes()).fold(0xcbf29ce484222325u64, |h, b| (h ^ b as u64).wrapping_mul(0x100000001b3)) >> 33;
        CANNED_STATUS.with(|c| c.set([200u16, 200, 401, 400, 403, 500, 503, 302, 429, 201][(h % 10) as usize]));
    }
    // in half of the cases OTHER clients are used on this thread first: one whose request cannot
    // even be prepared, and clients whose credentials coincide with the real ones under some
    // lossy reading (other split of "id:secret", other letter case, trimmed / padded, form-decoded,
    // id and secret swapped).  Nothing of them may reach the observed request.
    // in half of the cases every setter (of the client and of the request builder) is first called
    // with a value that is then superseded: the last call must win
    let twice = ws.iter().flat_map(|w| w.bytes()).fold(0xcbf29ce484222325u64, |h, b| (h ^ b as u64).wrapping_mul(0x100000001b3)) >> 19 & 1 == 0;
    let last_decoy: RefCell<Option<(String, String)>> = RefCell::new(None);
    let others_first = ws.iter().flat_map(|w| w.bytes()).fold(0xcbf29ce484222325u64, |h, b| (h ^ b as u64).wrapping_mul(0x100000001b3)) >> 29 & 1 == 0;
    if others_first {
        let quiet = |_r: HttpRequest| -> Result<HttpResponse, FakeError> { Err(FakeError("decoy".into())) };
        let bad = BasicClient::new(ClientId::new("decoy-id".to_string()))
            .set_client_secret(ClientSecret::new("decoy-secret".to_string()))
            .set_token_uri(TokenUrl::new(format!("https://decoy.example/{}", "a".repeat(70000))).unwrap())
            .set_introspection_url(IntrospectionUrl::new(format!("https://decoy.example/{}", "b".repeat(70000))).unwrap());
        let _ = bad
            .exchange_password(&ResourceOwnerUsername::new("decoy-user".to_string()), &ResourceOwnerPassword::new("decoy-password".to_string()))
            .add_scope(Scope::new("decoy-scope".to_string()))
            .add_extra_param("decoy", "1")
            .request(&quiet);
        let _ = bad.introspect(&AccessToken::new("decoy-token".to_string())).set_token_type_hint("decoy-hint").request(&quiet);
        if let Some(sec) = &secret {
            let raw = format!("{}:{}", id, sec);
            let mut creds: Vec<(String, String)> = vec![];
            for (p, c) in raw.char_indices() {
                if c == ':' {
                    creds.push((raw[..p].to_string(), raw[p + 1..].to_string()));
                }
            }
            let dec = |x: &str| url::form_urlencoded::parse(format!("k={}", x).as_bytes()).next().map(|(_, v)| v.to_string()).unwrap_or_default();
            creds.push((id.to_uppercase(), sec.to_uppercase()));
            creds.push((id.to_lowercase(), sec.to_lowercase()));
            creds.push((id.trim().to_string(), sec.trim().to_string()));
            creds.push((format!(" {}", id), format!("{} ", sec)));
            creds.push((dec(&id), dec(sec)));
            creds.push((sec.clone(), id.clone()));
            creds.push((id.clone(), format!("{}\u{0}", sec)));
            creds.push((id.clone(), String::new()));
            creds.retain(|(a, b)| !(a == &id && b == sec));
            creds.truncate(16);
            // one of them is also used IMMEDIATELY before the observed request (see finish!)
            let pick = (ws.iter().map(|w| w.len()).sum::<usize>()) % creds.len().max(1);
            if let Some(c) = creds.get(pick) {
                *last_decoy.borrow_mut() = Some(c.clone());
            }
            for (did, dsec) in creds {
                let c = BasicClient::new(ClientId::new(did))
                    .set_client_secret(ClientSecret::new(dsec))
                    .set_auth_type(auth.clone())
                    .set_token_uri(TokenUrl::new("https://decoy.example/token".to_string()).unwrap());
                let _ = c.exchange_client_credentials().request(&quiet);
            }
        }
    }
    // a plan of builder calls: s:x.. = add_scope, m:<list> = add_scopes
    let mut plan: Vec<Vec<Scope>> = vec![];
    let mut plan_single: Vec<bool> = vec![];
    if ws[13] != "." {
        for op in ws[13].split('|') {
            if let Some(r) = op.strip_prefix("s:") {
                match untok_str(r) {
                    Some(s) => {
                        plan.push(vec![Scope::new(s)]);
                        plan_single.push(true);
                    }
                    None => return BAD.into(),
                }
            } else if let Some(r) = op.strip_prefix("m:") {
                match untok_list_str(r) {
                    Some(l) => {
                        plan.push(l.into_iter().map(Scope::new).collect());
                        plan_single.push(false);
                    }
                    None => return BAD.into(),
                }
            } else {
                return BAD.into();
            }
        }
    }
    macro_rules! apply_plan {
        ($req:expr) => {{
            let mut req = $req;
            for (chunk, single) in plan.iter().zip(plan_single.iter()) {
                if *single {
                    req = req.add_scope(chunk[0].clone());
                } else if chunk.len() % 2 == 0 {
                    req = req.add_scopes(chunk.clone());
                } else {
                    // a lazy iterator whose size hint promises nothing
                    req = req.add_scopes(chunk.clone().into_iter().filter(|_| true));
                }
            }
            req
        }};
    }
    let extras = match untok_pairs(ws[14]) {
        Some(e) => e,
        None => return BAD.into(),
    };
    // in half of the cases the redirect URLs do not come from `new` but are read through serde (a configuration file, a stored
    // client registration): the text that is sent is the text that was configured, either way
    let via_serde = ws.iter().flat_map(|w| w.bytes()).fold(0xcbf29ce484222325u64, |h, b| (h ^ b as u64).wrapping_mul(0x100000001b3)) >> 29 & 1 == 0;
    let mk_redirect = |s: String| -> Result<RedirectUrl, ()> {
        if via_serde {
            serde_json::from_value::<RedirectUrl>(serde_json::Value::String(s)).map_err(|_| ())
        } else {
            RedirectUrl::new(s).map_err(|_| ())
        }
    };
    let defred = match defred {
        None => None,
        Some(s) => match mk_redirect(s) {
            Ok(u) => Some(u),
            Err(_) => return BAD.into(),
        },
    };

    let captured: RefCell<Vec<HttpRequest>> = RefCell::new(vec![]);
    let sync_client = |r: HttpRequest| -> Result<HttpResponse, FakeError> {
        captured.borrow_mut().push(r);
        Ok(canned())
    };
    let async_client = |r: HttpRequest| {
        captured.borrow_mut().push(r);
        Delay { n: variant.k(), v: Some(Ok(canned()) as Result<HttpResponse, FakeError>) }
    };

    // a decoy request built from the SAME client and sent first: nothing of it may show up in the
    // request under observation (no state may leak between requests of one client)
    let decoy_client = |_r: HttpRequest| -> Result<HttpResponse, FakeError> { Ok(canned()) };
    let decoy_scope = || Scope::new("decoy-scope".to_string());
    macro_rules! finish {
        ($req:expr) => {{
            let mut req = $req;
            for (k, v) in extras.iter() {
                req = req.add_extra_param(k.clone(), v.clone());
            }
            // the request sent on this thread immediately before the observed one comes from
            // another client with look-alike credentials
            if let Some((did, dsec)) = last_decoy.borrow().clone() {
                let c = BasicClient::new(ClientId::new(did))
                    .set_client_secret(ClientSecret::new(dsec))
                    .set_auth_type(auth.clone())
                    .set_token_uri(TokenUrl::new("https://decoy.example/token".to_string()).unwrap());
                let _ = c.exchange_client_credentials().request(&decoy_client);
            }
            if asyncv {
                let _ = variant.drive(req.request_async(&async_client));
            } else {
                let _ = req.request(&sync_client);
            }
        }};
    }
    macro_rules! base_client {
        ($ty:ident) => {{
            // in half of the cases every setter is first called with a value that is then
            // superseded: the last call must win (rotated secret, changed auth type / redirect)
            let c = $ty::new(ClientId::new(id.clone()));
            let c = if twice {
                c.set_auth_type(match auth { AuthType::BasicAuth => AuthType::RequestBody, _ => AuthType::BasicAuth })
            } else {
                c
            };
            let c = c.set_auth_type(auth.clone());
            let c = match secret.clone() {
                Some(s) => {
                    if twice {
                        // a client that has already SENT requests with a secret that is then rotated
                        // (nothing of the old credentials may be remembered)
                        let pre = c
                            .set_client_secret(ClientSecret::new("superseded-secret".to_string()))
                            .set_token_uri(TokenUrl::new("https://decoy.example/token".to_string()).unwrap());
                        let _ = pre.exchange_client_credentials().request(&decoy_client);
                        let _ = pre.clone().exchange_client_credentials().request(&decoy_client);
                        pre.set_token_uri_option(None).set_client_secret(ClientSecret::new(s))
                    } else {
                        c.set_token_uri_option(None).set_client_secret(ClientSecret::new(s))
                    }
                }
                None => c.set_token_uri_option(None),
            };
            let c = match defred.clone() {
                Some(r) => {
                    let c = if twice {
                        c.set_redirect_uri(RedirectUrl::new("https://superseded.example/cb".to_string()).unwrap())
                    } else {
                        c
                    };
                    c.set_redirect_uri(r)
                }
                None => c,
            };
            // the typestate setters rebuild the client: everything configured so far must survive
            // them (they are set to decoys here; the endpoint under test is set afterwards)
            let c = c
                .set_auth_uri(AuthUrl::new("https://decoy.example/auth".to_string()).unwrap())
                .set_device_authorization_url(DeviceAuthorizationUrl::new("https://decoy.example/dev".to_string()).unwrap())
                .set_introspection_url(IntrospectionUrl::new("https://decoy.example/introspect".to_string()).unwrap())
                .set_revocation_url(RevocationUrl::new("https://decoy.example/revoke".to_string()).unwrap())
                .set_token_uri(TokenUrl::new("https://decoy.example/token".to_string()).unwrap())
                .set_auth_uri_option(None)
                .set_device_authorization_url_option(Some(DeviceAuthorizationUrl::new("https://decoy2.example/dev".to_string()).unwrap()))
                .set_introspection_url_option(None)
                .set_revocation_url_option(Some(RevocationUrl::new("https://decoy2.example/revoke".to_string()).unwrap()))
                .set_token_uri_option(None);
            c
        }};
    }
    let mut pre: Option<&'static str> = None;
    match kind {
        "code" | "refresh" | "password" | "cc" | "devtoken" => {
            let url = match TokenUrl::new(urlorig.clone()) {
                Ok(u) => u,
                Err(_) => return BAD.into(),
            };
            let client = base_client!(BasicClient).set_token_uri(url);
            let _ = client
                .exchange_client_credentials()
                .add_scope(decoy_scope())
                .add_extra_param("decoy", "1")
                .request(&decoy_client);
            let _ = client
                .exchange_code(AuthorizationCode::new("decoy-code".to_string()))
                .set_pkce_verifier(PkceCodeVerifier::new("decoy-verifier".to_string()))
                .request(&decoy_client);
            match kind {
                "code" => {
                    let (code, ver, over) = match (untok_str(a1), untok_opt_str(a2), untok_opt_str(a3)) {
                        (Some(a), Some(b), Some(c)) => (a, b, c),
                        _ => return BAD.into(),
                    };
                    let mut req = client.exchange_code(AuthorizationCode::new(code));
                    if let Some(v) = ver {
                        if twice {
                            req = req.set_pkce_verifier(PkceCodeVerifier::new("superseded-verifier-superseded-verifier-superseded".to_string()));
                        }
                        req = req.set_pkce_verifier(PkceCodeVerifier::new(v));
                    }
                    if let Some(o) = over {
                        if twice {
                            req = req.set_redirect_uri(Cow::Owned(RedirectUrl::new("https://superseded.example/override".to_string()).unwrap()));
                        }
                        match mk_redirect(o) {
                            Ok(u) => req = req.set_redirect_uri(Cow::Owned(u)),
                            Err(_) => return BAD.into(),
                        }
                    }
                    finish!(req);
                }
                "refresh" => {
                    let t = match untok_str(a1) {
                        Some(t) => RefreshToken::new(t),
                        None => return BAD.into(),
                    };
                    let req = apply_plan!(client.exchange_refresh_token(&t));
                    finish!(req);
                }
                "password" => {
                    let (u, p) = match (untok_str(a1), untok_str(a2)) {
                        (Some(u), Some(p)) => (ResourceOwnerUsername::new(u), ResourceOwnerPassword::new(p)),
                        _ => return BAD.into(),
                    };
                    let req = apply_plan!(client.exchange_password(&u, &p));
                    finish!(req);
                }
                "cc" => {
                    let req = apply_plan!(client.exchange_client_credentials());
                    finish!(req);
                }
                _ => {
                    let dc = match untok_str(a1) {
                        Some(d) => d,
                        None => return BAD.into(),
                    };
                    let doc = serde_json::json!({"device_code": dc, "user_code": "u", "verification_uri": "https://v/", "expires_in": 100000, "interval": 0});
                    let details: StandardDeviceAuthorizationResponse = serde_json::from_value(doc).unwrap();
                    // builder calls in a mixed order: extras before and after set_time_fn /
                    // set_max_backoff_interval (set_time_fn rebuilds the whole request value)
                    let req = client.exchange_device_access_token(&details);
                    let half = extras.len() / 2 + extras.len() % 2;
                    let mut req = req;
                    for (k, v) in extras.iter().take(half) {
                        req = req.add_extra_param(k.clone(), v.clone());
                    }
                    let mut req = req.set_time_fn(chrono::Utc::now).set_max_backoff_interval(Duration::from_secs(7));
                    for (k, v) in extras.iter().skip(half) {
                        req = req.add_extra_param(k.clone(), v.clone());
                    }
                    if asyncv {
                        let _ = variant.drive(req.request_async(&async_client, |_d: Duration| Delay { n: variant.k(), v: Some(()) }, None));
                    } else {
                        let _ = req.request(&sync_client, |_d: Duration| {}, None);
                    }
                }
            }
        }
        "devauth" => {
            let url = match DeviceAuthorizationUrl::new(urlorig.clone()) {
                Ok(u) => u,
                Err(_) => return BAD.into(),
            };
            let client = base_client!(BasicClient).set_device_authorization_url(url);
            let _: Result<StandardDeviceAuthorizationResponse, _> =
                client.exchange_device_code().add_scope(decoy_scope()).add_extra_param("decoy", "1").request(&decoy_client);
            let mut req = apply_plan!(client.exchange_device_code());
            for (k, v) in extras.iter() {
                req = req.add_extra_param(k.clone(), v.clone());
            }
            if asyncv {
                let _: Result<StandardDeviceAuthorizationResponse, _> = variant.drive(req.request_async(&async_client));
            } else {
                let _: Result<StandardDeviceAuthorizationResponse, _> = req.request(&sync_client);
            }
        }
        "introspect" => {
            let url = match IntrospectionUrl::new(urlorig.clone()) {
                Ok(u) => u,
                Err(_) => return BAD.into(),
            };
            let client = base_client!(BasicClient).set_introspection_url(url);
            {
                let decoy = AccessToken::new("decoy-token".to_string());
                let _ = client.introspect(&decoy).set_token_type_hint("decoy-hint").add_extra_param("decoy", "1").request(&decoy_client);
            }
            let (t, h) = match (untok_str(a1), untok_opt_str(a2)) {
                (Some(t), Some(h)) => (AccessToken::new(t), h),
                _ => return BAD.into(),
            };
            let mut req = client.introspect(&t);
            if let Some(h) = h {
                if twice {
                    req = req.set_token_type_hint("superseded-hint");
                }
                req = req.set_token_type_hint(h);
            }
            finish!(req);
        }
        "revoke" => {
            let url = match RevocationUrl::new(urlorig.clone()) {
                Ok(u) => u,
                Err(_) => return BAD.into(),
            };
            let (t, h) = match (untok_str(a1), untok_opt_str(a3)) {
                (Some(t), Some(h)) => (t, h),
                _ => return BAD.into(),
            };
            match a2 {
                "A" | "R" | "AF" | "AFR" | "RF" | "RFR" | "AS" | "RS" => {
                    let client = base_client!(BasicClient).set_revocation_url(url);
                    // the enum variants and the four From conversions (owned / by reference)
                    let tok: StandardRevocableToken = match a2 {
                        "A" => StandardRevocableToken::AccessToken(AccessToken::new(t)),
                        "R" => StandardRevocableToken::RefreshToken(RefreshToken::new(t)),
                        "AF" => AccessToken::new(t).into(),
                        "AFR" => (&AccessToken::new(t)).into(),
                        "RF" => RefreshToken::new(t).into(),
                        // written and read back through the type's own serde impls (a stored queue of tokens still to revoke)
                        "AS" | "RS" => {
                            let orig = if a2 == "AS" { StandardRevocableToken::AccessToken(AccessToken::new(t)) } else { StandardRevocableToken::RefreshToken(RefreshToken::new(t)) };
                            match serde_json::to_string(&orig).ok().and_then(|j| serde_json::from_str::<StandardRevocableToken>(&j).ok()) {
                                Some(v) => v,
                                None => return "revocable-token-does-not-survive-its-own-serde".to_string(),
                            }
                        }
                        _ => (&RefreshToken::new(t)).into(),
                    };
                    match client.revoke_token(tok) {
                        Ok(req) => finish!(req),
                        Err(ConfigurationError::InsecureUrl(_)) => pre = Some("insecure"),
                        Err(_) => pre = Some("config-other"),
                    }
                }
                "C" => {
                    let client = base_client!(CustomClient).set_revocation_url(url);
                    match client.revoke_token(CustomToken { secret: t, hint: h }) {
                        Ok(req) => finish!(req),
                        Err(ConfigurationError::InsecureUrl(_)) => pre = Some("insecure"),
                        Err(_) => pre = Some("config-other"),
                    }
                }
                _ => return BAD.into(),
            }
        }
        _ => return BAD.into(),
    }
    let cap = captured.borrow();
    if let Some(p) = pre {
        return format!("{} calls={}", p, cap.len());
    }
    match cap.len() {
        0 => "other calls=0".to_string(),
        1 => format!("{} calls=1", render_req(&cap[0])),
        n => format!("{} calls={}", render_req(&cap[0]), n),
    }
}

/// `URLINFO x<url>`: what the url and http crates make of a URL string (the oracle inputs of
/// the model).
pub fn urlinfo(ws: &[&str]) -> String {
    let s = match ws.first().and_then(|t| untok_str(t)) {
        Some(s) => s,
        None => return BAD.into(),
    };
    match url::Url::parse(&s) {
        Err(_) => "invalid".to_string(),
        Ok(u) => {
            let text = u.to_string();
            let uri_ok = text.parse::<http::Uri>().is_ok();
            let end_prefix = text.find(|c| c == '?' || c == '#').unwrap_or(text.len());
            format!(
                "ok {} {} {} {} {} {}",
                tok_bytes(text.as_bytes()),
                if uri_ok { 1 } else { 0 },
                tok_bytes(u.scheme().as_bytes()),
                tok_bytes(text[..end_prefix].as_bytes()),
                tok_opt(u.query().map(|q| q.as_bytes())),
                tok_opt(u.fragment().map(|q| q.as_bytes()))
            )
        }
    }
}

/// `AUTHURL urlorig prefix query fragment id defred state ops`
pub fn authurl(ws: &[&str]) -> String {
    if ws.len() != 8 {
        return BAD.into();
    }
    let (urlorig, id, defred, state) = match (untok_str(ws[0]), untok_str(ws[4]), untok_opt_str(ws[5]), untok_str(ws[6])) {
        (Some(a), Some(b), Some(c), Some(d)) => (a, b, c, d),
        _ => return BAD.into(),
    };
    let url = match AuthUrl::new(urlorig) {
        Ok(u) => u,
        Err(_) => return BAD.into(),
    };
    // the redirect is configured FIRST, then (in half of the cases) every other setter runs — each
    // of the typestate setters rebuilds the client and must carry the redirect and the id along —
    // and the authorization endpoint is set last
    let rest_after = ws.iter().flat_map(|w| w.bytes()).fold(0xcbf29ce484222325u64, |h, b| (h ^ b as u64).wrapping_mul(0x100000001b3)) >> 31 & 1 == 0;
    let mut client = BasicClient::new(ClientId::new(id));
    let via_serde = ws.iter().flat_map(|w| w.bytes()).fold(0xcbf29ce484222325u64, |h, b| (h ^ b as u64).wrapping_mul(0x100000001b3)) >> 29 & 1 == 0;
    if let Some(r) = defred {
        let made = if via_serde { serde_json::from_value::<RedirectUrl>(serde_json::Value::String(r)).map_err(|_| ()) } else { RedirectUrl::new(r).map_err(|_| ()) };
        match made {
            Ok(u) => client = client.set_redirect_uri(u),
            Err(_) => return BAD.into(),
        }
    }
    let client = if rest_after {
        client
            .set_auth_type(AuthType::RequestBody)
            .set_client_secret(ClientSecret::new("decoy-secret".to_string()))
            .set_token_uri(TokenUrl::new("https://decoy.example/token".to_string()).unwrap())
            .set_device_authorization_url(DeviceAuthorizationUrl::new("https://decoy.example/dev".to_string()).unwrap())
            .set_introspection_url(IntrospectionUrl::new("https://decoy.example/introspect".to_string()).unwrap())
            .set_revocation_url(RevocationUrl::new("https://decoy.example/revoke".to_string()).unwrap())
            .set_auth_uri(AuthUrl::new("https://decoy.example/auth".to_string()).unwrap())
            .set_token_uri_option(None)
            .set_device_authorization_url_option(None)
            .set_introspection_url_option(Some(IntrospectionUrl::new("https://decoy2.example/introspect".to_string()).unwrap()))
            .set_revocation_url_option(None)
            .set_auth_uri_option(None)
            .set_auth_uri(url)
    } else {
        client
            .set_token_uri_option(None)
            .set_device_authorization_url_option(None)
            .set_introspection_url_option(None)
            .set_revocation_url_option(None)
            .set_auth_uri(url)
    };
    let calls = std::cell::Cell::new(0u32);
    // in a third of the cases the authorization endpoint is (re)configured conditionally-present: the other public
    // authorize_url, which reports a missing endpoint as an error value, must build the very same request
    let maybe = ws.iter().flat_map(|w| w.bytes()).fold(0xcbf29ce484222325u64, |h, b| (h ^ b as u64).wrapping_mul(0x100000001b3)) >> 13 & 3 == 0;
    // (the conditional setter comes AFTER another endpoint was set unconditionally: the most recent one is the endpoint)
    let client_maybe = if maybe {
        Some(client.clone().set_auth_uri(AuthUrl::new("https://stale.example/authorize?stale=1#stale".to_string()).unwrap()).set_auth_uri_option(Some(client.auth_uri().clone())))
    } else {
        None
    };
    let mut req = match &client_maybe {
        Some(cm) => match cm.authorize_url(|| {
            calls.set(calls.get() + 1);
            CsrfToken::new(state.clone())
        }) {
            Ok(r) => r,
            Err(_) => return "missing-endpoint-although-configured".to_string(),
        },
        None => client.authorize_url(|| {
            calls.set(calls.get() + 1);
            CsrfToken::new(state.clone())
        }),
    };
    if ws[7] != "." {
        for op in ws[7].split(';') {
            let parts: Vec<&str> = op.split(':').collect();
            req = match (parts[0], parts.len()) {
                ("S", 2) => match untok_str(parts[1]) {
                    Some(s) => req.add_scope(Scope::new(s)),
                    None => return BAD.into(),
                },
                ("SS", 2) => match untok_list_str(parts[1]) {
                    Some(l) if l.len() % 2 == 0 => req.add_scopes(l.into_iter().map(Scope::new)),
                    Some(l) => req.add_scopes(l.into_iter().filter(|_| true).flat_map(|s| std::iter::once(Scope::new(s)))),
                    None => return BAD.into(),
                },
                ("E", 3) => match (untok_str(parts[1]), untok_str(parts[2])) {
                    (Some(a), Some(b)) => req.add_extra_param(a, b),
                    _ => return BAD.into(),
                },
                ("I", 1) => req.use_implicit_flow(),
                ("R", 2) => match untok_str(parts[1]) {
                    Some(s) => req.set_response_type(&ResponseType::new(s)),
                    None => return BAD.into(),
                },
                ("U", 2) => match untok_str(parts[1]).and_then(|s| RedirectUrl::new(s).ok()) {
                    Some(u) => req.set_redirect_uri(Cow::Owned(u)),
                    None => return BAD.into(),
                },
                ("P", 2) => match untok_str(parts[1]) {
                    Some(v) => req.set_pkce_challenge(PkceCodeChallenge::from_code_verifier_sha256(&PkceCodeVerifier::new(v))),
                    None => return BAD.into(),
                },
                ("PP", 2) => match untok_str(parts[1]) {
                    Some(v) => req.set_pkce_challenge(PkceCodeChallenge::from_code_verifier_plain(&PkceCodeVerifier::new(v))),
                    None => return BAD.into(),
                },
                _ => return BAD.into(),
            };
        }
    }
    let (u, st) = req.url();
    let text = u.as_str();
    let end_prefix = text.find(|c| c == '?' || c == '#').unwrap_or(text.len());
    format!(
        "{} {} {} {} calls={} {}",
        tok_bytes(text[..end_prefix].as_bytes()),
        tok_opt(u.query().map(|q| q.as_bytes())),
        tok_opt(u.fragment().map(|q| q.as_bytes())),
        tok_bytes(st.secret().as_bytes()),
        calls.get(),
        tok_bytes(text.as_bytes())
    )
}
