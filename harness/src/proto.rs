//! Line protocol shared with coq/lib/Proto.v.
pub fn hex(b: &[u8]) -> String {
    let mut s = String::with_capacity(b.len() * 2);
    for x in b {
        s.push_str(&format!("{:02x}", x));
    }
    s
}
pub fn unhex(s: &str) -> Option<Vec<u8>> {
    if s.len() % 2 != 0 {
        return None;
    }
    let b = s.as_bytes();
    let mut out = Vec::with_capacity(b.len() / 2);
    for i in (0..b.len()).step_by(2) {
        let h = (b[i] as char).to_digit(16)?;
        let l = (b[i + 1] as char).to_digit(16)?;
        out.push((h * 16 + l) as u8);
    }
    Some(out)
}
pub fn tok_bytes(b: &[u8]) -> String {
    format!("x{}", hex(b))
}
pub fn tok_opt(b: Option<&[u8]>) -> String {
    match b {
        None => "-".to_string(),
        Some(b) => tok_bytes(b),
    }
}
pub fn tok_list<T: AsRef<[u8]>>(l: &[T]) -> String {
    if l.is_empty() {
        ".".to_string()
    } else {
        l.iter().map(|b| tok_bytes(b.as_ref())).collect::<Vec<_>>().join(",")
    }
}
pub fn untok_bytes(t: &str) -> Option<Vec<u8>> {
    t.strip_prefix('x').and_then(unhex)
}
pub fn untok_str(t: &str) -> Option<String> {
    untok_bytes(t).and_then(|b| String::from_utf8(b).ok())
}
pub fn untok_opt_str(t: &str) -> Option<Option<String>> {
    if t == "-" {
        Some(None)
    } else {
        untok_str(t).map(Some)
    }
}
pub fn untok_opt_bytes(t: &str) -> Option<Option<Vec<u8>>> {
    if t == "-" {
        Some(None)
    } else {
        untok_bytes(t).map(Some)
    }
}
pub fn untok_list_str(t: &str) -> Option<Vec<String>> {
    if t == "." {
        Some(vec![])
    } else {
        t.split(',').map(untok_str).collect()
    }
}
pub fn untok_opt_u64(t: &str) -> Option<Option<u64>> {
    if t == "-" {
        Some(None)
    } else {
        t.parse::<u64>().ok().map(Some)
    }
}
pub const BAD: &str = "BADCASE";

/// Further reply headers that say nothing about the outcome, named by the driver in
/// VERIF_NOISE_HEADERS (`hexname=hexvalue,...`; derived from the literals that are new in the
/// crate's source, gen/srclit.py).  Empty unless the variable is set.
pub fn extra_noise_headers() -> &'static [(String, String)] {
    static H: std::sync::OnceLock<Vec<(String, String)>> = std::sync::OnceLock::new();
    H.get_or_init(|| {
        let mut out = Vec::new();
        if let Ok(v) = std::env::var("VERIF_NOISE_HEADERS") {
            for pair in v.split(',') {
                if let Some((n, val)) = pair.split_once('=') {
                    if let (Some(n), Some(val)) = (unhex(n).and_then(|b| String::from_utf8(b).ok()), unhex(val).and_then(|b| String::from_utf8(b).ok())) {
                        if http::HeaderName::from_bytes(n.as_bytes()).is_ok() && http::HeaderValue::from_str(&val).is_ok() {
                            out.push((n, val));
                        }
                    }
                }
            }
        }
        out
    })
}

/// Raised (panic_any) by the harness itself when a case runs out of scripted clock readings or
/// replies: a malformed case, not an observation of the crate.
pub struct Exhausted;
