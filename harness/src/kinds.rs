//! Scripted server behaviours: the same table as coq/model/DeviceKinds.v (name, status,
//! Content-Type, body).  status 0 = transport failure.
pub struct Kind {
    pub name: &'static str,
    pub status: u16,
    pub ct: Option<&'static str>,
    pub body: &'static str,
}
const J: Option<&str> = Some("application/json");
pub const KINDS: &[Kind] = &[
    Kind { name: "pending", status: 400, ct: J, body: r#"{"error":"authorization_pending"}"# },
    Kind { name: "pending_desc", status: 400, ct: J, body: r#"{"error":"authorization_pending","error_description":"Still waiting"}"# },
    Kind { name: "pending_plain", status: 401, ct: Some("text/plain"), body: r#"{"error":"authorization_pending"}"# },
    Kind { name: "slow", status: 400, ct: J, body: r#"{"error":"slow_down"}"# },
    Kind { name: "slow500", status: 500, ct: None, body: r#"{"error":"slow_down","error_uri":"u"}"# },
    Kind { name: "fail", status: 0, ct: None, body: "" },
    Kind { name: "success", status: 200, ct: J, body: r#"{"access_token":"tok","token_type":"bearer"}"# },
    Kind { name: "denied", status: 400, ct: J, body: r#"{"error":"access_denied","error_description":"srv"}"# },
    Kind { name: "expired", status: 400, ct: J, body: r#"{"error":"expired_token"}"# },
    Kind { name: "invalid_grant", status: 400, ct: J, body: r#"{"error":"invalid_grant"}"# },
    Kind { name: "ext", status: 403, ct: J, body: r#"{"error":"custom_err"}"# },
    Kind { name: "pending_upper", status: 400, ct: J, body: r#"{"error":"AUTHORIZATION_PENDING"}"# },
    Kind { name: "malformed200", status: 200, ct: J, body: r#"{"foo":1}"# },
    Kind { name: "pending200", status: 200, ct: J, body: r#"{"error":"authorization_pending"}"# },
    Kind { name: "empty500", status: 500, ct: J, body: "" },
    Kind { name: "empty200", status: 200, ct: None, body: "" },
    Kind { name: "text200", status: 200, ct: Some("text/plain"), body: "hello" },
    Kind { name: "html400", status: 400, ct: Some("text/html"), body: "<html>" },
    Kind { name: "success400", status: 400, ct: J, body: r#"{"access_token":"tok","token_type":"bearer"}"# },
    Kind { name: "pending203", status: 203, ct: J, body: r#"{"error":"authorization_pending"}"# },
    Kind { name: "pending201", status: 201, ct: None, body: r#"{"error":"authorization_pending"}"# },
    Kind { name: "pending302", status: 302, ct: J, body: r#"{"error":"authorization_pending"}"# },
    Kind { name: "slow206", status: 206, ct: J, body: r#"{"error":"slow_down"}"# },
    Kind { name: "slow101", status: 101, ct: None, body: r#"{"error":"slow_down"}"# },
    Kind { name: "denied202", status: 202, ct: J, body: r#"{"error":"access_denied","error_description":"srv"}"# },
    Kind { name: "success201", status: 201, ct: J, body: r#"{"access_token":"tok","token_type":"bearer"}"# },
    Kind { name: "slow_interval", status: 400, ct: J, body: r#"{"error":"slow_down","interval":5}"# },
    Kind { name: "slow_interval0", status: 400, ct: J, body: r#"{"interval":0,"error_description":"x","error":"slow_down"}"# },
    Kind { name: "slow_retry", status: 429, ct: J, body: r#"{"error":"slow_down","retry_after":1,"Retry-After":"0","interval":3600}"# },
    Kind { name: "pending_interval", status: 400, ct: J, body: r#"{"error":"authorization_pending","interval":1,"expires_in":1}"# },
    Kind { name: "invalid_client", status: 401, ct: J, body: r#"{"error":"invalid_client"}"# },
    Kind { name: "invalid_client400", status: 400, ct: J, body: r#"{"error":"invalid_client","error_description":"bad credentials"}"# },
    Kind { name: "invalid_request", status: 400, ct: J, body: r#"{"error":"invalid_request"}"# },
    Kind { name: "invalid_scope", status: 400, ct: J, body: r#"{"error":"invalid_scope"}"# },
    Kind { name: "unauthorized_client", status: 403, ct: J, body: r#"{"error":"unauthorized_client"}"# },
    Kind { name: "unsupported_grant_type", status: 400, ct: None, body: r#"{"error":"unsupported_grant_type"}"# },
];
pub fn find(name: &str) -> Option<&'static Kind> {
    KINDS.iter().find(|k| k.name == name)
}

#[derive(Debug)]
pub struct FakeError(pub String);
impl std::fmt::Display for FakeError {
    fn fmt(&self, f: &mut std::fmt::Formatter) -> std::fmt::Result {
        write!(f, "fake transport error {}", self.0)
    }
}
impl std::error::Error for FakeError {
    // (the caller's error has a cause, as real transports' errors do: a timed-out socket operation)
    fn source(&self) -> Option<&(dyn std::error::Error + 'static)> {
        static CAUSE: std::sync::OnceLock<std::io::Error> = std::sync::OnceLock::new();
        Some(CAUSE.get_or_init(|| std::io::Error::new(std::io::ErrorKind::TimedOut, "operation timed out")))
    }
}

pub fn response_of(k: &Kind) -> Result<oauth2::HttpResponse, FakeError> {
    if k.status == 0 {
        return Err(FakeError(k.name.to_string()));
    }
    let mut b = http::Response::builder().status(k.status);
    if let Some(ct) = k.ct {
        b = b.header(http::header::CONTENT_TYPE, ct);
    }
    Ok(b.body(k.body.as_bytes().to_vec()).unwrap())
}
