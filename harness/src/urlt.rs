//! C18: the seven URL newtypes.
use crate::proto::*;
use oauth2::*;
use std::collections::hash_map::DefaultHasher;
use std::hash::{Hash, Hasher};

fn h<T: Hash>(t: &T) -> u64 {
    let mut s = DefaultHasher::new();
    t.hash(&mut s);
    s.finish()
}

/// A serializer of a compact binary kind (is_human_readable() == false) that accepts only what a
/// URL newtype may write: one string.  The text a value serialises as must not depend on the format.
pub struct BinaryStr;
#[derive(Debug)]
pub struct SerErr(String);
impl std::fmt::Display for SerErr {
    fn fmt(&self, f: &mut std::fmt::Formatter) -> std::fmt::Result {
        f.write_str(&self.0)
    }
}
impl std::error::Error for SerErr {}
impl serde::ser::Error for SerErr {
    fn custom<T: std::fmt::Display>(m: T) -> Self {
        SerErr(m.to_string())
    }
}
macro_rules! no {
    ($($f:ident($($t:ty),*))*) => { $(fn $f(self $(, _: $t)*) -> Result<String, SerErr> { Err(SerErr(stringify!($f).into())) })* };
}
impl serde::Serializer for BinaryStr {
    type Ok = String;
    type Error = SerErr;
    type SerializeSeq = serde::ser::Impossible<String, SerErr>;
    type SerializeTuple = serde::ser::Impossible<String, SerErr>;
    type SerializeTupleStruct = serde::ser::Impossible<String, SerErr>;
    type SerializeTupleVariant = serde::ser::Impossible<String, SerErr>;
    type SerializeMap = serde::ser::Impossible<String, SerErr>;
    type SerializeStruct = serde::ser::Impossible<String, SerErr>;
    type SerializeStructVariant = serde::ser::Impossible<String, SerErr>;
    fn is_human_readable(&self) -> bool {
        false
    }
    fn serialize_str(self, v: &str) -> Result<String, SerErr> {
        Ok(v.to_string())
    }
    fn serialize_newtype_struct<T: ?Sized + serde::Serialize>(self, _n: &'static str, v: &T) -> Result<String, SerErr> {
        v.serialize(self)
    }
    fn serialize_some<T: ?Sized + serde::Serialize>(self, v: &T) -> Result<String, SerErr> {
        v.serialize(self)
    }
    no! { serialize_bool(bool) serialize_i8(i8) serialize_i16(i16) serialize_i32(i32) serialize_i64(i64) serialize_u8(u8) serialize_u16(u16)
          serialize_u32(u32) serialize_u64(u64) serialize_f32(f32) serialize_f64(f64) serialize_char(char) serialize_bytes(&[u8]) serialize_none()
          serialize_unit() serialize_unit_struct(&'static str) serialize_unit_variant(&'static str, u32, &'static str) }
    fn serialize_newtype_variant<T: ?Sized + serde::Serialize>(self, _: &'static str, _: u32, _: &'static str, _: &T) -> Result<String, SerErr> {
        Err(SerErr("newtype_variant".into()))
    }
    fn serialize_seq(self, _: Option<usize>) -> Result<Self::SerializeSeq, SerErr> {
        Err(SerErr("seq".into()))
    }
    fn serialize_tuple(self, _: usize) -> Result<Self::SerializeTuple, SerErr> {
        Err(SerErr("tuple".into()))
    }
    fn serialize_tuple_struct(self, _: &'static str, _: usize) -> Result<Self::SerializeTupleStruct, SerErr> {
        Err(SerErr("tuple_struct".into()))
    }
    fn serialize_tuple_variant(self, _: &'static str, _: u32, _: &'static str, _: usize) -> Result<Self::SerializeTupleVariant, SerErr> {
        Err(SerErr("tuple_variant".into()))
    }
    fn serialize_map(self, _: Option<usize>) -> Result<Self::SerializeMap, SerErr> {
        Err(SerErr("map".into()))
    }
    fn serialize_struct(self, _: &'static str, _: usize) -> Result<Self::SerializeStruct, SerErr> {
        Err(SerErr("struct".into()))
    }
    fn serialize_struct_variant(self, _: &'static str, _: u32, _: &'static str, _: usize) -> Result<Self::SerializeStructVariant, SerErr> {
        Err(SerErr("struct_variant".into()))
    }
}

/// A deserializer of a non-self-describing kind (as bincode / postcard are): it holds one string and
/// hands it out only when the type asks for a string; `deserialize_any` is an error.
struct StrictStr<'a>(&'a str, bool);
#[derive(Debug)]
struct DeErr(String);
impl std::fmt::Display for DeErr {
    fn fmt(&self, f: &mut std::fmt::Formatter<'_>) -> std::fmt::Result {
        write!(f, "{}", self.0)
    }
}
impl std::error::Error for DeErr {}
impl serde::de::Error for DeErr {
    fn custom<T: std::fmt::Display>(m: T) -> Self {
        DeErr(m.to_string())
    }
}
impl<'de, 'a> serde::Deserializer<'de> for StrictStr<'a> {
    type Error = DeErr;
    fn deserialize_any<V: serde::de::Visitor<'de>>(self, _: V) -> Result<V::Value, DeErr> {
        Err(DeErr("deserialize_any is not supported by this format".into()))
    }
    fn deserialize_str<V: serde::de::Visitor<'de>>(self, v: V) -> Result<V::Value, DeErr> {
        if self.1 {
            v.visit_string(self.0.to_string())
        } else {
            v.visit_str(self.0)
        }
    }
    fn deserialize_string<V: serde::de::Visitor<'de>>(self, v: V) -> Result<V::Value, DeErr> {
        v.visit_string(self.0.to_string())
    }
    fn is_human_readable(&self) -> bool {
        false
    }
    serde::forward_to_deserialize_any! {
        bool i8 i16 i32 i64 i128 u8 u16 u32 u64 u128 f32 f64 char bytes byte_buf option unit unit_struct newtype_struct seq tuple
        tuple_struct map struct enum identifier ignored_any
    }
}

macro_rules! one {
    ($t:ident, $s:expr) => {{
        let s: String = $s;
        // a non-self-describing format: the string written for a value reads back as that value, an invalid string is refused
        {
            use serde::Deserialize;
            for owned in [false, true] {
                let strict: Result<$t, _> = $t::deserialize(StrictStr(&s, owned));
                match (&strict, $t::new(s.clone())) {
                    (Ok(a), Ok(b)) if a.as_str() == b.as_str() && a.url() == b.url() => {}
                    (Err(_), Err(_)) => {}
                    _ => return "strict-format-deserialisation-differs-from-new".to_string(),
                }
            }
        }
        // look-alike strings are turned into values on this thread first (other letter case, padded,
        // trimmed, with and without a trailing slash): nothing of them may stick to the observed value
        {
            let swap: String = s.chars().map(|c| if c.is_ascii_lowercase() { c.to_ascii_uppercase() } else { c.to_ascii_lowercase() }).collect();
            for d in [s.to_uppercase(), s.to_lowercase(), swap, format!("{} ", s), s.trim().to_string(), format!("{}/", s), s.trim_end_matches('/').to_string()] {
                if d != s {
                    let _ = $t::new(d.clone());
                    let _: Result<$t, _> = serde_json::from_value(serde_json::Value::String(d));
                }
            }
        }
        // ... and a look-alike IMMEDIATELY before every construction of the observed value
        let swapc: String = s.chars().map(|c| if c.is_ascii_lowercase() { c.to_ascii_uppercase() } else { c.to_ascii_lowercase() }).collect();
        let looks = [s.to_uppercase(), s.to_lowercase(), swapc];
        let prime = |k: usize| {
            let d = &looks[k % 3];
            if *d != s {
                let _ = $t::new(d.clone());
            }
        };
        let json = serde_json::to_string(&s).unwrap();
        // three deserialisation paths: borrowed text (visit_borrowed_str / visit_str), an owned
        // serde_json::Value (visit_string) and a reader (transient visit_str)
        prime(0);
        let de: Result<$t, _> = serde_json::from_str(&json);
        prime(1);
        let dev: Result<$t, _> = serde_json::from_value(serde_json::Value::String(s.clone()));
        prime(2);
        let der: Result<$t, _> = serde_json::from_reader(json.as_bytes());
        prime(s.len());
        match $t::new(s.clone()) {
            Err(_) => format!(
                "invalid de={} dev={} der={}",
                if de.is_ok() { "ok" } else { "err" },
                if dev.is_ok() { "ok" } else { "err" },
                if der.is_ok() { "ok" } else { "err" }
            ),
            Ok(v) => {
                let disp = format!("{}", v);
                let deref: &String = &v;
                let ser: String = serde_json::from_str(&serde_json::to_string(&v).unwrap()).unwrap();
                // the same text through a non-human-readable format and through serde_json::Value,
                // and back from a plain string deserializer
                let ser_bin = serde::Serialize::serialize(&v, BinaryStr).unwrap_or_else(|e| format!("SER-ERROR {}", e));
                let ser_val = serde_json::to_value(&v).ok().and_then(|j| j.as_str().map(|x| x.to_string())).unwrap_or_default();
                let de_plain: Result<$t, serde::de::value::Error> =
                    serde::Deserialize::deserialize(serde::de::value::StringDeserializer::new(ser.clone()));
                if ser_bin != ser || ser_val != ser || de_plain.map(|x| x.as_str().to_string()).ok() != Some(ser.clone()) {
                    return format!("serialised-text-depends-on-format json={} binary={} value={}", tok_bytes(ser.as_bytes()), tok_bytes(ser_bin.as_bytes()), tok_bytes(ser_val.as_bytes()));
                }
                let show = |de: Result<$t, serde_json::Error>| match de {
                    Ok(v2) => format!(
                        "ok,{},{},{}",
                        tok_bytes(v2.url().as_str().as_bytes()),
                        tok_bytes(v2.as_str().as_bytes()),
                        (v2 == v) as u8
                    ),
                    Err(_) => "err".to_string(),
                };
                let (de, dev, der) = (show(de), show(dev), show(der));
                let f = $t::from_url(v.url().clone());
                format!(
                    "ok {} {} {} {} de={} dev={} der={} fromurl={},{}",
                    tok_bytes(disp.as_bytes()),
                    tok_bytes(deref.as_bytes()),
                    tok_bytes(ser.as_bytes()),
                    tok_bytes(v.url().as_str().as_bytes()),
                    de,
                    dev,
                    der,
                    tok_bytes(f.as_str().as_bytes()),
                    tok_bytes(f.url().as_str().as_bytes())
                )
            }
        }
    }};
}
macro_rules! pair {
    ($t:ident, $a:expr, $b:expr) => {{
        let (a, b) = ($t::new($a).unwrap(), $t::new($b).unwrap());
        let c = |o: std::cmp::Ordering| match o {
            std::cmp::Ordering::Less => "lt",
            std::cmp::Ordering::Equal => "eq",
            std::cmp::Ordering::Greater => "gt",
        };
        if a.partial_cmp(&b) != Some(a.cmp(&b)) {
            return "partial-cmp-differs".to_string();
        }
        // the value hashes as its original string does
        if h(&a) != h(&a.as_str().to_string()) || h(&b) != h(&b.as_str().to_string()) {
            return "hash-differs-from-the-hash-of-the-original-string".to_string();
        }
        // every spelling of the equality question agrees with ==
        #[allow(clippy::nonminimal_bool)]
        let spellings = [!(a != b), !(b != a), vec![a.clone()] == vec![b.clone()], Some(a.clone()) == Some(b.clone()), (a.clone(), 1u8) == (b.clone(), 1u8), !(a < b) && !(a > b), a <= b && a >= b];
        if spellings.iter().any(|x| *x != (a == b)) {
            return format!("eq-spellings-disagree eq={} others={:?}", (a == b) as u8, spellings);
        }
        // duplication: clone() keeps a's text; clone_from(&b) turns the value into b, text included
        // (directly and through Option / Vec, which forward to the element's clone_from)
        let cl = a.clone();
        let mut cf = a.clone();
        cf.clone_from(&b);
        let mut co = Some(a.clone());
        co.clone_from(&Some(b.clone()));
        let mut cv = vec![a.clone()];
        cv.clone_from(&vec![b.clone()]);
        if co.as_ref().map(|x| x.as_str()) != Some(cf.as_str()) || cv[0].as_str() != cf.as_str() || cf.url() != b.url() || cl.url() != a.url() {
            return "clone-from-inconsistent".to_string();
        }
        format!(
            "eq={} cmp={} rcmp={} hasheq={} clone={} clonefrom={}",
            (a == b) as u8,
            c(a.cmp(&b)),
            c(b.cmp(&a)),
            (h(&a) == h(&b)) as u8,
            tok_bytes(cl.as_str().as_bytes()),
            tok_bytes(cf.as_str().as_bytes())
        )
    }};
}

pub fn urlt(ws: &[&str]) -> String {
    if ws.len() != 3 {
        return BAD.into();
    }
    let s = match untok_str(ws[1]) {
        Some(s) => s,
        None => return BAD.into(),
    };
    match ws[0] {
        "AuthUrl" => one!(AuthUrl, s),
        "TokenUrl" => one!(TokenUrl, s),
        "RedirectUrl" => one!(RedirectUrl, s),
        "IntrospectionUrl" => one!(IntrospectionUrl, s),
        "RevocationUrl" => one!(RevocationUrl, s),
        "DeviceAuthorizationUrl" => one!(DeviceAuthorizationUrl, s),
        "EndUserVerificationUrl" => one!(EndUserVerificationUrl, s),
        _ => BAD.into(),
    }
}

pub fn urlp(ws: &[&str]) -> String {
    if ws.len() != 3 {
        return BAD.into();
    }
    let (a, b) = match (untok_str(ws[1]), untok_str(ws[2])) {
        (Some(a), Some(b)) => (a, b),
        _ => return BAD.into(),
    };
    match ws[0] {
        "AuthUrl" => pair!(AuthUrl, a, b),
        "TokenUrl" => pair!(TokenUrl, a, b),
        "RedirectUrl" => pair!(RedirectUrl, a, b),
        "IntrospectionUrl" => pair!(IntrospectionUrl, a, b),
        "RevocationUrl" => pair!(RevocationUrl, a, b),
        "DeviceAuthorizationUrl" => pair!(DeviceAuthorizationUrl, a, b),
        "EndUserVerificationUrl" => pair!(EndUserVerificationUrl, a, b),
        _ => BAD.into(),
    }
}
