//! C18: the seven URL newtypes.
use crate::proto::*;
use oauth2::*;
use std::collections::hash_map::DefaultHasher;
use std::hash::{Hash, Hasher};

fn h<T: Hash>(t: &T) -> u64 {
    let mut s = DefaultHasher::new();
    t.hash(&mut s);
    s.finish()
}

macro_rules! one {
    ($t:ident, $s:expr) => {{
        let s: String = $s;
        let json = serde_json::to_string(&s).unwrap();
        // three deserialisation paths: borrowed text (visit_borrowed_str / visit_str), an owned
        // serde_json::Value (visit_string) and a reader (transient visit_str)
        let de: Result<$t, _> = serde_json::from_str(&json);
        let dev: Result<$t, _> = serde_json::from_value(serde_json::Value::String(s.clone()));
        let der: Result<$t, _> = serde_json::from_reader(json.as_bytes());
        match $t::new(s.clone()) {
            Err(_) => format!(
                "invalid de={} dev={} der={}",
                if de.is_ok() { "ok" } else { "err" },
                if dev.is_ok() { "ok" } else { "err" },
                if der.is_ok() { "ok" } else { "err" }
            ),
            Ok(v) => {
                let disp = format!("{}", v);
                let deref: &String = &v;
                let ser: String = serde_json::from_str(&serde_json::to_string(&v).unwrap()).unwrap();
                let show = |de: Result<$t, serde_json::Error>| match de {
                    Ok(v2) => format!(
                        "ok,{},{},{}",
                        tok_bytes(v2.url().as_str().as_bytes()),
                        tok_bytes(v2.as_str().as_bytes()),
                        (v2 == v) as u8
                    ),
                    Err(_) => "err".to_string(),
                };
                let (de, dev, der) = (show(de), show(dev), show(der));
                let f = $t::from_url(v.url().clone());
                format!(
                    "ok {} {} {} {} de={} dev={} der={} fromurl={},{}",
                    tok_bytes(disp.as_bytes()),
                    tok_bytes(deref.as_bytes()),
                    tok_bytes(ser.as_bytes()),
                    tok_bytes(v.url().as_str().as_bytes()),
                    de,
                    dev,
                    der,
                    tok_bytes(f.as_str().as_bytes()),
                    tok_bytes(f.url().as_str().as_bytes())
                )
            }
        }
    }};
}
macro_rules! pair {
    ($t:ident, $a:expr, $b:expr) => {{
        let (a, b) = ($t::new($a).unwrap(), $t::new($b).unwrap());
        let c = |o: std::cmp::Ordering| match o {
            std::cmp::Ordering::Less => "lt",
            std::cmp::Ordering::Equal => "eq",
            std::cmp::Ordering::Greater => "gt",
        };
        if a.partial_cmp(&b) != Some(a.cmp(&b)) {
            return "partial-cmp-differs".to_string();
        }
        // duplication: clone() keeps a's text; clone_from(&b) turns the value into b, text included
        // (directly and through Option / Vec, which forward to the element's clone_from)
        let cl = a.clone();
        let mut cf = a.clone();
        cf.clone_from(&b);
        let mut co = Some(a.clone());
        co.clone_from(&Some(b.clone()));
        let mut cv = vec![a.clone()];
        cv.clone_from(&vec![b.clone()]);
        if co.as_ref().map(|x| x.as_str()) != Some(cf.as_str()) || cv[0].as_str() != cf.as_str() || cf.url() != b.url() || cl.url() != a.url() {
            return "clone-from-inconsistent".to_string();
        }
        format!(
            "eq={} cmp={} rcmp={} hasheq={} clone={} clonefrom={}",
            (a == b) as u8,
            c(a.cmp(&b)),
            c(b.cmp(&a)),
            (h(&a) == h(&b)) as u8,
            tok_bytes(cl.as_str().as_bytes()),
            tok_bytes(cf.as_str().as_bytes())
        )
    }};
}

pub fn urlt(ws: &[&str]) -> String {
    if ws.len() != 3 {
        return BAD.into();
    }
    let s = match untok_str(ws[1]) {
        Some(s) => s,
        None => return BAD.into(),
    };
    match ws[0] {
        "AuthUrl" => one!(AuthUrl, s),
        "TokenUrl" => one!(TokenUrl, s),
        "RedirectUrl" => one!(RedirectUrl, s),
        "IntrospectionUrl" => one!(IntrospectionUrl, s),
        "RevocationUrl" => one!(RevocationUrl, s),
        "DeviceAuthorizationUrl" => one!(DeviceAuthorizationUrl, s),
        "EndUserVerificationUrl" => one!(EndUserVerificationUrl, s),
        _ => BAD.into(),
    }
}

pub fn urlp(ws: &[&str]) -> String {
    if ws.len() != 3 {
        return BAD.into();
    }
    let (a, b) = match (untok_str(ws[1]), untok_str(ws[2])) {
        (Some(a), Some(b)) => (a, b),
        _ => return BAD.into(),
    };
    match ws[0] {
        "AuthUrl" => pair!(AuthUrl, a, b),
        "TokenUrl" => pair!(TokenUrl, a, b),
        "RedirectUrl" => pair!(RedirectUrl, a, b),
        "IntrospectionUrl" => pair!(IntrospectionUrl, a, b),
        "RevocationUrl" => pair!(RevocationUrl, a, b),
        "DeviceAuthorizationUrl" => pair!(DeviceAuthorizationUrl, a, b),
        "EndUserVerificationUrl" => pair!(EndUserVerificationUrl, a, b),
        _ => BAD.into(),
    }
}
