//! C14: error codes, direct (serde) path.
use crate::proto::*;
use oauth2::basic::BasicErrorResponseType as B;
use oauth2::{DeviceCodeErrorResponseType as D, RevocationErrorResponseType as R, StandardErrorResponse};

pub fn basic_tag(e: &B) -> &'static str {
    match e {
        B::InvalidClient => "InvalidClient",
        B::InvalidGrant => "InvalidGrant",
        B::InvalidRequest => "InvalidRequest",
        B::InvalidScope => "InvalidScope",
        B::UnauthorizedClient => "UnauthorizedClient",
        B::UnsupportedGrantType => "UnsupportedGrantType",
        B::Extension(_) => "Extension",
    }
}
pub fn device_tag(e: &D) -> String {
    match e {
        D::AuthorizationPending => "AuthorizationPending".into(),
        D::SlowDown => "SlowDown".into(),
        D::AccessDenied => "AccessDenied".into(),
        D::ExpiredToken => "ExpiredToken".into(),
        D::Basic(b) => format!("Basic.{}", basic_tag(b)),
    }
}
pub fn revocation_tag(e: &R) -> String {
    match e {
        R::UnsupportedTokenType => "UnsupportedTokenType".into(),
        R::Basic(b) => format!("Basic.{}", basic_tag(b)),
    }
}

/// `C14 <family> x<code> <desc|-> <uri|->`
pub fn run(ws: &[&str]) -> String {
    if ws.len() != 4 {
        return BAD.into();
    }
    let (code, d, u) = match (untok_str(ws[1]), untok_opt_str(ws[2]), untok_opt_str(ws[3])) {
        (Some(c), Some(d), Some(u)) => (c, d, u),
        _ => return BAD.into(),
    };
    // The only public way to parse a code is serde: a JSON string holding the code.
    let json = serde_json::to_string(&code).unwrap();
    match ws[0] {
        "basic" => {
            let e: B = serde_json::from_str(&json).unwrap();
            let ser: String = serde_json::from_str(&serde_json::to_string(&e).unwrap()).unwrap();
            let again: B = serde_json::from_str(&serde_json::to_string(&ser).unwrap()).unwrap();
            let tag = basic_tag(&e);
            let resp = StandardErrorResponse::new(e, d, u);
            format!("{} {} {} {}", tag, tok_bytes(ser.as_bytes()), tok_bytes(resp.to_string().as_bytes()), basic_tag(&again))
        }
        "device" => {
            let e: D = serde_json::from_str(&json).unwrap();
            let ser: String = serde_json::from_str(&serde_json::to_string(&e).unwrap()).unwrap();
            let again: D = serde_json::from_str(&serde_json::to_string(&ser).unwrap()).unwrap();
            let tag = device_tag(&e);
            let resp = StandardErrorResponse::new(e, d, u);
            format!("{} {} {} {}", tag, tok_bytes(ser.as_bytes()), tok_bytes(resp.to_string().as_bytes()), device_tag(&again))
        }
        "revocation" => {
            let e: R = serde_json::from_str(&json).unwrap();
            let ser: String = serde_json::from_str(&serde_json::to_string(&e).unwrap()).unwrap();
            let again: R = serde_json::from_str(&serde_json::to_string(&ser).unwrap()).unwrap();
            let tag = revocation_tag(&e);
            let resp = StandardErrorResponse::new(e, d, u);
            format!("{} {} {} {}", tag, tok_bytes(ser.as_bytes()), tok_bytes(resp.to_string().as_bytes()), revocation_tag(&again))
        }
        _ => BAD.into(),
    }
}
