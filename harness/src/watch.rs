//! The line loop shared by the harness binaries.  Every case runs on ONE long-lived worker thread
//! (thread-local state of the library is deliberately carried from case to case); the main thread
//! waits for each answer with a time limit.  A case that does not answer in time is reported as
//! `HANG`, its worker is abandoned and a fresh worker takes over, so a future that is never woken
//! or a loop that never ends costs one time limit, not the whole run.
use std::io::{BufRead, Write};
use std::panic::{catch_unwind, AssertUnwindSafe};
use std::sync::mpsc::{channel, Receiver, RecvTimeoutError, Sender};
use std::time::Duration;

fn spawn_worker(run_line: fn(&str) -> String, panic_text: fn(Box<dyn std::any::Any + Send>) -> String) -> (Sender<String>, Receiver<String>) {
    let (tx_line, rx_line) = channel::<String>();
    let (tx_res, rx_res) = channel::<String>();
    std::thread::Builder::new()
        .stack_size(1 << 30)
        .spawn(move || {
            for line in rx_line {
                let s = match catch_unwind(AssertUnwindSafe(|| run_line(&line))) {
                    Ok(s) => s,
                    Err(e) => panic_text(e),
                };
                if tx_res.send(s).is_err() {
                    break;
                }
            }
        })
        .expect("worker thread");
    (tx_line, rx_res)
}

pub fn serve(run_line: fn(&str) -> String, panic_text: fn(Box<dyn std::any::Any + Send>) -> String) {
    std::panic::set_hook(Box::new(|_| {}));
    let limit = std::env::var("HARNESS_CASE_TIMEOUT").ok().and_then(|v| v.parse().ok()).unwrap_or(20u64);
    let stdin = std::io::stdin();
    let stdout = std::io::stdout();
    let mut out = std::io::BufWriter::new(stdout.lock());
    let mut w = spawn_worker(run_line, panic_text);
    let mut hangs = 0u32;
    for line in stdin.lock().lines() {
        let line = line.unwrap();
        // bulk sampling commands legitimately run long
        let this_limit = if line.starts_with("RANDBULK") { limit.max(20) * 30 } else { limit };
        // after three cases that never answered, the rest of this process' share is not run
        // (the comparison leaves SKIPPED cases out; the hangs themselves are the finding)
        if hangs >= 3 && !line.starts_with("RANDBULK") {
            writeln!(out, "SKIPPED").unwrap();
            continue;
        }
        let s = if w.0.send(line).is_err() {
            w = spawn_worker(run_line, panic_text);
            "PANIC".to_string()
        } else {
            match w.1.recv_timeout(Duration::from_secs(this_limit)) {
                Ok(s) => s,
                Err(RecvTimeoutError::Timeout) => {
                    hangs += 1;
                    w = spawn_worker(run_line, panic_text);
                    "HANG".to_string()
                }
                Err(RecvTimeoutError::Disconnected) => {
                    w = spawn_worker(run_line, panic_text);
                    "PANIC".to_string()
                }
            }
        };
        writeln!(out, "{}", s).unwrap();
    }
    let _ = out.flush();
    // abandoned workers may still be blocked: leave without joining them
    std::process::exit(0);
}
