//! C09: the four bundled HTTP adapters against a scripted TCP server on 127.0.0.1.
//! Separate binary (sockets, threads, tokio reactor).
#[path = "proto.rs"]
mod proto;
#[path = "kinds.rs"]
mod kinds;
#[path = "exec.rs"]
mod exec;
#[macro_use]
#[path = "http.rs"]
mod http_engine;

use oauth2::{AsyncHttpClient, HttpRequest, HttpResponse, SyncHttpClient};
use proto::*;
use std::io::{BufRead, Read, Write};
use std::net::{TcpListener, TcpStream};
use std::panic::{catch_unwind, AssertUnwindSafe};
use std::sync::mpsc;
use std::time::Duration;

#[derive(Clone, Debug)]
struct Reply {
    status: u16,
    ct: Option<Vec<u8>>,
    framing: String, // cl | chunked | close
    body: Vec<u8>,
    fault: String,   // none | refused | close_before | truncated | garbage_status | location | huge_cl63 | huge_clmax | huge_cl40
    /// circumstances that are not faults and change nothing in what the adapter must deliver
    /// (`framing+flag+flag`): obs (header values with non-UTF-8 bytes in UNRELATED headers), reason (a
    /// reason phrase with a colon), nested (the server's handler makes its own call through the same
    /// adapter before it replies), put (an earlier call with a method the adapter may refuse)
    flags: Vec<String>,
    nested: Option<(String, u16)>,
}

#[derive(Clone, Debug, Default)]
struct Seen {
    method: String,
    target: String,
    accept: Option<Vec<u8>>,
    ct: Option<Vec<u8>>,
    auth: Option<Vec<u8>>,
    body: Vec<u8>,
}

fn read_request(s: &mut TcpStream) -> Option<Seen> {
    s.set_read_timeout(Some(Duration::from_secs(5))).ok()?;
    let mut buf: Vec<u8> = vec![];
    let mut tmp = [0u8; 65536];
    let head_end;
    loop {
        if let Some(p) = buf.windows(4).position(|w| w == b"\r\n\r\n") {
            head_end = p + 4;
            break;
        }
        let n = s.read(&mut tmp).ok()?;
        if n == 0 {
            return None;
        }
        buf.extend_from_slice(&tmp[..n]);
    }
    let head = String::from_utf8_lossy(&buf[..head_end]).to_string();
    let mut lines = head.split("\r\n");
    let rl: Vec<&str> = lines.next()?.split(' ').collect();
    let mut seen = Seen { method: rl.first()?.to_string(), target: rl.get(1)?.to_string(), ..Default::default() };
    let mut clen: Option<usize> = None;
    let mut chunked = false;
    let mut expect_continue = false;
    for l in lines {
        if let Some((k, v)) = l.split_once(':') {
            let v = v.trim();
            match k.to_ascii_lowercase().as_str() {
                "accept" => seen.accept = Some(v.as_bytes().to_vec()),
                "content-type" => seen.ct = Some(v.as_bytes().to_vec()),
                "authorization" => seen.auth = Some(v.as_bytes().to_vec()),
                "content-length" => clen = v.parse().ok(),
                "transfer-encoding" => chunked = v.to_ascii_lowercase().contains("chunked"),
                "expect" => expect_continue = v.to_ascii_lowercase().contains("100-continue"),
                _ => {}
            }
        }
    }
    if expect_continue {
        let _ = s.write_all(b"HTTP/1.1 100 Continue\r\n\r\n");
    }
    let mut body = buf[head_end..].to_vec();
    if chunked {
        // de-chunk
        let mut raw = body;
        let mut out = vec![];
        loop {
            // need a full chunk header
            let p = loop {
                if let Some(p) = raw.windows(2).position(|w| w == b"\r\n") {
                    break p;
                }
                let n = s.read(&mut tmp).ok()?;
                if n == 0 {
                    return None;
                }
                raw.extend_from_slice(&tmp[..n]);
            };
            let size = usize::from_str_radix(String::from_utf8_lossy(&raw[..p]).trim(), 16).ok()?;
            while raw.len() < p + 2 + size + 2 {
                let n = s.read(&mut tmp).ok()?;
                if n == 0 {
                    return None;
                }
                raw.extend_from_slice(&tmp[..n]);
            }
            out.extend_from_slice(&raw[p + 2..p + 2 + size]);
            raw = raw[p + 2 + size + 2..].to_vec();
            if size == 0 {
                break;
            }
        }
        body = out;
    } else if let Some(n) = clen {
        while body.len() < n {
            let k = s.read(&mut tmp).ok()?;
            if k == 0 {
                return None;
            }
            body.extend_from_slice(&tmp[..k]);
        }
        body.truncate(n);
    }
    seen.body = body;
    Some(seen)
}

fn write_reply(s: &mut TcpStream, r: &Reply, port: u16) {
    if r.fault == "close_before" {
        return;
    }
    if r.fault == "garbage_status" {
        let _ = s.write_all(b"GARBAGE NOT HTTP\r\n\r\n");
        return;
    }
    let reason = match r.status {
        200 => "OK",
        201 => "Created",
        301 => "Moved Permanently",
        302 => "Found",
        303 => "See Other",
        307 => "Temporary Redirect",
        308 => "Permanent Redirect",
        400 => "Bad Request",
        401 => "Unauthorized",
        403 => "Forbidden",
        404 => "Not Found",
        429 => "Too Many Requests",
        500 => "Internal Server Error",
        503 => "Service Unavailable",
        _ => "Status",
    };
    // framing "close10": an HTTP/1.0 reply (old proxies, simple servers), body delimited by the close
    let version = if r.framing == "close10" { "HTTP/1.0" } else { "HTTP/1.1" };
    let has = |f: &str| r.flags.iter().any(|x| x == f);
    let mut head = if has("reason") {
        format!("{} {} {}: served from cache\r\n", version, r.status, reason).into_bytes()
    } else {
        format!("{} {} {}\r\n", version, r.status, reason).into_bytes()
    };
    if has("obs") {
        head.extend_from_slice(b"Server: Caf\xe9/1.0\r\nX-Powered-By: \xa0\xff caf\xc3\xa9\r\n");
    }
    if let Some(ct) = &r.ct {
        // line feeds separate the values of SEVERAL Content-Type headers
        for one in ct.split(|c| *c == b'\n') {
            head.extend_from_slice(b"Content-Type: ");
            head.extend_from_slice(one);
            head.extend_from_slice(b"\r\n");
        }
    }
    if r.fault == "location" || matches!(r.status, 301 | 302 | 303 | 307 | 308) {
        head.extend_from_slice(format!("Location: http://127.0.0.1:{}/redirected\r\n", port).as_bytes());
    }
    // headers that say nothing (named by the driver, see proto::extra_noise_headers), on every other reply
    if (r.body.len() + r.status as usize) % 2 == 0 {
        for (n, v) in extra_noise_headers() {
            head.extend_from_slice(format!("{}: {}\r\n", n, v).as_bytes());
        }
    }
    let truncated = r.fault == "truncated";
    match r.framing.as_str() {
        "chunked" => {
            head.extend_from_slice(b"Transfer-Encoding: chunked\r\n\r\n");
            let _ = s.write_all(&head);
            let half = r.body.len() / 2;
            let (a, b) = r.body.split_at(half);
            if !a.is_empty() {
                let _ = s.write_all(format!("{:x}\r\n", a.len()).as_bytes());
                let _ = s.write_all(a);
                let _ = s.write_all(b"\r\n");
            }
            if truncated {
                // announce the second chunk in full, send only part of it, close
                let _ = s.write_all(format!("{:x}\r\n", b.len() + 3).as_bytes());
                let _ = s.write_all(b);
                let _ = s.flush();
                return;
            }
            if !b.is_empty() {
                let _ = s.write_all(format!("{:x}\r\n", b.len()).as_bytes());
                let _ = s.write_all(b);
                let _ = s.write_all(b"\r\n");
            }
            let _ = s.write_all(b"0\r\n\r\n");
        }
        "close" | "close10" => {
            head.extend_from_slice(b"Connection: close\r\n\r\n");
            let _ = s.write_all(&head);
            let _ = s.write_all(&r.body);
        }
        _ => {
            // huge_cl*: a Content-Length no buffer can be sized for, then the body and a close
            let announced: u64 = match r.fault.as_str() {
                "huge_cl63" => 1u64 << 63,
                "huge_clmax" => u64::MAX - 2,
                "huge_cl40" => 1u64 << 40,
                _ if truncated => r.body.len() as u64 + 7,
                _ => r.body.len() as u64,
            };
            head.extend_from_slice(format!("Content-Length: {}\r\nConnection: close\r\n\r\n", announced).as_bytes());
            let _ = s.write_all(&head);
            let _ = s.write_all(&r.body);
        }
    }
    let _ = s.flush();
}

/// runs the server for one case; returns what it saw (all requests)
fn serve(listener: TcpListener, reply: Reply, port: u16, done: mpsc::Receiver<()>) -> Vec<Seen> {
    listener.set_nonblocking(true).ok();
    let mut seen = vec![];
    let start = std::time::Instant::now();
    loop {
        match listener.accept() {
            Ok((mut s, _)) => {
                s.set_nonblocking(false).ok();
                if let Some(r) = read_request(&mut s) {
                    seen.push(r);
                    if let Some((ad, p2)) = &reply.nested {
                        // the handler itself is a client of another server, through the same adapter
                        let inner = http::Request::builder()
                            .method(http::Method::POST)
                            .uri(format!("http://127.0.0.1:{}/inner", p2))
                            .header(http::header::ACCEPT, "application/json")
                            .header(http::header::CONTENT_TYPE, "application/x-www-form-urlencoded")
                            .body(b"inner=1".to_vec())
                            .unwrap();
                        let ad = ad.clone();
                        let _ = with_watchdog(move || call_adapter(&ad, inner));
                    }
                    if seen.len() == 1 && reply.flags.iter().any(|f| f == "failfirst") {
                        // the FIRST exchange is cut short under Content-Length after part of the body; later ones are served in full
                        let mut cut = reply.clone();
                        cut.fault = "truncated".into();
                        cut.framing = "cl".into();
                        if cut.body.len() < 8 {
                            cut.body = b"{\"error\":\"authorization_pending\"}".to_vec();
                        }
                        write_reply(&mut s, &cut, port);
                        let _ = s.shutdown(std::net::Shutdown::Both);
                        continue;
                    }
                    write_reply(&mut s, &reply, port);
                }
                let _ = s.shutdown(std::net::Shutdown::Both);
            }
            Err(_) => {
                if done.try_recv().is_ok() || start.elapsed() > Duration::from_secs(12) {
                    // one more sweep for a late (redirect-following) connection
                    std::thread::sleep(Duration::from_millis(30));
                    if let Ok((mut s, _)) = listener.accept() {
                        s.set_nonblocking(false).ok();
                        if let Some(r) = read_request(&mut s) {
                            seen.push(r);
                            write_reply(&mut s, &reply, port);
                        }
                    }
                    return seen;
                }
                std::thread::sleep(Duration::from_millis(2));
            }
        }
    }
}

fn call_adapter(adapter: &str, req: HttpRequest) -> Result<HttpResponse, String> {
    match adapter {
        "reqwest" => {
            let rt = tokio::runtime::Builder::new_current_thread().enable_all().build().unwrap();
            let client = reqwest::ClientBuilder::new().redirect(reqwest::redirect::Policy::none()).build().unwrap();
            rt.block_on(async { AsyncHttpClient::call(&client, req).await }).map_err(|e| format!("{:?}", e))
        }
        "reqwest_blocking" => {
            let client = reqwest::blocking::ClientBuilder::new().redirect(reqwest::redirect::Policy::none()).build().unwrap();
            SyncHttpClient::call(&client, req).map_err(|e| format!("{:?}", e))
        }
        "curl" => SyncHttpClient::call(&oauth2::CurlHttpClient, req).map_err(|e| format!("{:?}", e)),
        "ureq" => {
            let agent = ureq::AgentBuilder::new().redirects(0).build();
            SyncHttpClient::call(&agent, req).map_err(|e| format!("{:?}", e))
        }
        _ => Err("unknown adapter".into()),
    }
}

fn with_watchdog<T: Send + 'static, F: FnOnce() -> T + Send + 'static>(f: F) -> Result<T, &'static str> {
    let (tx, rx) = mpsc::channel();
    std::thread::spawn(move || {
        let r = catch_unwind(AssertUnwindSafe(f));
        let _ = tx.send(r);
    });
    // 10 s by default; the driver re-runs a case that did not answer in time once more, alone, with a longer limit
    let secs = std::env::var("VERIF_NET_WATCHDOG").ok().and_then(|s| s.parse().ok()).unwrap_or(10u64);
    match rx.recv_timeout(Duration::from_secs(secs)) {
        Ok(Ok(v)) => Ok(v),
        Ok(Err(_)) => Err("PANIC"),
        Err(_) => Err("HANG"),
    }
}

fn render_seen(seen: &[Seen]) -> String {
    match seen.first() {
        None => "srv:0".to_string(),
        Some(s) => format!(
            "srv:{} {} {} accept={} ct={} auth={} body={}",
            seen.len(),
            s.method,
            tok_bytes(s.target.as_bytes()),
            tok_opt(s.accept.as_deref()),
            tok_opt(s.ct.as_deref()),
            tok_opt(s.auth.as_deref()),
            tok_bytes(&s.body)
        ),
    }
}

fn parse_reply(ws: &[&str]) -> Option<Reply> {
    if ws.len() != 5 {
        return None;
    }
    Some(Reply {
        status: ws[0].parse().ok()?,
        ct: untok_opt_bytes(ws[1])?,
        framing: ws[2].split('+').next().unwrap_or("cl").to_string(),
        body: untok_bytes(ws[3])?,
        fault: ws[4].to_string(),
        flags: ws[2].split('+').skip(1).map(|s| s.to_string()).collect(),
        nested: None,
    })
}

/// `NET adapter reqbody auth path | status ct framing body fault`
fn run_net(ws: &[&str]) -> String {
    let bar = match ws.iter().position(|w| *w == "|") {
        Some(p) => p,
        None => return BAD.into(),
    };
    if bar != 4 {
        return BAD.into();
    }
    let adapter = ws[0].to_string();
    let (reqbody, auth, path) = match (untok_bytes(ws[1]), untok_opt_bytes(ws[2]), untok_str(ws[3])) {
        (Some(a), Some(b), Some(c)) => (a, b, c),
        _ => return BAD.into(),
    };
    let reply = match parse_reply(&ws[bar + 1..]) {
        Some(r) => r,
        None => return BAD.into(),
    };
    let listener = TcpListener::bind("127.0.0.1:0").unwrap();
    let port = listener.local_addr().unwrap().port();
    let (done_tx, done_rx) = mpsc::channel();
    let mut inner_server = None;
    let server = if reply.fault == "refused" {
        drop(listener);
        None
    } else {
        let mut r = reply.clone();
        if r.flags.iter().any(|f| f == "nested") {
            let l2 = TcpListener::bind("127.0.0.1:0").unwrap();
            let p2 = l2.local_addr().unwrap().port();
            let (tx2, rx2) = mpsc::channel::<()>();
            let r2 = Reply { status: 200, ct: Some(b"application/json".to_vec()), framing: "cl".into(), body: b"{\"inner\":true}".to_vec(), fault: "none".into(), flags: vec![], nested: None };
            inner_server = Some((std::thread::spawn(move || serve(l2, r2, p2, rx2)), tx2));
            r.nested = Some((adapter.clone(), p2));
        }
        Some(std::thread::spawn(move || serve(listener, r, port, done_rx)))
    };
    if reply.flags.iter().any(|f| f == "put") {
        // an earlier call, on a thread of its own, with a method the adapter may refuse (by returning an
        // error or by panicking): whatever it does there, the next ordinary call is unaffected
        let l3 = TcpListener::bind("127.0.0.1:0").unwrap();
        let p3 = l3.local_addr().unwrap().port();
        let (tx3, rx3) = mpsc::channel::<()>();
        let r3 = Reply { status: 200, ct: None, framing: "cl".into(), body: b"ok".to_vec(), fault: "none".into(), flags: vec![], nested: None };
        let h3 = std::thread::spawn(move || serve(l3, r3, p3, rx3));
        let ad = adapter.clone();
        let _ = with_watchdog(move || {
            let pr = http::Request::builder().method(http::Method::PUT).uri(format!("http://127.0.0.1:{}/put", p3)).body(b"x".to_vec()).unwrap();
            call_adapter(&ad, pr)
        });
        let _ = tx3.send(());
        let _ = h3.join();
    }
    let mut b = http::Request::builder()
        .method(http::Method::POST)
        .uri(format!("http://127.0.0.1:{}{}", port, path))
        .header(http::header::ACCEPT, "application/json")
        .header(http::header::CONTENT_TYPE, "application/x-www-form-urlencoded");
    if let Some(a) = &auth {
        b = b.header(http::header::AUTHORIZATION, http::HeaderValue::from_bytes(a).unwrap());
    }
    let req = b.body(reqbody).unwrap();
    // in half of the cases the SAME thread first makes another call through the same adapter that
    // fails after part of a reply body has arrived (and one that succeeds): nothing of those
    // exchanges may show up in the observed one
    let pre = ws.iter().flat_map(|w| w.bytes()).fold(0xcbf29ce484222325u64, |h, b| (h ^ b as u64).wrapping_mul(0x100000001b3)) >> 21 & 1 == 0;
    let mut pre_servers = vec![];
    let mut pre_ports = vec![];
    if pre {
        // (the failing one comes LAST, immediately before the observed call)
        for (fault, body) in [("none", &b"{\"stale\":true}"[..]), ("truncated", &b"{\"access_token\":\"STALE-STALE-STALE-STALE\",\"token_type\":\"bearer\"}"[..])] {
            let l = TcpListener::bind("127.0.0.1:0").unwrap();
            let p = l.local_addr().unwrap().port();
            let (tx, rx) = mpsc::channel::<()>();
            let r = Reply { status: 200, ct: Some(b"application/json".to_vec()), framing: "cl".into(), body: body.to_vec(), fault: fault.into(), flags: vec![], nested: None };
            pre_servers.push((std::thread::spawn(move || serve(l, r, p, rx)), tx));
            pre_ports.push(p);
        }
    }
    let cli = match with_watchdog(move || {
        for p in pre_ports {
            let pr = http::Request::builder()
                .method(http::Method::POST)
                .uri(format!("http://127.0.0.1:{}/stale", p))
                .header(http::header::ACCEPT, "application/json")
                .header(http::header::CONTENT_TYPE, "application/x-www-form-urlencoded")
                .header(http::header::AUTHORIZATION, "Basic c3RhbGU6c3RhbGU=")
                .body(b"stale=request-body".to_vec())
                .unwrap();
            let _ = call_adapter(&adapter, pr);
        }
        call_adapter(&adapter, req)
    }) {
        Ok(Ok(resp)) => format!(
            "cli: ok {} {} {}",
            resp.status().as_u16(),
            tok_opt(resp.headers().get(http::header::CONTENT_TYPE).map(|v| v.as_bytes())),
            tok_bytes(resp.body())
        ),
        Ok(Err(_e)) => "cli: err".to_string(),
        Err(why) => format!("cli: {}", why),
    };
    let _ = done_tx.send(());
    for (h, tx) in pre_servers {
        let _ = tx.send(());
        let _ = h.join();
    }
    let seen = match server {
        Some(h) => h.join().unwrap_or_default(),
        None => vec![],
    };
    if let Some((h, tx)) = inner_server {
        let _ = tx.send(());
        let _ = h.join();
    }
    format!("{} | {}", render_seen(&seen), cli)
}

/// `NETFLOW adapter status ct body`: a whole exchange_code through the adapter
fn run_flow(ws: &[&str]) -> String {
    use oauth2::basic::BasicClient;
    use oauth2::*;
    if ws.len() != 4 {
        return BAD.into();
    }
    let adapter = ws[0].to_string();
    let reply = Reply {
        status: match ws[1].parse() { Ok(s) => s, Err(_) => return BAD.into() },
        ct: match untok_opt_bytes(ws[2]) { Some(c) => c, None => return BAD.into() },
        framing: "cl".into(),
        body: match untok_bytes(ws[3]) { Some(b) => b, None => return BAD.into() },
        fault: "none".into(),
        flags: vec![],
        nested: None,
    };
    let listener = TcpListener::bind("127.0.0.1:0").unwrap();
    let port = listener.local_addr().unwrap().port();
    let (done_tx, done_rx) = mpsc::channel();
    let r = reply.clone();
    let server = std::thread::spawn(move || serve(listener, r, port, done_rx));
    let out = with_watchdog(move || {
        let client = BasicClient::new(ClientId::new("aaa".to_string()))
            .set_client_secret(ClientSecret::new("bbb".to_string()))
            .set_token_uri(TokenUrl::new(format!("http://127.0.0.1:{}/token", port)).unwrap());
        let req = client.exchange_code(AuthorizationCode::new("c".to_string()));
        macro_rules! rr {
            ($r:expr) => {
                match $r {
                    Ok(v) => format!("ok {}", http_engine::render_token(&v)),
                    Err(RequestTokenError::ServerResponse(e)) => http_engine::render_error(&e),
                    Err(RequestTokenError::Parse(_, body)) => format!("parse {}", tok_bytes(&body)),
                    Err(RequestTokenError::Other(_)) => "other".to_string(),
                    Err(RequestTokenError::Request(_)) => "request".to_string(),
                }
            };
        }
        match adapter.as_str() {
            "reqwest" => {
                let rt = tokio::runtime::Builder::new_current_thread().enable_all().build().unwrap();
                let http = reqwest::ClientBuilder::new().redirect(reqwest::redirect::Policy::none()).build().unwrap();
                rr!(rt.block_on(req.request_async(&http)))
            }
            "reqwest_blocking" => {
                let http = reqwest::blocking::ClientBuilder::new().redirect(reqwest::redirect::Policy::none()).build().unwrap();
                rr!(req.request(&http))
            }
            "curl" => rr!(req.request(&oauth2::CurlHttpClient)),
            "ureq" => {
                let agent = ureq::AgentBuilder::new().redirects(0).build();
                rr!(req.request(&agent))
            }
            _ => BAD.to_string(),
        }
    });
    let _ = done_tx.send(());
    let seen = server.join().unwrap_or_default();
    match out {
        Ok(s) => format!("{} srv:{}", s, seen.len()),
        Err(why) => why.to_string(),
    }
}

static BUILT_TARGET: std::sync::Mutex<Option<String>> = std::sync::Mutex::new(None);

#[derive(Debug)]
struct AdErr(String);
impl std::fmt::Display for AdErr {
    fn fmt(&self, f: &mut std::fmt::Formatter<'_>) -> std::fmt::Result {
        write!(f, "adapter error")
    }
}
impl std::error::Error for AdErr {}

/// `NETSAME adapter kind status ct body pad`: one library call of the given kind made twice - through
/// the bundled adapter against the scripted server, and through an in-memory client handing the
/// library the very same reply - must give the same outcome (theorem C09_classified_identically).
/// `pad` blanks are appended to the body on both sides (large replies).  kinds: code, refresh,
/// introspect, devauth, revoke, devpoll (a device-flow poll session against a server that gives
/// this reply every time, under a clock that runs past the deadline after a few readings).
fn run_same(ws: &[&str]) -> String {
    use oauth2::basic::BasicClient;
    use oauth2::*;
    if ws.len() != 6 {
        return BAD.into();
    }
    let adapter = ws[0].to_string();
    let kind = ws[1].to_string();
    let status: u16 = match ws[2].parse() { Ok(s) => s, Err(_) => return BAD.into() };
    let ct = match untok_opt_bytes(ws[3]) { Some(c) => c, None => return BAD.into() };
    let mut body = match untok_bytes(ws[4]) { Some(b) => b, None => return BAD.into() };
    // pad[+flag...]: flags obs / reason (circumstances, see Reply.flags), truncated / close_before (faults: the in-memory
    // client then fails with a transport error of its own)
    let mut parts = ws[5].split('+');
    let pad: usize = match parts.next().and_then(|p| p.parse().ok()) { Some(p) => p, None => return BAD.into() };
    let flags: Vec<String> = parts.map(|s| s.to_string()).collect();
    let fault = flags.iter().find(|f| *f == "truncated" || *f == "close_before").cloned();
    // the blanks go INSIDE the document when it is a JSON object (before the closing brace): a reply cut short anywhere
    // is then no complete document
    if body.last() == Some(&b'}') {
        body.pop();
        body.extend(std::iter::repeat(b' ').take(pad));
        body.push(b'}');
    } else {
        body.extend(std::iter::repeat(b' ').take(pad));
    }
    let reply = Reply {
        status,
        ct: ct.clone(),
        framing: if fault.is_some() { "cl".into() } else { ["cl", "chunked", "close", "close10"][pad % 4].into() },
        body: body.clone(),
        fault: fault.clone().unwrap_or_else(|| "none".into()),
        flags: flags.iter().filter(|f| *f == "obs" || *f == "reason" || *f == "failfirst").cloned().collect(),
        nested: None,
    };
    let listener = TcpListener::bind("127.0.0.1:0").unwrap();
    let port = listener.local_addr().unwrap().port();
    let (done_tx, done_rx) = mpsc::channel();
    let server = std::thread::spawn(move || serve(listener, reply, port, done_rx));
    // in two thirds of the cases the SAME thread first makes other calls through the same adapter: one that succeeds and one
    // that fails after part of a reply body has arrived (the failing one immediately before the observed call)
    let pre = ws.iter().flat_map(|w| w.bytes()).fold(0xcbf29ce484222325u64, |h, b| (h ^ b as u64).wrapping_mul(0x100000001b3)) >> 19 & 3 != 0;
    let mut pre_servers = vec![];
    let mut pre_ports = vec![];
    if pre {
        for (fault, body) in [("none", &b"{\"stale\":true}"[..]), ("truncated", &b"{\"error\":\"STALE-STALE-STALE\",\"access_token\":\"STALE-STALE-STALE-STALE\",\"token_type\":\"bearer\"}"[..])] {
            let l = TcpListener::bind("127.0.0.1:0").unwrap();
            let p = l.local_addr().unwrap().port();
            let (tx, rx) = mpsc::channel::<()>();
            let r = Reply { status: 200, ct: Some(b"application/json".to_vec()), framing: "cl".into(), body: body.to_vec(), fault: fault.into(), flags: vec![], nested: None };
            pre_servers.push((std::thread::spawn(move || serve(l, r, p, rx)), tx));
            pre_ports.push(p);
        }
    }
    let out = with_watchdog(move || {
        for p in pre_ports {
            let pr = http::Request::builder()
                .method(http::Method::POST)
                .uri(format!("http://127.0.0.1:{}/stale", p))
                .header(http::header::ACCEPT, "application/json")
                .header(http::header::CONTENT_TYPE, "application/x-www-form-urlencoded")
                .body(b"stale=request-body".to_vec())
                .unwrap();
            let _ = call_adapter(&adapter, pr);
        }
        let base = format!("http://127.0.0.1:{}", port);
        let client = BasicClient::new(ClientId::new("aaa".to_string()))
            .set_client_secret(ClientSecret::new("bbb".to_string()))
            // (the endpoint is configured in a spelling that is not the parsed URL's: what reaches the wire is the parsed URL's target)
            .set_token_uri(TokenUrl::new(format!("{}/oauth/../token?tenant=a%20b", base.replace("http://", "HTTP://"))).unwrap())
            .set_introspection_url(IntrospectionUrl::new(format!("{}/introspect", base)).unwrap())
            .set_device_authorization_url(DeviceAuthorizationUrl::new(format!("{}/device", base)).unwrap())
            // (revocation is https-only: the request is prepared for an https URL and redirected to the scripted server by the client below)
            .set_revocation_url(RevocationUrl::new("https://127.0.0.1/revoke".to_string()).unwrap());
        let via_adapter = |mut r: HttpRequest| -> Result<HttpResponse, AdErr> {
            if r.uri().scheme_str() == Some("https") {
                *r.uri_mut() = format!("{}/revoke", base).parse().unwrap();
            }
            call_adapter(&adapter, r).map_err(AdErr)
        };
        let failfirst = flags.iter().any(|f| f == "failfirst");
        let mem_calls = std::sync::atomic::AtomicU32::new(0);
        let in_memory = |_r: HttpRequest| -> Result<HttpResponse, AdErr> {
            // (the target of the request AS THE LIBRARY BUILT IT: what the adapters put on the wire must be exactly this)
            *BUILT_TARGET.lock().unwrap() = _r.uri().path_and_query().map(|p| p.as_str().to_string());
            let nth = mem_calls.fetch_add(1, std::sync::atomic::Ordering::SeqCst);
            if fault.is_some() || (failfirst && nth == 0) {
                return Err(AdErr("connection fault".into()));
            }
            let mut b = http::Response::builder().status(status);
            if let Some(ct) = &ct {
                for one in ct.split(|c| *c == b'\n') {
                    b = b.header(http::header::CONTENT_TYPE, http::HeaderValue::from_bytes(one).map_err(|_| AdErr("ct".into()))?);
                }
            }
            b.body(body.clone()).map_err(|_| AdErr("build".into()))
        };
        macro_rules! show {
            ($r:expr, $ok:expr) => {
                match $r {
                    Ok(v) => format!("ok {}", $ok(&v)),
                    Err(RequestTokenError::ServerResponse(e)) => format!("server {} {}", tok_bytes(serde_json::to_string(&e).unwrap().as_bytes()), tok_bytes(e.to_string().as_bytes())),
                    Err(RequestTokenError::Parse(_, b)) => format!("parse len={} head={}", b.len(), tok_bytes(&b[..b.len().min(64)])),
                    Err(RequestTokenError::Other(s)) => format!("other {}", tok_bytes(s.as_bytes())),
                    Err(RequestTokenError::Request(_)) => "request".to_string(),
                }
            };
        }
        let details: StandardDeviceAuthorizationResponse =
            serde_json::from_str(r#"{"device_code":"dc","user_code":"uc","verification_uri":"https://v/","expires_in":30,"interval":0}"#).unwrap();
        let go = |which: u8| -> String {
            macro_rules! with {
                ($c:expr) => {
                    match kind.as_str() {
                        "code" => show!(client.exchange_code(AuthorizationCode::new("c".to_string())).request($c), |v: &oauth2::basic::BasicTokenResponse| tok_bytes(serde_json::to_string(v).unwrap().as_bytes())),
                        "refresh" => show!(client.exchange_refresh_token(&RefreshToken::new("r".to_string())).request($c), |v: &oauth2::basic::BasicTokenResponse| tok_bytes(serde_json::to_string(v).unwrap().as_bytes())),
                        "introspect" => show!(client.introspect(&AccessToken::new("t".to_string())).request($c), |v: &oauth2::basic::BasicTokenIntrospectionResponse| tok_bytes(serde_json::to_string(v).unwrap().as_bytes())),
                        "devauth" => {
                            let r: Result<StandardDeviceAuthorizationResponse, _> = client.exchange_device_code().request($c);
                            show!(r, |v: &StandardDeviceAuthorizationResponse| tok_bytes(serde_json::to_string(v).unwrap().as_bytes()))
                        }
                        "revoke" => show!(client.revoke_token(StandardRevocableToken::AccessToken(AccessToken::new("t".to_string()))).unwrap().request($c), |_v: &()| "revoked".to_string()),
                        "devpoll" => {
                            let n = std::sync::atomic::AtomicI64::new(0);
                            let polls = std::cell::Cell::new(0u32);
                            let clock = || {
                                let k = n.fetch_add(1, std::sync::atomic::Ordering::SeqCst) + 1;
                                chrono::DateTime::<chrono::Utc>::from_timestamp(1_700_000_000 + 8 * k, 0).unwrap()
                            };
                            let counted = |r: HttpRequest| {
                                polls.set(polls.get() + 1);
                                $c(r)
                            };
                            let sleeps = std::cell::RefCell::new(Vec::<u128>::new());
                            let r = client.exchange_device_access_token(&details).set_time_fn(clock).request(&counted, |d| sleeps.borrow_mut().push(d.as_millis()), None);
                            format!("{} polls={} sleeps={:?}", show!(r, |v: &oauth2::basic::BasicTokenResponse| tok_bytes(serde_json::to_string(v).unwrap().as_bytes())), polls.get(), sleeps.borrow())
                        }
                        // the future-based twin of the same session (adapter side: the crate's AsyncHttpClient for reqwest::Client)
                        "devpoll_async" => {
                            let n = std::sync::atomic::AtomicI64::new(0);
                            let polls = std::sync::atomic::AtomicU32::new(0);
                            let clock = || {
                                let k = n.fetch_add(1, std::sync::atomic::Ordering::SeqCst) + 1;
                                chrono::DateTime::<chrono::Utc>::from_timestamp(1_700_000_000 + 8 * k, 0).unwrap()
                            };
                            let sleeps = std::sync::Mutex::new(Vec::<u128>::new());
                            let sleep_fn = |d: Duration| {
                                sleeps.lock().unwrap().push(d.as_millis());
                                std::future::ready(())
                            };
                            let rt = tokio::runtime::Builder::new_current_thread().enable_all().build().unwrap();
                            let r = if which == 0 {
                                let http = reqwest::ClientBuilder::new().redirect(reqwest::redirect::Policy::none()).build().unwrap();
                                struct Counting<'a>(&'a reqwest::Client, &'a std::sync::atomic::AtomicU32);
                                impl<'c, 'a: 'c> AsyncHttpClient<'c> for Counting<'a> {
                                    type Error = <reqwest::Client as AsyncHttpClient<'c>>::Error;
                                    type Future = <reqwest::Client as AsyncHttpClient<'c>>::Future;
                                    fn call(&'c self, request: HttpRequest) -> Self::Future {
                                        self.1.fetch_add(1, std::sync::atomic::Ordering::SeqCst);
                                        AsyncHttpClient::call(self.0, request)
                                    }
                                }
                                let c = Counting(&http, &polls);
                                let r = rt.block_on(client.exchange_device_access_token(&details).set_time_fn(clock).request_async(&c, sleep_fn, None));
                                show!(r, |v: &oauth2::basic::BasicTokenResponse| tok_bytes(serde_json::to_string(v).unwrap().as_bytes()))
                            } else {
                                let mem = |r: HttpRequest| {
                                    polls.fetch_add(1, std::sync::atomic::Ordering::SeqCst);
                                    std::future::ready(in_memory(r))
                                };
                                let r = rt.block_on(client.exchange_device_access_token(&details).set_time_fn(clock).request_async(&mem, sleep_fn, None));
                                show!(r, |v: &oauth2::basic::BasicTokenResponse| tok_bytes(serde_json::to_string(v).unwrap().as_bytes()))
                            };
                            format!("{} polls={} sleeps={:?}", r, polls.load(std::sync::atomic::Ordering::SeqCst), sleeps.lock().unwrap())
                        }
                        _ => BAD.to_string(),
                    }
                };
            }
            if which == 0 {
                with!(&via_adapter)
            } else {
                with!(&in_memory)
            }
        };
        let a = go(0);
        let m = go(1);
        if a == m {
            // (the whole observation: the driver also compares it across adapters and across the blocking / future-based twins)
            format!("same {}", a)
        } else {
            format!("differ adapter=[{}] memory=[{}]", a, m)
        }
    });
    let _ = done_tx.send(());
    let seen = server.join().unwrap_or_default();
    for (h, tx) in pre_servers {
        let _ = tx.send(());
        let _ = h.join();
    }
    if matches!(ws[1], "code" | "refresh" | "devpoll" | "devpoll_async") {
        if let Some(bad) = seen.iter().find(|s| s.target != "/token?tenant=a%20b" || s.method != "POST") {
            return format!("target-on-the-wire-differs {} {}", bad.method, tok_bytes(bad.target.as_bytes()));
        }
        let built = BUILT_TARGET.lock().unwrap().clone();
        if let (Some(b), Some(s)) = (built, seen.first()) {
            if b != s.target {
                return format!("target-on-the-wire-is-not-the-target-the-library-built built={} wire={}", tok_bytes(b.as_bytes()), tok_bytes(s.target.as_bytes()));
            }
        }
    }
    match out {
        Ok(s) => s,
        Err(why) => why.to_string(),
    }
}

fn pseudo_bytes(n: usize, seed: u64) -> Vec<u8> {
    let mut x = seed | 1;
    let mut v = Vec::with_capacity(n);
    while v.len() < n {
        x ^= x << 13;
        x ^= x >> 7;
        x ^= x << 17;
        v.extend_from_slice(&x.to_le_bytes());
    }
    v.truncate(n);
    v
}

/// `NETBIG adapter reply_bytes request_bytes framing status`: bodies too large for the line
/// protocol (pseudo-random, generated on both sides from the sizes); the observation says whether
/// the server received exactly the request body and the client exactly the reply body
fn run_big(ws: &[&str]) -> String {
    if ws.len() != 5 {
        return BAD.into();
    }
    let adapter = ws[0].to_string();
    let (rn, qn, status): (usize, usize, u16) = match (ws[1].parse(), ws[2].parse(), ws[4].parse()) {
        (Ok(a), Ok(b), Ok(c)) => (a, b, c),
        _ => return BAD.into(),
    };
    let reply_body = pseudo_bytes(rn, 0x9e3779b97f4a7c15 ^ rn as u64);
    // the request body is form-shaped: a=<hex-ish letters>
    let mut req_body = b"a=".to_vec();
    req_body.extend(pseudo_bytes(qn, 0xabcdef ^ qn as u64).into_iter().map(|b| b'a' + (b % 26)));
    let reply = Reply { status, ct: Some(b"application/json".to_vec()), framing: ws[3].to_string(), body: reply_body.clone(), fault: "none".into(), flags: vec![], nested: None };
    let listener = TcpListener::bind("127.0.0.1:0").unwrap();
    let port = listener.local_addr().unwrap().port();
    let (done_tx, done_rx) = mpsc::channel();
    let server = std::thread::spawn(move || serve(listener, reply, port, done_rx));
    let req = http::Request::builder()
        .method(http::Method::POST)
        .uri(format!("http://127.0.0.1:{}/token", port))
        .header(http::header::ACCEPT, "application/json")
        .header(http::header::CONTENT_TYPE, "application/x-www-form-urlencoded")
        .body(req_body.clone())
        .unwrap();
    let cli = match with_watchdog(move || call_adapter(&adapter, req)) {
        Ok(Ok(resp)) => format!("cli: ok {} same={} len={}", resp.status().as_u16(), (resp.body() == &reply_body) as u8, resp.body().len()),
        Ok(Err(_e)) => "cli: err".to_string(),
        Err(why) => format!("cli: {}", why),
    };
    let _ = done_tx.send(());
    let seen = server.join().unwrap_or_default();
    let reqsame = seen.first().map(|s| s.body == req_body).unwrap_or(false);
    format!("srv:{} reqsame={} | {}", seen.len(), reqsame as u8, cli)
}

fn run_line(line: &str) -> String {
    let ws: Vec<&str> = line.split(' ').collect();
    match ws.first() {
        Some(&"NETBIG") => run_big(&ws[1..]),
        Some(&"NET") => run_net(&ws[1..]),
        Some(&"NETFLOW") => run_flow(&ws[1..]),
        Some(&"NETSAME") => run_same(&ws[1..]),
        _ => BAD.into(),
    }
}

fn main() {
    std::panic::set_hook(Box::new(|_| {}));
    let stdin = std::io::stdin();
    let stdout = std::io::stdout();
    let mut out = std::io::BufWriter::new(stdout.lock());
    for line in stdin.lock().lines() {
        let line = line.unwrap();
        let s = match catch_unwind(AssertUnwindSafe(|| run_line(&line))) {
            Ok(s) => s,
            Err(_) => "PANIC".to_string(),
        };
        writeln!(out, "{}", s).unwrap();
    }
}
