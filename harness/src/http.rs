//! Response side: C05, C06, C13 (status), C14 (via HTTP), C15, C16, C19.
use crate::exec::{parse_variant, Delay};
use crate::kinds::FakeError;
use crate::proto::*;
use oauth2::basic::*;
use oauth2::*;
use serde::{Deserialize, Serialize};
use std::cell::Cell;

#[derive(Clone, Debug, Deserialize, Serialize, PartialEq)]
pub struct Ext {
    #[serde(skip_serializing_if = "Option::is_none")]
    id_token: Option<String>,
    #[serde(skip_serializing_if = "Option::is_none")]
    x_num: Option<u64>,
}
impl ExtraTokenFields for Ext {}
impl ExtraDeviceAuthorizationFields for Ext {}

/// Application-defined token types, as the crate's documentation invites: (a) a hand-written
/// catch-all enum modelled on BasicTokenType, (b) a derived newtype struct, (c) a derived
/// lower-case unit enum.  Whatever the type, `token_type` is matched on its LOWER-CASED spelling.
#[derive(Clone, Debug, PartialEq)]
pub enum CatchAllTT {
    Bearer,
    Mac,
    DPoP,
    Other(String),
}
impl<'de> Deserialize<'de> for CatchAllTT {
    fn deserialize<D: serde::Deserializer<'de>>(d: D) -> Result<Self, D::Error> {
        let s = String::deserialize(d)?;
        Ok(match s.as_str() {
            "bearer" => CatchAllTT::Bearer,
            "mac" => CatchAllTT::Mac,
            "DPoP" => CatchAllTT::DPoP, // never reached through the library: it lower-cases first
            _ => CatchAllTT::Other(s),
        })
    }
}
impl Serialize for CatchAllTT {
    fn serialize<S: serde::Serializer>(&self, s: S) -> Result<S::Ok, S::Error> {
        s.serialize_str(match self {
            CatchAllTT::Bearer => "bearer",
            CatchAllTT::Mac => "mac",
            CatchAllTT::DPoP => "DPoP",
            CatchAllTT::Other(o) => o,
        })
    }
}
impl TokenType for CatchAllTT {}
#[derive(Clone, Debug, Deserialize, Serialize, PartialEq)]
pub struct NewtypeTT(pub String);
impl TokenType for NewtypeTT {}
#[derive(Clone, Debug, Deserialize, Serialize, PartialEq)]
#[serde(rename_all = "lowercase")]
pub enum UnitTT {
    Bearer,
    Mac,
}
impl TokenType for UnitTT {}

/// the three custom token types against what BasicTokenType reported for the same document
fn custom_token_types_agree(text: &[u8], basic: Option<&BasicTokenType>, intro: bool) -> Option<String> {
    let expect_str: Option<String> = basic.map(|t| t.as_ref().to_string());
    macro_rules! get {
        ($tt:ty) => {
            if intro {
                serde_json::from_slice::<StandardTokenIntrospectionResponse<EmptyExtraTokenFields, $tt>>(text).ok().map(|r| r.token_type().cloned())
            } else {
                serde_json::from_slice::<StandardTokenResponse<EmptyExtraTokenFields, $tt>>(text).ok().map(|r| Some(r.token_type().clone()))
            }
        };
    }
    // basic: None = document rejected; Some(None) = accepted without token_type (introspection)
    let a = get!(CatchAllTT);
    let want_a = expect_str.as_ref().map(|s| match s.as_str() {
        "bearer" => CatchAllTT::Bearer,
        "mac" => CatchAllTT::Mac,
        o => CatchAllTT::Other(o.to_string()),
    });
    let b = get!(NewtypeTT);
    let want_b = expect_str.clone().map(NewtypeTT);
    let c = get!(UnitTT);
    let want_c: Option<Option<UnitTT>> = match expect_str.as_deref() {
        Some("bearer") => Some(Some(UnitTT::Bearer)),
        Some("mac") => Some(Some(UnitTT::Mac)),
        Some(_) => None, // an extension name is not a variant: the document is rejected
        None => Some(None),
    };
    Some(format!("{:?}|{:?}|{:?}", a == Some(want_a.clone()), b == Some(want_b.clone()), c == want_c))
        .filter(|_| a != Some(want_a) || b != Some(want_b) || c != want_c)
}

/// a map-typed extension: receives every member the library's own struct does not know
#[derive(Clone, Debug, Deserialize, Serialize, PartialEq)]
pub struct ExtMap(pub std::collections::BTreeMap<String, serde_json::Value>);
impl ExtraTokenFields for ExtMap {}
impl ExtraDeviceAuthorizationFields for ExtMap {}
impl RenderEf for ExtMap {
    fn render(&self) -> String {
        let keys: Vec<&[u8]> = self.0.keys().map(|k| k.as_bytes()).collect();
        tok_list(&keys)
    }
}

type XToken = StandardTokenResponse<Ext, BasicTokenType>;
type XIntro = StandardTokenIntrospectionResponse<Ext, BasicTokenType>;
type XDev = DeviceAuthorizationResponse<Ext>;
type XClient<A, D, I, R, T> =
    Client<BasicErrorResponse, XToken, XIntro, StandardRevocableToken, BasicRevocationErrorResponse, A, D, I, R, T>;

pub trait RenderEf {
    fn render(&self) -> String;
}
impl RenderEf for EmptyExtraTokenFields {
    fn render(&self) -> String {
        "-".into()
    }
}
impl RenderEf for EmptyExtraDeviceAuthorizationFields {
    fn render(&self) -> String {
        "-".into()
    }
}
impl RenderEf for Ext {
    fn render(&self) -> String {
        format!(
            "{}/{}",
            tok_opt(self.id_token.as_ref().map(|s| s.as_bytes())),
            match self.x_num {
                None => "-".to_string(),
                Some(n) => n.to_string(),
            }
        )
    }
}

pub fn render_tt(t: &BasicTokenType) -> String {
    match t {
        BasicTokenType::Bearer => "Bearer".into(),
        BasicTokenType::Mac => "Mac".into(),
        BasicTokenType::Extension(s) => format!("Ext.{}", tok_bytes(s.as_bytes())),
    }
}
fn optlist<T: AsRef<[u8]>>(o: Option<&Vec<T>>) -> String {
    match o {
        None => "-".into(),
        Some(l) => tok_list(l),
    }
}

pub fn render_token<EF: ExtraTokenFields + RenderEf>(t: &StandardTokenResponse<EF, BasicTokenType>) -> String {
    let scopes: Option<Vec<Vec<u8>>> = t.scopes().map(|l| l.iter().map(|s| s.as_bytes().to_vec()).collect());
    format!(
        "tok:{}:{}:{}:{}:{}:{}",
        tok_bytes(t.access_token().secret().as_bytes()),
        render_tt(t.token_type()),
        match t.expires_in() {
            None => "-".to_string(),
            Some(d) => {
                assert_eq!(d.subsec_nanos(), 0);
                d.as_secs().to_string()
            }
        },
        tok_opt(t.refresh_token().map(|r| r.secret().as_bytes())),
        optlist(scopes.as_ref()),
        t.extra_fields().render()
    )
}

pub fn render_intro<EF: ExtraTokenFields + RenderEf>(r: &StandardTokenIntrospectionResponse<EF, BasicTokenType>) -> String {
    let scopes: Option<Vec<Vec<u8>>> = r.scopes().map(|l| l.iter().map(|s| s.as_bytes().to_vec()).collect());
    let ts = |t: Option<chrono::DateTime<chrono::Utc>>| match t {
        None => "-".to_string(),
        Some(t) => {
            assert_eq!(t.timestamp_subsec_nanos(), 0);
            t.timestamp().to_string()
        }
    };
    format!(
        "int:{}:{}:{}:{}:{}:{}:{}:{}:{}:{}:{}:{}:{}",
        r.active() as u8,
        optlist(scopes.as_ref()),
        tok_opt(r.client_id().map(|c| c.as_bytes())),
        tok_opt(r.username().map(|c| c.as_bytes())),
        match r.token_type() {
            None => "-".to_string(),
            Some(t) => render_tt(t),
        },
        ts(r.exp()),
        ts(r.iat()),
        ts(r.nbf()),
        tok_opt(r.sub().map(|c| c.as_bytes())),
        optlist(r.aud()),
        tok_opt(r.iss().map(|c| c.as_bytes())),
        tok_opt(r.jti().map(|c| c.as_bytes())),
        r.extra_fields().render()
    )
}

pub fn render_dev<EF: ExtraDeviceAuthorizationFields + RenderEf>(d: &DeviceAuthorizationResponse<EF>) -> String {
    // (what an application shows to the user: Display and Deref of the verification URI are the text the server sent)
    if d.verification_uri().to_string() != d.verification_uri().as_str() || &***d.verification_uri() != d.verification_uri().as_str() {
        return format!("verification-uri-displays-as {}", tok_bytes(d.verification_uri().to_string().as_bytes()));
    }
    format!(
        "dev:{}:{}:{}:{}:{}:{}:{}",
        tok_bytes(d.device_code().secret().as_bytes()),
        tok_bytes(d.user_code().secret().as_bytes()),
        tok_bytes(d.verification_uri().as_str().as_bytes()),
        tok_opt(d.verification_uri_complete().map(|c| c.secret().as_bytes())),
        d.expires_in().as_secs(),
        d.interval().as_secs(),
        d.extra_fields().render()
    )
}

pub fn render_error<T: ErrorResponseType + AsRef<str> + std::fmt::Display + 'static>(e: &StandardErrorResponse<T>) -> String {
    format!(
        "server {} {} {} {} {}",
        tok_bytes(e.error().as_ref().as_bytes()),
        tok_opt(e.error_description().map(|s| s.as_bytes())),
        tok_opt(e.error_uri().map(|s| s.as_bytes())),
        tok_bytes(e.to_string().as_bytes()),
        tok_bytes(serde_json::to_string(e).unwrap().as_bytes())
    )
}

pub fn render_result<V, T, F>(r: Result<V, RequestTokenError<FakeError, StandardErrorResponse<T>>>, f: F) -> String
where
    T: ErrorResponseType + AsRef<str> + std::fmt::Display + 'static,
    F: Fn(&V) -> String,
{
    match r {
        Ok(v) => f(&v),
        Err(RequestTokenError::ServerResponse(e)) => render_error(&e),
        Err(RequestTokenError::Parse(_, body)) => format!("parse {}", tok_bytes(&body)),
        Err(RequestTokenError::Other(_)) => "other".to_string(),
        Err(RequestTokenError::Request(e)) => format!("request {}", tok_bytes(e.0.as_bytes())),
    }
}

pub fn okv<V: Serialize>(r: String, v: &V) -> String {
    format!("ok {} {}", r, tok_bytes(serde_json::to_string(v).unwrap().as_bytes()))
}

/// complete text of an outcome (Debug and Display of errors included)
pub fn full_text<V: std::fmt::Debug, E: std::fmt::Debug + std::fmt::Display>(r: &Result<V, E>) -> String {
    match r {
        Ok(v) => format!("Ok({:?})", v),
        Err(e) => format!("Err({:?}) [{}]", e, e),
    }
}

macro_rules! run_kind {
    ($client:expr, $kind:expr, $asyncv:expr, $sc:expr, $ac:expr, $sc2:expr, $ac2:expr, $devty:ty, $variant:expr, $calls:expr) => {{
        let client = $client;
        let rt = RefreshToken::new("r".to_string());
        let u = ResourceOwnerUsername::new("u".to_string());
        let p = ResourceOwnerPassword::new("p".to_string());
        let at = AccessToken::new("t".to_string());
        // the request goes through the twin named by the case AND through the other twin (blocking
        // <-> future): both must produce the same outcome down to the text of every error
        macro_rules! go {
            ($mk:expr, $rty:ty, $okf:expr) => {{
                let r: $rty = if $asyncv {
                    // a future does nothing until it is polled
                    let fut = $mk.request_async(&$ac);
                    if $calls.get() != 0 {
                        return "eager-future".to_string();
                    }
                    $variant.drive(fut)
                } else {
                    $mk.request(&$sc)
                };
                let t: $rty = if $asyncv { $mk.request(&$sc2) } else { $variant.drive($mk.request_async(&$ac2)) };
                if full_text(&r) != full_text(&t) {
                    return format!("twins-differ this={} other={}", tok_bytes(full_text(&r).as_bytes()), tok_bytes(full_text(&t).as_bytes()));
                }
                render_result(r, $okf)
            }};
        }
        match $kind {
            "code" => go!(client.exchange_code(AuthorizationCode::new("c".to_string())), Result<_, _>, |v| okv(render_token(v), v)),
            // (the requests ask for scopes: what the reply says about scopes is reported as the reply says it)
            "refresh" => go!(client.exchange_refresh_token(&rt).add_scope(Scope::new("requested-1".to_string())), Result<_, _>, |v| okv(render_token(v), v)),
            "password" => go!(
                client.exchange_password(&u, &p).add_scopes(vec![Scope::new("requested-1".to_string()), Scope::new("requested-2".to_string())]),
                Result<_, _>,
                |v| okv(render_token(v), v)
            ),
            "cc" => go!(client.exchange_client_credentials().add_scope(Scope::new("requested-1".to_string())), Result<_, _>, |v| okv(render_token(v), v)),
            "introspect" => go!(client.introspect(&at), Result<_, _>, |v| okv(render_intro(v), v)),
            "devauth" => go!(client.exchange_device_code().add_scope(Scope::new("requested-1".to_string())), Result<$devty, _>, |v| okv(render_dev(v), v)),
            "revoke" => go!(
                client.revoke_token(StandardRevocableToken::AccessToken(AccessToken::new("t".to_string()))).unwrap(),
                Result<_, _>,
                |_v| "ok unit".to_string()
            ),
            _ => BAD.into(),
        }
    }};
}

/// `HTTP variant kind ef status ct body urltab`
pub fn run(ws: &[&str]) -> String {
    if ws.len() != 7 {
        return BAD.into();
    }
    let variant = match parse_variant(ws[0]) {
        Some(v) => v,
        None => return BAD.into(),
    };
    let asyncv = !variant.is_sync();
    let kind = ws[1];
    let ext = ws[2] == "X";
    let status: u16 = match ws[3].parse() {
        Ok(s) => s,
        Err(_) => return BAD.into(),
    };
    if status != 0 && !(100..=999).contains(&status) {
        return BAD.into();
    }
    let (ct, body) = match (untok_opt_bytes(ws[4]), untok_bytes(ws[5])) {
        (Some(c), Some(b)) => (c, b),
        _ => return BAD.into(),
    };
    let calls = Cell::new(0u32);
    let noise = ws.iter().flat_map(|w| w.bytes()).fold(0xcbf29ce484222325u64, |h, b| (h ^ b as u64).wrapping_mul(0x100000001b3)) >> 23 & 1 == 0;
    let reply = || -> Result<HttpResponse, FakeError> {
        calls.set(calls.get() + 1);
        if status == 0 {
            // the caller's own error value: it must come back unchanged
            return Err(FakeError(String::from_utf8_lossy(&body).to_string()));
        }
        let mut b = http::Response::builder().status(status);
        if let Some(ct) = &ct {
            // line feeds separate the values of SEVERAL Content-Type headers
            for one in ct.split(|c| *c == b'\n') {
                b = b.header(http::header::CONTENT_TYPE, match http::HeaderValue::from_bytes(one) { Ok(v) => v, Err(_) => std::panic::panic_any(Exhausted) });
            }
        }
        if noise {
            // headers that say nothing about the outcome: the classification may not depend on them
            b = b
                .header(http::header::CONTENT_ENCODING, "identity")
                .header(http::header::CONTENT_LENGTH, body.len() + if (body.len() / 2 + status as usize) % 2 == 0 { 7 } else { 0 })
                .header(http::header::DATE, "Thu, 01 Jan 1970 00:00:00 GMT")
                .header(http::header::CACHE_CONTROL, "no-store")
                .header(http::header::PRAGMA, "no-cache")
                .header(http::header::SERVER, "srv/1.0")
                .header(http::header::VARY, "Accept-Encoding")
                .header(http::header::SET_COOKIE, "sid=1; HttpOnly")
                .header(
                    http::header::WWW_AUTHENTICATE,
                    if (body.len() + status as usize) % 2 == 0 {
                        http::HeaderValue::from_static("Bearer realm=\"as\", error=\"invalid_token\", error_description=\"The access token expired\", error_uri=\"https://e.example/x\"")
                    } else {
                        http::HeaderValue::from_bytes(b"Bearer realm=\"Schl\xfcsselverwaltung\", error=\"insufficient_scope\"").unwrap()
                    },
                )
                .header(http::header::WWW_AUTHENTICATE, "Basic realm=\"x\"")
                .header(http::header::LOCATION, "https://elsewhere.example/moved?x=1")
                .header(http::header::RETRY_AFTER, "120")
                .header(http::header::CONTENT_LANGUAGE, "en")
                .header(http::header::CONNECTION, "close")
                .header("x-request-id", "0123456789abcdef")
                .header("x-content-type-options", "nosniff");
            for (n, v) in extra_noise_headers() {
                b = b.header(n.as_str(), v.as_str());
            }
        }
        Ok(b.body(body.clone()).unwrap())
    };
    let sync_client = |_r: HttpRequest| reply();
    let async_client = |_r: HttpRequest| Delay { n: variant.k(), v: Some(reply()) };
    // the other twin's transport (not counted)
    let reply2 = || -> Result<HttpResponse, FakeError> {
        let c = calls.get();
        let r = reply();
        calls.set(c);
        r
    };
    let sync_client2 = |_r: HttpRequest| reply2();
    let async_client2 = |_r: HttpRequest| Delay { n: 1, v: Some(reply2()) };
    let id = ClientId::new("aaa".to_string());
    let sec = ClientSecret::new("bbb".to_string());
    let t_url = TokenUrl::new("https://example.com/token".to_string()).unwrap();
    let out = if ext {
        let client: XClient<EndpointNotSet, EndpointNotSet, EndpointNotSet, EndpointNotSet, EndpointNotSet> = Client::new(id);
        let client = client
            .set_client_secret(sec)
            .set_token_uri(t_url)
            .set_introspection_url(IntrospectionUrl::new("https://example.com/i".to_string()).unwrap())
            .set_device_authorization_url(DeviceAuthorizationUrl::new("https://example.com/d".to_string()).unwrap())
            .set_revocation_url(RevocationUrl::new("https://example.com/r".to_string()).unwrap());
        run_kind!(client, kind, asyncv, sync_client, async_client, sync_client2, async_client2, XDev, variant, calls)
    } else {
        let client = BasicClient::new(id)
            .set_client_secret(sec)
            .set_token_uri(t_url)
            .set_introspection_url(IntrospectionUrl::new("https://example.com/i".to_string()).unwrap())
            .set_device_authorization_url(DeviceAuthorizationUrl::new("https://example.com/d".to_string()).unwrap())
            .set_revocation_url(RevocationUrl::new("https://example.com/r".to_string()).unwrap());
        run_kind!(client, kind, asyncv, sync_client, async_client, sync_client2, async_client2, StandardDeviceAuthorizationResponse, variant, calls)
    };
    format!("{} calls={}", out, calls.get())
}

fn render_error_short<T: ErrorResponseType + AsRef<str> + std::fmt::Display + 'static>(e: &StandardErrorResponse<T>) -> String {
    format!(
        "err:{}:{}:{}:{}",
        tok_bytes(e.error().as_ref().as_bytes()),
        tok_opt(e.error_description().map(|s| s.as_bytes())),
        tok_opt(e.error_uri().map(|s| s.as_bytes())),
        tok_bytes(e.to_string().as_bytes())
    )
}

/// serialise, read back, serialise again
fn built_rt<V, F>(v: &V, rend: F) -> String
where
    V: Serialize + serde::de::DeserializeOwned,
    F: Fn(&V) -> String,
{
    // serialise, read back, serialise; and once more (a value may only go wrong the second time)
    let j = serde_json::to_string(v).unwrap();
    let rt = match serde_json::from_slice::<V>(j.as_bytes()) {
        Ok(v2) => {
            let j2 = serde_json::to_string(&v2).unwrap();
            let rt2 = match serde_json::from_slice::<V>(j2.as_bytes()) {
                Ok(v3) => format!("{} {}", rend(&v3), tok_bytes(serde_json::to_string(&v3).unwrap().as_bytes())),
                Err(_) => "err".to_string(),
            };
            format!("{} {} rt {}", rend(&v2), tok_bytes(j2.as_bytes()), rt2)
        }
        Err(_) => "err".to_string(),
    };
    format!("ok {} {} rt {}", rend(v), tok_bytes(j.as_bytes()), rt)
}

/// does a JSON text repeat a member name inside some object?  (serde_json::Value silently keeps
/// the last of repeated members, typed decoding rejects a repeated known member: the two entry
/// points are only comparable on repetition-free documents)
struct DupCheck(bool);
impl<'de> serde::Deserialize<'de> for DupCheck {
    fn deserialize<D: serde::Deserializer<'de>>(d: D) -> Result<Self, D::Error> {
        struct V;
        impl<'de> serde::de::Visitor<'de> for V {
            type Value = DupCheck;
            fn expecting(&self, f: &mut std::fmt::Formatter) -> std::fmt::Result {
                f.write_str("any JSON value")
            }
            fn visit_bool<E>(self, _: bool) -> Result<DupCheck, E> { Ok(DupCheck(false)) }
            fn visit_i64<E>(self, _: i64) -> Result<DupCheck, E> { Ok(DupCheck(false)) }
            fn visit_u64<E>(self, _: u64) -> Result<DupCheck, E> { Ok(DupCheck(false)) }
            fn visit_f64<E>(self, _: f64) -> Result<DupCheck, E> { Ok(DupCheck(false)) }
            fn visit_str<E>(self, _: &str) -> Result<DupCheck, E> { Ok(DupCheck(false)) }
            fn visit_unit<E>(self) -> Result<DupCheck, E> { Ok(DupCheck(false)) }
            fn visit_seq<A: serde::de::SeqAccess<'de>>(self, mut a: A) -> Result<DupCheck, A::Error> {
                let mut dup = false;
                while let Some(DupCheck(d)) = a.next_element()? {
                    dup |= d;
                }
                Ok(DupCheck(dup))
            }
            fn visit_map<A: serde::de::MapAccess<'de>>(self, mut a: A) -> Result<DupCheck, A::Error> {
                let mut dup = false;
                let mut seen = std::collections::HashSet::new();
                while let Some(k) = a.next_key::<String>()? {
                    dup |= !seen.insert(k);
                    let DupCheck(d) = a.next_value()?;
                    dup |= d;
                }
                Ok(DupCheck(dup))
            }
        }
        d.deserialize_any(V)
    }
}

/// The response type inside an application's own wrapper: serde then replays the document from its
/// buffered form (explicit nulls arrive as units, strings as owned or borrowed content, ...).
#[derive(Deserialize)]
#[serde(untagged, bound = "T: serde::de::DeserializeOwned")]
enum Untagged<T> {
    It(T),
}

/// a writer that accepts `room` bytes and then fails
struct Limited {
    room: usize,
}
impl std::io::Write for Limited {
    fn write(&mut self, buf: &[u8]) -> std::io::Result<usize> {
        if self.room == 0 {
            return Err(std::io::Error::new(std::io::ErrorKind::WriteZero, "full"));
        }
        let n = buf.len().min(self.room);
        self.room -= n;
        Ok(n)
    }
    fn flush(&mut self) -> std::io::Result<()> {
        Ok(())
    }
}

/// `DECODE family ef text urltab`
#[derive(Deserialize, Default, PartialEq, Eq, PartialOrd, Ord, Debug, Clone)]
struct Word(String);
#[derive(Deserialize)]
struct AppScopes {
    #[serde(default, deserialize_with = "oauth2::helpers::deserialize_space_delimited_vec")]
    scope: Vec<String>,
}
#[derive(Deserialize)]
struct AppScopesSet {
    #[serde(default, deserialize_with = "oauth2::helpers::deserialize_space_delimited_vec")]
    scope: std::collections::BTreeSet<String>,
}
#[derive(Deserialize)]
struct AppScopesNewt {
    #[serde(default, deserialize_with = "oauth2::helpers::deserialize_space_delimited_vec")]
    scope: Vec<Word>,
}
#[derive(Serialize)]
struct AppScopesOut {
    #[serde(serialize_with = "oauth2::helpers::serialize_space_delimited_vec")]
    scope: Option<Vec<String>>,
    #[serde(serialize_with = "oauth2::helpers::serialize_space_delimited_vec")]
    none: Option<Vec<String>>,
}
#[derive(Deserialize)]
struct AppAud {
    #[serde(default, deserialize_with = "oauth2::helpers::deserialize_optional_string_or_vec_string")]
    aud: Option<Vec<String>>,
}

/// `SLOWRT token-doc introspection-doc device-doc error-doc`: the four documents are read, written
/// at once, and written and read again after more than a second of wall-clock time: the text and
/// the accessors may not depend on WHEN a value is written (or on how long ago it was read).
pub fn slowrt(ws: &[&str]) -> String {
    if ws.len() != 4 {
        return BAD.into();
    }
    let docs: Vec<Vec<u8>> = match ws.iter().map(|w| untok_bytes(w)).collect::<Option<Vec<_>>>() {
        Some(d) => d,
        None => return BAD.into(),
    };
    let tok = serde_json::from_slice::<BasicTokenResponse>(&docs[0]);
    let tokx = serde_json::from_slice::<XToken>(&docs[0]);
    let intro = serde_json::from_slice::<BasicTokenIntrospectionResponse>(&docs[1]);
    let dev = serde_json::from_slice::<StandardDeviceAuthorizationResponse>(&docs[2]);
    let devx = serde_json::from_slice::<XDev>(&docs[2]);
    let err = serde_json::from_slice::<BasicErrorResponse>(&docs[3]);
    let (tok, tokx, intro, dev, devx, err) = match (tok, tokx, intro, dev, devx, err) {
        (Ok(a), Ok(b), Ok(c), Ok(d), Ok(e), Ok(f)) => (a, b, c, d, e, f),
        _ => return "a-document-was-rejected".to_string(),
    };
    let write = || {
        vec![
            serde_json::to_string(&tok).unwrap(),
            serde_json::to_string(&tokx).unwrap(),
            serde_json::to_string(&intro).unwrap(),
            serde_json::to_string(&dev).unwrap(),
            serde_json::to_string(&devx).unwrap(),
            serde_json::to_string(&err).unwrap(),
            format!("{:?}|{:?}|{:?}|{:?}|{:?}", tok.expires_in(), dev.expires_in(), dev.interval(), devx.expires_in(), intro.exp()),
        ]
    };
    let first = write();
    std::thread::sleep(std::time::Duration::from_millis(1150));
    let later = write();
    if later != first {
        return format!("text-depends-on-time first={} later={}", tok_bytes(first.join("\n").as_bytes()), tok_bytes(later.join("\n").as_bytes()));
    }
    // read back what was written late, wait again, write: still the same text
    let dev2 = serde_json::from_str::<StandardDeviceAuthorizationResponse>(&later[3]);
    let tok2 = serde_json::from_str::<BasicTokenResponse>(&later[0]);
    let intro2 = serde_json::from_str::<BasicTokenIntrospectionResponse>(&later[2]);
    std::thread::sleep(std::time::Duration::from_millis(1150));
    match (dev2, tok2, intro2) {
        (Ok(d), Ok(t), Ok(i)) => {
            let again = [serde_json::to_string(&t).unwrap(), serde_json::to_string(&i).unwrap(), serde_json::to_string(&d).unwrap()];
            if again[0] != first[0] || again[1] != first[2] || again[2] != first[3] {
                return format!("second-round-trip-depends-on-time {}", tok_bytes(again.join("\n").as_bytes()));
            }
            "stable".to_string()
        }
        _ => "read-back-failed".to_string(),
    }
}

pub fn decode(ws: &[&str]) -> String {
    if ws.len() != 4 {
        return BAD.into();
    }
    let ext = ws[1] == "X";
    let text = match untok_bytes(ws[2]) {
        Some(t) => t,
        None => return BAD.into(),
    };
    macro_rules! de {
        ($t:ty, $r:expr) => {{
            let main = match serde_json::from_slice::<$t>(&text) {
                Ok(v) => built_rt(&v, $r),
                Err(_) => "err".to_string(),
            };
            // the other entry points of the same decoder must agree with the slice reader: a reader
            // (never lends borrowed strings) on every document, an owned serde_json::Value (hands
            // out owned strings, visit_string) on repetition-free documents
            let rd = match serde_json::from_reader::<_, $t>(&text[..]) {
                Ok(v) => built_rt(&v, $r),
                Err(_) => "err".to_string(),
            };
            if rd != main {
                return format!("paths-differ reader={}", tok_bytes(rd.as_bytes()));
            }
            // inside an application's untagged wrapper (flattened families only: the plain error
            // struct skips unknown members without buffering them, a wrapper buffers everything)
            if !ws[0].starts_with("err-") {
                let wrapped = match serde_json::from_slice::<Untagged<$t>>(&text) {
                    Ok(Untagged::It(v)) => format!("ok {} ", $r(&v)),
                    Err(_) => "err".to_string(),
                };
                let same = if wrapped == "err" { main == "err" } else { main.starts_with(&wrapped) };
                if !same {
                    return format!("paths-differ untagged-wrapper={}", tok_bytes(wrapped.as_bytes()));
                }
            }
            // a serialisation that FAILS part-way (the writer runs out of room at every prefix
            // length) must leave nothing behind: serialising again gives the same text
            if let Ok(v) = serde_json::from_slice::<$t>(&text) {
                let j = serde_json::to_vec(&v).unwrap();
                if j.len() <= 400 {
                    let step = (j.len() / 48).max(1);
                    let mut room = 0;
                    while room < j.len() {
                        if serde_json::to_writer(Limited { room }, &v).is_ok() {
                            return format!("failing-writer-succeeded room={}", room);
                        }
                        let again = serde_json::to_vec(&v).unwrap();
                        if again != j {
                            return format!("serialisation-depends-on-history room={} first={} again={}", room, tok_bytes(&j), tok_bytes(&again));
                        }
                        room += step;
                    }
                }
            }
            if let (Ok(DupCheck(false)), Ok(val)) = (serde_json::from_slice::<DupCheck>(&text), serde_json::from_slice::<serde_json::Value>(&text)) {
                let via = match serde_json::from_value::<$t>(val) {
                    Ok(v) => built_rt(&v, $r),
                    Err(_) => "err".to_string(),
                };
                if via != main {
                    return format!("paths-differ value={}", tok_bytes(via.as_bytes()));
                }
            }
            main
        }};
    }
    if ws[1] == "M" {
        macro_rules! dm {
            ($t:ty, $r:expr) => {
                match serde_json::from_slice::<$t>(&text) {
                    Ok(v) => format!("ok {}", $r(&v)),
                    Err(_) => "err".to_string(),
                }
            };
        }
        return match ws[0] {
            "token" => dm!(StandardTokenResponse<ExtMap, BasicTokenType>, render_token),
            "introspection" => dm!(StandardTokenIntrospectionResponse<ExtMap, BasicTokenType>, render_intro),
            "device" => dm!(DeviceAuthorizationResponse<ExtMap>, render_dev),
            _ => BAD.into(),
        };
    }
    // BasicTokenType on its own (an application's token response may hold one directly): what it reads
    // it writes back verbatim, and reading that gives an equal value
    if ws[1] == "E" && (ws[0] == "token" || ws[0] == "introspection") {
        if let Ok(serde_json::Value::Object(m)) = serde_json::from_slice::<serde_json::Value>(&text) {
            if let Some(serde_json::Value::String(tt)) = m.get("token_type") {
                let direct: BasicTokenType = serde_json::from_value(serde_json::Value::String(tt.clone())).unwrap();
                let back = serde_json::to_value(&direct).unwrap();
                let again: BasicTokenType = serde_json::from_value(back.clone()).unwrap();
                if back != serde_json::Value::String(tt.clone()) || again != direct || direct.as_ref() != tt.as_str() {
                    return format!("direct-token-type-roundtrip-differs read={} written={}", tok_bytes(tt.as_bytes()), tok_bytes(back.to_string().as_bytes()));
                }
            }
        }
    }
    if ws[1] == "E" && ws[0] == "token" {
        if let Ok(v) = serde_json::from_slice::<BasicTokenResponse>(&text) {
            if let Some(d) = custom_token_types_agree(&text, Some(v.token_type()), false) {
                return format!("custom-token-type-differs {}", d);
            }
        }
    }
    if ws[1] == "E" && ws[0] == "introspection" {
        if let Ok(v) = serde_json::from_slice::<BasicTokenIntrospectionResponse>(&text) {
            if let Some(d) = custom_token_types_agree(&text, v.token_type(), true) {
                return format!("custom-token-type-differs {}", d);
            }
        }
    }
    // the public serde helpers used directly by an application, with containers of its own (Vec<String>, a sorted set, a
    // newtype element; string-or-list for `aud`): they split, join and read exactly as the library's own members do
    if ws[1] == "E" && (ws[0] == "token" || ws[0] == "introspection") {
        let lib_scopes: Option<Option<Vec<String>>> = if ws[0] == "token" {
            serde_json::from_slice::<BasicTokenResponse>(&text).ok().map(|v| v.scopes().map(|l| l.iter().map(|s| s.to_string()).collect()))
        } else {
            serde_json::from_slice::<BasicTokenIntrospectionResponse>(&text).ok().map(|v| v.scopes().map(|l| l.iter().map(|s| s.to_string()).collect()))
        };
        if let Some(lib) = lib_scopes {
            match (serde_json::from_slice::<AppScopes>(&text), serde_json::from_slice::<AppScopesSet>(&text), serde_json::from_slice::<AppScopesNewt>(&text)) {
                (Ok(app), Ok(app2), Ok(app3)) => {
                    let want = lib.clone().unwrap_or_default();
                    let set: std::collections::BTreeSet<String> = want.iter().cloned().collect();
                    let newt: Vec<String> = app3.scope.iter().map(|w| w.0.clone()).collect();
                    if app.scope != want || app2.scope != set || newt != want {
                        return format!("helper-differs-from-the-library split lib={:?} app={:?}", lib, app.scope);
                    }
                    // written back through the public serialising helper: the library's own text of the member
                    if let Some(l) = &lib {
                        let out = serde_json::to_value(AppScopesOut { scope: Some(l.clone()), none: None }).unwrap();
                        let lib_text = if ws[0] == "token" {
                            serde_json::from_slice::<BasicTokenResponse>(&text).ok().and_then(|v| serde_json::to_value(&v).ok())
                        } else {
                            serde_json::from_slice::<BasicTokenIntrospectionResponse>(&text).ok().and_then(|v| serde_json::to_value(&v).ok())
                        };
                        if let Some(lt) = lib_text {
                            if out.get("scope") != lt.get("scope") || out.get("none") != Some(&serde_json::Value::Null) {
                                return format!("helper-differs-from-the-library join lib={:?} app={:?}", lt.get("scope"), out.get("scope"));
                            }
                        }
                    }
                }
                _ => return "helper-refuses-what-the-library-accepts".to_string(),
            }
        }
        if ws[0] == "introspection" {
            if let Ok(v) = serde_json::from_slice::<BasicTokenIntrospectionResponse>(&text) {
                match serde_json::from_slice::<AppAud>(&text) {
                    Ok(a) => {
                        if a.aud.as_ref() != v.aud() {
                            return format!("helper-differs-from-the-library aud lib={:?} app={:?}", v.aud(), a.aud);
                        }
                    }
                    Err(_) => return "aud-helper-refuses-what-the-library-accepts".to_string(),
                }
            }
        }
    }
    match (ws[0], ext) {
        ("token", false) => de!(BasicTokenResponse, render_token),
        ("token", true) => de!(XToken, render_token),
        ("introspection", false) => de!(BasicTokenIntrospectionResponse, render_intro),
        ("introspection", true) => de!(XIntro, render_intro),
        ("device", false) => de!(StandardDeviceAuthorizationResponse, render_dev),
        ("device", true) => de!(XDev, render_dev),
        ("err-basic", _) => de!(StandardErrorResponse<BasicErrorResponseType>, render_error_short),
        ("err-device", _) => de!(StandardErrorResponse<DeviceCodeErrorResponseType>, render_error_short),
        ("err-revocation", _) => de!(StandardErrorResponse<RevocationErrorResponseType>, render_error_short),
        _ => BAD.into(),
    }
}

fn parse_tt(t: &str) -> Option<BasicTokenType> {
    match t {
        "bearer" => Some(BasicTokenType::Bearer),
        "mac" => Some(BasicTokenType::Mac),
        _ => t.strip_prefix("ext:").and_then(untok_str).map(BasicTokenType::Extension),
    }
}
fn optlist_str(t: &str) -> Option<Option<Vec<String>>> {
    if t == "-" {
        Some(None)
    } else {
        untok_list_str(t).map(Some)
    }
}

/// `BUILT family a b c d e f`: values made with new()/set_*()
pub fn built(ws: &[&str]) -> String {
    if ws.len() == 13 && ws[0] == "introspection" {
        // every setter of StandardTokenIntrospectionResponse, in a scrambled order
        let ts = |t: &str| -> Option<Option<chrono::DateTime<chrono::Utc>>> {
            if t == "-" {
                Some(None)
            } else {
                chrono::DateTime::from_timestamp(t.parse().ok()?, 0).map(Some)
            }
        };
        let tt = |t: &str| -> Option<Option<BasicTokenType>> {
            if t == "-" { Some(None) } else { parse_tt(t).map(Some) }
        };
        let (sc, cid, un, tty, ex, ia, nb, su, au, is, jt) = match (
            optlist_str(ws[2]), untok_opt_str(ws[3]), untok_opt_str(ws[4]), tt(ws[5]), ts(ws[6]), ts(ws[7]), ts(ws[8]),
            untok_opt_str(ws[9]), optlist_str(ws[10]), untok_opt_str(ws[11]), untok_opt_str(ws[12]),
        ) {
            (Some(a), Some(b), Some(c), Some(d), Some(e), Some(f), Some(g), Some(h), Some(i), Some(j), Some(k)) => (a, b, c, d, e, f, g, h, i, j, k),
            _ => return BAD.into(),
        };
        // start from the opposite activity and unrelated values, then overwrite everything
        let mut r = BasicTokenIntrospectionResponse::new(ws[1] != "1", EmptyExtraTokenFields {});
        r.set_jti(jt);
        r.set_nbf(nb);
        r.set_scopes(sc.map(|l| l.into_iter().map(Scope::new).collect()));
        r.set_iss(is);
        r.set_username(un);
        r.set_exp(ex);
        r.set_token_type(tty);
        r.set_aud(au);
        r.set_client_id(cid.map(ClientId::new));
        r.set_iat(ia);
        r.set_sub(su);
        r.set_active(ws[1] == "1");
        r.set_extra_fields(EmptyExtraTokenFields {});
        return built_rt(&r, render_intro);
    }
    if ws.len() != 7 {
        return BAD.into();
    }
    match ws[0] {
        "token" => {
            let (a, b, c, d, e) = match (untok_str(ws[1]), parse_tt(ws[2]), untok_opt_u64(ws[3]), untok_opt_str(ws[4]), optlist_str(ws[5])) {
                (Some(a), Some(b), Some(c), Some(d), Some(e)) => (a, b, c, d, e),
                _ => return BAD.into(),
            };
            let mut t = BasicTokenResponse::new(AccessToken::new("placeholder".to_string()), BasicTokenType::Extension("placeholder".to_string()), EmptyExtraTokenFields {});
            t.set_access_token(AccessToken::new(a));
            t.set_token_type(b);
            t.set_extra_fields(EmptyExtraTokenFields {});
            // the lifetime is a whole number of seconds on the wire: a caller's Duration with a
            // sub-second part is stored as its whole seconds (for odd second counts one is passed)
            let dur = c.map(|s| if s % 2 == 1 { std::time::Duration::new(s, 999_999_999) } else { std::time::Duration::from_secs(s) });
            t.set_expires_in(dur.as_ref());
            t.set_refresh_token(d.map(RefreshToken::new));
            t.set_scopes(e.map(|l| l.into_iter().map(Scope::new).collect()));
            built_rt(&t, render_token)
        }
        "introspection" => return BAD.into(),
        "err-basic" => {
            let (a, b, c) = match (untok_str(ws[1]), untok_opt_str(ws[2]), untok_opt_str(ws[3])) {
                (Some(a), Some(b), Some(c)) => (a, b, c),
                _ => return BAD.into(),
            };
            let code: BasicErrorResponseType = serde_json::from_str(&serde_json::to_string(&a).unwrap()).unwrap();
            built_rt(&StandardErrorResponse::new(code, b, c), render_error_short)
        }
        "err-device" => {
            let (a, b, c) = match (untok_str(ws[1]), untok_opt_str(ws[2]), untok_opt_str(ws[3])) {
                (Some(a), Some(b), Some(c)) => (a, b, c),
                _ => return BAD.into(),
            };
            let code: DeviceCodeErrorResponseType = serde_json::from_str(&serde_json::to_string(&a).unwrap()).unwrap();
            built_rt(&StandardErrorResponse::new(code, b, c), render_error_short)
        }
        _ => BAD.into(),
    }
}

/// `ILV k schedule r1 r2 ...` (r = kind/status/ct/body): several requests in flight from ONE
/// shared client, polled in the given interleaving by a hand-written executor.
pub fn interleave(ws: &[&str]) -> String {
    use std::future::Future;
    use std::pin::Pin;
    use std::sync::Arc;
    use std::task::{Context, Poll, Wake, Waker};
    if ws.len() < 3 {
        return BAD.into();
    }
    let k: usize = match ws[0].parse() {
        Ok(k) => k,
        Err(_) => return BAD.into(),
    };
    let sched: Vec<usize> = if ws[1] == "." { vec![] } else { ws[1].split(',').filter_map(|s| s.parse().ok()).collect() };
    struct Spec {
        kind: String,
        status: u16,
        ct: Option<Vec<u8>>,
        body: Vec<u8>,
    }
    let mut specs = vec![];
    for r in &ws[2..] {
        let p: Vec<&str> = r.split('/').collect();
        if p.len() != 4 {
            return BAD.into();
        }
        let (st, ct, body) = match (p[1].parse::<u16>(), untok_opt_bytes(p[2]), untok_bytes(p[3])) {
            (Ok(s), Some(c), Some(b)) => (s, c, b),
            _ => return BAD.into(),
        };
        if st != 0 && !(100..=999).contains(&st) {
            return BAD.into();
        }
        specs.push(Spec { kind: p[0].to_string(), status: st, ct, body });
    }
    let client = BasicClient::new(ClientId::new("aaa".to_string()))
        .set_client_secret(ClientSecret::new("bbb".to_string()))
        .set_token_uri(TokenUrl::new("https://example.com/token".to_string()).unwrap())
        .set_introspection_url(IntrospectionUrl::new("https://example.com/i".to_string()).unwrap())
        .set_device_authorization_url(DeviceAuthorizationUrl::new("https://example.com/d".to_string()).unwrap())
        .set_revocation_url(RevocationUrl::new("https://example.com/r".to_string()).unwrap());
    let rt = RefreshToken::new("r".to_string());
    let u = ResourceOwnerUsername::new("u".to_string());
    let p = ResourceOwnerPassword::new("p".to_string());
    let at = AccessToken::new("t".to_string());
    let calls: Vec<Cell<u32>> = specs.iter().map(|_| Cell::new(0)).collect();
    // one HTTP client closure per request
    let clients: Vec<Box<dyn Fn(HttpRequest) -> Delay<Result<HttpResponse, FakeError>> + '_>> = specs
        .iter()
        .enumerate()
        .map(|(i, s)| {
            let calls = &calls;
            Box::new(move |_r: HttpRequest| {
                calls[i].set(calls[i].get() + 1);
                let res = if s.status == 0 {
                    Err(FakeError(String::from_utf8_lossy(&s.body).to_string()))
                } else {
                    let mut b = http::Response::builder().status(s.status);
                    if let Some(ct) = &s.ct {
                        b = b.header(http::header::CONTENT_TYPE, http::HeaderValue::from_bytes(ct).unwrap());
                    }
                    Ok(b.body(s.body.clone()).unwrap())
                };
                Delay { n: k + i, v: Some(res) }
            }) as Box<dyn Fn(HttpRequest) -> Delay<Result<HttpResponse, FakeError>> + '_>
        })
        .collect();
    // what each request gets ALONE through the blocking twin, with the complete text of the
    // outcome (Debug and Display of errors included): the interleaved outcome must be identical
    let mut alone: Vec<String> = vec![];
    for s in specs.iter() {
        let sc = |_r: HttpRequest| -> Result<HttpResponse, FakeError> {
            if s.status == 0 {
                Err(FakeError(String::from_utf8_lossy(&s.body).to_string()))
            } else {
                let mut b = http::Response::builder().status(s.status);
                if let Some(ct) = &s.ct {
                    b = b.header(http::header::CONTENT_TYPE, http::HeaderValue::from_bytes(ct).unwrap());
                }
                Ok(b.body(s.body.clone()).unwrap())
            }
        };
        alone.push(match s.kind.as_str() {
            "code" => full_text(&client.exchange_code(AuthorizationCode::new("c".to_string())).request(&sc)),
            "refresh" => full_text(&client.exchange_refresh_token(&rt).request(&sc)),
            "password" => full_text(&client.exchange_password(&u, &p).request(&sc)),
            "cc" => full_text(&client.exchange_client_credentials().request(&sc)),
            "introspect" => full_text(&client.introspect(&at).request(&sc)),
            "devauth" => {
                let r: Result<StandardDeviceAuthorizationResponse, _> = client.exchange_device_code().request(&sc);
                full_text(&r)
            }
            "revoke" => full_text(&client.revoke_token(StandardRevocableToken::AccessToken(AccessToken::new("t".to_string()))).unwrap().request(&sc)),
            _ => return BAD.into(),
        });
    }
    let mut futs: Vec<Pin<Box<dyn Future<Output = (String, String)> + '_>>> = vec![];
    for (i, s) in specs.iter().enumerate() {
        let c = &clients[i];
        let client = &client;
        let (rt, u, p, at) = (&rt, &u, &p, &at);
        macro_rules! fut {
            ($req:expr, $okf:expr) => {
                Box::pin(async move {
                    let r = $req.request_async(c).await;
                    let full = full_text(&r);
                    (render_result(r, $okf), full)
                })
            };
        }
        let f: Pin<Box<dyn Future<Output = (String, String)> + '_>> = match s.kind.as_str() {
            "code" => fut!(client.exchange_code(AuthorizationCode::new("c".to_string())), |v| okv(render_token(v), v)),
            "refresh" => fut!(client.exchange_refresh_token(rt), |v| okv(render_token(v), v)),
            "password" => fut!(client.exchange_password(u, p), |v| okv(render_token(v), v)),
            "cc" => fut!(client.exchange_client_credentials(), |v| okv(render_token(v), v)),
            "introspect" => fut!(client.introspect(at), |v| okv(render_intro(v), v)),
            "devauth" => Box::pin(async move {
                let r: Result<StandardDeviceAuthorizationResponse, _> = client.exchange_device_code().request_async(c).await;
                let full = full_text(&r);
                (render_result(r, |v| okv(render_dev(v), v)), full)
            }),
            "revoke" => Box::pin(async move {
                let req = client.revoke_token(StandardRevocableToken::AccessToken(AccessToken::new("t".to_string()))).unwrap();
                let r = req.request_async(c).await;
                let full = full_text(&r);
                (render_result(r, |_v| "ok unit".to_string()), full)
            }),
            _ => return BAD.into(),
        };
        futs.push(f);
    }
    if calls.iter().any(|c| c.get() != 0) {
        return "eager-future".to_string();
    }
    struct Noop;
    impl Wake for Noop {
        fn wake(self: Arc<Self>) {}
    }
    let waker = Waker::from(Arc::new(Noop));
    let mut cx = Context::from_waker(&waker);
    let n = futs.len();
    let mut done: Vec<Option<(String, String)>> = vec![None; n];
    let mut poll_one = |i: usize, futs: &mut Vec<Pin<Box<dyn Future<Output = (String, String)> + '_>>>, done: &mut Vec<Option<(String, String)>>| {
        if i < n && done[i].is_none() {
            if let Poll::Ready(s) = futs[i].as_mut().poll(&mut cx) {
                done[i] = Some(s);
            }
        }
    };
    for &i in &sched {
        poll_one(i, &mut futs, &mut done);
    }
    let mut rounds = 0;
    while done.iter().any(|d| d.is_none()) {
        for i in 0..n {
            poll_one(i, &mut futs, &mut done);
        }
        rounds += 1;
        if rounds > 100000 {
            return "HANG".into();
        }
    }
    for (i, d) in done.iter().enumerate() {
        let full = &d.as_ref().unwrap().1;
        if *full != alone[i] {
            return format!(
                "differs-from-alone request={} alone={} interleaved={}",
                i,
                tok_bytes(alone[i].as_bytes()),
                tok_bytes(full.as_bytes())
            );
        }
    }
    done.into_iter()
        .enumerate()
        .map(|(i, d)| format!("{} calls={}", d.unwrap().0, calls[i].get()))
        .collect::<Vec<_>>()
        .join(" || ")
}
