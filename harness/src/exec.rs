//! A bare executor: polls a future with a no-op waker until it is ready.
use std::future::Future;
use std::pin::Pin;
use std::sync::Arc;
use std::task::{Context, Poll, Wake, Waker};

struct Noop;
impl Wake for Noop {
    fn wake(self: Arc<Self>) {}
}

pub fn block_on<F: Future>(fut: F) -> F::Output {
    let waker = Waker::from(Arc::new(Noop));
    let mut cx = Context::from_waker(&waker);
    let mut fut = Box::pin(fut);
    let mut n = 0u64;
    loop {
        match fut.as_mut().poll(&mut cx) {
            Poll::Ready(v) => return v,
            Poll::Pending => {
                n += 1;
                if n > 10_000_000 {
                    panic!("future never became ready");
                }
            }
        }
    }
}

/// A future that reports Pending `n` times before completing with `v`.
pub struct Delay<T> {
    pub n: usize,
    pub v: Option<T>,
}
impl<T: Unpin> Future for Delay<T> {
    type Output = T;
    fn poll(mut self: Pin<&mut Self>, cx: &mut Context<'_>) -> Poll<T> {
        if self.n == 0 {
            Poll::Ready(self.v.take().expect("polled after completion"))
        } else {
            self.n -= 1;
            cx.waker().wake_by_ref();
            Poll::Pending
        }
    }
}

/// How a request is driven: the blocking call, the future on the bare executor above, or the
/// future on a tokio current-thread runtime; `k` = number of times every inner (HTTP / sleep)
/// future reports Pending before completing.
#[derive(Clone, Copy, Debug)]
pub enum Variant {
    Sync,
    Bare(usize),
    Tokio(usize),
}
pub fn parse_variant(s: &str) -> Option<Variant> {
    let (name, k) = match s.split_once(':') {
        Some((n, k)) => (n, k.parse().ok()?),
        None => (s, 0),
    };
    match name {
        "sync" => Some(Variant::Sync),
        "async" => Some(Variant::Bare(k)),
        "tokio" => Some(Variant::Tokio(k)),
        _ => None,
    }
}
impl Variant {
    pub fn is_sync(&self) -> bool {
        matches!(self, Variant::Sync)
    }
    pub fn k(&self) -> usize {
        match self {
            Variant::Sync => 0,
            Variant::Bare(k) | Variant::Tokio(k) => *k,
        }
    }
    pub fn drive<F: Future>(&self, fut: F) -> F::Output {
        match self {
            Variant::Tokio(_) => tokio::runtime::Builder::new_current_thread().build().unwrap().block_on(fut),
            _ => block_on(fut),
        }
    }
}
