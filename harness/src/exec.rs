//! A bare executor: polls a future with a no-op waker until it is ready.
use std::future::Future;
use std::pin::Pin;
use std::sync::Arc;
use std::task::{Context, Poll, Wake, Waker};

struct Noop;
impl Wake for Noop {
    fn wake(self: Arc<Self>) {}
}

pub fn block_on<F: Future>(fut: F) -> F::Output {
    let waker = Waker::from(Arc::new(Noop));
    let mut cx = Context::from_waker(&waker);
    let mut fut = Box::pin(fut);
    let mut n = 0u64;
    loop {
        match fut.as_mut().poll(&mut cx) {
            Poll::Ready(v) => return v,
            Poll::Pending => {
                n += 1;
                if n > 10_000_000 {
                    panic!("future never became ready");
                }
            }
        }
    }
}

/// A future that reports Pending `n` times before completing with `v`.
pub struct Delay<T> {
    pub n: usize,
    pub v: Option<T>,
}
impl<T: Unpin> Future for Delay<T> {
    type Output = T;
    fn poll(mut self: Pin<&mut Self>, cx: &mut Context<'_>) -> Poll<T> {
        if self.n == 0 {
            Poll::Ready(self.v.take().expect("polled after completion"))
        } else {
            self.n -= 1;
            cx.waker().wake_by_ref();
            Poll::Pending
        }
    }
}
