//! C11: arbitrary sequences of the 19 configuration operations, run through a generic recursive
//! driver over the 3^5 endpoint typestates, followed by every getter and every operation the
//! resulting type permits.  Separate binary: the 243 instantiations are slow to compile.
#[path = "proto.rs"]
mod proto;
#[path = "kinds.rs"]
mod kinds;
mod watch;

use kinds::FakeError;
use oauth2::basic::*;
use oauth2::*;
use proto::*;
use std::cell::RefCell;
use std::time::Duration;

type C<A, D, I, R, T> = Client<
    BasicErrorResponse,
    BasicTokenResponse,
    BasicTokenIntrospectionResponse,
    StandardRevocableToken,
    BasicRevocationErrorResponse,
    A,
    D,
    I,
    R,
    T,
>;

#[derive(Clone, Debug)]
enum Op {
    SetUrl(u8, String),
    SetUrlOpt(u8, Option<String>),
    Secret(String),
    Redirect(String),
    Basic,
    Body,
}

fn render_req(r: &HttpRequest) -> String {
    let mut hs: Vec<(String, Vec<u8>)> = r
        .headers()
        .iter()
        .map(|(k, v)| (k.as_str().to_string(), v.as_bytes().to_vec()))
        .collect();
    hs.sort();
    let hs = hs
        .iter()
        .map(|(k, v)| format!("{}={}", tok_bytes(k.as_bytes()), tok_bytes(v)))
        .collect::<Vec<_>>()
        .join(";");
    format!(
        "{}|{}|{}|{}",
        tok_bytes(r.method().as_str().as_bytes()),
        tok_bytes(r.uri().to_string().as_bytes()),
        hs,
        tok_bytes(r.body())
    )
}

thread_local! {
    // credentials that coincide with the case's own under a lossy reading (other split of
    // "id:secret", other case): a request of ANOTHER client carrying them is sent on this thread
    // immediately before every observed request
    static LOOKALIKE: RefCell<Vec<(String, String)>> = RefCell::new(vec![]);
}

fn capture<F: FnOnce(&dyn Fn(HttpRequest) -> Result<HttpResponse, FakeError>)>(f: F) -> String {
    let decoys: Vec<(String, String)> = LOOKALIKE.with(|l| l.borrow().clone());
    for (did, dsec) in decoys {
        let quiet = |_r: HttpRequest| -> Result<HttpResponse, FakeError> { Err(FakeError("decoy".into())) };
        let c = BasicClient::new(ClientId::new(did))
            .set_client_secret(ClientSecret::new(dsec))
            .set_token_uri(TokenUrl::new("https://decoy.example/token".to_string()).unwrap());
        let _ = c.exchange_client_credentials().request(&quiet);
    }
    let cap: RefCell<Vec<HttpRequest>> = RefCell::new(vec![]);
    let http = |r: HttpRequest| -> Result<HttpResponse, FakeError> {
        cap.borrow_mut().push(r);
        Ok(http::Response::builder()
            .status(200)
            .body(br#"{"access_token":"t","token_type":"bearer"}"#.to_vec())
            .unwrap())
    };
    f(&http);
    let c = cap.borrow();
    match c.len() {
        0 => "other".to_string(),
        1 => render_req(&c[0]),
        _ => "many-calls".to_string(),
    }
}

fn details() -> StandardDeviceAuthorizationResponse {
    serde_json::from_str(r#"{"device_code":"d","user_code":"u","verification_uri":"https://v/","expires_in":100000,"interval":0}"#).unwrap()
}

fn authobs(r: AuthorizationRequest) -> String {
    let (u, st) = r.url();
    format!("{}/{}", tok_bytes(u.as_str().as_bytes()), tok_bytes(st.secret().as_bytes()))
}

trait AuthSt: EndpointState + Sized + 'static {
    fn obs<D: EndpointState, I: EndpointState, R: EndpointState, T: EndpointState>(c: &C<Self, D, I, R, T>) -> String;
}
impl AuthSt for EndpointNotSet {
    fn obs<D: EndpointState, I: EndpointState, R: EndpointState, T: EndpointState>(_c: &C<Self, D, I, R, T>) -> String {
        "absent".into()
    }
}
impl AuthSt for EndpointSet {
    fn obs<D: EndpointState, I: EndpointState, R: EndpointState, T: EndpointState>(c: &C<Self, D, I, R, T>) -> String {
        format!("set,{},{}", tok_bytes(c.auth_uri().as_str().as_bytes()),
                authobs(c.authorize_url(|| CsrfToken::new("st".into()))))
    }
}
impl AuthSt for EndpointMaybeSet {
    fn obs<D: EndpointState, I: EndpointState, R: EndpointState, T: EndpointState>(c: &C<Self, D, I, R, T>) -> String {
        let o = match c.authorize_url(|| CsrfToken::new("st".into())) {
            Ok(r) => authobs(r),
            Err(ConfigurationError::MissingUrl(n)) => format!("missing:{}", tok_bytes(n.as_bytes())),
            Err(_) => "config-other".into(),
        };
        format!("maybe,{},{}", tok_opt(c.auth_uri().map(|u| u.as_str().as_bytes())), o)
    }
}

fn cfgerr<X>(r: Result<X, ConfigurationError>) -> Result<X, String> {
    match r {
        Ok(x) => Ok(x),
        Err(ConfigurationError::MissingUrl(n)) => Err(format!("missing:{}", tok_bytes(n.as_bytes()))),
        Err(ConfigurationError::InsecureUrl(n)) => Err(format!("insecure:{}", tok_bytes(n.as_bytes()))),
        Err(_) => Err("config-other".into()),
    }
}

trait TokSt: EndpointState + Sized + 'static {
    fn obs<A: EndpointState, D: EndpointState, I: EndpointState, R: EndpointState>(c: &C<A, D, I, R, Self>) -> String;
}
impl TokSt for EndpointNotSet {
    fn obs<A: EndpointState, D: EndpointState, I: EndpointState, R: EndpointState>(_c: &C<A, D, I, R, Self>) -> String {
        "absent".into()
    }
}
impl TokSt for EndpointSet {
    fn obs<A: EndpointState, D: EndpointState, I: EndpointState, R: EndpointState>(c: &C<A, D, I, R, Self>) -> String {
        let rt = RefreshToken::new("r".into());
        let u = ResourceOwnerUsername::new("u".into());
        let p = ResourceOwnerPassword::new("p".into());
        let d = details();
        let o = vec![
            capture(|h| { let _ = c.exchange_code(AuthorizationCode::new("c".into())).request(&h); }),
            capture(|h| { let _ = c.exchange_refresh_token(&rt).request(&h); }),
            capture(|h| { let _ = c.exchange_password(&u, &p).request(&h); }),
            capture(|h| { let _ = c.exchange_client_credentials().request(&h); }),
            capture(|h| { let _ = c.exchange_device_access_token(&d).request(&h, |_d: Duration| {}, None); }),
        ];
        format!("set,{},{}", tok_bytes(c.token_uri().as_str().as_bytes()), o.join(","))
    }
}
impl TokSt for EndpointMaybeSet {
    fn obs<A: EndpointState, D: EndpointState, I: EndpointState, R: EndpointState>(c: &C<A, D, I, R, Self>) -> String {
        let rt = RefreshToken::new("r".into());
        let u = ResourceOwnerUsername::new("u".into());
        let p = ResourceOwnerPassword::new("p".into());
        let d = details();
        let o = vec![
            match cfgerr(c.exchange_code(AuthorizationCode::new("c".into()))) { Ok(r) => capture(|h| { let _ = r.request(&h); }), Err(e) => e },
            match cfgerr(c.exchange_refresh_token(&rt)) { Ok(r) => capture(|h| { let _ = r.request(&h); }), Err(e) => e },
            match cfgerr(c.exchange_password(&u, &p)) { Ok(r) => capture(|h| { let _ = r.request(&h); }), Err(e) => e },
            match cfgerr(c.exchange_client_credentials()) { Ok(r) => capture(|h| { let _ = r.request(&h); }), Err(e) => e },
            match cfgerr(c.exchange_device_access_token(&d)) { Ok(r) => capture(|h| { let _ = r.request(&h, |_d: Duration| {}, None); }), Err(e) => e },
        ];
        format!("maybe,{},{}", tok_opt(c.token_uri().map(|u| u.as_str().as_bytes())), o.join(","))
    }
}

trait DevSt: EndpointState + Sized + 'static {
    fn obs<A: EndpointState, I: EndpointState, R: EndpointState, T: EndpointState>(c: &C<A, Self, I, R, T>) -> String;
}
impl DevSt for EndpointNotSet {
    fn obs<A: EndpointState, I: EndpointState, R: EndpointState, T: EndpointState>(_c: &C<A, Self, I, R, T>) -> String {
        "absent".into()
    }
}
impl DevSt for EndpointSet {
    fn obs<A: EndpointState, I: EndpointState, R: EndpointState, T: EndpointState>(c: &C<A, Self, I, R, T>) -> String {
        let o = capture(|h| { let _: Result<StandardDeviceAuthorizationResponse, _> = c.exchange_device_code().request(&h); });
        format!("set,{},{}", tok_bytes(c.device_authorization_url().as_str().as_bytes()), o)
    }
}
impl DevSt for EndpointMaybeSet {
    fn obs<A: EndpointState, I: EndpointState, R: EndpointState, T: EndpointState>(c: &C<A, Self, I, R, T>) -> String {
        let o = match cfgerr(c.exchange_device_code()) {
            Ok(r) => capture(|h| { let _: Result<StandardDeviceAuthorizationResponse, _> = r.request(&h); }),
            Err(e) => e,
        };
        format!("maybe,{},{}", tok_opt(c.device_authorization_url().map(|u| u.as_str().as_bytes())), o)
    }
}

trait IntSt: EndpointState + Sized + 'static {
    fn obs<A: EndpointState, D: EndpointState, R: EndpointState, T: EndpointState>(c: &C<A, D, Self, R, T>) -> String;
}
impl IntSt for EndpointNotSet {
    fn obs<A: EndpointState, D: EndpointState, R: EndpointState, T: EndpointState>(_c: &C<A, D, Self, R, T>) -> String {
        "absent".into()
    }
}
impl IntSt for EndpointSet {
    fn obs<A: EndpointState, D: EndpointState, R: EndpointState, T: EndpointState>(c: &C<A, D, Self, R, T>) -> String {
        let t = AccessToken::new("t".into());
        let o = capture(|h| { let _ = c.introspect(&t).request(&h); });
        format!("set,{},{}", tok_bytes(c.introspection_url().as_str().as_bytes()), o)
    }
}
impl IntSt for EndpointMaybeSet {
    fn obs<A: EndpointState, D: EndpointState, R: EndpointState, T: EndpointState>(c: &C<A, D, Self, R, T>) -> String {
        let t = AccessToken::new("t".into());
        let o = match cfgerr(c.introspect(&t)) {
            Ok(r) => capture(|h| { let _ = r.request(&h); }),
            Err(e) => e,
        };
        format!("maybe,{},{}", tok_opt(c.introspection_url().map(|u| u.as_str().as_bytes())), o)
    }
}

trait RevSt: EndpointState + Sized + 'static {
    fn obs<A: EndpointState, D: EndpointState, I: EndpointState, T: EndpointState>(c: &C<A, D, I, Self, T>) -> String;
}
impl RevSt for EndpointNotSet {
    fn obs<A: EndpointState, D: EndpointState, I: EndpointState, T: EndpointState>(_c: &C<A, D, I, Self, T>) -> String {
        "absent".into()
    }
}
impl RevSt for EndpointSet {
    fn obs<A: EndpointState, D: EndpointState, I: EndpointState, T: EndpointState>(c: &C<A, D, I, Self, T>) -> String {
        let o = match cfgerr(c.revoke_token(StandardRevocableToken::AccessToken(AccessToken::new("t".into())))) {
            Ok(r) => capture(|h| { let _ = r.request(&h); }),
            Err(e) => e,
        };
        format!("set,{},{}", tok_bytes(c.revocation_url().as_str().as_bytes()), o)
    }
}
impl RevSt for EndpointMaybeSet {
    fn obs<A: EndpointState, D: EndpointState, I: EndpointState, T: EndpointState>(c: &C<A, D, I, Self, T>) -> String {
        let o = match cfgerr(c.revoke_token(StandardRevocableToken::AccessToken(AccessToken::new("t".into())))) {
            Ok(r) => capture(|h| { let _ = r.request(&h); }),
            Err(e) => e,
        };
        format!("maybe,{},{}", tok_opt(c.revocation_url().map(|u| u.as_str().as_bytes())), o)
    }
}

fn observe<A: AuthSt, D: DevSt, I: IntSt, R: RevSt, T: TokSt>(c: &C<A, D, I, R, T>) -> String {
    format!(
        "id={} auth={} redir={} A:{} T:{} D:{} I:{} R:{}",
        tok_bytes(c.client_id().as_bytes()),
        match c.auth_type() { AuthType::BasicAuth => "B", AuthType::RequestBody => "Q", _ => "?" },
        tok_opt(c.redirect_uri().map(|u| u.as_str().as_bytes())),
        A::obs(c), T::obs(c), D::obs(c), I::obs(c), R::obs(c)
    )
}

fn run<A: AuthSt, D: DevSt, I: IntSt, R: RevSt, T: TokSt>(c: C<A, D, I, R, T>, ops: &[Op]) -> String {
    let (op, rest) = match ops.split_first() {
        None => return observe(&c),
        Some(x) => x,
    };
    match op.clone() {
        Op::SetUrl(0, u) => run::<EndpointSet, D, I, R, T>(c.set_auth_uri(AuthUrl::new(u).unwrap()), rest),
        Op::SetUrlOpt(0, u) => run::<EndpointMaybeSet, D, I, R, T>(c.set_auth_uri_option(u.map(|u| AuthUrl::new(u).unwrap())), rest),
        Op::SetUrl(1, u) => run::<A, D, I, R, EndpointSet>(c.set_token_uri(TokenUrl::new(u).unwrap()), rest),
        Op::SetUrlOpt(1, u) => run::<A, D, I, R, EndpointMaybeSet>(c.set_token_uri_option(u.map(|u| TokenUrl::new(u).unwrap())), rest),
        Op::SetUrl(2, u) => run::<A, EndpointSet, I, R, T>(c.set_device_authorization_url(DeviceAuthorizationUrl::new(u).unwrap()), rest),
        Op::SetUrlOpt(2, u) => run::<A, EndpointMaybeSet, I, R, T>(c.set_device_authorization_url_option(u.map(|u| DeviceAuthorizationUrl::new(u).unwrap())), rest),
        Op::SetUrl(3, u) => run::<A, D, EndpointSet, R, T>(c.set_introspection_url(IntrospectionUrl::new(u).unwrap()), rest),
        Op::SetUrlOpt(3, u) => run::<A, D, EndpointMaybeSet, R, T>(c.set_introspection_url_option(u.map(|u| IntrospectionUrl::new(u).unwrap())), rest),
        Op::SetUrl(_, u) => run::<A, D, I, EndpointSet, T>(c.set_revocation_url(RevocationUrl::new(u).unwrap()), rest),
        Op::SetUrlOpt(_, u) => run::<A, D, I, EndpointMaybeSet, T>(c.set_revocation_url_option(u.map(|u| RevocationUrl::new(u).unwrap())), rest),
        Op::Secret(s) => run::<A, D, I, R, T>(c.set_client_secret(ClientSecret::new(s)), rest),
        Op::Redirect(u) => run::<A, D, I, R, T>(c.set_redirect_uri(RedirectUrl::new(u).unwrap()), rest),
        Op::Basic => run::<A, D, I, R, T>(c.set_auth_type(AuthType::BasicAuth), rest),
        Op::Body => run::<A, D, I, R, T>(c.set_auth_type(AuthType::RequestBody), rest),
    }
}

fn ep_index(c: char) -> Option<u8> {
    match c {
        'A' => Some(0),
        'T' => Some(1),
        'D' => Some(2),
        'I' => Some(3),
        'R' => Some(4),
        _ => None,
    }
}

/// url token: x<orig>/x<text>/<ok>/x<scheme>/x<prefix>/<query>/<fragment> — the harness uses only the first part
fn url_orig(t: &str) -> Option<String> {
    untok_str(t.split('/').next()?)
}

fn parse_ops(t: &str) -> Option<Vec<Op>> {
    if t == "." {
        return Some(vec![]);
    }
    let mut out = vec![];
    for o in t.split(';') {
        let mut cs = o.chars();
        let k = cs.next()?;
        let rest = &o[1..];
        if let Some(e) = ep_index(k) {
            if let Some(u) = rest.strip_prefix('=') {
                out.push(Op::SetUrl(e, url_orig(u)?));
            } else if let Some(u) = rest.strip_prefix('?') {
                if u == "-" {
                    out.push(Op::SetUrlOpt(e, None));
                } else {
                    out.push(Op::SetUrlOpt(e, Some(url_orig(u)?)));
                }
            } else {
                return None;
            }
        } else {
            match k {
                'S' => out.push(Op::Secret(untok_str(rest.strip_prefix('=')?)?)),
                'U' => out.push(Op::Redirect(untok_str(rest.strip_prefix('=')?)?)),
                'B' => out.push(Op::Basic),
                'Q' => out.push(Op::Body),
                _ => return None,
            }
        }
    }
    Some(out)
}

fn run_line(line: &str) -> String {
    let ws: Vec<&str> = line.split(' ').collect();
    if ws.len() != 3 || ws[0] != "CFG" {
        return BAD.into();
    }
    let id = match untok_str(ws[1]) {
        Some(i) => i,
        None => return BAD.into(),
    };
    let ops = match parse_ops(ws[2]) {
        Some(o) => o,
        None => return BAD.into(),
    };
    // look-alike credentials for the LAST secret of the history
    let last_secret = ops.iter().rev().find_map(|o| if let Op::Secret(s) = o { Some(s.clone()) } else { None });
    let mut look = vec![];
    if let Some(sec) = last_secret {
        let raw = format!("{}:{}", id, sec);
        for (p, ch) in raw.char_indices() {
            if ch == ':' && !(raw[..p] == id && raw[p + 1..] == sec) {
                look.push((raw[..p].to_string(), raw[p + 1..].to_string()));
            }
        }
        look.push((id.to_uppercase(), sec.to_uppercase()));
        look.truncate(3);
        look.reverse(); // the other split, if any, goes last = immediately before the observed request
    }
    LOOKALIKE.with(|l| *l.borrow_mut() = look);
    run(BasicClient::new(ClientId::new(id)), &ops)
}

fn panic_text(_e: Box<dyn std::any::Any + Send>) -> String {
    "PANIC".to_string()
}

fn main() {
    watch::serve(run_line, panic_text);
}
