//! C04 (PKCE), C12 (random tokens), C20 (timing-resistant equality).
use crate::kinds::FakeError;
use crate::proto::*;
use oauth2::basic::BasicClient;
use oauth2::*;
use std::cell::RefCell;
use std::collections::hash_map::DefaultHasher;
use std::hash::{Hash, Hasher};

/// authorize URL with the challenge -> code exchange with the verifier; returns what a server
/// would read: (code_challenge, code_challenge_method) from the URL, code_verifier from the body
fn flow(challenge: PkceCodeChallenge, verifier: PkceCodeVerifier) -> (String, String, String) {
    // the challenge must reach the URL whatever response type the caller selected
    let mut first: Option<(String, String, String)> = None;
    let verifier_text = verifier.secret().clone();
    // the challenge as built, and after being parked in a session store (serialised and read back,
    // once and twice): the same URL parameters must result
    let parked = |c: &PkceCodeChallenge| -> PkceCodeChallenge { serde_json::from_str(&serde_json::to_string(c).unwrap()).unwrap() };
    let variants: Vec<(Option<&str>, PkceCodeChallenge)> = vec![
        (None, challenge.clone()),
        (Some("code id_token"), challenge.clone()),
        (Some("token"), challenge.clone()),
        (None, parked(&challenge)),
        (Some("code token"), parked(&parked(&challenge))),
    ];
    for (rt, ch) in variants {
        let got = flow_one(ch, PkceCodeVerifier::new(verifier_text.clone()), rt);
        match &first {
            None => first = Some(got),
            Some(f) => {
                if *f != got {
                    return (format!("DIFFERS-FOR-RESPONSE-TYPE:{:?}", rt), got.0, got.2);
                }
            }
        }
    }
    first.unwrap()
}

fn flow_one(challenge: PkceCodeChallenge, verifier: PkceCodeVerifier, response_type: Option<&str>) -> (String, String, String) {
    // (the endpoints are https for some response types and plain http on another host for others: the verifier is sent to
    // whatever token endpoint is configured)
    let plain_http = response_type.map(|r| r.len() % 5 == 0).unwrap_or(false);
    let client = BasicClient::new(ClientId::new("aaa".to_string()))
        .set_auth_uri(AuthUrl::new(if plain_http { "http://idp.internal:8080/auth" } else { "https://example.com/auth" }.to_string()).unwrap())
        .set_token_uri(TokenUrl::new(if plain_http { "http://idp.internal:8080/token" } else { "https://example.com/token" }.to_string()).unwrap());
    // for some response types the builders first receive a challenge / verifier that is then
    // replaced: the pair that reaches the server is the last one set on each side
    let twice = response_type.map(|r| r.len() % 2 == 1).unwrap_or(false);
    let mut areq = client.authorize_url(|| CsrfToken::new("s".to_string()));
    if twice {
        areq = areq.set_pkce_challenge(PkceCodeChallenge::from_code_verifier_sha256(&PkceCodeVerifier::new("d".repeat(64))));
    }
    let mut areq = areq.set_pkce_challenge(challenge);
    if twice || plain_http {
        // every other builder call after the challenge: none of them loses it
        areq = areq
            .set_redirect_uri(std::borrow::Cow::Owned(RedirectUrl::new("https://client.example/cb".to_string()).unwrap()))
            .add_scope(Scope::new("read".to_string()))
            .add_extra_param("prompt", "login");
    }
    if let Some(rt) = response_type {
        areq = areq.set_response_type(&ResponseType::new(rt.to_string()));
    }
    let (url, _) = areq.url();
    let mut ch = String::new();
    let mut m = String::new();
    // (a server reads the FIRST occurrence of a parameter, or refuses a repeated one: each of the two occurs exactly once)
    let (mut n_ch, mut n_m) = (0, 0);
    for (k, v) in url.query_pairs() {
        if k == "code_challenge" {
            n_ch += 1;
            if n_ch == 1 {
                ch = v.to_string();
            }
        }
        if k == "code_challenge_method" {
            n_m += 1;
            if n_m == 1 {
                m = v.to_string();
            }
        }
    }
    if n_ch != 1 || n_m != 1 {
        return (format!("code_challenge-occurs-{}-times-method-{}-times", n_ch, n_m), ch, m);
    }
    let cap: RefCell<Option<HttpRequest>> = RefCell::new(None);
    let http = |r: HttpRequest| -> Result<HttpResponse, FakeError> {
        *cap.borrow_mut() = Some(r);
        Err(FakeError("x".into()))
    };
    let mut xreq = client.exchange_code(AuthorizationCode::new("code".to_string()));
    if twice {
        xreq = xreq.set_pkce_verifier(PkceCodeVerifier::new("e".repeat(64)));
    }
    // the verifier parked in a session store between the two legs (as text, as an owned value, through a reader)
    let verifier = if twice {
        match serde_json::to_value(&verifier).ok().and_then(|v| serde_json::from_value::<PkceCodeVerifier>(v).ok()) {
            Some(v) => v,
            None => return ("verifier-does-not-survive-its-own-serde".to_string(), ch, m),
        }
    } else if plain_http {
        match serde_json::to_vec(&verifier).ok().and_then(|v| serde_json::from_reader::<_, PkceCodeVerifier>(&v[..]).ok()) {
            Some(v) => v,
            None => return ("verifier-does-not-survive-its-own-serde".to_string(), ch, m),
        }
    } else {
        verifier
    };
    let _ = xreq.set_pkce_verifier(verifier).request(&http);
    let body = cap.borrow().as_ref().map(|r| r.body().clone()).unwrap_or_default();
    let mut ver = String::new();
    for (k, v) in url::form_urlencoded::parse(&body) {
        if k == "code_verifier" {
            ver = v.to_string();
        }
    }
    (ch, m, ver)
}

pub fn pkce(ws: &[&str]) -> String {
    if ws.len() != 2 {
        return BAD.into();
    }
    let v = match untok_str(ws[1]) {
        Some(v) => v,
        None => return BAD.into(),
    };
    let verifier = PkceCodeVerifier::new(v.clone());
    let c = if ws[0] == "s256" {
        PkceCodeChallenge::from_code_verifier_sha256(&verifier)
    } else {
        PkceCodeChallenge::from_code_verifier_plain(&verifier)
    };
    let (chal, method) = (c.as_str().to_string(), c.method().as_str().to_string());
    let (uc, um, bv) = flow(c, verifier);
    format!("ok {} {} {} {} {}", tok_bytes(chal.as_bytes()), tok_bytes(method.as_bytes()),
            tok_bytes(uc.as_bytes()), tok_bytes(um.as_bytes()), tok_bytes(bv.as_bytes()))
}

pub fn pkcerand(ws: &[&str]) -> String {
    let n: u32 = match ws.first().and_then(|s| s.parse().ok()) {
        Some(n) => n,
        None => return BAD.into(),
    };
    let (c, v) = PkceCodeChallenge::new_random_sha256_len(n);
    let ver = v.secret().clone();
    let chal = c.as_str().to_string();
    let (uc, um, bv) = flow(c, v);
    format!("ok {} {} {} {} {}", tok_bytes(ver.as_bytes()), tok_bytes(chal.as_bytes()),
            tok_bytes(uc.as_bytes()), tok_bytes(um.as_bytes()), tok_bytes(bv.as_bytes()))
}

pub fn csrf(ws: &[&str]) -> String {
    let n: u32 = match ws.first().and_then(|s| s.parse().ok()) {
        Some(n) => n,
        None => return BAD.into(),
    };
    format!("ok {}", tok_bytes(CsrfToken::new_random_len(n).secret().as_bytes()))
}

/// `RANDBULK csrf|pkce|csrfdef|pkcedef <count> <threads>`: raw tokens, comma separated
pub fn randbulk(ws: &[&str]) -> String {
    if ws.len() != 3 {
        return BAD.into();
    }
    let kind = ws[0].to_string();
    let count: usize = ws[1].parse().unwrap_or(0);
    let threads: usize = ws[2].parse().unwrap_or(1).max(1);
    let per = count / threads;
    let mut hs = vec![];
    for _ in 0..threads {
        let kind = kind.clone();
        hs.push(std::thread::spawn(move || {
            let mut out = Vec::with_capacity(per);
            for _ in 0..per {
                out.push(match kind.as_str() {
                    "csrf" => CsrfToken::new_random().secret().clone(),
                    "pkceplain" => PkceCodeChallenge::new_random_plain().1.secret().clone(),
                    _ => PkceCodeChallenge::new_random_sha256().1.secret().clone(),
                });
            }
            out
        }));
    }
    let mut all = vec![];
    for h in hs {
        all.extend(h.join().unwrap());
    }
    all.join(",")
}

/// `FDSTARVED`: the generators while the process cannot open another file (descriptor table full):
/// the values are as fresh as ever (the operating system's generator needs no descriptor), or the call
/// fails loudly - never a constant
pub fn fdstarved() -> String {
    extern "C" {
        fn getrlimit(resource: i32, rlim: *mut [u64; 2]) -> i32;
        fn setrlimit(resource: i32, rlim: *const [u64; 2]) -> i32;
    }
    const RLIMIT_NOFILE: i32 = 7;
    let mut old = [0u64; 2];
    if unsafe { getrlimit(RLIMIT_NOFILE, &mut old) } != 0 {
        return "ok (no rlimit here)".to_string();
    }
    let low = [old[0].min(256), old[1]];
    if unsafe { setrlimit(RLIMIT_NOFILE, &low) } != 0 {
        return "ok (rlimit not adjustable)".to_string();
    }
    let mut held = vec![];
    while let Ok(f) = std::fs::File::open("/dev/null") {
        held.push(f);
        if held.len() > 100_000 {
            break;
        }
    }
    let drawn = std::panic::catch_unwind(|| {
        let mut v: Vec<String> = vec![];
        for n in [32u32, 43, 64, 96] {
            for _ in 0..6 {
                v.push(PkceCodeChallenge::new_random_sha256_len(n).1.secret().clone());
            }
        }
        for n in [1u32, 16, 33, 96] {
            for _ in 0..6 {
                v.push(CsrfToken::new_random_len(n).secret().clone());
            }
        }
        for _ in 0..6 {
            v.push(PkceCodeChallenge::new_random_sha256().1.secret().clone());
            v.push(CsrfToken::new_random().secret().clone());
        }
        v
    });
    drop(held);
    unsafe { setrlimit(RLIMIT_NOFILE, &old) };
    match drawn {
        Err(_) => "ok (refused loudly)".to_string(),
        Ok(v) => {
            let long: Vec<&String> = v.iter().filter(|s| s.len() >= 20).collect();
            let distinct: std::collections::HashSet<&String> = long.iter().cloned().collect();
            let flat = long.iter().filter(|s| s.bytes().all(|b| b == s.as_bytes()[0])).count();
            if distinct.len() != long.len() || flat > 0 {
                format!("constant-values-without-descriptors distinct={} of {} single-letter={}", distinct.len(), long.len(), flat)
            } else {
                "ok".to_string()
            }
        }
    }
}

fn b64url_decode(s: &str) -> Option<Vec<u8>> {
    let mut out = Vec::with_capacity(s.len() * 3 / 4);
    let (mut acc, mut bits) = (0u32, 0u32);
    for c in s.bytes() {
        let v = match c {
            b'A'..=b'Z' => c - b'A',
            b'a'..=b'z' => c - b'a' + 26,
            b'0'..=b'9' => c - b'0' + 52,
            b'-' => 62,
            b'_' => 63,
            _ => return None,
        } as u32;
        acc = (acc << 6) | v;
        bits += 6;
        if bits >= 8 {
            bits -= 8;
            out.push((acc >> bits) as u8);
            acc &= (1 << bits) - 1;
        }
    }
    Some(out)
}

/// `RANDPOS csrf|pkce <bytes> <count>`: `count` values of the requested byte count; per byte
/// position the number of DISTINCT byte values seen, then the number of distinct whole values
pub fn randpos(ws: &[&str]) -> String {
    if ws.len() != 3 {
        return BAD.into();
    }
    let (n, count): (u32, usize) = match (ws[1].parse(), ws[2].parse()) {
        (Ok(a), Ok(b)) => (a, b),
        _ => return BAD.into(),
    };
    let mut seen = vec![[false; 256]; n as usize];
    let mut whole = std::collections::HashSet::new();
    for _ in 0..count {
        let tok = match ws[0] {
            "csrf" => CsrfToken::new_random_len(n).secret().clone(),
            _ => PkceCodeChallenge::new_random_sha256_len(n).1.secret().clone(),
        };
        let raw = match b64url_decode(&tok) {
            Some(r) if r.len() == n as usize => r,
            _ => return format!("bad-shape {}", tok_bytes(tok.as_bytes())),
        };
        for (i, b) in raw.iter().enumerate() {
            seen[i][*b as usize] = true;
        }
        whole.insert(raw);
    }
    let per: Vec<String> = seen.iter().map(|s| s.iter().filter(|x| **x).count().to_string()).collect();
    format!("ok {} {}", if per.is_empty() { ".".to_string() } else { per.join(",") }, whole.len())
}

fn h<T: Hash>(t: &T) -> u64 {
    let mut s = DefaultHasher::new();
    t.hash(&mut s);
    s.finish()
}

pub fn seceq(ws: &[&str]) -> String {
    if ws.len() != 3 {
        return BAD.into();
    }
    let (a, b) = match (untok_str(ws[1]), untok_str(ws[2])) {
        (Some(a), Some(b)) => (a, b),
        _ => return BAD.into(),
    };
    // the very first comparisons of a process, made by many threads at once (lazily initialised
    // state of the comparison must not be visible as a wrong answer)
    static FIRST: std::sync::Once = std::sync::Once::new();
    static FIRST_OK: std::sync::atomic::AtomicBool = std::sync::atomic::AtomicBool::new(true);
    FIRST.call_once(|| {
        let barrier = std::sync::Arc::new(std::sync::Barrier::new(16));
        let hs: Vec<_> = (0..16)
            .map(|i| {
                let b = barrier.clone();
                std::thread::spawn(move || {
                    b.wait();
                    let s = format!("first-use-{}", i % 4);
                    let ok1 = CsrfToken::new(s.clone()) == CsrfToken::new(s.clone()) && AccessToken::new(s.clone()) == AccessToken::new(s.clone());
                    let ok2 = !(ClientSecret::new(s.clone()) != ClientSecret::new(s.clone())) && CsrfToken::new(s.clone()) != CsrfToken::new(format!("{}x", s));
                    ok1 && ok2 && h(&RefreshToken::new(s.clone())) == h(&RefreshToken::new(s))
                })
            })
            .collect();
        for t in hs {
            if !t.join().unwrap_or(false) {
                FIRST_OK.store(false, std::sync::atomic::Ordering::SeqCst);
            }
        }
    });
    if !FIRST_OK.load(std::sync::atomic::Ordering::SeqCst) {
        return "concurrent-first-use-gave-wrong-answers".to_string();
    }
    // a string of exactly `len` bytes (capacity included) that differs from `like`
    fn decoy_of(len: usize, like: &str) -> String {
        let fill = if like.bytes().all(|c| c == b'z') { 'y' } else { 'z' };
        let mut s = String::with_capacity(len);
        for _ in 0..len {
            s.push(fill);
        }
        s
    }
    macro_rules! go {
        ($t:ident) => {{
            // a value that was compared and hashed is dropped, and the next value of the same length
            // takes over its buffer (what an allocator does for a free followed by an allocation of
            // the same size): nothing remembered about the old value may be attributed to the new one
            // an application's Hasher that panics on what it is fed (an integer-only hasher), the panic contained: the next
            // comparison and the next hash on this thread are right all the same
            {
                struct Picky;
                impl Hasher for Picky {
                    fn finish(&self) -> u64 {
                        0
                    }
                    fn write(&mut self, _: &[u8]) {
                        panic!("this hasher takes integers only");
                    }
                    fn write_u8(&mut self, _: u8) {}
                    fn write_usize(&mut self, _: usize) {}
                    fn write_u64(&mut self, _: u64) {}
                }
                let victim = $t::new(format!("{}-hashed-by-a-picky-hasher", a));
                let _ = std::panic::catch_unwind(std::panic::AssertUnwindSafe(|| victim.hash(&mut Picky)));
            }
            for s in [&a, &b] {
                if !s.is_empty() {
                    let d = $t::new(decoy_of(s.len(), s));
                    #[allow(clippy::eq_op)]
                    let _ = d == d;
                    let _ = h(&d);
                    drop(d);
                    let fresh = $t::new(s.clone());
                    let hf = h(&fresh);
                    let copy = $t::new(s.clone());
                    if !(fresh == copy) || hf != h(&copy) || fresh == $t::new(decoy_of(s.len(), s)) {
                        return "stale-answer-after-a-dropped-value-of-the-same-length".to_string();
                    }
                }
            }
            let x = $t::new(a.clone());
            let y = $t::new(b.clone());
            let eq = x == y;
            let sym = y == x;
            // every other spelling of the same question gives the same answer: !=, and equality of
            // the collections core compares element-wise (slices with !=, Option, tuples)
            let (x2, y2) = ($t::new(a.clone()), $t::new(b.clone()));
            #[allow(clippy::nonminimal_bool)]
            let others = [!(x != y), !(y != x), vec![$t::new(a.clone())] == vec![$t::new(b.clone())], [x2] == [y2], Some($t::new(a.clone())) == Some($t::new(b.clone())), ($t::new(a.clone()), 1u8) == ($t::new(b.clone()), 1u8)];
            if others.iter().any(|o| *o != eq) {
                return format!("eq-spellings-disagree eq={} others={:?}", eq as u8, others);
            }
            let refl = x == $t::new(a.clone()) && y == $t::new(b.clone());
            if !refl {
                return "not-reflexive".to_string();
            }
            // the same contents built along another path (a buffer with room to spare, grown piecewise): equal, and hashing equally
            let roomy = |s: &str| {
                let mut t = String::with_capacity(s.len() + 37);
                for ch in s.chars() {
                    t.push(ch);
                }
                t.reserve(64);
                t
            };
            let (xr, yr) = ($t::new(roomy(&a)), $t::new(roomy(&b)));
            if !(x == xr) || !(yr == y) || h(&x) != h(&xr) || h(&y) != h(&yr) || (xr == yr) != eq {
                return "answer-depends-on-how-the-string-was-built".to_string();
            }
            let content = if a == b { 1 } else { 0 };
            if eq {
                // equal values must hash equally wherever the hash is taken: also on another thread
                let b2 = b.clone();
                let hy_thread = std::thread::spawn(move || h(&$t::new(b2))).join().unwrap();
                let hash_ok = h(&x) == h(&y) && h(&x) == hy_thread;
                format!("eq=1 sym={} hash={} content={}", sym as u8, hash_ok as u8, content)
            } else {
                format!("eq=0 sym={} content={}", sym as u8, content)
            }
        }};
    }
    match ws[0] {
        "ClientSecret" => go!(ClientSecret),
        "AuthorizationCode" => go!(AuthorizationCode),
        "AccessToken" => go!(AccessToken),
        "RefreshToken" => go!(RefreshToken),
        "PkceCodeVerifier" => go!(PkceCodeVerifier),
        "CsrfToken" => go!(CsrfToken),
        "ResourceOwnerPassword" => go!(ResourceOwnerPassword),
        "DeviceCode" => go!(DeviceCode),
        "UserCode" => go!(UserCode),
        "VerificationUriComplete" => go!(VerificationUriComplete),
        _ => BAD.into(),
    }
}
