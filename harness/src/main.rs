//! Implementation side of the correspondence check: reads protocol lines on stdin, drives the
//! real crate (path dependency on /repo) through its public API, prints one observation line
//! per case.  A panic in the crate is an observation ("PANIC"), not a harness failure.
mod proto;
mod c14;
mod exec;
mod kinds;
mod poll;
mod req;
mod pkce;
mod urlt;
#[macro_use]
mod http;
mod dbg;
mod watch;


fn run_line(line: &str) -> String {
    let ws: Vec<&str> = line.split(' ').collect();
    if ws.is_empty() {
        return proto::BAD.into();
    }
    match ws[0] {
        "C14" => c14::run(&ws[1..]),
        "POLL" => poll::run(&ws[1..]),
        "BOUNDS" => poll::bounds(),
        "REQ" => req::run(&ws[1..]),
        "URLINFO" => req::urlinfo(&ws[1..]),
        "AUTHURL" => req::authurl(&ws[1..]),
        "PKCE" => pkce::pkce(&ws[1..]),
        "PKCERAND" => pkce::pkcerand(&ws[1..]),
        "CSRF" => pkce::csrf(&ws[1..]),
        "RANDBULK" => pkce::randbulk(&ws[1..]),
        "RANDPOS" => pkce::randpos(&ws[1..]),
        "FDSTARVED" => pkce::fdstarved(),
        "SECEQ" => pkce::seceq(&ws[1..]),
        "URLT" => urlt::urlt(&ws[1..]),
        "URLP" => urlt::urlp(&ws[1..]),
        "HTTP" => http::run(&ws[1..]),
        "DECODE" => http::decode(&ws[1..]),
        "BUILT" => http::built(&ws[1..]),
        "SLOWRT" => http::slowrt(&ws[1..]),
        "ILV" => http::interleave(&ws[1..]),
        "DBG" => dbg::run(&ws[1..]),
        "DBGPH" => dbg::dbgph(&ws[1..]),
        "DBGERR" => dbg::dbgerr(&ws[1..]),
        _ => proto::BAD.into(),
    }
}

fn panic_text(e: Box<dyn std::any::Any + Send>) -> String {
    if e.downcast_ref::<proto::Exhausted>().is_some() {
        "EXHAUSTED".to_string()
    } else {
        "PANIC".to_string()
    }
}

fn main() {
    watch::serve(run_line, panic_text);
}
