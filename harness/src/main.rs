//! Implementation side of the correspondence check: reads protocol lines on stdin, drives the
//! real crate (path dependency on /repo) through its public API, prints one observation line
//! per case.  A panic in the crate is an observation ("PANIC"), not a harness failure.
mod proto;
mod c14;
mod exec;
mod kinds;
mod poll;
mod req;
mod pkce;
mod urlt;
#[macro_use]
mod http;
mod dbg;

use std::io::{BufRead, Write};
use std::panic::{catch_unwind, AssertUnwindSafe};

fn run_line(line: &str) -> String {
    let ws: Vec<&str> = line.split(' ').collect();
    if ws.is_empty() {
        return proto::BAD.into();
    }
    match ws[0] {
        "C14" => c14::run(&ws[1..]),
        "POLL" => poll::run(&ws[1..]),
        "BOUNDS" => poll::bounds(),
        "REQ" => req::run(&ws[1..]),
        "URLINFO" => req::urlinfo(&ws[1..]),
        "AUTHURL" => req::authurl(&ws[1..]),
        "PKCE" => pkce::pkce(&ws[1..]),
        "PKCERAND" => pkce::pkcerand(&ws[1..]),
        "CSRF" => pkce::csrf(&ws[1..]),
        "RANDBULK" => pkce::randbulk(&ws[1..]),
        "SECEQ" => pkce::seceq(&ws[1..]),
        "URLT" => urlt::urlt(&ws[1..]),
        "URLP" => urlt::urlp(&ws[1..]),
        "HTTP" => http::run(&ws[1..]),
        "DECODE" => http::decode(&ws[1..]),
        "BUILT" => http::built(&ws[1..]),
        "ILV" => http::interleave(&ws[1..]),
        "DBG" => dbg::run(&ws[1..]),
        "DBGPH" => dbg::dbgph(&ws[1..]),
        "DBGERR" => dbg::dbgerr(&ws[1..]),
        _ => proto::BAD.into(),
    }
}

fn main() {
    std::panic::set_hook(Box::new(|_| {}));
    let stdin = std::io::stdin();
    let stdout = std::io::stdout();
    let mut out = std::io::BufWriter::new(stdout.lock());
    for line in stdin.lock().lines() {
        let line = line.unwrap();
        let res = catch_unwind(AssertUnwindSafe(|| run_line(&line)));
        let s = match res {
            Ok(s) => s,
            Err(e) => {
                if e.downcast_ref::<proto::Exhausted>().is_some() {
                    "EXHAUSTED".to_string()
                } else {
                    "PANIC".to_string()
                }
            }
        };
        writeln!(out, "{}", s).unwrap();
    }
}
