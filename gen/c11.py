"""C11: sequences of the 19 configuration operations through the generic typestate driver
(harness_cfg), then every getter and every operation the final type permits."""
import itertools
import os
from gen import common as C
from gen import reqs as R

HARNESS_BIN = "harness_cfg"
ASSUMPTIONS = [
    "url/http crates are oracles for each URL string (serialisation, http::Uri acceptance, scheme, split), reported by the harness (URLINFO)",
    "'rejected at compile time' is decided by rustc on probe programs (harness/probes/c11_*.rs): the model's GAbsent entries are validated against rustc's E0599",
]

URLS = {
    # (plain-http endpoints on a host that is not the local machine included: only revocation is restricted to https)
    "A": ["https://a.example/auth", "https://a.example/auth?x=1#f", "https://a2.example/authorize", "http://a3.internal.example:8080/auth"],
    "T": ["https://t.example/token", "https://t2.example/token?y=2", "https://t.example/" + "a" * 70000, "http://t3.internal.example:8080/token", "http://10.0.0.7/token"],
    "D": ["https://d.example/device", "https://d2.example/device#frag", "http://d3.internal.example/device"],
    "I": ["https://i.example/introspect", "https://i2.example/introspect", "http://i3.internal.example/introspect"],
    "R": ["https://r.example/revoke", "http://r.example/revoke", "HTTPS://r2.example/revoke"],   # index 0 https, 1 http
}
SECRETS = ["bbb", "p:w ä", "", "eu:s3cret"]
REDIRS = ["https://client/cb", "https://client/other?x=1", "https://Client.Example.COM", "http://127.0.0.1:80/callback?a=b c", "HTTPS://client.example/x/../cb#f"]


def url7(u):
    info = R.urlinfo([u])[u]
    text, uri_ok, scheme, prefix, query, fragment = info
    return "%s/%s/%s/%s/%s/%s/%s" % (C.tb(u), text, uri_ok, scheme, prefix, query, fragment)


def op_token(kind, ep=None, k=0):
    if kind == "set":
        return "%s=%s" % (ep, url7(URLS[ep][k % len(URLS[ep])]))
    if kind == "some":
        return "%s?%s" % (ep, url7(URLS[ep][k % len(URLS[ep])]))
    if kind == "none":
        return "%s?-" % ep
    if kind == "secret":
        return "S=" + C.tb(SECRETS[k % len(SECRETS)])
    if kind == "redirect":
        return "U=" + C.tb(REDIRS[k % len(REDIRS)])
    if kind == "basic":
        return "B"
    if kind == "body":
        return "Q"
    raise ValueError(kind)


OPS19 = [(k, e) for e in "ATDIR" for k in ("set", "some", "none")] + [("secret", None), ("redirect", None), ("basic", None), ("body", None)]


def line(ops):
    ids = ["client id", "app:eu", "a:b:c ä"]
    return "CFG %s %s" % (C.tb(ids[sum(len(o) for o in ops) % 3]), ";".join(ops) if ops else ".")


def gen(tier, rng):
    out = [(line([]), "len0")]
    maxlen = 2 if tier == "quick" else 3
    for n in range(1, maxlen + 1):
        for seq in itertools.product(range(19), repeat=n):
            ops = [op_token(OPS19[i][0], OPS19[i][1], k=pos) for pos, i in enumerate(seq)]
            out.append((line(ops), "len%d" % n))
    # one canonical sequence per endpoint-state combination (3^5 = 243)
    for combo in itertools.product(("skip", "set", "some", "none"), repeat=5):
        ops = []
        for ep, k in zip("ATDIR", combo):
            if k != "skip":
                ops.append(op_token(k, ep, k=rng.randint(0, 4)))
        ops.append(op_token("secret", k=rng.randint(0, 2)))
        if rng.random() < 0.5:
            ops.append(op_token("body"))
        if rng.random() < 0.5:
            ops.append(op_token("redirect", k=rng.randint(0, 4)))
        rng.shuffle(ops)
        out.append((line(ops), "state-combination"))
    # literals that are new in the source (gen/srclit.py): new words as secret, redirect path, endpoint path / query / host label;
    # new integers as secret and URL lengths - inside sequences that set everything, in several orders
    from gen import srclit as SL
    extra = []
    for w in SL.words():
        tok = "".join(c for c in w if c.isalnum() or c in "-_.") or "x"
        extra.append((w, "https://client/" + tok + "?" + tok + "=1", tok))
    for k in SL.sizes(limit=100000, lo=1):
        extra.append(("s" * k, "https://client/cb?x=" + "r" * max(k - 20, 0), "p" * max(k - 30, 1)))
    saved = (list(SECRETS), list(REDIRS), {e: list(v) for e, v in URLS.items()})
    try:
        for (sec, red, tok) in extra:
            SECRETS[:] = [sec, "other-" + sec]
            REDIRS[:] = [red, "https://client/other"]
            for e in "ATDIR":
                base = saved[2][e][0]
                URLS[e] = [base + "/" + tok, base + "?" + tok + "=1", base.replace("://", "://" + tok.replace("_", "-").strip("-.")[:40].lower() + ".") if tok.replace("_", "-").strip("-.")[:40].isascii() else base]
            for rep in range(6):
                ops = []
                for ep in "ATDIR":
                    ops.append(op_token(rng.choice(["set", "some"]), ep, k=rng.randint(0, 2)))
                ops += [op_token("secret", k=0), op_token("redirect", k=0), op_token(rng.choice(["basic", "body"]))]
                if rep % 2:
                    ops += [op_token("secret", k=1), op_token("secret", k=0), op_token("redirect", k=1), op_token("redirect", k=0)]
                rng.shuffle(ops)
                out.append((line(ops), "source-literal"))
    finally:
        SECRETS[:] = saved[0]
        REDIRS[:] = saved[1]
        for e in "ATDIR":
            URLS[e] = saved[2][e]
    # every URL of every endpoint (plain http on other hosts included), unconditionally and conditionally set, alone and
    # together with the others: each flow goes to the URL of ITS endpoint, whatever that URL is
    for e in "ATDIR":
        for k in range(len(URLS[e])):
            for how in ("set", "some"):
                out.append((line([op_token(how, e, k=k), op_token("secret", k=0)]), "every-url"))
                others = [op_token("set", o, k=(k + j) % len(URLS[o])) for j, o in enumerate("ATDIR") if o != e]
                out.append((line(others[:2] + [op_token(how, e, k=k)] + others[2:] + [op_token("secret", k=1), op_token("redirect", k=0)]), "every-url"))
    n = 1500 if tier == "quick" else 50000
    for _ in range(n):
        L = rng.randint(3, 10)
        ops = []
        for _ in range(L):
            k, e = rng.choice(OPS19)
            ops.append(op_token(k, e, k=rng.randint(0, 4)))
        out.append((line(ops), "random"))
    return out


def run(tier, rng, C):
    C.IMPL_BIN[0] = C.HARNESS_BIN      # URLINFO lives in the main harness
    cases = gen(tier, rng)
    C.IMPL_BIN[0] = os.path.join(C.TARGET, "debug", "harness_cfg")
    try:
        v, stats = C.differential("C11", cases, nontrivial=lambda l, o: ":set," in o or ":maybe," in o)
    finally:
        C.IMPL_BIN[0] = C.HARNESS_BIN
    from gen import probes
    pv, pstats = probes.run_probes("C11", [p for p in probes.PROBES if p["prop"] == "C11"], C)
    v += pv
    stats.update(pstats)
    stats["rule"] = ("all sequences of the 19 configuration operations up to length %d (values vary with position so a stale value is visible), one shuffled sequence per each of the 4^5 endpoint choices "
                     "(unset / set / conditionally present / conditionally absent, covering all 243 typestate combinations), random sequences of length 3..10; after each: client id, auth type, redirect, "
                     "the five getters, the authorization URL, 5 token-endpoint flows, device authorization, introspection, revocation — every operation the final type permits, with the captured requests; "
                     "plus 15 reject / 15 accept compile probes; non-trivial = at least one endpoint configured" % (2 if tier == "quick" else 3))
    return v, stats


def replay(payload, C):
    C.IMPL_BIN[0] = os.path.join(C.TARGET, "debug", "harness_cfg")
    try:
        return C.replay_generic(payload)
    finally:
        C.IMPL_BIN[0] = C.HARNESS_BIN
