"""C09: the four bundled adapters against a scripted TCP server on 127.0.0.1 (harness_net)."""
import os
from gen import common as C

HARNESS_BIN = "harness_net"
ASSUMPTIONS = [
    "the HTTP libraries (reqwest/hyper, libcurl, ureq) are not modelled: model/Adapters.v states their contract (lib_behaviour) and this loopback run is what ties the contract to the real libraries",
    "reqwest clients are built with redirect::Policy::none() and the ureq agent with redirects(0), as the crate's documentation requires of callers; the curl adapter sets nothing and must not follow by itself",
    "every exchange runs under a 10 s watchdog; HANG and PANIC are observations",
    "a Content-Length of 2^63 or more is outside what libcurl parses: it ignores the header and delivers the bytes up to the close; the huge-Content-Length faults beyond 2^40 are therefore run through reqwest and ureq only (observation of the library, not of the adapter code)",
    "a reply with two Content-Type header lines: reqwest and ureq report the first, libcurl's CURLINFO_CONTENT_TYPE (which the curl adapter reads) the last; such a reply is invalid HTTP (RFC 9110 5.3), so the repeated-header cases run through reqwest (both) and ureq only and the curl behaviour is recorded here as an observation of the library",
    "what the model cannot exhibit: socket behaviour, TLS, HTTP/2, proxies, timeouts of the libraries",
]
ADAPTERS = ["reqwest", "reqwest_blocking", "curl", "ureq"]
STATUSES = [200, 201, 301, 302, 303, 307, 308, 400, 401, 403, 404, 429, 500, 503]
CTS = [None, b"application/json", b"text/plain; charset=utf-8", b"Application/JSON"]
REPLY_BODIES = [b"", b"{\"error\":\"invalid_grant\",\"error_description\":\"d\"}", bytes(range(256)), b"\x00\xff\x00\xff", b"x" * 70000, b"{\"access_token\":\"t\",\"token_type\":\"bearer\"}",
                # bodies that start like something a client might sniff and rewrite: byte-order marks, compression magics
                b"\xef\xbb\xbf{\"error\":\"invalid_grant\"}", b"\xef\xbb\xbf", b"\xff\xfe{\x00}\x00", b"\x1f\x8b\x08\x00binary", b"\x78\x9c\x03\x00", b"\r\n\r\n{}", b" {} "]
REQ_BODIES = [b"grant_type=authorization_code&code=c", b"a=" + b"b" * 2000, b"a=" + b"%41" * 25000, bytes(range(256))]
FRAMINGS = ["cl", "chunked", "close", "close10"]
PATHS = ["/token", "/t?x=1&y=%20z", "/"]
AUTHS = [None, b"Basic YWFhOmJiYg=="]
# circumstances per adapter (see gen() and ASSUMPTIONS)
FLAGS = {"reqwest": ["obs", "reason", "nested", "put", "obs+reason"], "reqwest_blocking": ["obs", "reason", "nested", "put", "obs+reason"],
         "curl": ["obs", "reason", "nested", "put", "obs+reason"], "ureq": ["obs", "reason", "nested", "put", "obs+reason"]}


def line(adapter, reqbody, auth, path, status, ct, framing, body, fault):
    return "NET %s %s %s %s | %d %s %s %s %s" % (adapter, C.tb(reqbody), C.topt(auth), C.tb(path), status, C.topt(ct), framing, C.tb(body), fault)


def gen(tier, rng):
    out = []
    i = 0
    for a in ADAPTERS:
        for st in STATUSES:
            for ct in CTS:
                for bi, body in enumerate(REPLY_BODIES):
                    for ri, rb in enumerate(REQ_BODIES):
                        i += 1
                        if tier == "quick" and (i * 7 + bi + ri) % 6 != 0:
                            continue
                        fr = FRAMINGS[i % 4]
                        out.append((line(a, rb, AUTHS[i % 2], PATHS[i % 3], st, ct, fr, body, "none"), "reply/%s/%s" % (a, fr)))
        # faults crossed with framing
        for fault in ("refused", "close_before", "garbage_status"):
            out.append((line(a, REQ_BODIES[0], None, "/token", 200, CTS[1], "cl", REPLY_BODIES[1], fault), "fault/" + fault))
        for fr in ("cl", "chunked"):
            for body in (b"hello world, this is a body", b"x" * 70000):
                out.append((line(a, REQ_BODIES[0], None, "/token", 200, CTS[1], fr, body, "truncated"), "fault/truncated-" + fr))
                out.append((line(a, REQ_BODIES[0], None, "/token", 400, CTS[1], fr, body, "truncated"), "fault/truncated-" + fr))
        # a Content-Length far beyond what can be buffered (2^40, 2^63, u64::MAX - 2), a short body, then a close
        for fault in ("huge_cl40", "huge_cl63", "huge_clmax"):
            if a == "curl" and fault != "huge_cl40":
                continue    # libcurl ignores a Content-Length beyond i64 and reads to the close (see ASSUMPTIONS)
            for st in (200, 400):
                out.append((line(a, REQ_BODIES[0], None, "/token", st, CTS[1], "cl", REPLY_BODIES[1], fault), "fault/" + fault))
        # a reply that repeats a header (two Content-Type lines): the adapter hands over the reply's headers as they came,
        # so the first value is what the library sees, through every adapter alike
        for ct2 in () if a == "curl" else (b"application/json\ntext/plain", b"text/plain\napplication/json", b"application/json\napplication/json; charset=utf-8"):
            for st, body in ((200, REPLY_BODIES[5]), (400, REPLY_BODIES[1])):
                out.append((line(a, REQ_BODIES[0], None, "/token", st, ct2, "cl", body, "none"), "repeated-header"))
                out.append(("NETFLOW %s %d %s %s" % (a, st, C.topt(ct2), C.tb(body)), "flow-repeated-header"))
        # literals that are new in the source (gen/srclit.py): statuses, media types, reply and request body sizes
        from gen import srclit as SL
        # (interim 1xx replies and the body-less 204 / 205 / 304 are not replies with a body in HTTP: left out, as in STATUSES)
        lit_statuses = [st for st in SL.statuses() if st >= 200 and st not in (204, 205, 304)]
        for st in lit_statuses:
            for ct in CTS:
                for bi, body in enumerate(REPLY_BODIES[:7]):
                    i += 1
                    out.append((line(a, REQ_BODIES[bi % 2], AUTHS[i % 2], PATHS[i % 3], st, ct, FRAMINGS[i % 4], body, "none"), "source-literal/status"))
            for body in (b"{\"error\":\"invalid_grant\"}", b"{\"access_token\":\"tok\",\"token_type\":\"Bearer\"}", b""):
                out.append(("NETFLOW %s %d %s %s" % (a, st, C.topt(b"application/json"), C.tb(body)), "source-literal/flow-status"))
        for w in SL.words():
            try:
                wb = w.encode("ascii")
            except UnicodeEncodeError:
                continue
            if not wb or any(c < 0x21 or c > 0x7e for c in wb):
                continue
            for ct in (wb, b"application/" + wb, b"application/json; " + wb):
                for st, body in ((200, REPLY_BODIES[5]), (400, REPLY_BODIES[1])):
                    i += 1
                    out.append((line(a, REQ_BODIES[0], None, "/token", st, ct, FRAMINGS[i % 4], body, "none"), "source-literal/content-type"))
                    out.append(("NETFLOW %s %d %s %s" % (a, st, C.topt(ct), C.tb(body)), "source-literal/flow-content-type"))
            for st in (200, 400):
                i += 1
                # (a target ending in a bare '?' is left out: ureq drops an empty query by itself, an observation of the library)
                q = "".join(chr(c) for c in wb if chr(c).isalnum())
                out.append((line(a, b"a=" + wb, AUTHS[i % 2], "/token?" + q if q else "/token", st, CTS[1], FRAMINGS[i % 4], wb, "none"), "source-literal/body"))
        for k in SL.sizes(limit=300000, lo=0):
            for st in (200, 400):
                for fr in FRAMINGS:
                    i += 1
                    out.append((line(a, REQ_BODIES[0], None, "/token", st, CTS[i % 2], fr, bytes((j * 31 + k) % 256 for j in range(k)), "none"), "source-literal/reply-size"))
            out.append((line(a, b"a=" + b"b" * max(k - 2, 0), AUTHS[1], "/token", 200, CTS[1], "cl", REPLY_BODIES[5], "none"), "source-literal/request-size"))
        # circumstances that are no faults and change nothing in what the adapter must deliver: non-UTF-8 bytes in UNRELATED
        # reply headers, a reason phrase with a colon, a server whose handler makes its own call through the same adapter before
        # it replies (two calls of the adapter in flight in one process), an earlier call with a method the adapter refuses
        for flag in FLAGS.get(a, []):
            for st, ct, body in ((200, CTS[1], REPLY_BODIES[5]), (400, CTS[1], REPLY_BODIES[1]), (200, None, REPLY_BODIES[2]), (503, CTS[2], b"")):
                for fr in ("cl", "chunked", "close"):
                    i += 1
                    out.append((line(a, REQ_BODIES[i % 2], AUTHS[i % 2], PATHS[i % 3], st, ct, fr + "+" + flag, body, "none"), "circumstance/" + flag))
        # whole flows: an OAuth error reply is classified as through an in-memory client
        for st, body in ((400, b"{\"error\":\"invalid_grant\"}"), (400, b"{\"error\":\"authorization_pending\"}"), (401, b"{\"error\":\"invalid_client\",\"error_description\":\"x\"}"),
                         (200, b"{\"access_token\":\"tok\",\"token_type\":\"Bearer\",\"expires_in\":3600}"), (500, b""), (503, b"<html>"), (200, b"not json"), (403, b"{\"error\":\"custom\"}"),
                         (400, b"{\"error\":\"invalid_grant\",\"error_description\":\"Benutzer ung\xfcltig \xff\"}"), (200, b"{\"access_token\":\"t\xfck\",\"token_type\":\"bearer\"}"),
                         (401, b"{\"error\":\"invalid_client\",\"error_uri\":\"/relative/doc#x\"}"), (400, b"{\"error\":\"invalid\\u005fgrant\",\"error_description\":\"a\\/b\"}"),
                         (400, b"{\"error\":\"https:\\/\\/vendor.example\\/errors\\/quota\"}")):
            for ct in (b"application/json", None, b"text/html"):
                out.append(("NETFLOW %s %d %s %s" % (a, st, C.topt(ct), C.tb(body)), "flow"))
    return out


def finding_class(line_, impl_obs, model_obs):
    ws = line_.split(" ")
    if ws[0] == "NET" and ws[1] == "ureq" and ws[8] == "chunked" and ws[10] == "truncated" and "cli: ok" in impl_obs:
        return "ureq-chunked-closed-mid-chunk"
    return None


def run(tier, rng, C):
    C.IMPL_BIN[0] = os.path.join(C.TARGET, "debug", "harness_net")
    try:
        cases = gen(tier, rng)
        v, stats = C.differential("C09", cases, finding_class=finding_class, shrinkable=False, retry=lambda o: o == "PANIC" or "HANG" in o or "cli: PANIC" in o,
                                  nontrivial=lambda l, o: "cli: ok" in o or o.startswith("ok ") or o.startswith("server "))
        # bodies too large for the line protocol (beyond every library's default in-memory caps): pseudo-random
        # bytes generated on both sides; the model's prediction (adapter_call a (SReply r) = Some r, the request
        # delivered verbatim) is evaluated inside the harness as two equalities
        sizes = [(11 * 1024 * 1024, 100), (100, 3 * 1024 * 1024), (16 * 1024 * 1024 + 1, 70000)] if tier == "quick" else \
                [(11 * 1024 * 1024, 100), (100, 3 * 1024 * 1024), (16 * 1024 * 1024 + 1, 70000), (33 * 1024 * 1024, 1), (10 * 1024 * 1024, 10), (10 * 1024 * 1024 + 1, 10)]
        from gen import srclit as SL
        sizes = sizes + [(k, 100) for k in SL.sizes(limit=64 * 1024 * 1024, lo=300001)] + [(100, k) for k in SL.sizes(limit=16 * 1024 * 1024, lo=300001)]
        big = []
        for a in ADAPTERS:
            for k, (rn, qn) in enumerate(sizes):
                for fr in (FRAMINGS[:3] if tier != "quick" else [FRAMINGS[k % 3]]):
                    big.append(("NETBIG %s %d %d %s %d" % (a, rn, qn, fr, 200 if k % 2 == 0 else 400), rn))
        outs = C.run_lines(C.IMPL_BIN[0], [l for l, _ in big], shards=4)
        for k, o in enumerate(outs):
            if o == "PANIC" or "HANG" in o or "cli: PANIC" in o:      # once more, alone, with a longer limit (a loaded machine)
                outs[k] = C.run_lines(C.IMPL_BIN[0], [big[k][0]], shards=1, env=dict(C.ENV, VERIF_NET_WATCHDOG="90"))[0]
        bad = 0
        for (l, rn), o in zip(big, outs):
            want = "srv:1 reqsame=1 | cli: ok %s same=1 len=%d" % (l.split(" ")[5], rn)
            if o != want:
                bad += 1
                if bad <= 3:
                    path = C.write_replay("C09", {"property": "C09", "case": l, "impl_observation": o, "model_observation": want,
                                                  "broken": "large-body transparency (Adapters.adapter_call on SReply; request glue)"})
                    print("VIOLATION property=C09 replay=%s" % path.replace(C.VERIF + "/", ""))
        v += bad
        stats["large_body_cases"] = len(big)
        # whole device-flow poll sessions (blocking through all four adapters, future-based through reqwest) against the same
        # session with an in-memory client: theorem C09_session_identical
        from gen import same as SAME
        bad_same, n_same = SAME.run("C09", SAME.poll_cases(rng), C)
        v += bad_same
        stats["poll_sessions_through_adapters"] = n_same
        stats["evaluations"] = stats.get("evaluations", 0) + n_same
        stats["evaluations"] = stats.get("evaluations", 0) + len(big)
    finally:
        C.IMPL_BIN[0] = C.HARNESS_BIN
    stats["rule"] = ("large bodies (11 MiB / 16 MiB + 1 replies, 3 MiB request) through every adapter; 4 adapters x 14 statuses (200, 201, 301/302/303/307/308 each with a Location header that must NOT be followed, 400, 401, 403, 404, 429, 500, 503) x 4 Content-Types x 6 reply bodies (empty, JSON, all byte values, NUL/0xFF, 70 kB, token document) "
                     "x 4 request bodies (small, 2 kB, 75 kB, all byte values) with framing rotating over Content-Length / chunked / close-delimited / HTTP/1.0 close-delimited, 1 in 6 (quick) or all (thorough); "
                     "faults {refused, closed before reply, garbage status line, body truncated under Content-Length and under chunked framing} x 4 adapters; a full exchange_code per adapter for 8 replies x 3 Content-Types; "
                     "observed: bytes the server received (method, target, Accept/Content-Type/Authorization, body), the response or error the adapter returned, number of connections (redirects not followed); "
                     "non-trivial = a response came back / a typed outcome")
    return v, stats


def replay(payload, C):
    C.IMPL_BIN[0] = os.path.join(C.TARGET, "debug", "harness_net")
    try:
        return C.replay_generic(payload)
    finally:
        C.IMPL_BIN[0] = C.HARNESS_BIN
