"""C10: Debug formatting ({:?} and {:#?}) of every container that can hold a secret, for hostile
secret strings; exact output against the extracted model, plus the direct property checks: no
4-byte window of any secret in the output, identical output for two different secret assignments;
plus rustc probes for the compile-time facts."""
import os
from gen import common as C
from gen import probes

ASSUMPTIONS = [
    "public strings are restricted to printable ASCII in the exact-output comparison (str Debug escaping is modelled for '\"' and '\\\\' only); secrets are arbitrary",
    "PhantomData's Debug text (std::any::type_name of the type parameters) is an oracle reported by the harness (DBGPH)",
    "the window / identical-output checks are performed by gen/c10.py on the implementation's output (plain substring tests); a 4-byte window counts only if the model's rendering, which by theorem C10_noninterference contains nothing of any secret, does not contain it too (public strings may legitimately share windows with a secret)",
]
KINDS = ["client", "code_req", "refresh_req", "password_req", "cc_req", "devauth_req", "introspect_req", "revoke_req", "auth_req",
         "token_resp", "intro_resp", "dev_resp", "dev_resp_nouri", "revocable", "nest"]
PUBS = [["my id", "name", "value", "scope", "user"], ["", "", "", "", ""], ["a\"b", "c\\d", "{:?}", "'q'", "x y z"],
        ["Client { client_secret: ", "([redacted])", "Some(", ", ", "}"], ["~!@#$%^&*()_+", "[]{}<>", "0", "None", "PhantomData"]]


def secret_sets(rng, tier):
    m = lambda i: "S%d-%08x" % (i, rng.getrandbits(32))
    sets = [
        [m(0), m(1), m(2), m(3)],
        [m(0) + "{}", "{:?}" + m(1), "%s%n" + m(2), m(3) + "{0}{{}}"],
        [m(0) + "\n" + m(0), "\n\n\n\n" + m(1), m(2) + "\r\n", "\t" + m(3)],
        [m(0) + "\"quoted\"", m(1) + "\\", m(2) + "é日本\U0001F600", m(3) + "\x00\x1b[31m"],
        [m(0) * 40, m(1) * 3, m(2), m(3) * 100],
        ["https://v.example/activate/%s?locale=en&code=%s#f" % (m(0), m(0)), "https://v.example/device/%s?user_code=%s" % (m(1), m(1)),
         "%s?%s=%s&x" % (m(2), m(2), m(2)), "https://v.example/activate/%s?locale=en&user_code=%s#%s" % (m(3), m(3), m(3))],
        ["a/%s" % m(0), "%s:%s@host" % (m(1), m(1)), "#%s" % m(2), "?%s" % m(3)],
        # blank secrets: the output may not even tell an empty or whitespace-only secret from any other
        ["", " ", "\n", "\r\n"],
        [" \t ", "", "\u00a0", "\x00"],
        ["x", "", "0", "[redacted]"],
    ]
    # literals that are new in the source (gen/srclit.py): secrets that contain, start with, end with or are the new words;
    # secrets whose length is a new integer (and its neighbours)
    from gen import srclit as SL
    for w in SL.words()[:30]:
        sets.append([w + m(0), m(1) + w, m(2) + w + m(2), w.upper() + " " + m(3)])
        sets.append([w, m(1), " " + w, w + w])
    for k in SL.sizes(limit=9000, lo=4)[:9]:
        sets.append([(m(0) * (k // 11 + 1))[:k], (m(1) * (k // 11 + 1))[:k + 1], m(2), ("\u00e9" + m(3)) * (k // 13 + 1)])
    if tier == "thorough":
        sets.append([m(0) * 6000, m(1) * 6000, m(2) * 10, m(3)])   # > 64 KiB
    else:
        sets.append([m(0) * 600, m(1), m(2), m(3)])
    return sets


def grams(b, n=4):
    return {b[i:i + n] for i in range(len(b) - n + 1)}


def run(tier, rng, C):
    ph = dict(zip(KINDS, C.run_impl(["DBGPH " + k for k in KINDS])))
    cases = []
    meta = {}
    for k in KINDS:
        for pi, pubs in enumerate(PUBS):
            for si, secs in enumerate(secret_sets(rng, tier)):
                for pr in "01":
                    line = "DBG %s %s %s %s %s" % (pr, k, C.tlist(pubs), C.tlist(secs), ph[k])
                    cases.append((line, "%s/%s" % (k, "pretty" if pr == "1" else "plain")))
                    meta[line] = (k, pi, pr, secs)
    v, stats = C.differential("C10", cases, nontrivial=lambda l, o: True, shrinkable=False)
    # direct property checks on the implementation's output
    lines = [l for l, _ in cases]
    outs = C.run_impl(lines)
    mouts = C.run_model(lines)
    groups = {}
    leaks = []
    for l, o, mo in zip(lines, outs, mouts):
        k, pi, pr, secs = meta[l]
        ob = C.untb(o) if o.startswith("x") else o.encode()
        mb = C.untb(mo) if mo.startswith("x") else b""
        og = None
        for s in secs:
            sb = s.encode("utf-8")
            if len(sb) >= 4:
                if og is None:
                    # windows of the output that the secret-free model rendering does not contain
                    og = grams(ob) - grams(mb)
                if grams(sb) & og:
                    leaks.append((l, s[:40]))
                    break
        groups.setdefault((k, pi, pr), set()).add(ob)
    differing = [g for g, outs_ in groups.items() if len(outs_) > 1]
    for l, s in leaks[:3]:
        path = C.write_replay("C10", {"property": "C10", "case": l, "clause": "a window of >= 4 bytes of a secret occurs in the Debug output", "secret_prefix": s})
        print("VIOLATION property=C10 replay=%s" % path.replace(C.VERIF + "/", ""))
    for g in differing[:3]:
        path = C.write_replay("C10", {"property": "C10", "case": "container %s pubs#%d pretty=%s" % g, "clause": "Debug output depends on the secret contents"})
        print("VIOLATION property=C10 replay=%s" % path.replace(C.VERIF + "/", ""))
    # error values that carry an unusable reply (its raw bytes): no recognisable part of the secrets in their Debug / Display
    elines = []
    esecs = []
    for secs in secret_sets(rng, tier):
        if all(len(x.encode("utf-8")) >= 8 for x in secs):
            for pr in "01":
                elines.append("DBGERR %s %s" % (pr, C.tlist(secs)))
                esecs.append(secs)
    eouts = C.run_impl(elines)
    # what the same error values print when the reply holds four unrelated values: every window of THAT text is public
    # (the fixed wording of the messages), whatever a secret happens to share with it
    public = {}
    for pr, o in zip("01", C.run_impl(["DBGERR %s %s" % (pr, C.tlist(["0123456789abcdef"] * 4)) for pr in "01"])):
        public[pr] = grams(C.untb(o), 6) if o.startswith("x") else set()
    eleaks = []
    for l, secs, o in zip(elines, esecs, eouts):
        if not o.startswith("x"):
            raise RuntimeError("DBGERR answered %r" % o[:80])
        ob = C.untb(o)
        for s in secs:
            # the visible (printable ASCII) stretches of the secret, as a reader would recognise them
            import re as _re
            for part in _re.findall(rb"[\x21-\x7e]{6,}", s.encode("utf-8")):
                if (grams(part, 6) & grams(ob, 6)) - public[l.split(" ")[1]]:
                    eleaks.append((l, s[:40]))
                    break
    for l, s in eleaks[:3]:
        path = C.write_replay("C10", {"property": "C10", "case": l, "clause": "a window of >= 6 visible bytes of a secret occurs in the Debug/Display output of an error value carrying the reply", "secret_prefix": s})
        print("VIOLATION property=C10 replay=%s" % path.replace(C.VERIF + "/", ""))
    v += len(eleaks)
    stats["error_value_checks"] = len(elines)
    v += len(leaks) + len(differing)
    stats["secret_window_checks"] = len(lines)
    stats["output_groups_compared"] = len(groups)
    pv, pstats = probes.run_probes("C10", [p for p in probes.PROBES if p["prop"] == "C10"], C)
    v += pv
    stats.update(pstats)
    stats["rule"] = ("14 containers (client, 7 request builders with Debug, authorization request, token / introspection / device-authorization responses, revocable token, an Option/Vec/tuple nesting) "
                     "x 5 public-string sets (incl. look-alikes of the redaction text and of struct syntax) x 9 secret sets (blank / whitespace-only / one-character secrets, random markers, format-directive look-alikes, newlines/CR/TAB, quotes/backslash/non-ASCII/ESC, "
                     "long up to %s) x {:?} and {:#?}: exact output vs the extracted model, no 4-byte window of a secret in the output, identical output across the secret sets; "
                     "%d rustc probes (no Display/Deref/Into<String>/== /Hash without the feature, == and Hash with it, verifier not Clone, DeviceAccessTokenRequest not Debug); every case non-trivial"
                     % ("> 64 KiB" if tier == "thorough" else "6 KiB", pstats["compile_probes"]))
    return v, stats


def replay(payload, C):
    if payload.get("case", "").startswith("DBG "):
        return C.replay_generic(payload)
    print(payload)
    return 1
