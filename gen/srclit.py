"""Literals of the crate's source as a dictionary for the search for failing inputs.

The tie between model and code is behavioural (DESIGN.md 2.4): its strength is bounded by what
the generators drive.  A change that reacts to one particular value - a member name, a parameter
name, a header, a status code, a size limit, a duration - has to spell that value somewhere in
the source.  So on every run the string and integer literals of /repo/src (comments, doc comments
and #[cfg(test)] modules left out) are collected and compared with the list recorded for the tree
the model was written against (gen/srclit_baseline.json).  Literals that are NEW are handed to
the generators, which use them in every role a caller- or server-chosen value can play (names,
values, lengths, counts, statuses, durations).  On the unchanged tree there is no new literal and
nothing is added; the dictionary never decides a verdict, it only proposes inputs."""
import json
import os
import re

REPO_SRC = os.environ.get("VERIF_SRCLIT_SRC", "/repo/src")
BASELINE = os.path.join(os.path.dirname(os.path.abspath(__file__)), "srclit_baseline.json")
TEST_FILES = ("tests.rs",)


def _strip_test_mods(text):
    """drop `#[cfg(test)] mod x { ... }` blocks (brace matching on the comment-free token stream is done by the caller;
    here a cheap cut: everything from `#[cfg(test)]` directly followed by `mod` up to the matching brace)"""
    out = []
    i = 0
    for m in re.finditer(r"#\[cfg\(test\)\]\s*(pub\s+)?mod\s+\w+\s*\{", text):
        if m.start() < i:
            continue
        out.append(text[i:m.start()])
        depth = 1
        j = m.end()
        while j < len(text) and depth:
            if text[j] == "{":
                depth += 1
            elif text[j] == "}":
                depth -= 1
            j += 1
        i = j
    out.append(text[i:])
    return "".join(out)


def _unescape(body):
    out = []
    i = 0
    while i < len(body):
        c = body[i]
        if c != "\\":
            out.append(c)
            i += 1
            continue
        i += 1
        if i >= len(body):
            break
        e = body[i]
        i += 1
        if e == "n":
            out.append("\n")
        elif e == "r":
            out.append("\r")
        elif e == "t":
            out.append("\t")
        elif e == "0":
            out.append("\0")
        elif e in "\\'\"":
            out.append(e)
        elif e == "x" and i + 2 <= len(body):
            try:
                out.append(chr(int(body[i:i + 2], 16)))
            except ValueError:
                pass
            i += 2
        elif e == "u" and i < len(body) and body[i] == "{":
            j = body.find("}", i)
            if j > 0:
                try:
                    out.append(chr(int(body[i + 1:j].replace("_", ""), 16)))
                except (ValueError, OverflowError):
                    pass
                i = j + 1
        elif e == "\n":
            while i < len(body) and body[i] in " \t\r\n":
                i += 1
        else:
            out.append(e)
    return "".join(out)


def literals_of(text):
    """(strings, ints) of one Rust source text; comments are skipped, #[cfg(test)] modules removed"""
    strings, ints = [], []
    # pass 1: remove comments, collect string literals, leave code with literals blanked
    code = []
    i, n = 0, len(text)
    while i < n:
        c = text[i]
        if text.startswith("//", i):
            j = text.find("\n", i)
            i = n if j < 0 else j
        elif text.startswith("/*", i):
            depth, i = 1, i + 2
            while i < n and depth:
                if text.startswith("/*", i):
                    depth, i = depth + 1, i + 2
                elif text.startswith("*/", i):
                    depth, i = depth - 1, i + 2
                else:
                    i += 1
        elif c == '"' or (c in "bc" and text.startswith('"', i + 1)):
            if c != '"':
                i += 1
            j = i + 1
            while j < n and text[j] != '"':
                j += 2 if text[j] == "\\" else 1
            code.append(("S", _unescape(text[i + 1:j])))
            i = j + 1
        elif (c == "r" or (c == "b" and text.startswith("r", i + 1))) and re.match(r"b?r#*\"", text[i:i + 12]) and (i == 0 or not (text[i - 1].isalnum() or text[i - 1] == "_")):
            m = re.match(r"b?r(#*)\"", text[i:])
            close = '"' + m.group(1)
            j = text.find(close, i + m.end())
            j = n if j < 0 else j
            code.append(("S", text[i + m.end():j]))
            i = j + len(close)
        elif c == "'":
            # char literal or lifetime
            m = re.match(r"'(\\.[^']*|[^\\'])'", text[i:i + 14])
            if m:
                code.append(("S", _unescape(m.group(1))))
                i += m.end()
            else:
                code.append(("C", c))
                i += 1
        else:
            code.append(("C", c))
            i += 1
    flat = "".join(v if k == "C" else " \x01 " for k, v in code)
    flat2 = _strip_test_mods(flat)
    # strings that survive the removal of test modules: count markers
    keep = flat2.count("\x01")
    all_s = [v for k, v in code if k == "S"]
    # test modules are at the end of the files in this crate; if a module in the middle was cut, recompute by position
    if keep == len(all_s):
        strings = all_s
    else:
        pos, si, cut = 0, 0, set()
        for m in re.finditer(r"#\[cfg\(test\)\]\s*(pub\s+)?mod\s+\w+\s*\{", flat):
            depth, j = 1, m.end()
            while j < len(flat) and depth:
                depth += flat[j] == "{"
                depth -= flat[j] == "}"
                j += 1
            cut.add((m.start(), j))
        idx = 0
        for mm in re.finditer("\x01", flat):
            if not any(a <= mm.start() < b for a, b in cut):
                strings.append(all_s[idx])
            idx += 1
    for m in re.finditer(r"(?<![\w.])(0x[0-9a-fA-F_]+|0o[0-7_]+|0b[01_]+|\d[\d_]*)(?:_?(?:u8|u16|u32|u64|u128|usize|i8|i16|i32|i64|i128|isize))?(?![\w])", flat2):
        t = m.group(1).replace("_", "")
        try:
            v = int(t, 0) if t[:2] in ("0x", "0o", "0b") else int(t)
        except ValueError:
            continue
        ints.append(v)
    # products spelled out in the source (64 * 1024, 24 * 60 * 60, 1 << 20) are limits too
    for m in re.finditer(r"(?<![\w.])(\d[\d_]*)\s*\*\s*(\d[\d_]*)(?:\s*\*\s*(\d[\d_]*))?(?:\s*\*\s*(\d[\d_]*))?", flat2):
        v = 1
        for g in m.groups():
            if g:
                v *= int(g.replace("_", ""))
        ints.append(v)
    for m in re.finditer(r"(?<![\w.])(\d[\d_]*)\s*<<\s*(\d+)", flat2):
        if int(m.group(2)) < 64:
            ints.append(int(m.group(1).replace("_", "")) << int(m.group(2)))
    # identifiers: a new struct member, constant or helper has no string literal, but a struct member IS a document member name
    idents = [m.group(0) for m in re.finditer(r"(?<![\w'])[A-Za-z_][A-Za-z0-9_]{2,}", flat2)]
    return strings, ints, idents


def collect(src=REPO_SRC):
    strings, ints, idents = set(), set(), set()
    for root, _, files in os.walk(src):
        for f in sorted(files):
            if not f.endswith(".rs") or f in TEST_FILES:
                continue
            try:
                text = open(os.path.join(root, f), encoding="utf-8", errors="replace").read()
            except OSError:
                continue
            s, k, d = literals_of(text)
            strings.update(s)
            ints.update(k)
            idents.update(d)
    return strings, ints, idents


def pieces(s):
    """a literal and the parts a value could be matched against: format strings are split at their placeholders,
    'name: value' headers and 'a=b' pairs at the separator"""
    out = [s]
    for p in re.split(r"\{[^}]*\}", s):
        out.append(p)
        out.append(p.strip())
        out.extend(x for x in re.split(r"[\s:=,;()\[\]]+", p) if x)
    return [p for p in dict.fromkeys(out) if p and len(p) <= 200]


_cache = {}


def novel(src=REPO_SRC):
    """{'strings': [...], 'ints': [...]} of literals absent from the recorded tree (sorted, bounded)"""
    if src in _cache:
        return _cache[src]
    forced = os.environ.get("VERIF_SRCLIT_FORCE")
    if forced:      # self-test of the generators: a given dictionary instead of the one read from the source
        res = json.load(open(forced))
        _cache[src] = {"strings": list(res.get("strings", []))[:60], "ints": list(res.get("ints", []))[:24]}
        return _cache[src]
    try:
        base = json.load(open(BASELINE))
    except (OSError, ValueError):
        base = {"strings": [], "ints": []}
    strings, ints, idents = collect(src)
    bs = set(base.get("idents", []))
    for s in base["strings"]:
        bs.update(pieces(s))
    ns = []
    for s in sorted(strings):
        for p in pieces(s):
            if p not in bs and p not in ns:
                ns.append(p)
    # new identifiers after the new strings: lower-case ones as they are (member / parameter names), constants lower-cased
    for d in sorted(idents):
        if d not in bs and d.lower() not in bs:
            for p in (d, d.lower()):
                if p not in ns and p not in bs:
                    ns.append(p)
    ni = sorted(v for v in ints if v not in set(base["ints"]) and v >= 0)
    res = {"strings": ns[:60], "ints": ni[:24]}
    _cache[src] = res
    return res


def sizes(limit=None, lo=2):
    """boundary sizes around every new integer: n-1, n, n+1 (and n itself read as KiB-free byte count)"""
    out = []
    for v in novel()["ints"]:
        for d in (-1, 0, 1):
            w = v + d
            if w >= lo and (limit is None or w <= limit) and w not in out:
                out.append(w)
    return out


def words():
    return list(novel()["strings"])


HTTP_STATUS = {"CONTINUE": 100, "SWITCHING_PROTOCOLS": 101, "PROCESSING": 102, "OK": 200, "CREATED": 201, "ACCEPTED": 202, "NON_AUTHORITATIVE_INFORMATION": 203,
               "NO_CONTENT": 204, "RESET_CONTENT": 205, "PARTIAL_CONTENT": 206, "MULTI_STATUS": 207, "ALREADY_REPORTED": 208, "IM_USED": 226, "MULTIPLE_CHOICES": 300,
               "MOVED_PERMANENTLY": 301, "FOUND": 302, "SEE_OTHER": 303, "NOT_MODIFIED": 304, "USE_PROXY": 305, "TEMPORARY_REDIRECT": 307, "PERMANENT_REDIRECT": 308,
               "BAD_REQUEST": 400, "UNAUTHORIZED": 401, "PAYMENT_REQUIRED": 402, "FORBIDDEN": 403, "NOT_FOUND": 404, "METHOD_NOT_ALLOWED": 405, "NOT_ACCEPTABLE": 406,
               "PROXY_AUTHENTICATION_REQUIRED": 407, "REQUEST_TIMEOUT": 408, "CONFLICT": 409, "GONE": 410, "LENGTH_REQUIRED": 411, "PRECONDITION_FAILED": 412,
               "PAYLOAD_TOO_LARGE": 413, "URI_TOO_LONG": 414, "UNSUPPORTED_MEDIA_TYPE": 415, "RANGE_NOT_SATISFIABLE": 416, "EXPECTATION_FAILED": 417, "IM_A_TEAPOT": 418,
               "MISDIRECTED_REQUEST": 421, "UNPROCESSABLE_ENTITY": 422, "LOCKED": 423, "FAILED_DEPENDENCY": 424, "UPGRADE_REQUIRED": 426, "PRECONDITION_REQUIRED": 428,
               "TOO_MANY_REQUESTS": 429, "REQUEST_HEADER_FIELDS_TOO_LARGE": 431, "UNAVAILABLE_FOR_LEGAL_REASONS": 451, "INTERNAL_SERVER_ERROR": 500, "NOT_IMPLEMENTED": 501,
               "BAD_GATEWAY": 502, "SERVICE_UNAVAILABLE": 503, "GATEWAY_TIMEOUT": 504, "HTTP_VERSION_NOT_SUPPORTED": 505, "VARIANT_ALSO_NEGOTIATES": 506,
               "INSUFFICIENT_STORAGE": 507, "LOOP_DETECTED": 508, "NOT_EXTENDED": 510, "NETWORK_AUTHENTICATION_REQUIRED": 511}
STATUS_PREDICATES = {"is_success": [201, 204, 206, 299], "is_redirection": [301, 302, 307, 399], "is_client_error": [401, 403, 404, 429, 499],
                     "is_server_error": [500, 502, 503, 599], "is_informational": [100, 101, 199]}


def statuses():
    """HTTP statuses the changed source newly mentions: http::StatusCode constants, is_success()-style predicates
    (representatives of the class), integers in 100..=599"""
    out = []
    for w in novel()["strings"]:
        if w in HTTP_STATUS:
            out.append(HTTP_STATUS[w])
        out.extend(STATUS_PREDICATES.get(w, []))
    for v in novel()["ints"]:
        for d in (-1, 0, 1):
            if 100 <= v + d <= 599:
                out.append(v + d)
    return list(dict.fromkeys(out))


def header_names():
    """header-name spellings of the new words (RETRY_AFTER -> retry-after)"""
    out = []
    for w in novel()["strings"]:
        h = w.strip().lower().replace("_", "-")
        if re.fullmatch(r"[a-z][a-z0-9\-]{1,40}", h) and h not in out and h not in ("content-type", "content-length", "transfer-encoding", "connection", "host"):
            out.append(h)
    return out[:24]


def noise_headers_env():
    """value of VERIF_NOISE_HEADERS: name=value pairs (hex) the harness adds to the replies that carry irrelevant headers"""
    hs = header_names()
    if not hs:
        return ""
    vals = ["0", "1", "120", "identity", "application/json", "text/html", "true", "no-store"]
    for v in novel()["ints"][:4]:
        vals.append(str(v))
    for w in novel()["strings"][:6]:
        if re.fullmatch(r"[ -~]{1,60}", w):
            vals.append(w)
    pairs = []
    for i, h in enumerate(hs):
        pairs.append((h, vals[i % len(vals)]))
    return ",".join("%s=%s" % (h.encode().hex(), v.encode().hex()) for h, v in pairs)


def write_baseline():
    strings, ints, idents = collect()
    json.dump({"strings": sorted(strings), "ints": sorted(ints), "idents": sorted(idents)}, open(BASELINE, "w"), indent=0, ensure_ascii=True)
    print("baseline: %d strings, %d ints" % (len(strings), len(ints)))


if __name__ == "__main__":
    import sys
    if len(sys.argv) > 1 and sys.argv[1] == "baseline":
        write_baseline()
    else:
        print(json.dumps(novel(sys.argv[1] if len(sys.argv) > 1 else REPO_SRC), ensure_ascii=True, indent=1))
