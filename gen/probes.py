"""Compile probes: facts that only rustc decides (a method is absent for a typestate, a trait is
not implemented, a future is Send).  Each probe is a tiny program compiled against the crate as
it is in /repo now; a reject probe must fail with the expected error code naming the expected
item, so it cannot 'pass' by failing for an unrelated reason."""
import json
import os
import subprocess
from gen import common as C

PROBE_DIR = os.path.join(C.CACHE, "probes")

PRELUDE = """#![allow(unused)]
use oauth2::basic::*;
use oauth2::*;
fn client() -> BasicClient { BasicClient::new(ClientId::new("id".to_string())) }
fn full() -> BasicClient<EndpointSet, EndpointSet, EndpointSet, EndpointSet, EndpointSet> {
    client()
        .set_auth_uri(AuthUrl::new("https://a/".to_string()).unwrap())
        .set_token_uri(TokenUrl::new("https://t/".to_string()).unwrap())
        .set_device_authorization_url(DeviceAuthorizationUrl::new("https://d/".to_string()).unwrap())
        .set_introspection_url(IntrospectionUrl::new("https://i/".to_string()).unwrap())
        .set_revocation_url(RevocationUrl::new("https://r/".to_string()).unwrap())
}
fn details() -> StandardDeviceAuthorizationResponse {
    serde_json::from_str(r#"{"device_code":"d","user_code":"u","verification_uri":"https://v/","expires_in":1}"#).unwrap()
}
"""

PROBES = []


def add(prop, name, kind, body, code=None, needle=None, features=()):
    PROBES.append({"prop": prop, "name": name, "kind": kind, "body": body, "code": code, "needle": needle,
                   "features": tuple(features)})


# ---- C11: endpoint-gated methods on a client whose endpoint was never configured
GATED = [
    ("auth_uri", "c.auth_uri();", "others_but_auth"),
    ("authorize_url", "c.authorize_url(|| CsrfToken::new(\"s\".to_string()));", "others_but_auth"),
    ("token_uri", "c.token_uri();", "others_but_token"),
    ("exchange_client_credentials", "c.exchange_client_credentials();", "others_but_token"),
    ("exchange_code", "c.exchange_code(AuthorizationCode::new(\"c\".to_string()));", "others_but_token"),
    ("exchange_device_access_token", "let d = details(); c.exchange_device_access_token(&d);", "others_but_token"),
    ("exchange_password", "let u = ResourceOwnerUsername::new(\"u\".to_string()); let p = ResourceOwnerPassword::new(\"p\".to_string()); c.exchange_password(&u, &p);", "others_but_token"),
    ("exchange_refresh_token", "let r = RefreshToken::new(\"r\".to_string()); c.exchange_refresh_token(&r);", "others_but_token"),
    ("device_authorization_url", "c.device_authorization_url();", "others_but_dev"),
    ("exchange_device_code", "c.exchange_device_code();", "others_but_dev"),
    ("introspection_url", "c.introspection_url();", "others_but_int"),
    ("introspect", "let t = AccessToken::new(\"t\".to_string()); c.introspect(&t);", "others_but_int"),
    ("revocation_url", "c.revocation_url();", "others_but_rev"),
    ("revoke_token", "c.revoke_token(StandardRevocableToken::AccessToken(AccessToken::new(\"t\".to_string())));", "others_but_rev"),
]
OTHERS = {
    "others_but_auth": "client().set_token_uri(TokenUrl::new(\"https://t/\".to_string()).unwrap()).set_device_authorization_url(DeviceAuthorizationUrl::new(\"https://d/\".to_string()).unwrap()).set_introspection_url(IntrospectionUrl::new(\"https://i/\".to_string()).unwrap()).set_revocation_url(RevocationUrl::new(\"https://r/\".to_string()).unwrap())",
    "others_but_token": "client().set_auth_uri(AuthUrl::new(\"https://a/\".to_string()).unwrap()).set_device_authorization_url(DeviceAuthorizationUrl::new(\"https://d/\".to_string()).unwrap()).set_introspection_url(IntrospectionUrl::new(\"https://i/\".to_string()).unwrap()).set_revocation_url(RevocationUrl::new(\"https://r/\".to_string()).unwrap())",
    "others_but_dev": "client().set_auth_uri(AuthUrl::new(\"https://a/\".to_string()).unwrap()).set_token_uri(TokenUrl::new(\"https://t/\".to_string()).unwrap()).set_introspection_url(IntrospectionUrl::new(\"https://i/\".to_string()).unwrap()).set_revocation_url(RevocationUrl::new(\"https://r/\".to_string()).unwrap())",
    "others_but_int": "client().set_auth_uri(AuthUrl::new(\"https://a/\".to_string()).unwrap()).set_token_uri(TokenUrl::new(\"https://t/\".to_string()).unwrap()).set_device_authorization_url(DeviceAuthorizationUrl::new(\"https://d/\".to_string()).unwrap()).set_revocation_url(RevocationUrl::new(\"https://r/\".to_string()).unwrap())",
    "others_but_rev": "client().set_auth_uri(AuthUrl::new(\"https://a/\".to_string()).unwrap()).set_token_uri(TokenUrl::new(\"https://t/\".to_string()).unwrap()).set_device_authorization_url(DeviceAuthorizationUrl::new(\"https://d/\".to_string()).unwrap()).set_introspection_url(IntrospectionUrl::new(\"https://i/\".to_string()).unwrap())",
}
for meth, call, others in GATED:
    add("C11", "c11_reject_%s" % meth, "reject", "fn main() { let c = client(); %s }" % call, code="E0599", needle=meth)
    add("C11", "c11_accept_%s" % meth, "accept", "fn main() { let c = full(); %s }" % call)
# gating is per endpoint: all the OTHER four endpoints set does not unlock the method
add("C11", "c11_reject_exchange_code_others_set", "reject",
    "fn main() { let c = %s; c.exchange_code(AuthorizationCode::new(\"c\".to_string())); }" % OTHERS["others_but_token"],
    code="E0599", needle="exchange_code")


# ---- C10: compile-time facts about the secret types
SECRET_TYPES = ["ClientSecret", "AuthorizationCode", "AccessToken", "RefreshToken", "PkceCodeVerifier", "CsrfToken",
                "ResourceOwnerPassword", "DeviceCode", "UserCode", "VerificationUriComplete"]
TIMING = ("timing-resistant-secret-traits",)
for t in SECRET_TYPES:
    mk = "%s::new(\"x\".to_string())" % t
    add("C10", "c10_reject_display_%s" % t, "reject", "fn main() { let s = %s; println!(\"{}\", s); }" % mk, code="E0277", needle=t)
    add("C10", "c10_reject_eq_%s" % t, "reject", "fn main() { let a = %s; let b = %s; let _ = a == b; }" % (mk, mk), code="E0369", needle=t)
    add("C10", "c10_reject_deref_%s" % t, "reject", "fn main() { let a = %s; let _s: &str = &*a; }" % mk, code="E0614", needle=t)
    add("C10", "c10_reject_into_string_%s" % t, "reject", "fn main() { let a = %s; let _s: String = a.into(); }" % mk, code="E0277", needle=t)
for t in SECRET_TYPES:
    mk = "%s::new(\"x\".to_string())" % t
    add("C10", "c10_reject_eq_str_%s" % t, "reject", "fn main() { let a = %s; let _ = a == \"x\"; }" % mk, code="E0369", needle=t)
    add("C10", "c10_reject_eq_string_%s" % t, "reject", "fn main() { let a = %s; let _ = a == String::from(\"x\"); }" % mk, code="E0369", needle=t)
    add("C10", "c10_reject_str_eq_%s" % t, "reject", "fn main() { let a = %s; let _ = *\"x\" == a; }" % mk, code="E0277", needle=t)
# no conversion of a secret (owned or by reference) into the plain-string types a builder's extension parameters take
for t in SECRET_TYPES:
    mk = "%s::new(\"x\".to_string())" % t
    add("C10", "c10_reject_ref_into_cow_%s" % t, "reject", "fn main() { let a = %s; let _c: std::borrow::Cow<'_, str> = (&a).into(); }" % mk, code="E0277", needle=t)
    add("C10", "c10_reject_into_cow_%s" % t, "reject", "fn main() { let a = %s; let _c: std::borrow::Cow<'static, str> = a.into(); }" % mk, code="E0277", needle=t)
for t in ("CsrfToken", "AccessToken", "UserCode", "ClientSecret"):
    add("C20", "c20_reject_borrowed_lookup_%s" % t, "reject",
        "fn main() { let mut m: std::collections::HashMap<%s, u8> = std::collections::HashMap::new(); m.insert(%s::new(\"x\".to_string()), 1); let _ = m.get(\"x\"); }" % (t, t),
        code="E0308", needle=t, features=TIMING)
    add("C20", "c20_accept_owned_lookup_%s" % t, "accept",
        "fn main() { let mut m: std::collections::HashMap<%s, u8> = std::collections::HashMap::new(); m.insert(%s::new(\"x\".to_string()), 1); assert_eq!(m.get(&%s::new(\"x\".to_string())), Some(&1)); let mut s = std::collections::HashSet::new(); s.insert(%s::new(\"y\".to_string())); assert!(s.contains(&%s::new(\"y\".to_string()))); }" % (t, t, t, t, t),
        features=TIMING)
add("C10", "c10_reject_hash_off", "reject", "fn main() { let mut h = std::collections::HashSet::new(); h.insert(ClientSecret::new(\"x\".to_string())); }", code="E0277", needle="ClientSecret")
add("C10", "c10_reject_clone_verifier", "reject", "fn main() { let a = PkceCodeVerifier::new(\"x\".to_string()); let _b = a.clone(); }", code="E0599", needle="clone")
add("C10", "c10_accept_clone_others", "accept",
    "fn main() { %s }" % " ".join("let _ = %s::new(\"x\".to_string()).clone();" % t for t in SECRET_TYPES if t != "PkceCodeVerifier"))
add("C10", "c10_accept_accessor", "accept",
    "fn main() { %s }" % " ".join("let a = %s::new(\"x\".to_string()); let _s: &String = a.secret(); let _t: String = a.into_secret();" % t for t in SECRET_TYPES))
add("C10", "c10_accept_debug", "accept",
    "fn main() { %s }" % " ".join("println!(\"{:?}\", %s::new(\"x\".to_string()));" % t for t in SECRET_TYPES))
add("C10", "c10_reject_debug_device_access_token_request", "reject",
    "fn main() { let c = full(); let d = details(); let r = c.exchange_device_access_token(&d); println!(\"{:?}\", r); }", code="E0277", needle="DeviceAccessTokenRequest")
add("C10", "c10_accept_eq_hash_timing", "accept",
    "fn main() { %s }" % " ".join(
        "{ let a = %s::new(\"x\".to_string()); let b = %s::new(\"x\".to_string()); assert!(a == b); }" % (t, t) for t in SECRET_TYPES)
    + " fn _h() { let mut h = std::collections::HashSet::new(); h.insert(ClientSecret::new(\"x\".to_string())); }", features=TIMING)
add("C10", "c10_reject_display_timing", "reject", "fn main() { println!(\"{}\", ClientSecret::new(\"x\".to_string())); }", code="E0277", needle="ClientSecret", features=TIMING)
add("C10", "c10_reject_clone_verifier_timing", "reject", "fn main() { let a = PkceCodeVerifier::new(\"x\".to_string()); let _b = a.clone(); }", code="E0599", needle="clone", features=TIMING)

# trait surface (model: Secrets.revealing_traits, theorem C10_surface): compiles only if NONE of the traits is
# implemented by the type (an implemented one makes the inference below ambiguous, error E0283/E0282)
SURFACE = [
    ("Display", "T: std::fmt::Display"), ("Deref", "T: std::ops::Deref"), ("IntoString", "T: Into<String>"),
    ("BorrowStr", "T: std::borrow::Borrow<str>"), ("BorrowString", "T: std::borrow::Borrow<String>"),
    ("AsRefStr", "T: AsRef<str>"), ("AsRefString", "T: AsRef<String>"), ("AsRefBytes", "T: AsRef<[u8]>"),
    ("ToString", "T: ToString"), ("IntoBytes", "T: Into<Vec<u8>>"), ("IntoBoxStr", "T: Into<Box<str>>"),
    ("PartialEqStr", "T: PartialEq<str>"), ("PartialEqString", "T: PartialEq<String>"), ("StrPartialEq", "str: PartialEq<T>"),
    ("PartialOrd", "T: PartialOrd"), ("Ord", "T: Ord"), ("Copy", "T: Copy"), ("Default", "T: Default"), ("IntoIterator", "T: IntoIterator"),
]
SURFACE_MACRO = """macro_rules! not_impl { ($t:ty, $name:ident, $($pred:tt)+) => {{
    trait Amb<A> { fn item() {} }
    impl<T> Amb<()> for T {}
    struct $name;
    impl<T> Amb<$name> for T where $($pred)+ {}
    let _ = <$t as Amb<_>>::item;
}}}
"""
for feats, tag in (((), ""), (TIMING, "_timing")):
    for t in SECRET_TYPES:
        body = SURFACE_MACRO + "fn main() { %s }" % " ".join("not_impl!(%s, No%s, %s);" % (t, n, pred) for n, pred in SURFACE)
        add("C10", "c10_surface%s_%s" % (tag, t), "accept", body, features=feats)
# the PKCE verifier cannot be duplicated, neither alone nor through the request builder that holds it
add("C10", "c10_surface_code_request_not_clone", "accept", SURFACE_MACRO +
    "fn main() { not_impl!(CodeTokenRequest<'static, BasicErrorResponse, BasicTokenResponse>, NoClone, T: Clone); not_impl!(PkceCodeVerifier, NoCloneV, T: Clone); }")
add("C10", "c10_surface_code_request_not_clone_timing", "accept", SURFACE_MACRO +
    "fn main() { not_impl!(CodeTokenRequest<'static, BasicErrorResponse, BasicTokenResponse>, NoClone, T: Clone); not_impl!(PkceCodeVerifier, NoCloneV, T: Clone); }", features=TIMING)
# the containers that hold secrets offer no comparison, ordering, hashing or Display of their own either (a container-level
# == would compare the secrets inside without the feature, and around the digest comparison with it)
CONTAINERS = ["BasicTokenResponse", "BasicTokenIntrospectionResponse", "StandardDeviceAuthorizationResponse", "StandardRevocableToken", "BasicClient",
              "AuthorizationRequest<'static>", "CodeTokenRequest<'static, BasicErrorResponse, BasicTokenResponse>",
              "PasswordTokenRequest<'static, BasicErrorResponse, BasicTokenResponse>", "RefreshTokenRequest<'static, BasicErrorResponse, BasicTokenResponse>",
              "ClientCredentialsTokenRequest<'static, BasicErrorResponse, BasicTokenResponse>", "PkceCodeChallenge"]
for feats, tag in (((), ""), (TIMING, "_timing")):
    body = SURFACE_MACRO + "fn main() { %s not_impl!(PkceCodeChallenge, NoDispC, T: std::fmt::Display); }" % " ".join(
        "not_impl!(%s, NoEq%d, T: PartialEq); not_impl!(%s, NoOrd%d, T: PartialOrd); not_impl!(%s, NoHash%d, T: std::hash::Hash); not_impl!(%s, NoDisp%d, T: std::fmt::Display);" % (c, k, c, k, c, k, c, k)
        for k, c in enumerate(CONTAINERS) if c != "PkceCodeChallenge")
    add("C10", "c10_surface_containers%s" % tag, "accept", body, features=feats)
# the probe technique itself: the same assertion about a trait that IS implemented must be rejected
add("C10", "c10_surface_selftest", "reject", SURFACE_MACRO + "fn main() { not_impl!(ClientSecret, NoDebug, T: std::fmt::Debug); }", code="E0283", needle="Amb")


# ---- C17: the futures are Send when the caller-supplied client and closures are
SEND_PRELUDE = "fn assert_send<T: Send>(_: T) {}\n"
SEND_CALLS = {
    "code": "c.exchange_code(AuthorizationCode::new(\"c\".to_string())).request_async(&http)",
    "refresh": "c.exchange_refresh_token(&rt).request_async(&http)",
    "password": "c.exchange_password(&u, &p).request_async(&http)",
    "client_credentials": "c.exchange_client_credentials().request_async(&http)",
    "device_authorization": "c.exchange_device_code().request_async::<_, EmptyExtraDeviceAuthorizationFields>(&http)",
    "device_token": "c.exchange_device_access_token(&d).request_async(&http, |_d: std::time::Duration| async {}, None)",
    "introspection": "c.introspect(&at).request_async(&http)",
    "revocation": "c.revoke_token(StandardRevocableToken::AccessToken(AccessToken::new(\"t\".to_string()))).unwrap().request_async(&http)",
}
SEND_SETUP = ("let c = full(); let http = reqwest::Client::new(); let rt = RefreshToken::new(\"r\".to_string()); "
              "let u = ResourceOwnerUsername::new(\"u\".to_string()); let p = ResourceOwnerPassword::new(\"p\".to_string()); "
              "let at = AccessToken::new(\"t\".to_string()); let d = details(); ")
for name, call in SEND_CALLS.items():
    add("C17", "c17_send_%s" % name, "accept", SEND_PRELUDE + "fn main() { %s assert_send(%s); }" % (SEND_SETUP, call))
add("C17", "c17_send_device_token_sleep_closure_not_sync", "accept",
    SEND_PRELUDE + "fn main() { %s let counter = std::cell::Cell::new(0u32); "
    "let sleep = move |_d: std::time::Duration| { counter.set(counter.get() + 1); async {} }; "
    "assert_send(c.exchange_device_access_token(&d).request_async(&http, sleep, None)); }" % SEND_SETUP)
add("C17", "c17_not_send_with_rc_client", "reject",
    SEND_PRELUDE + "fn main() { let c = full(); let rc = std::rc::Rc::new(1u8); "
    "let http = move |_r: HttpRequest| { let rc = rc.clone(); async move { let _keep = rc; Err::<HttpResponse, std::io::Error>(std::io::Error::new(std::io::ErrorKind::Other, \"x\")) } }; "
    "assert_send(c.exchange_code(AuthorizationCode::new(\"c\".to_string())).request_async(&http)); }", code="E0277", needle="Rc<")


def write_crate(probes, features):
    d = os.path.join(PROBE_DIR, "f_" + ("_".join(features) if features else "none"))
    os.makedirs(os.path.join(d, "src", "bin"), exist_ok=True)
    feats = ["reqwest", "rustls-tls", "pkce-plain"] + list(features)
    with open(os.path.join(d, "Cargo.toml"), "w") as f:
        f.write("[package]\nname = \"oa-probes\"\nversion = \"0.1.0\"\nedition = \"2021\"\n\n[workspace]\n\n[dependencies]\n"
                "oauth2 = { path = \"/repo\", default-features = false, features = [%s] }\n"
                "serde_json = \"1.0\"\nserde = { version = \"1.0\", features = [\"derive\"] }\nreqwest = { version = \"0.12\", default-features = false }\n"
                "[profile.dev]\nopt-level = 0\ndebug = false\n" % ", ".join('"%s"' % x for x in feats))
    subprocess.run(["cp", os.path.join(C.HARNESS, "Cargo.lock"), d], check=True)
    os.makedirs(os.path.join(d, ".cargo"), exist_ok=True)
    with open(os.path.join(d, ".cargo", "config.toml"), "w") as f:
        f.write("[net]\noffline = true\n[build]\ntarget-dir = \"%s\"\n" % os.path.join(C.CACHE, "target-probes"))
    bindir = os.path.join(d, "src", "bin")
    for fn in os.listdir(bindir):
        os.remove(os.path.join(bindir, fn))
    for p in probes:
        with open(os.path.join(bindir, p["name"] + ".rs"), "w") as f:
            f.write(PRELUDE + p.get("prelude", "") + p["body"] + "\n")
    return d


def run_probes(prop_id, probes, C_):
    """returns (violations, stats)"""
    by_feat = {}
    for p in probes:
        by_feat.setdefault(p["features"], []).append(p)
    results = {}
    with C.Lock("probes"):
        for feats, ps in by_feat.items():
            d = write_crate(ps, feats)
            proc = subprocess.run(["cargo", "build", "--offline", "--bins", "--keep-going", "--message-format=json"],
                                  cwd=d, env=C.ENV, stdout=subprocess.PIPE, stderr=subprocess.PIPE, text=True, timeout=3000)
            errs = {}
            built = set()
            for line in proc.stdout.split("\n"):
                if not line.startswith("{"):
                    continue
                try:
                    m = json.loads(line)
                except ValueError:
                    continue
                if m.get("reason") == "compiler-message" and m["message"].get("level") == "error":
                    t = m["target"]["name"]
                    code = (m["message"].get("code") or {}).get("code")
                    errs.setdefault(t, []).append((code, m["message"].get("rendered") or m["message"].get("message", "")))
                if m.get("reason") == "compiler-artifact" and "bin" in m["target"]["kind"]:
                    built.add(m["target"]["name"])
            for p in ps:
                results[p["name"]] = (p["name"] in built, errs.get(p["name"], []), proc.stderr[-2000:] if not built and not errs else "")
    v = 0
    detail = {}
    for p in probes:
        ok_built, errs, tail = results[p["name"]]
        if p["kind"] == "accept":
            good = ok_built and not errs
            why = "" if good else "expected to compile; errors: %s %s" % ([e[0] for e in errs], tail[-300:])
        else:
            good = (not ok_built) and any(e[0] == p["code"] and (p["needle"] is None or p["needle"] in e[1]) for e in errs)
            why = "" if good else "expected %s naming %r; got built=%s errors=%s" % (p["code"], p["needle"], ok_built, [(e[0], e[1][:200]) for e in errs])
        detail[p["name"]] = "ok" if good else why
        if not good:
            v += 1
            path = C.write_replay(prop_id, {"property": prop_id, "probe": p["name"], "kind": p["kind"], "source": PRELUDE + p["body"],
                                            "expected": [p["code"], p["needle"]], "observed": why,
                                            "case": "compile probe (replay: re-run the check)"})
            print("VIOLATION property=%s replay=%s" % (prop_id, path.replace(C.VERIF + "/", "")))
    return v, {"compile_probes": len(probes), "compile_probe_results": detail}
