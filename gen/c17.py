"""C17: the same case driven as a blocking call, as a future on a bare poll loop with 0..3
injected Pending per inner future, and on a tokio current-thread runtime; several requests in
flight from one client under many interleavings; Send probes."""
import itertools
from gen import common as C
from gen import reqs as R
from gen import docs as D
from gen import poll as P
from gen import c05
from gen import probes

ASSUMPTIONS = c05.ASSUMPTIONS + [
    "Rust's async lowering (a resumed future continues with the same local state) is the contract of model/AsyncExec.v, not something proved; the runs below exercise it on the real futures",
    "Send-ness is decided by rustc on probe programs with the bundled reqwest::Client (8 accept probes) and with an Rc-capturing client (1 reject probe)",
]
VARIANTS = ["sync", "async:0", "async:1", "async:2", "async:3", "tokio:0", "tokio:2"]


def with_variant(line, v):
    ws = line.split(" ")
    ws[1] = v
    return " ".join(ws)


def gen(tier, rng):
    base = []
    # request side: byte-identical requests
    for (l, lab) in R.gen_requests(tier, rng, n_random=(150 if tier == "quick" else 6000))[:: (6 if tier == "quick" else 2)]:
        base.append((l, "request"))
    # response side
    kinds = c05.KINDS
    n = 200 if tier == "quick" else 8000
    for i in range(n):
        kind = kinds[i % len(kinds)]
        ext = i % 5 == 0
        label, body = rng.choice(c05.bodies(kind, rng, ext))
        st = rng.choice([200, 200, 400, 401, 500, 201, 0, 204, 202, 302, 404, 503, 100 + rng.randrange(500)])
        base.append((c05.http_line("sync", kind, ext, st, rng.choice(c05.CTS[:6]), body if st else b"transport failure"), "response/" + label))
    # every kind under every class of status, deterministically (the random draw above does not guarantee a
    # given kind/status cell)
    for kind in kinds:
        bs = c05.bodies(kind, rng, False)
        for si, st in enumerate([200, 201, 202, 204, 206, 302, 304, 400, 401, 404, 429, 500, 503, 0, 100, 599]):
            label, body = bs[(si * 3) % len(bs)] if st not in (204, 304) else ("empty", b"")
            base.append((c05.http_line("sync", kind, False, st, c05.CTS[si % 2], body if st else b"transport failure"), "status-grid/" + label))
            if st in (200, 204, 400):
                base.append((c05.http_line("sync", kind, False, st, c05.CTS[1], bs[1][1]), "status-grid/success-doc"))
                base.append((c05.http_line("sync", kind, False, st, c05.CTS[1], bs[2][1]), "status-grid/error-doc"))
    # literals that are new in the source (gen/srclit.py): statuses, media types, sizes, member names - every kind, all variants
    base += [(l, "source-literal") for (l, lab) in c05.source_literal_http(kinds, rng)][:: 3]
    from gen import srclit as SL
    for kk in SL.sizes(limit=P.U64, lo=0):
        for s in P.scripts(2):
            for term in ("success", "denied"):
                for iv, ce in ((str(kk), None), ("5", kk * P.NS if kk * P.NS <= P.DMAX else None), (str(kk), kk * 10 ** 6 if kk * 10 ** 6 <= P.DMAX else 0)):
                    base.append((P.line("sync", iv, ce, None, 10 ** 6, True, P.steady_clock(1700000000 * P.NS, len(s) + 3), list(s) + [term]), "source-literal/poll-loop"))
        if 1 <= kk <= 300:
            for kd in P.NONDEC:
                base.append((P.line("sync", "1", None, None, 10 ** 7, True, P.steady_clock(0, kk + 4), [kd] * (kk + 1) + ["success"]), "source-literal/script-length"))
    for last in P.NONDEC:
        for pre in ([], ["pending"], ["fail", "slow"]):
            t0 = 1700000000 * P.NS
            sc = pre + [last]
            clock = [t0] + [t0 + (j + 1) * P.NS for j in range(len(sc))] + [t0 + 11 * P.NS, t0 + 12 * P.NS]
            for tmo, ex in ((None, 10), (10 * P.NS, 1000)):
                base.append((P.line("sync", "1", None, tmo, ex, True, clock, sc + ["success"]), "deadline-right-after-" + last))
    for req_ok in (True, False):
        for tmo in (None, 3 * P.NS, P.MAXDELTA, P.MAXDELTA + 1, P.U64 * P.NS + 999999999):
            for ex in (5, P.U64):
                t0 = 1700000000 * P.NS
                base.append((P.line("sync", "1", None, tmo, ex, req_ok, [t0, t0, t0 + P.NS, t0 + 2 * P.NS, t0 + 4 * P.NS], ["pending", "success"]), "pre-flight-failures"))
    # the poll loop
    for s in P.scripts(3 if tier == "quick" else 4):
        for term in ("success", "denied", "malformed200"):
            iv = rng.choice(P.INTERVALS)
            clock = P.steady_clock(1700000000 * P.NS, len(s) + 3)
            base.append((P.line("sync", iv, rng.choice(P.ceilings(iv)), None, 10 ** 6, True, clock, list(s) + [term]), "poll-loop"))
    out = []
    for l, lab in base:
        for v in VARIANTS:
            out.append((with_variant(l, v), lab))
    return out


def ilv_cases(tier, rng):
    reqs = []
    pool = [("code", 200, b"application/json", b"{\"access_token\":\"A\",\"token_type\":\"bearer\"}"),
            ("refresh", 400, None, b"{\"error\":\"invalid_grant\"}"),
            ("introspect", 200, None, b"{\"active\":true,\"sub\":\"s\"}"),
            ("cc", 500, None, b""), ("password", 200, b"text/plain", b"x"), ("revoke", 200, None, b""),
            ("revoke", 503, None, b"{\"error\":\"unsupported_token_type\"}"),
            ("devauth", 200, None, b"{\"device_code\":\"d\",\"user_code\":\"u\",\"verification_uri\":\"https://v/\",\"expires_in\":5}"),
            ("code", 0, None, b"")]
    tok = lambda r: "%s/%d/%s/%s" % (r[0], r[1], C.topt(r[2]), C.tb(r[3]))
    out = []
    # all interleavings of 3 tasks up to a bounded number of poll steps
    steps = 5 if tier == "quick" else 7
    trio = [pool[0], pool[1], pool[2]]
    for k in (0, 1):
        for sched in itertools.product(range(3), repeat=steps):
            out.append(("ILV %d %s %s" % (k, ",".join(map(str, sched)), " ".join(tok(r) for r in trio)), "all-interleavings"))
    # many requests in flight at once from one shared client on one thread (9, 12, 17, 24, 40): each is polled once before any is
    # polled again, in rotating order; each still gets the outcome it would get alone
    for m in (9, 12, 17, 24, 40):
        for k in (1, 2):
            rs = [pool[(j * 3 + m) % len(pool)] for j in range(m)]
            sched = [(j + r) % m for r in range(k + 2) for j in range(m)]
            out.append(("ILV %d %s %s" % (k, ",".join(map(str, sched)), " ".join(tok(r) for r in rs)), "many-in-flight"))
    n = 300 if tier == "quick" else 5000
    for _ in range(n):
        m = rng.randint(2, 4)
        rs = [rng.choice(pool) for _ in range(m)]
        sched = [rng.randrange(m) for _ in range(rng.randint(0, 14))]
        out.append(("ILV %d %s %s" % (rng.randint(0, 3), ",".join(map(str, sched)) if sched else ".", " ".join(tok(r) for r in rs)), "random-interleaving"))
    return out


def run(tier, rng, C):
    cases = gen(tier, rng)
    v, stats = C.differential("C17", cases, nontrivial=lambda l, o: True)
    # all variants of one case must give the same observation (requests byte-identical, equal outcomes)
    lines = list(dict.fromkeys(l for l, _ in cases))
    impl = C.run_impl(lines)
    groups = {}
    for l, o in zip(lines, impl):
        ws = l.split(" ")
        groups.setdefault(" ".join(ws[:1] + ws[2:]), {})[ws[1]] = o
    bad = [(k, g) for k, g in groups.items() if len(set(g.values())) > 1]
    for k, g in bad[:3]:
        path = C.write_replay("C17", {"property": "C17", "case": k, "variants": g, "clause": "blocking / bare-executor / tokio variants differ"})
        print("VIOLATION property=C17 replay=%s" % path.replace(C.VERIF + "/", ""))
    v += len(bad)
    stats["variant_groups_compared"] = len(groups)
    v2, st2 = C.differential("C17", ilv_cases(tier, rng), nontrivial=lambda l, o: True, shrinkable=False)
    v += v2
    stats = C.merge_stats(stats, st2)
    stats["samples"] = stats["samples"][:8]
    pv, pstats = probes.run_probes("C17", [p for p in probes.PROBES if p["prop"] == "C17"], C)
    v += pv
    stats.update(pstats)
    # the same library calls through the crate's own HTTP clients (reqwest, reqwest blocking, curl, ureq) against a scripted
    # loopback server: the outcome must be the one an in-memory client given the same reply produces (gen/same.py)
    from gen import same as SAME
    bad_same, n_same = SAME.run("C17", SAME.cases(["code", "refresh", "introspect", "devauth", "revoke"], rng, statuses=(200, 400, 500), success_docs=2) + SAME.poll_cases(rng), C)
    v += bad_same
    stats["through_bundled_adapters"] = n_same
    stats["evaluations"] = stats.get("evaluations", 0) + n_same
    stats["rule"] = ("every base case (request building for the 8 kinds, responses for 7 kinds with status/Content-Type/body classes and transport errors, the device poll loop with bounded scripts) is run in 7 variants: "
                     "blocking, future on a bare no-op-waker poll loop with 0..3 injected Pending per inner future, future on a tokio current-thread runtime with 0 and 2; each is compared with the extracted model and all 7 with each other; "
                     "2..4 requests in flight from one shared client under all 3^%d interleavings of the first poll steps (x2 pending counts) and random schedules, each compared with its solo outcome; 9 Send probes; every case non-trivial"
                     % (5 if tier == "quick" else 7))
    return v, stats


def replay(payload, C):
    if "variants" in payload:
        print(payload)
        return 1
    return C.replay_generic(payload)
