"""C16: serialise / deserialise round trips of values obtained by parsing model-generated
documents of the four families and of values built with new()/set_*()."""
from gen import common as C
from gen import docs as D
from gen import c05

ASSUMPTIONS = c05.ASSUMPTIONS + [
    "the verdict 'accessors agree and the text is reproduced' is the equality of the two halves of the observation (value rendering and JSON text before and after the round trip), checked by gen/c16.py",
]


def py_monitor(line, obs):
    if obs == "err":
        return "ok"            # the document was not accepted: nothing to round-trip
    ws = obs.split(" ")
    if ws[0] != "ok" or "rt" not in ws:
        return "fail malformed-observation"
    # ok <v1> <j1> rt <v2> <j2> rt <v3> <j3>
    parts = []
    cur = []
    for w in ws[1:]:
        if w == "rt":
            parts.append(cur)
            cur = []
        else:
            cur.append(w)
    parts.append(cur)
    for a, b in zip(parts, parts[1:]):
        if b == ["err"]:
            return "fail serialised-value-not-readable"
        if a[:-1] != b[:-1]:
            return "fail accessors-differ"
        if a[-1] != b[-1]:
            return "fail text-differs"
    if len(parts) != 3:
        return "fail malformed-observation"
    return "ok"


def finding_class(line, impl_obs, model_obs):
    ws = line.split(" ")
    if ws[0] == "BUILT" and ws[1] == "token" and ws[6] == ".":
        return "scopes-some-empty"
    if ws[0] == "BUILT" and ws[1] == "introspection" and ws[3] == ".":
        return "scopes-some-empty"
    return None


SC = [None, ["a"], ["read", "write"], ["a", "b", "c"], [""], ["é", "日本"], ["a", ""]]


def gen(tier, rng):
    out = []
    n = 250 if tier == "quick" else 15000
    for fam in ("token", "introspection", "device", "err-basic", "err-device", "err-revocation"):
        # (map-typed extension lines carry no round trip: they belong to C06 / C15 / C19)
        out += [(l, "parsed/" + lab) for (l, lab) in D.gen_decode(fam, tier, rng, n_docs=n) if l.split(" ")[2] != "M"]
    strs = D.STRS
    m = 300 if tier == "quick" else 20000
    for i in range(m):
        tt = rng.choice(["bearer", "mac", "ext:" + C.tb(rng.choice(["dpop", "pop-1", "n_a", "日本", "x"]))])
        sc = rng.choice(SC)
        out.append(("BUILT token %s %s %s %s %s -" % (C.tb(rng.choice(strs)), tt, rng.choice(["-", "0", "3600", str(D.U64)]),
                                                     C.topt(rng.choice(strs + [None])), "-" if sc is None else C.tlist(sc)), "built/token"))
        sc = rng.choice(SC)
        aud = rng.choice([None, [], ["a"], ["a", "b"], [rng.choice(strs)]])
        ts = lambda: rng.choice(["-", "0", "-1", "1700000000", str(D.TS_MAX), str(D.TS_MIN)])
        so = lambda: C.topt(rng.choice(strs + [None, None]))
        out.append(("BUILT introspection %d %s %s %s %s %s %s %s %s %s %s %s" % (
            rng.randint(0, 1), "-" if sc is None else C.tlist(sc), so(), so(),
            rng.choice(["-", "bearer", "mac", "ext:" + C.tb("dpop")]), ts(), ts(), ts(), so(),
            "-" if aud is None else C.tlist(aud), so(), so()), "built/introspection"))
        code = rng.choice(D.CODES)
        out.append(("BUILT %s %s %s %s - - -" % (rng.choice(["err-basic", "err-device"]), C.tb(code), C.topt(rng.choice(strs + [None])), C.topt(rng.choice(strs + [None]))), "built/error"))
    # the recorded finding: an EMPTY scope list built by hand
    out.append(("BUILT token %s bearer - - . -" % C.tb("t"), "built/empty-scope-list"))
    out.append(("BUILT introspection 1 . - - - - - - - - - -", "built/empty-scope-list"))
    return out


def run(tier, rng, C):
    cases = gen(tier, rng)
    v, stats = C.differential("C16", cases, py_monitor=py_monitor, finding_class=finding_class,
                              nontrivial=lambda l, o: o.startswith("ok "))
    # wall-clock time: the text written for an accepted value (and the value read back from it) does not depend on WHEN
    # it is written; two cases of four documents each, written at once and again after more than a second
    slow = []
    for i in range(2):
        docs = []
        for fam in ("token", "introspection", "device", "error"):
            bm = {"token": [("access_token", "at%d" % i), ("token_type", "bearer"), ("expires_in", 3600 + i), ("refresh_token", "rt"), ("scope", "a b")],
                  "introspection": [("active", True), ("scope", "a b"), ("exp", 1700000000 + i), ("iat", 1600000000), ("nbf", 1600000001)],
                  "device": [("device_code", "dc"), ("user_code", "uc"), ("verification_uri" if i else "verification_url", D.URLS_VALID[0]), ("expires_in", 600 + i), ("interval", 7)],
                  "error": [("error", "invalid_grant"), ("error_description", "d")]}[fam]
            docs.append(C.tb(D.render(D.obj(bm), rng, plain=True).encode()))
        slow.append("SLOWRT " + " ".join(docs))
    for l, o in zip(slow, C.run_impl(slow)):
        if o != "stable":
            v += 1
            path = C.write_replay("C16", {"property": "C16", "case": l, "impl_observation": o[:3000], "model_observation": "stable",
                                          "clause": "serialising an accepted value again after a second of wall-clock time (and reading that text back) gives the same text"})
            print("VIOLATION property=C16 replay=%s" % path.replace(C.VERIF + "/", ""))
    stats["wall_clock_round_trips"] = len(slow)
    stats["evaluations"] = stats.get("evaluations", 0) + len(slow)
    stats["rule"] = ("parsed values: model-generated documents of the four families (standard and extension types; three error families) incl. corruptions and malformed text, each accepted value serialised, read back and serialised again; "
                     "built values: token / introspection / error responses made with new()/set_*() from hostile strings, space-free scopes, lower-case extension token types, timestamps at chrono's limits; "
                     "verdict = accessors equal and text reproduced; the class scopes = Some([]) is a recorded finding (KNOWN_FINDINGS.txt); non-trivial = a value was accepted/built and round-tripped")
    return v, stats


def replay(payload, C):
    return C.replay_generic(payload)
