"""Shared machinery of the checks: build steps, running model and implementation on the same
cases, comparison, verdicts, shrinking, evidence.  Python 3 standard library only."""
import fcntl
import hashlib
import json
import os
import random
import re
import subprocess
import sys
import time

VERIF = os.path.dirname(os.path.dirname(os.path.abspath(__file__)))
CACHE = os.path.join(VERIF, ".cache")
COQ = os.path.join(VERIF, "coq")
OCAML = os.path.join(VERIF, "ocaml")
HARNESS = os.path.join(VERIF, "harness")
TARGET = os.path.join(CACHE, "target")
HARNESS_BIN = os.path.join(TARGET, "debug", "harness")
DRIVER_BIN = os.path.join(CACHE, "driver")
ENV = dict(os.environ, CARGO_NET_OFFLINE="true", CARGO_TARGET_DIR=TARGET)

ALLOWED_AXIOMS = set()  # no axiom is allowed under any property theorem

TRUSTED_BASE = [
    "Coq 8.16.1 kernel (coqc); vm_compute inside finite-domain lemmas; no native_compute",
    "axioms under the property theorems: none (Print Assumptions = Closed under the global context), re-checked on this run",
    "extraction: Coq extraction plugin with ExtrOcamlBasic directives only (bool, option, unit, list, prod, sumbool, sumor; andb/orb inlined); ocamlfind ocamlopt 4.13.1; ocaml/driver.ml (string <-> ascii list)",
    "correspondence check: gen/*.py generators/differ/shrinker, harness/ (Rust, public API of the crate built from /repo's working tree), cargo/rustc",
    "Rust semantics and the crate's dependencies are modelled (DESIGN.md section 3), not verified",
]


class Lock:
    def __init__(self, name="build"):
        os.makedirs(CACHE, exist_ok=True)
        self.path = os.path.join(CACHE, name + ".lock")

    def __enter__(self):
        self.f = open(self.path, "w")
        fcntl.flock(self.f, fcntl.LOCK_EX)
        return self

    def __exit__(self, *a):
        fcntl.flock(self.f, fcntl.LOCK_UN)
        self.f.close()


def sh(cmd, cwd=None, timeout=3600, env=None, input=None):
    p = subprocess.run(cmd, cwd=cwd, env=env or ENV, timeout=timeout, input=input,
                       stdout=subprocess.PIPE, stderr=subprocess.STDOUT, text=True)
    return p.returncode, p.stdout


# ------------------------------------------------------------------ builds

def build_coq(log):
    """Full .vo build of the development (incremental through the Makefile)."""
    with Lock("coq"):
        if not os.path.exists(os.path.join(COQ, "Makefile")) or \
           os.path.getmtime(os.path.join(COQ, "Makefile")) < os.path.getmtime(os.path.join(COQ, "_CoqProject")):
            rc, out = sh(["coq_makefile", "-f", "_CoqProject", "-o", "Makefile"], cwd=COQ)
            if rc != 0:
                log.append(out)
                return False, out
        rc, out = sh(["make", "-j16"], cwd=COQ, timeout=3000)
        if rc != 0:
            return False, out
        # the extracted model -> native driver
        src = [os.path.join(OCAML, f) for f in ("model.mli", "model.ml", "driver.ml")]
        if (not os.path.exists(DRIVER_BIN)) or any(os.path.getmtime(s) > os.path.getmtime(DRIVER_BIN) for s in src):
            bdir = os.path.join(CACHE, "ocaml")
            os.makedirs(bdir, exist_ok=True)
            for s in src:
                subprocess.run(["cp", s, bdir], check=True)
            rc, out2 = sh(["ocamlfind", "ocamlopt", "-w", "-a", "-inline", "100",
                           "model.mli", "model.ml", "driver.ml", "-o", DRIVER_BIN], cwd=bdir)
            if rc != 0:
                return False, out2
        return True, out


def build_harness(bin_name="harness", release=False):
    """Rebuild the Rust harness against /repo's current working tree (debug profile; the release
    profile on request: debug assertions and overflow checks are off there)."""
    with Lock("cargo"):
        cmd = ["cargo", "build", "--offline", "--bin", bin_name] + (["--release"] if release else [])
        rc, out = sh(cmd, cwd=HARNESS, timeout=3000)
        return rc == 0, out


HARNESS_BIN_RELEASE = os.path.join(TARGET, "release", "harness")


HYGIENE_RE = re.compile(r"\b(Admitted|admit|Axiom|Axioms|Parameter|Parameters|Conjecture|Conjectures|Hypothesis|Hypotheses|Variable|Variables|Context)\b|Unset Guard|Unset Positivity|Unset Universe|bypass_check|type-in-type|impredicative-set|Admit Obligations")


def strip_comments(text):
    out = []
    depth = 0
    i = 0
    while i < len(text):
        if text.startswith("(*", i):
            depth += 1
            i += 2
        elif text.startswith("*)", i) and depth > 0:
            depth -= 1
            i += 2
        else:
            if depth == 0:
                out.append(text[i])
            i += 1
    return "".join(out)


def hygiene():
    """No Admitted/admit/Axiom/Parameter/... anywhere in the development (Variable/Hypothesis
    are allowed only inside a Section: checked per file by counting Section/End nesting)."""
    bad = []
    for root, _, files in os.walk(COQ):
        for f in files:
            if not f.endswith(".v"):
                continue
            p = os.path.join(root, f)
            text = strip_comments(open(p).read())
            depth = 0
            for ln, line in enumerate(text.split("\n"), 1):
                if re.match(r"\s*Section\b", line):
                    depth += 1
                if re.match(r"\s*End\b", line) and depth > 0:
                    depth -= 1
                m = HYGIENE_RE.search(line)
                if m:
                    w = m.group(0)
                    if w in ("Hypothesis", "Hypotheses", "Variable", "Variables", "Context") and depth > 0:
                        continue
                    bad.append("%s:%d: %s" % (os.path.relpath(p, VERIF), ln, line.strip()))
    return bad


def theorem_names(prop_id):
    p = os.path.join(COQ, "props", prop_id + ".v")
    text = strip_comments(open(p).read())
    return re.findall(r"^\s*Theorem\s+(\w+)", text, re.M)


def check_assumptions(prop_id):
    """Compile a throw-away file printing the assumptions of every theorem of props/<id>.v.
    Returns (ok, {theorem: 'closed' | [axioms]}, raw_output)."""
    names = theorem_names(prop_id)
    d = os.path.join(CACHE, "assum")
    os.makedirs(d, exist_ok=True)
    src = os.path.join(d, prop_id + "_assum.v")
    with open(src, "w") as f:
        f.write("From OA Require Import %s.\n" % prop_id)
        for n in names:
            f.write('Print Assumptions %s.\n' % n)
    args = ["coqc", "-noglob"]
    for sub in ("lib", "model", "proofs", "props", "extract"):
        args += ["-Q", os.path.join(COQ, sub), "OA"]
    args += ["-o", os.path.join(d, prop_id + "_assum.vo"), src]
    rc, out = sh(args, cwd=d, timeout=600)
    res = {}
    if rc != 0:
        return False, res, out
    # output is a sequence of blocks, one per Print Assumptions
    blocks = re.split(r"(?=Closed under the global context|Axioms:)", out)
    blocks = [b for b in blocks if b.strip()]
    ok = len(blocks) == len(names)
    for n, b in zip(names, blocks):
        if b.startswith("Closed under the global context"):
            res[n] = "closed"
        else:
            axs = re.findall(r"^(\S+)\s*:", b, re.M)
            axs = [a for a in axs if a != "Axioms"]
            res[n] = axs
            if not set(axs) <= ALLOWED_AXIOMS:
                ok = False
    return ok, res, out


# ------------------------------------------------------------------ running both sides

def _big_stack():
    # the extracted model is not tail recursive: give it the whole stack (ulimit -s unlimited)
    import resource
    try:
        resource.setrlimit(resource.RLIMIT_STACK, (resource.RLIM_INFINITY, resource.RLIM_INFINITY))
    except (ValueError, OSError):
        pass


def run_lines(binary, lines, shards=16, timeout=3000, env=None):
    """Feed protocol lines to a line-by-line filter, sharded over processes; returns outputs.
    A process that dies in the middle of its share (abort, stack overflow, a kill by the allocator)
    does not take the run down: the line it died on is answered CRASH(rc=..) — an observation like
    any other — and a fresh process continues with the lines after it."""
    if not lines:
        return []
    import threading
    n = min(shards, max(1, len(lines) // 200))
    chunks = [lines[i::n] for i in range(n)]
    results = [None] * n

    def work(i):
        todo = list(chunks[i])
        got = []
        restarts = 0
        while todo:
            p = subprocess.Popen([binary], stdin=subprocess.PIPE, stdout=subprocess.PIPE,
                                 stderr=subprocess.DEVNULL, text=True, env=env or ENV, preexec_fn=_big_stack)
            try:
                o, _ = p.communicate("\n".join(todo) + "\n", timeout=timeout)
            except subprocess.TimeoutExpired:
                p.kill()
                o, _ = p.communicate()
            r = o.split("\n")
            if r and r[-1] == "":
                r.pop()
            r = r[:len(todo)]
            got += r
            if len(r) >= len(todo):
                break
            # died on line number len(r) of this share
            restarts += 1
            if restarts > 20:
                got += ["NO-OUTPUT(rc=%s)" % p.returncode] * (len(todo) - len(r))
                break
            got.append("CRASH(rc=%s)" % p.returncode)
            todo = todo[len(r) + 1:]
        results[i] = got

    ts = [threading.Thread(target=work, args=(i,)) for i in range(n)]
    for t in ts:
        t.start()
    for t in ts:
        t.join()
    out = [None] * len(lines)
    for i in range(n):
        r = results[i] or []
        for j, idx in enumerate(range(i, len(lines), n)):
            out[idx] = r[j] if j < len(r) else "NO-OUTPUT(rc=?)"
    return out


def run_model(lines):
    return run_lines(DRIVER_BIN, lines)


IMPL_BIN = [HARNESS_BIN]
# run the deterministic cases of the main harness against the RELEASE build as well (debug assertions and overflow
# checks compiled out): a side effect inside debug_assert!, an overflow that only wraps in release
RELEASE_TOO = [True]
_release_built = [False]
_in_release = [False]


def release_pass(prop_id, lines, labels, impl, kwargs):
    """The same cases through the release build of harness + crate.  Only answers that differ from the debug build's
    are judged (by the full differential, with the release binary as the implementation)."""
    if not RELEASE_TOO[0] or _in_release[0] or IMPL_BIN[0] != HARNESS_BIN or kwargs.get("impl_env") is not None or kwargs.get("canon") is not None:
        return 0, None
    if not _release_built[0]:
        ok, out = build_harness("harness", release=True)
        if not ok:
            raise RuntimeError("release build of the harness failed: " + out[-2000:])
        _release_built[0] = True
    rel = run_lines(HARNESS_BIN_RELEASE, lines)
    diff = [i for i in range(len(lines)) if rel[i] != impl[i] and rel[i] != "SKIPPED" and impl[i] != "SKIPPED"]
    v = 0
    if diff:
        _in_release[0] = True
        IMPL_BIN[0] = HARNESS_BIN_RELEASE
        try:
            v, _ = differential(prop_id, [(lines[i], labels[i]) for i in diff[:3000]], **kwargs)
        finally:
            IMPL_BIN[0] = HARNESS_BIN
            _in_release[0] = False
    return v, {"release_profile_cases": len(lines), "release_answers_differing_from_debug": len(diff)}


def run_impl(lines, env=None):
    return run_lines(IMPL_BIN[0], lines, env=env)


# ------------------------------------------------------------------ thorough-tier extras

TIER = ["quick"]


def coq_q_args():
    args = []
    for sub in ("lib", "model", "proofs", "props", "extract", "history"):
        args += ["-Q", os.path.join(COQ, sub), "OA"]
    return args


def coqchk(prop_id):
    """independent re-check of the compiled property file and everything it depends on"""
    rc, out = sh(["coqchk", "-o", "-silent"] + coq_q_args() + ["OA." + prop_id], cwd=COQ, timeout=3000)
    m = re.search(r"\* Axioms:\s*(.*?)(?:\n\s*\n|\* |\Z)", out, re.S)
    axioms = m.group(1).strip() if m else "?"
    return {"exit": rc, "axioms": " ".join(axioms.split())[:400], "tail": out.strip()[-300:]}


def vm_crosscheck(lines, expected, limit=120):
    """standing cross-check of extraction + OCaml driver: re-evaluate a sample of protocol lines
    inside Coq with vm_compute and compare with what the extracted binary printed"""
    idx = [i for i in range(len(lines)) if len(lines[i]) < 1500 and '"' not in lines[i]]
    if not idx:
        return {"sampled": 0, "mismatches": 0}
    step = max(1, len(idx) // limit)
    idx = idx[::step][:limit]
    d = os.path.join(CACHE, "vmcheck")
    os.makedirs(d, exist_ok=True)
    src = os.path.join(d, "cases_%d.v" % os.getpid())
    with open(src, "w") as f:
        f.write("From Coq Require Import String List. Import ListNotations.\nFrom OA Require Import Bytes Run.\nOpen Scope string_scope.\n")
        f.write("Definition cases : list string := [\n")
        f.write(";\n".join('"%s"' % lines[i] for i in idx))
        f.write("].\nSet Printing Width 100000000. Set Printing Depth 100000000.\n")
        f.write("Eval vm_compute in map (fun s => string_of_list_ascii (run_line (list_ascii_of_string s))) cases.\n")
    rc, out = sh(["coqc", "-noglob"] + coq_q_args() + ["-o", src + "o", src], cwd=d, timeout=3000)
    if rc != 0:
        return {"sampled": len(idx), "mismatches": -1, "error": out[-400:]}
    got = re.findall(r'"((?:[^"]|"")*)"', out)
    got = [g.replace('""', '"') for g in got]
    mism = [(lines[i], expected[i], g) for i, g in zip(idx, got) if expected[i] != g]
    res = {"sampled": len(idx), "evaluated": len(got), "mismatches": len(mism) + (abs(len(got) - len(idx)))}
    if mism:
        res["first"] = [x[:300] for x in mism[0]]
    return res


# ------------------------------------------------------------------ tokens (python side)

def tb(b):
    if isinstance(b, str):
        b = b.encode("utf-8")
    return "x" + b.hex()


def topt(b):
    return "-" if b is None else tb(b)


def tlist(l):
    return "." if not l else ",".join(tb(x) for x in l)


def untb(t):
    return bytes.fromhex(t[1:])


# ------------------------------------------------------------------ shrinking

def shrink_candidates(line):
    """Token-wise simplifications of a protocol line (smaller first)."""
    ws = line.split(" ")
    for i, w in enumerate(ws):
        if i == 0:
            continue
        cands = []
        if w.startswith("x") and "," not in w and len(w) > 1:
            h = w[1:]
            n = len(h) // 2
            cands.append("x")
            if n > 1:
                cands.append("x" + h[: (n // 2) * 2])
                cands.append("x" + h[(n // 2) * 2:])
                cands.append("x" + h[2:])
                cands.append("x" + h[:-2])
        elif "," in w:
            parts = w.split(",")
            if len(parts) > 16:
                # long lists (scripts of hundreds of replies, clocks): halves and quarters first, then a few single drops
                n = len(parts)
                for a, b in ((0, n // 2), (n // 2, n), (0, n // 4), (n - n // 4, n), (n // 4, n // 2), (n // 2, n - n // 4)):
                    rest = parts[:a] + parts[b:]
                    cands.append(",".join(rest) if rest else ".")
                for k in list(range(0, 6)) + list(range(n - 6, n)):
                    rest = parts[:k] + parts[k + 1:]
                    cands.append(",".join(rest) if rest else ".")
            else:
                for k in range(len(parts)):
                    rest = parts[:k] + parts[k + 1:]
                    cands.append(",".join(rest) if rest else ".")
        elif w.isdigit() and int(w) > 0:
            v = int(w)
            cands += [str(0), str(v // 2), str(v - 1)]
        for c in cands:
            if c != w:
                yield " ".join(ws[:i] + [c] + ws[i + 1:])
        if w.startswith("x") and i > 1:
            yield " ".join(ws[:i] + ["-"] + ws[i + 1:])


def shrink(line, still_fails, budget=40):
    """Greedy shrinking: keep any simplification on which the failure persists."""
    cur = line
    t_end = time.time() + 45       # shrinking is a convenience for the reader of the replay: bounded in time
    for _ in range(budget):
        if time.time() > t_end:
            break
        cands = list(dict.fromkeys(shrink_candidates(cur)))
        if not cands:
            break
        flags = still_fails(cands)
        nxt = None
        for c, f in zip(cands, flags):
            if f and len(c) < len(cur):
                nxt = c
                break
        if nxt is None:
            break
        cur = nxt
    return cur


# ------------------------------------------------------------------ known findings

def known_findings():
    known, fixed = [], []
    p = os.path.join(VERIF, "KNOWN_FINDINGS.txt")
    if os.path.exists(p):
        for line in open(p):
            line = line.strip()
            m = re.match(r"known:\s+property=(\S+)\s+class=(\S+)\s*(.*)", line)
            if m:
                known.append((m.group(1), m.group(2), m.group(3)))
            m = re.match(r"fixed:\s+property=(\S+)\s+(\S+)\s*(.*)", line)
            if m:
                fixed.append((m.group(1), m.group(2), m.group(3)))
    return known, fixed


def write_replay(prop_id, payload):
    # which build of the implementation produced the observation (replay uses the same one)
    payload.setdefault("impl_binary", os.path.relpath(IMPL_BIN[0], TARGET) if "IMPL_BIN" in globals() else "debug/harness")
    os.makedirs(os.path.join(VERIF, "replays"), exist_ok=True)
    h = hashlib.sha256(json.dumps(payload, sort_keys=True).encode()).hexdigest()[:12]
    path = os.path.join(VERIF, "replays", "%s-%s.json" % (prop_id, h))
    with open(path, "w") as f:
        json.dump(payload, f, indent=1, sort_keys=True)
    return path


def write_evidence(prop_id, ev):
    os.makedirs(os.path.join(VERIF, "evidence"), exist_ok=True)
    with open(os.path.join(VERIF, "evidence", prop_id + ".json"), "w") as f:
        json.dump(ev, f, indent=1, sort_keys=True)


# ------------------------------------------------------------------ the generic differential check

def differential(prop_id, cases, monitor=None, finding_class=None, nontrivial=None,
                 deeper=None, impl_env=None, max_reports=3, shrinkable=True, canon=None, py_monitor=None, retry=None):
    """cases: list of (protocol line, label).  Runs the implementation (Rust harness on /repo)
    and the extracted model on every case, compares line by line and applies the verdict rules
    of DESIGN.md section 2.5.  monitor(line, impl_obs) -> protocol line for the extracted property
    monitor (answers 'ok' or 'fail <clause>'); without a monitor the model's observation is the
    unique one satisfying the property, so any disagreement is a failing input.
    Returns (violations, stats)."""
    from collections import Counter
    seen = set()
    lines, labels = [], []
    for line, lab in cases:
        if line in seen:
            continue
        seen.add(line)
        lines.append(line)
        labels.append(lab)
    impl = run_impl(lines, env=impl_env)
    if retry is not None:
        # answers that may be an artefact of a loaded machine (a time limit of the harness, a resource the process could
        # not get): the case runs once more, alone, with a longer limit; only what it answers then is judged
        again = [i for i in range(len(lines)) if retry(impl[i])]
        hung = [i for i in again if "HANG" in impl[i]]
        again = [i for i in again if i not in set(hung[6:])]
        if again:
            env2 = dict(impl_env or ENV, VERIF_NET_WATCHDOG="45")
            if len(again) <= 12:
                for i in again:
                    impl[i] = run_lines(IMPL_BIN[0], [lines[i]], shards=1, env=env2)[0]
            else:       # so many that the process itself was short of something: all of them again, two at a time
                for i, o in zip(again, run_lines(IMPL_BIN[0], [lines[i] for i in again], shards=2, env=env2)):
                    impl[i] = o
    # cases a harness process did not run because three earlier cases of its share never answered
    skipped = [i for i, a in enumerate(impl) if a == "SKIPPED"]
    if skipped:
        keep = [i for i in range(len(lines)) if impl[i] != "SKIPPED"]
        lines, labels, impl = [lines[i] for i in keep], [labels[i] for i in keep], [impl[i] for i in keep]
    model = run_model(lines)
    for l, a, b in zip(lines, impl, model):
        # EXHAUSTED (the implementation asked for more clock readings / replies than the case
        # provides) is an observation: the generators size every case for the model's behaviour,
        # so it can only happen when the implementation deviates
        if a is None or b is None or a == "BADCASE" or b == "BADCASE" or a.startswith("NO-OUTPUT") or b.startswith("NO-OUTPUT") or b.startswith("MODEL-") or b.startswith("STUCK"):
            raise RuntimeError("machinery error on case %r: impl=%r model=%r" % (l, a, b))
    cz = canon if canon is not None else (lambda l, o: o)
    if retry is not None:
        # engines that talk to real sockets: an answer that differs from the model's is taken once more, with few cases in
        # flight (a port handed to another process between two steps, a time limit under load); what persists is judged
        again = [i for i in range(len(lines)) if cz(lines[i], impl[i]) != model[i]]
        hung = [i for i in again if "HANG" in impl[i]]
        again = [i for i in again if i not in set(hung[6:])][:80]
        if again:
            env2 = dict(impl_env or ENV, VERIF_NET_WATCHDOG="45")
            for i, o in zip(again, run_lines(IMPL_BIN[0], [lines[i] for i in again], shards=1 if len(again) <= 12 else 2, env=env2)):
                impl[i] = o
    disagree = [i for i in range(len(lines)) if cz(lines[i], impl[i]) != model[i]]
    xcheck = vm_crosscheck(lines, model) if TIER[0] == "thorough" else None
    mon = {}
    if py_monitor is not None:
        # a property check simple enough to be stated directly on the observation (equalities
        # between its parts); it plays the role of the extracted monitor
        for i in range(len(lines)):
            mon[i] = py_monitor(lines[i], impl[i])
        failing = [i for i in range(len(lines)) if not mon[i].startswith("ok")]
    elif monitor is not None:
        dead = {i for i in range(len(lines)) if impl[i] == "HANG" or impl[i].startswith("CRASH(")}
        live = [i for i in range(len(lines)) if i not in dead]
        mlines = [monitor(lines[i], impl[i]) for i in live]
        mres = run_model(mlines)
        for i in dead:
            mon[i] = "fail " + impl[i]
        for k, r in enumerate(mres):
            i = live[k]
            if r == "BADCASE" or r.startswith("NO-OUTPUT"):
                raise RuntimeError("monitor error on %r -> %r" % (mlines[k], r))
            mon[i] = r
        failing = [i for i in range(len(lines)) if not mon[i].startswith("ok")]
    else:
        failing = list(disagree)
    known, _fixed = known_findings()
    known = {(p, c): d for (p, c, d) in known}
    violations = 0
    printed_known = set()
    reported = 0

    def invalid(o):
        return o is None or o in ("BADCASE", "EXHAUSTED") or o.startswith("STUCK") or o.startswith("NO-OUTPUT") or o.startswith("MODEL-")

    def fails_batch(cands):
        im = run_impl(cands, env=impl_env)
        mo = run_model(cands)
        if py_monitor is not None:
            return [(not py_monitor(c, o).startswith("ok")) and not invalid(o) and not invalid(m) for c, o, m in zip(cands, im, mo)]
        if monitor is not None:
            mr = run_model([monitor(c, o) for c, o in zip(cands, im)])
            return [(not r.startswith("ok")) and not invalid(r) and not invalid(o) and not invalid(m) for r, o, m in zip(mr, im, mo)]
        return [cz(c, a) != b and not invalid(a) and not invalid(b) for c, a, b in zip(cands, im, mo)]

    known_hits = Counter()
    unknown_failing = []
    for i in failing:
        cls = finding_class(lines[i], impl[i], model[i]) if finding_class else None
        if cls is not None and (prop_id, cls) in known:
            known_hits[cls] += 1
            if cls not in printed_known:
                printed_known.add(cls)
                print("KNOWN-FINDING: property=%s class=%s %s (e.g. case %s)" % (prop_id, cls, known[(prop_id, cls)], lines[i][:200]))
        else:
            unknown_failing.append(i)
    # report one representative per distinct verdict first
    seen_groups = set()
    ordered = []
    for i in unknown_failing:
        g = mon[i] if monitor is not None else labels[i]
        if g not in seen_groups:
            seen_groups.add(g)
            ordered.append(i)
    ordered += [i for i in unknown_failing if i not in set(ordered)]
    for i in ordered:
        violations += 1
        if reported >= max_reports:
            continue
        reported += 1
        # (a case that hangs or kills the process is reported as it is: shrinking would pay the time limit per candidate)
        dead_obs = impl[i] == "HANG" or impl[i].startswith("CRASH(")
        small = shrink(lines[i], fails_batch) if (shrinkable and not dead_obs) else lines[i]
        im = impl[i] if dead_obs else run_impl([small], env=impl_env)[0]
        mo = run_model([small])[0]
        payload = {"property": prop_id, "case": small, "original_case": lines[i],
                   "impl_observation": im, "model_observation": mo, "label": labels[i]}
        if py_monitor is not None:
            payload["monitor"] = py_monitor(small, im)
        elif monitor is not None:
            payload["monitor"] = ("fail " + im) if dead_obs else run_model([monitor(small, im)])[0]
        path = write_replay(prop_id, payload)
        print("VIOLATION property=%s replay=%s" % (prop_id, os.path.relpath(path, VERIF)))
    # disagreements on which the property still holds: correspondence broken
    benign = [i for i in disagree if i not in set(failing)]
    if benign:
        found = False
        if deeper is not None:
            extra = [l for (l, _) in deeper() if l not in seen]
            if extra:
                fl = fails_batch(extra)
                for l, f in zip(extra, fl):
                    if f:
                        found = True
                        small = shrink(l, fails_batch)
                        im = run_impl([small], env=impl_env)[0]
                        payload = {"property": prop_id, "case": small, "impl_observation": im,
                                   "model_observation": run_model([small])[0], "found_by": "deeper search"}
                        path = write_replay(prop_id, payload)
                        print("VIOLATION property=%s replay=%s" % (prop_id, os.path.relpath(path, VERIF)))
                        violations += 1
                        break
        if not found:
            i = benign[0]
            payload = {"property": prop_id, "broken": "%s.correspondence" % prop_id,
                       "first_disagreeing_case": lines[i], "impl_observation": impl[i],
                       "model_observation": model[i], "disagreements": len(benign)}
            path = write_replay(prop_id, payload)
            print("VIOLATION property=%s replay=%s no-failing-input-found" % (prop_id, os.path.relpath(path, VERIF)))
            violations += 1
    rv, rstats = release_pass(prop_id, lines, labels, impl, dict(monitor=monitor, finding_class=finding_class, nontrivial=nontrivial, deeper=deeper, impl_env=impl_env,
                                                                  max_reports=max_reports, shrinkable=shrinkable, canon=canon, py_monitor=py_monitor))
    violations += rv
    nt = 0
    for l, o in zip(lines, impl):
        if nontrivial is None or nontrivial(l, o):
            nt += 1
    step = max(1, len(lines) // 5)
    samples = [{"case": lines[i], "impl": impl[i][:400], "model": model[i][:400]} for i in range(0, len(lines), step)][:6]
    stats = {
        "evaluations": len(lines),
        "distinct_nontrivial": nt,
        "samples": samples,
        "traces_validated_against_impl": len(lines) - len(disagree),
        "disagreements_checked": len(disagree),
        "generator_distribution": dict(Counter(labels)),
        "known_finding_hits": dict(known_hits),
        "skipped_after_hangs": len(skipped),
    }
    if xcheck is not None:
        stats["extraction_crosscheck_vm_compute"] = xcheck
        if xcheck.get("mismatches"):
            raise RuntimeError("extracted model and vm_compute disagree: %r" % (xcheck,))
    if rstats:
        stats.update(rstats)
    if mon:
        stats["monitor_verdicts"] = dict(Counter(m.split(" ")[0] for m in mon.values()))
    return violations, stats


def invariance(prop_id, pairs, what):
    """pairs: (small line, big line).  The model is evaluated on the small line only; the implementation's
    answer on the big line must be the same string.  Used where the big input differs from the small one by
    something the model provably ignores (an unknown member of any size: theorems *_unknown_ignored) and is too
    large for the extracted model to chew through in the time a quick run has."""
    small = [a for a, _ in pairs]
    big = [b for _, b in pairs]
    want = run_model(small)
    got = run_lines(IMPL_BIN[0], big, shards=4)
    bad = 0
    for (a, b), w, g in zip(pairs, want, got):
        if w != g:
            bad += 1
            if bad <= 2:
                path = write_replay(prop_id, {"property": prop_id, "case": b if len(b) < 200000 else b[:2000] + "...(truncated, regenerate from the small case)",
                                              "small_case": a, "impl_observation": g[:2000], "model_observation_on_small_case": w[:2000], "broken": what})
                print("VIOLATION property=%s replay=%s" % (prop_id, os.path.relpath(path, VERIF)))
    return bad, len(pairs)


def merge_stats(a, b):
    out = dict(a)
    for k, v in b.items():
        if k in out and isinstance(v, int) and not isinstance(v, bool):
            out[k] += v
        elif k in out and isinstance(v, list):
            out[k] = out[k] + v
        elif k in out and isinstance(v, dict):
            d = dict(out[k])
            for kk, vv in v.items():
                d[kk] = d.get(kk, 0) + vv if isinstance(vv, int) else vv
            out[k] = d
        else:
            out[k] = v
    return out


def replay_generic(payload, monitor=None, impl_env=None):
    line = payload["case"]
    if line.split(" ")[0] == "NETSAME":
        # adapter vs in-memory client on the same reply: the harness evaluates the equality itself
        build_harness("harness_net")
        if "variants" in payload:
            # one reply through several adapters / twins: all observations must be the same
            rest = line.split(" ")[2:]
            obs = {}
            for k in payload["variants"]:
                ad, kind = k.split("/")
                l2 = " ".join(["NETSAME", ad, kind] + rest[1:])
                obs[k] = run_lines(os.path.join(TARGET, "debug", "harness_net"), [l2], shards=1, env=dict(ENV, VERIF_NET_WATCHDOG="60"))[0]
                print("%s: %s" % (k, obs[k][:1500]))
            return 0 if len(set(obs.values())) == 1 and all(o.startswith("same") for o in obs.values()) else 1
        im = run_lines(os.path.join(TARGET, "debug", "harness_net"), [line], shards=1, env=dict(ENV, VERIF_NET_WATCHDOG="60"))[0]
        print("case : %s\nimpl : %s\nmodel: same" % (line[:3000], im[:3000]))
        return 0 if im.startswith("same") else 1
    rel = payload.get("impl_binary")
    if rel and rel.startswith("release/"):
        build_harness(os.path.basename(rel), release=True)
        IMPL_BIN[0] = os.path.join(TARGET, rel)
    im = run_impl([line], env=impl_env)[0]
    if line.split(" ")[0] in ("SLOWRT",):
        # self-consistency cases: the expected observation is a constant recorded in the replay file
        mo = payload.get("model_observation", "stable")
    else:
        mo = run_model([line])[0]
    print("case : %s\nimpl : %s\nmodel: %s" % (line, im[:3000], mo[:3000]))
    if monitor is not None:
        r = run_model([monitor(line, im)])[0]
        print("monitor: %s" % r)
        return 0 if r.startswith("ok") else 1
    return 0 if im == mo else 1
