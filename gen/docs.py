"""JSON document generation for the response side (C05, C06, C13-C16, C19): value models of the four
response families, text rendering with random member order / whitespace / string escaping,
single-member deletions and type corruptions, and HTTP envelopes."""
import json as pyjson
from gen import common as C

U64 = 2 ** 64 - 1
TS_MAX = 8210266876799
TS_MIN = -8334601228800


class Raw:
    """literal JSON text used as a value"""
    def __init__(self, text):
        self.text = text


STRS = ["", "a", "tok", "12/34", "a b", "a  b", " lead", "trail ", "\"q\"", "back\\slash", "new\nline", "tab\t", "\u0000", "\u001f", "\u007f",
        "é", "日本語", "\U0001F600", "\U0010FFFF", "\ufffd", "\ud7ff", "\ue000", "a&b=c", "%41", "{\"x\":1}", "null", "true", "0", "/", "</script>",
        "x" * 300, "ÿ", "\u0080"]
TT = ["bearer", "Bearer", "BEARER", "bEaReR", "mac", "MAC", "Mac", "dpop", "DPoP", "N_A", "urn:x", "", " bearer", "bearer ", "日本", "\U0001F600", "b e", "pop-1",
      "ÉCLAIR", "Schlüssel", "SCHLÜSSEL", "ÀÞ×ß", "ПРИВЕТ", "Ёж", "ΑΒΓΩ", "αβγ", "ÉÉ-Ö_Ü", "ǅwt", "ǄWT", "ǈ", "ǋǊ", "ǲ-ǱX"]
# scope strings: the ONLY separator is the space character; every other character (comma, plus, semicolon, tab,
# line feed, NBSP, ...) is part of a scope token
SCOPE_VALUES = ["openid profile openid", "read read", "a  b  c", "x x x", "\u00e9 \u00e9", "", "a", "read write", "a  b", " a", "a ", "openid profile email", None, "é 日本", "a\tb", "a,b", "urn:acme:doc,rw", ",", "a,b c,d",
                "a+b", "a;b", "a|b", "a\nb", "a\u00a0b", "a%20b", "a\u3000b", "a\rb", "repo,user", "read:org,write:org", "a,", ",a", "a\u2003b", "https://x/y?z=1&w=2"]
UNKNOWN_NAMES = ["foo", "id", "x", "Access_Token", "access-token", "expires", "scopes", "data", "é", "", "active2", "error", "error_description"]
URLS_VALID = ["https://verify/here", "https://example.com/device?x=1", "HTTPS://EXAMPLE.COM/Dev", "https://exämple.com/ü", "custom:opaque", "https://e/" + "v" * 200,
              "http://device.example.com/activate", "ftp://example.com/pub/device", "com.example.tv:/activate", "http://192.0.2.7:8080/device"]
URLS_INVALID = ["", "verify/here", "//host/x", "https://", "not a url", "http://[::1"]


def rand_ws(rng):
    return rng.choice(["", "", "", " ", "\n", "\t", "\r\n", "  "])


def jstr(s, rng, plain=False):
    """a JSON string literal for s with randomly chosen (valid) escaping"""
    out = ['"']
    for ch in s:
        o = ord(ch)
        r = 0.0 if plain else rng.random()
        if ch == '"':
            out.append('\\"' if r < 0.8 else "\\u0022")
        elif ch == "\\":
            out.append("\\\\" if r < 0.8 else "\\u005c")
        elif o < 0x20:
            short = {8: "\\b", 12: "\\f", 10: "\\n", 13: "\\r", 9: "\\t"}
            if o in short and r < 0.6:
                out.append(short[o])
            else:
                out.append("\\u%04x" % o if r < 0.8 else "\\u%04X" % o)
        elif ch == "/" and r < 0.3:
            out.append("\\/")
        elif o > 0xFFFF:
            if r < 0.3:
                v = o - 0x10000
                out.append("\\u%04x\\u%04x" % (0xD800 + (v >> 10), 0xDC00 + (v & 0x3FF)))
            else:
                out.append(ch)
        elif r < 0.12:
            out.append("\\u%04x" % o)
        else:
            out.append(ch)
    out.append('"')
    return "".join(out)


def render(v, rng, plain=False):
    """v: dict-like list of pairs [('k', v)...] wrapped as ('obj', pairs) / list / str / int / bool / None / Raw"""
    w = (lambda: "") if plain else (lambda: rand_ws(rng))
    if isinstance(v, Raw):
        return v.text
    if v is None:
        return "null"
    if v is True:
        return "true"
    if v is False:
        return "false"
    if isinstance(v, int):
        return str(v)
    if isinstance(v, str):
        return jstr(v, rng, plain)
    if isinstance(v, tuple) and v[0] == "obj":
        items = [w() + jstr(k, rng, plain) + w() + ":" + w() + render(x, rng, plain) + w() for k, x in v[1]]
        return "{" + (",".join(items) if items else w()) + "}"
    if isinstance(v, list):
        return "[" + (",".join(w() + render(x, rng, plain) + w() for x in v) if v else w()) + "]"
    raise TypeError(v)


def obj(pairs):
    return ("obj", list(pairs))


def rand_value(rng, depth=0):
    k = rng.randint(0, 9)
    if k == 0:
        return None
    if k == 1:
        return rng.choice([True, False])
    if k == 2:
        return rng.choice([0, 1, -1, 3600, U64, U64 + 1, -2 ** 63, -2 ** 63 - 1])
    if k == 3:
        return Raw(rng.choice(["1.5", "-0", "1e3", "1E-2", "0.0", "3600.0", "1e308", "123456789012345678901234567890"]))
    if k == 4 and depth < 3:
        return [rand_value(rng, depth + 1) for _ in range(rng.randint(0, 3))]
    if k == 5 and depth < 3:
        return obj([(rng.choice(UNKNOWN_NAMES + ["access_token", "scope"]), rand_value(rng, depth + 1)) for _ in range(rng.randint(0, 3))])
    return rng.choice(STRS)


WORDS = ["verification", "description", "complete", "refresh", "expires", "access", "client", "device", "active", "token", "error", "scope", "user",
         "name", "type", "code", "uri", "url", "id", "in", "interval"]
SYNONYMS = {"username": ["user_name", "login", "user", "preferred_username", "uid"], "client_id": ["cid", "azp", "client", "clientID"],
            "exp": ["expires", "expires_at", "expiry", "expiration", "exp_at"], "iat": ["issued_at", "issued"], "nbf": ["not_before"],
            "sub": ["subject", "user_id"], "aud": ["audience", "audiences"], "iss": ["issuer"], "jti": ["token_id", "id"],
            "scope": ["scopes", "scp", "scope_list"], "active": ["valid", "is_active", "enabled"], "token_type": ["type", "tokentype", "typ"],
            "access_token": ["token", "id_token", "accessToken"], "refresh_token": ["refresh"], "expires_in": ["expires", "expiry", "ttl", "expires_at", "ext_expires_in"],
            "interval": ["poll_interval", "polling_interval", "retry_after"], "verification_uri": ["verification_url", "verify_uri"],
            "verification_uri_complete": ["verification_url_complete"], "device_code": ["code"], "user_code": ["code", "pin"],
            "error_description": ["description", "message", "error_message", "msg", "error_msg"], "error_uri": ["error_url", "documentation_url", "uri"],
            "error": ["err", "code", "error_code", "errors", "status"]}


def segment(name):
    """split a member name into dictionary words (username -> user, name)"""
    parts = []
    for chunk in name.split("_"):
        rest = chunk
        while rest:
            for w in WORDS:
                if rest.startswith(w):
                    parts.append(w)
                    rest = rest[len(w):]
                    break
            else:
                parts.append(rest)
                rest = ""
    return parts


def near_miss_names(known):
    """unknown member names that look like known ones: plausible legacy aliases (uri<->url), other
    letter case, camelCase, '-' for '_', plural/singular, prefix/suffix"""
    out = []
    for k in known:
        cands = [k.replace("uri", "url"), k.replace("url", "uri"), k.upper(), k.capitalize(), k.replace("_", "-"), k.replace("_", ""),
                 "".join(w.capitalize() if i else w for i, w in enumerate(k.split("_"))), k + "s", k[:-1], "x_" + k, k + "_", k.replace("_in", ""),
                 k.replace("token", "tokens"), k.replace("expires", "expire")]
        w = segment(k)
        cands += ["_".join(w), "-".join(w), "".join(w), ".".join(w), w[0] + "".join(x.capitalize() for x in w[1:]), "".join(x.capitalize() for x in w)]
        cands += SYNONYMS.get(k, [])
        out += [c for c in cands if c and c not in known]
    return list(dict.fromkeys(out))


def unknown_members(rng, known, n=None):
    out = []
    near = near_miss_names(known)
    for _ in range(rng.randint(0, 3) if n is None else n):
        name = rng.choice(near) if (near and rng.random() < 0.4) else rng.choice(UNKNOWN_NAMES)
        if name in known:
            continue
        out.append((name, rand_value(rng)))
    return out


# ---------------------------------------------------------------- value models

def token_members(rng, ext):
    m = [("access_token", rng.choice(STRS)), ("token_type", rng.choice(TT))]
    r = rng.random()
    if r < 0.6:
        m.append(("expires_in", rng.choice([0, 1, 3600, 2 ** 32, 2 ** 63, U64, None])))
    if rng.random() < 0.5:
        m.append(("refresh_token", rng.choice(STRS + [None])))
    if rng.random() < 0.6:
        m.append(("scope", rng.choice(SCOPE_VALUES)))
    if ext:
        if rng.random() < 0.6:
            m.append(("id_token", rng.choice(STRS + [None])))
        if rng.random() < 0.5:
            m.append(("x_num", rng.choice([0, 7, U64, None])))
    return m


TOKEN_KNOWN = ["access_token", "token_type", "expires_in", "refresh_token", "scope"]
EXT_KNOWN = ["id_token", "x_num"]
INTRO_KNOWN = ["active", "scope", "client_id", "username", "token_type", "exp", "iat", "nbf", "sub", "aud", "iss", "jti"]
DEVICE_KNOWN = ["device_code", "user_code", "verification_uri", "verification_url", "verification_uri_complete", "expires_in", "interval"]
ERROR_KNOWN = ["error", "error_description", "error_uri"]

TS_VALUES = [0, 1, -1, 1700000000, TS_MAX, TS_MIN, None]


def intro_members(rng, ext):
    m = [("active", rng.choice([True, False]))]
    opt = lambda p=0.4: rng.random() < p
    if opt():
        m.append(("scope", rng.choice(SCOPE_VALUES)))
    if opt():
        m.append(("client_id", rng.choice(STRS + [None])))
    if opt():
        m.append(("username", rng.choice(STRS + [None])))
    if opt():
        m.append(("token_type", rng.choice(TT + [None])))
    for f in ("exp", "iat", "nbf"):
        if opt():
            m.append((f, rng.choice(TS_VALUES)))
    if opt():
        m.append(("sub", rng.choice(STRS + [None])))
    if opt():
        m.append(("aud", rng.choice([None, "single", "", [], ["a"], ["a", "b", ""], [rng.choice(STRS)]])))
    if opt():
        m.append(("iss", rng.choice(STRS + [None])))
    if opt():
        m.append(("jti", rng.choice(STRS + [None])))
    if ext:
        if opt():
            m.append(("id_token", rng.choice(STRS + [None])))
        if opt():
            m.append(("x_num", rng.choice([0, 7, U64, None])))
    return m


def device_members(rng, ext):
    m = [("device_code", rng.choice(STRS)), ("user_code", rng.choice(STRS)),
         (rng.choice(["verification_uri", "verification_uri", "verification_url"]), rng.choice(URLS_VALID)),
         ("expires_in", rng.choice([0, 1, 1800, 2 ** 63, U64]))]
    if rng.random() < 0.5:
        m.append(("verification_uri_complete", rng.choice(STRS + [None])))
    r = rng.random()
    if r < 0.6:
        m.append(("interval", rng.choice([0, 1, 5, 7, 3600, U64, None])))
    if ext:
        if rng.random() < 0.5:
            m.append(("id_token", rng.choice(STRS + [None])))
        if rng.random() < 0.5:
            m.append(("x_num", rng.choice([0, 7, U64, None])))
    return m


CODES = ["invalid_client", "invalid_grant", "invalid_request", "invalid_scope", "unauthorized_client", "unsupported_grant_type",
         "authorization_pending", "slow_down", "access_denied", "expired_token", "unsupported_token_type",
         "Invalid_Grant", "INVALID_GRANT", "invalid_grant ", "", "custom", "日本", "server_error"]


def error_members(rng):
    m = [("error", rng.choice(CODES))]
    if rng.random() < 0.6:
        m.append(("error_description", rng.choice(STRS + [None])))
    if rng.random() < 0.4:
        m.append(("error_uri", rng.choice(STRS + [None, "https://e/x"])))
    return m


CORRUPT_VALUES = [None, 0, 1, -1, True, False, [], ["x"], ("obj", []), Raw("1.5"), Raw("\"1\""), Raw("1e999"), "true", "false", "5"]


def corruptions(members, known, rng):
    """single-member deletions, type corruptions, duplications, key-case changes of known members"""
    out = []
    for i, (k, v) in enumerate(members):
        if k not in known:
            continue
        out.append(("delete:" + k, members[:i] + members[i + 1:]))
        for cv in CORRUPT_VALUES:
            out.append(("corrupt:" + k, members[:i] + [(k, cv)] + members[i + 1:]))
        out.append(("duplicate:" + k, members + [(k, v)]))
        out.append(("case:" + k, members[:i] + [(k.upper(), v)] + members[i + 1:]))
    return out


def shuffled(members, rng):
    m = list(members)
    rng.shuffle(m)
    return m


def family_doc(fam, rng, ext):
    if fam == "token":
        m = token_members(rng, ext)
        known = TOKEN_KNOWN + (EXT_KNOWN if ext else [])
    elif fam == "introspection":
        m = intro_members(rng, ext)
        known = INTRO_KNOWN + (EXT_KNOWN if ext else [])
    elif fam == "device":
        m = device_members(rng, ext)
        known = DEVICE_KNOWN + (EXT_KNOWN if ext else [])
    else:
        m = error_members(rng)
        known = ERROR_KNOWN
    return m, known


def urltab():
    return C.tlist(URLS_VALID)


def decode_line(fam, ext, text):
    """ext: False = empty extension type, True = the two-member extension struct, "M" = a map-typed
    extension that receives every member the library does not know (observed: their names)"""
    if isinstance(text, str):
        text = text.encode("utf-8")
    return "DECODE %s %s %s %s" % (fam, "M" if ext == "M" else ("X" if ext else "E"), C.tb(text), urltab())


# member names that real servers add to these documents (vendor extensions, OpenID Connect, drafts)
VENDOR_NAMES = ["message", "id_token", "ext_expires_in", "resource", "not_before", "expires_on", "expires_at", "refresh_token_expires_in", "refresh_expires_in",
                "session_state", "foci", "client_info", "correlation_id", "trace_id", "timestamp", "error_codes", "issued_token_type", "authorization_details",
                "cnf", "acr", "amr", "azp", "auth_time", "nonce", "realm_access", "resource_access", "permissions", "tenant", "uid", "email", "name", "groups",
                "roles", "user_id", "account_id", "team_id", "instance_url", "signature", "issued_at", "created_at", "status", "ok", "warning", "hint",
                "qr_code", "verification_qr", "poll_url", "device_id", "user_code_expires_in", "max_age", "version", "data", "result", "extra", "meta"]


def gen_decode(fam, tier, rng, n_docs=None):
    """documents of one family: valid (permuted, padded with unknown members, random text form),
    all single-member corruptions of a subset, and a malformed-text stream"""
    out = []
    n = n_docs or (400 if tier == "quick" else 20000)
    dfam = "err-" + fam[4:] if fam.startswith("err-") else fam
    for i in range(n):
        ext = (i % 3 == 0) and not fam.startswith("err-")
        m, known = family_doc(fam if not fam.startswith("err-") else "error", rng, ext)
        full = shuffled(m + unknown_members(rng, known), rng)
        out.append((decode_line(dfam, ext, render(obj(full), rng)), "valid-model"))
        if not ext and not fam.startswith("err-") and i % 2 == 0:
            out.append((decode_line(dfam, "M", render(obj(full), rng)), "valid-model-map-extension"))
        if i % (8 if tier == "quick" else 20) == 0:
            for label, cm in corruptions(m, known, rng):
                out.append((decode_line(dfam, ext, render(obj(cm), rng, plain=True)), label.split(":")[0]))
    # alias sweep: every plausible alias of every known member, once next to the real member and once instead of it
    # (only for members whose absence is legal), with a string and with a non-string value
    efam = fam if not fam.startswith("err-") else "error"
    _, known = family_doc(efam, rng, False)
    bm = {"token": [("access_token", "at"), ("token_type", "bearer"), ("expires_in", 3600), ("refresh_token", "rt"), ("scope", "a b")],
          "introspection": [("active", True), ("scope", "a b"), ("client_id", "c"), ("username", "u"), ("token_type", "bearer"), ("exp", 1700000000),
                            ("iat", 1600000000), ("nbf", 1600000001), ("sub", "s"), ("aud", ["x"]), ("iss", "i"), ("jti", "j")],
          "device": [("device_code", "dc"), ("user_code", "uc"), ("verification_uri", URLS_VALID[0]), ("verification_uri_complete", URLS_VALID[0]),
                     ("expires_in", 600), ("interval", 7)],
          "error": [("error", "invalid_grant"), ("error_description", "d"), ("error_uri", "u")]}[efam]
    assert set(k for k, _ in bm) <= set(known)
    required = {"token": ["access_token", "token_type"], "introspection": ["active"],
                "device": ["device_code", "user_code", "verification_uri", "expires_in"], "error": ["error"]}[efam]
    names = near_miss_names(known)
    if tier == "quick":
        names = [x for i, x in enumerate(names) if i % 3 == 0 or "_" in x or x in sum(SYNONYMS.values(), [])]
    for alias in names:
        for val in ("alias-value", 7):
            out.append((decode_line(dfam, False, render(obj(bm + [(alias, val)]), rng, plain=True)), "alias-beside"))
            if efam != "error":
                out.append((decode_line(dfam, "M", render(obj(bm + [(alias, val)]), rng, plain=True)), "alias-beside-map-extension"))
            reduced = [(k, v) for k, v in bm if k in required]
            out.append((decode_line(dfam, False, render(obj(reduced + [(alias, val)]), rng, plain=True)), "alias-instead"))
    if efam in ("token", "introspection"):
        for sv in SCOPE_VALUES:
            doc = [(k, v) for k, v in bm if k != "scope"] + [("scope", sv)]
            out.append((decode_line(dfam, False, render(obj(doc), rng, plain=True)), "scope-value"))
        for code in range(0x21, 0x7f):
            ch = chr(code)
            if ch in '"\\':
                continue
            doc = [(k, v) for k, v in bm if k != "scope"] + [("scope", "a%sb" % ch)]
            if tier == "thorough" or code % 2 or ch in ",;+|":
                out.append((decode_line(dfam, False, render(obj(doc), rng, plain=True)), "scope-single-character"))
    # every string member with every printable ASCII character (and some others) inside and at either end, and with
    # blank values: reported verbatim, never trimmed, folded or dropped
    specials = [chr(c) for c in range(0x20, 0x7f)] + ["\t", "\n", "\r", "\x00", "\x7f", "\u00a0", "\u3000", "\u200b", "\ufeff", "é", "ß", "İ", "\U0001F600"]
    blanks = ["", " ", "  ", "\t", "\n", " \u3000\t", "\u00a0"]
    str_members = [k for k, v in bm if isinstance(v, str) and k not in ("token_type", "verification_uri", "verification_uri_complete", "error")]
    for mi, k in enumerate(str_members):
        for ci, ch in enumerate(specials):
            if tier == "quick" and (ci + mi) % 3:
                continue
            for val in ("a%sb" % ch, "%sab" % ch, "ab%s" % ch):
                doc = [(kk, (val if kk == k else vv)) for kk, vv in bm]
                out.append((decode_line(dfam, False, render(obj(doc), rng, plain=True)), "string-member-character"))
        for val in blanks:
            doc = [(kk, (val if kk == k else vv)) for kk, vv in bm]
            out.append((decode_line(dfam, False, render(obj(doc), rng, plain=True)), "string-member-blank"))
    # every numeric member at the powers of two and ten and their neighbours (as integers, and a few as floats)
    num_members = [k for k, v in bm if isinstance(v, int) and not isinstance(v, bool)]
    nums = sorted(set([0, 1, 2, 3, 5, 59, 60, 3599, 3600, 86400] + [2 ** e + d for e in range(0, 65) for d in (-1, 0, 1)] + [10 ** e + d for e in range(0, 20) for d in (-1, 0, 1)]
                      + [-1, -2, -2 ** 31, -2 ** 63, -2 ** 63 - 1, -10 ** 12]))
    for mi, k in enumerate(num_members):
        for ni, n in enumerate(nums):
            if tier == "quick" and (ni + mi) % 2 and abs(n) > 4:
                continue
            doc = [(kk, (n if kk == k else vv)) for kk, vv in bm]
            out.append((decode_line(dfam, False, render(obj(doc), rng, plain=True)), "numeric-member-boundary"))
        for raw in ("0.0", "1.0", "5.0", "3600.5", "1e3", "1E3", "1e0", "-0", "-0.0", "0e0", "1.0e2", "18446744073709551615.0", "1e19", "1e20", "4294967296e0"):
            doc = [(kk, (Raw(raw) if kk == k else vv)) for kk, vv in bm]
            out.append((decode_line(dfam, False, render(obj(doc), rng, plain=True)), "numeric-member-float-form"))
    # vendor members: delivered to a map-typed extension whatever their value, ignored otherwise
    if efam != "error":
        for vn in VENDOR_NAMES:
            if vn in known:
                continue
            for val in ("vendor-value", 7, None, obj([("nested", [1, "x"])])):
                out.append((decode_line(dfam, "M", render(obj(shuffled(bm + [(vn, val)], rng)), rng, plain=True)), "vendor-member-map-extension"))
            out.append((decode_line(dfam, False, render(obj(shuffled(bm + [(vn, 7)], rng)), rng, plain=True)), "vendor-member"))
        out.append((decode_line(dfam, "M", render(obj(shuffled(bm + [(vn, "v") for vn in VENDOR_NAMES if vn not in known], rng)), rng, plain=True)), "vendor-member-map-extension"))
    # malformed / exotic text
    base_m, known = family_doc(fam if not fam.startswith("err-") else "error", rng, False)
    base = render(obj(base_m), rng, plain=True)
    exotic = [base + " trailing", base + "{}", base + base, base + "\n", "\ufeff" + base, " " + base + " \r\n\t", base[:-1], base[:len(base) // 2],
              "", " ", "null", "[]", "{}", "\"str\"", "5", "[" + base + "]", base.replace("{", "{\"deep\":" + "[" * 200 + "]" * 200 + ",", 1),
              base.replace("{", "{\"deep\":" + "[" * 126 + "]" * 126 + ",", 1), base.replace("{", "{\"deep\":" + "[" * 127 + "]" * 127 + ",", 1),
              base.replace("{", "{\"big\":" + "9" * 400 + ",", 1), base.replace("{", "{\"big\":1e999,", 1), base.replace("{", "{\"f\":1.5e300,", 1),
              base.replace("{", "{\"lone\":\"\\ud800\",", 1), base.replace("{", "{\"\\ud800\":1,", 1), base.replace("{", "{\"pair\":\"\\ud83d\\ude00\",", 1),
              base.replace("{", "{\"bad\":\"\\x\",", 1), base.replace("{", "{\"ctl\":\"\x01\",", 1), base.replace("{", "{'single':1,", 1),
              base.replace("{", "{\"t\":tru,", 1), base.replace("{", "{\"n\":01,", 1), base.replace("{", "{\"n\":-,", 1), base.replace(":", " : ", 1),
              base[:-1] + ",}", "{" + base[1:-1] + ",\"deep\":" + "{\"a\":" * 10000 + "1" + "}" * 10000 + "}"]
    for t in exotic:
        out.append((decode_line(dfam, False, t), "exotic-text"))
    for raw in [b"\xff", b"\xc3\x28", b"\xed\xa0\x80", b"\xf4\x90\x80\x80", b"\xc0\xaf"]:
        tb = base.encode("utf-8").replace(b"{", b"{\"u\":\"" + raw + b"\",", 1)
        out.append((decode_line(dfam, False, tb), "invalid-utf8"))
        first_val = pyjson.dumps(base_m[0][1]) if isinstance(base_m[0][1], str) else None
        if first_val:
            tb2 = base.encode("utf-8").replace(first_val.encode("utf-8"), b"\"" + raw + b"\"", 1)
            out.append((decode_line(dfam, False, tb2), "invalid-utf8-in-known-member"))
    # positional array form (error family accepts it; flattened structs do not)
    for arr in (["invalid_grant"], ["invalid_grant", "d"], ["invalid_grant", None, "u"], ["a", "b", "c", "d"], [], [1], ["x", 1]):
        out.append((decode_line(dfam, False, render(arr, rng, plain=True)), "positional-array"))
    out += source_literal_docs(dfam, efam, bm, known, required, rng)
    return out


def source_literal_docs(dfam, efam, bm, known, required, rng):
    """documents built from the literals that are new in the source (gen/srclit.py): each new word as a member name (beside
    the known members, instead of each optional one, with values of several types, for both extension modes), as the value
    of every string member, as a scope token and as a token type / error code; each new integer (and its neighbours) as the
    value of every numeric member, as the length of every string member and as the size of the whole document.  Empty on the
    unchanged tree."""
    from gen import srclit as S
    out = []
    words = S.words()
    modes = [False] + (["M"] if efam != "error" else [])
    str_members = [k for k, v in bm if isinstance(v, str) and k not in ("verification_uri", "verification_uri_complete")]
    num_members = [k for k, v in bm if isinstance(v, int) and not isinstance(v, bool)]
    for w in words:
        spell = [w] if w in known else list(dict.fromkeys([w, w.lower(), w.replace("-", "_")]))
        for name in spell:
            if name in known:
                continue
            for val in ("literal-value", 7, None, True, ["x"], obj([("k", "v")]), ""):
                for mode in modes:
                    out.append((decode_line(dfam, mode, render(obj(shuffled(bm + [(name, val)], rng)), rng, plain=True)), "source-literal/member-beside"))
            reduced = [(k, v) for k, v in bm if k in required]
            for val in ("literal-value", 7):
                out.append((decode_line(dfam, False, render(obj(reduced + [(name, val)]), rng, plain=True)), "source-literal/member-instead"))
            # ... and next to each single optional member left out
            for k, _ in bm:
                if k not in required:
                    doc = [(kk, vv) for kk, vv in bm if kk != k] + [(name, "literal-value")]
                    out.append((decode_line(dfam, False, render(obj(doc), rng, plain=True)), "source-literal/member-instead-of-one"))
        for k in str_members:
            for val in (w, w.upper(), " " + w, w + " ", "x" + w + "y", w + " " + w):
                doc = [(kk, (val if kk == k else vv)) for kk, vv in bm]
                out.append((decode_line(dfam, False, render(obj(doc), rng, plain=True)), "source-literal/string-value"))
    for n in S.sizes(limit=None, lo=0):
        for k in num_members:
            doc = [(kk, (n if kk == k else vv)) for kk, vv in bm]
            out.append((decode_line(dfam, False, render(obj(doc), rng, plain=True)), "source-literal/numeric-value"))
        if 1 <= n <= 300000:
            for k in str_members:
                if k in ("token_type", "error"):
                    continue
                for fill in ("a", "\u00e9"):
                    val = (fill * n)[:n] if fill == "a" else fill * (n // 2) + ("a" if n % 2 else "")
                    doc = [(kk, (val if kk == k else vv)) for kk, vv in bm]
                    out.append((decode_line(dfam, False, render(obj(doc), rng, plain=True)), "source-literal/string-length"))
            # the whole document exactly n bytes long (padding member), and an unknown member of n bytes / n elements
            base = render(obj(bm + [("padding", "")]), rng, plain=True)
            if n >= len(base):
                out.append((decode_line(dfam, False, render(obj(bm + [("padding", "x" * (n - len(base)))]), rng, plain=True)), "source-literal/document-size"))
            out.append((decode_line(dfam, False, render(obj(bm + [("padding", "x" * n)]), rng, plain=True)), "source-literal/member-size"))
            if n <= 70000:
                out.append((decode_line(dfam, False, render(obj(bm + [("padding", [1] * n)]), rng, plain=True)), "source-literal/array-size"))
                if efam in ("token", "introspection"):
                    doc = [(kk, vv) for kk, vv in bm if kk != "scope"] + [("scope", " ".join("s%d" % i for i in range(n)))]
                    out.append((decode_line(dfam, False, render(obj(doc), rng, plain=True)), "source-literal/scope-count"))
    return out
