"""C14 generator: error codes x 3 families x description/URI."""
from gen import common as C

ASSUMPTIONS = [
    "the JSON string codec of serde_json is trusted for moving the code string in and out of the typed variant (the harness parses \"<code>\" with serde, the only public parser)",
]

CODES = ["invalid_client", "invalid_grant", "invalid_request", "invalid_scope", "unauthorized_client",
         "unsupported_grant_type", "authorization_pending", "slow_down", "access_denied", "expired_token",
         "unsupported_token_type"]
FAMS = ["basic", "device", "revocation"]


def variants(code, rng):
    yield code
    yield code.upper()
    yield code.capitalize()
    for i in range(len(code)):
        if code[i].isalpha():
            yield code[:i] + code[i].upper() + code[i + 1:]
    yield code[:-1]
    yield code[1:]
    yield code + "x"
    yield "x" + code
    yield code + " "
    yield " " + code
    yield code + "\u0000"
    yield code.replace("_", "-")
    yield code.replace("_", "__")
    yield code.replace("i", "ı")   # dotless i
    yield code.replace("e", "е")   # cyrillic e


EXOTIC = ["", " ", "é", "日本", "\U0001F600", "a\"b\\c", "\n", "%s{}{:?}", "error", "Extension",
          "invalid", "temporarily_unavailable", "server_error", "interaction_required", "null", "0"]
# codes that real servers send and that are NOT defined by the RFCs the crate implements: every one is an extension
# code, preserved verbatim, in every family (vendor vocabularies of Microsoft, Google, GitHub, Okta, Auth0, Keycloak,
# OpenID Connect, RFC 8707 / 9126 / 9449 ...)
VENDOR_CODES = ["authorization_declined", "bad_verification_code", "incorrect_client_credentials", "redirect_uri_mismatch", "incorrect_device_code",
                "device_flow_disabled", "unsupported_response_type", "login_required", "consent_required", "account_selection_required",
                "invalid_target", "invalid_resource", "invalid_dpop_proof", "use_dpop_nonce", "invalid_request_uri", "invalid_request_object",
                "request_not_supported", "request_uri_not_supported", "registration_not_supported", "unmet_authentication_requirements",
                "invalid_token", "insufficient_scope", "mfa_required", "unverified_email", "too_many_attempts", "blocked_user", "invalid_otp",
                "password_leaked", "requires_validation", "user_not_found", "not_found", "forbidden", "rate_limit_exceeded", "polling_too_frequently",
                "code_expired", "token_expired", "expired", "denied", "cancelled", "canceled", "user_cancelled", "pending", "authorization-pending",
                "slowdown", "slow-down", "accessdenied", "access-denied", "expiredtoken", "unsupported_token", "invalid_token_type"]
TEXTS = [None, "", "desc", "Still waiting for user", "café \U0001F600", "a: b (see c)", "x\ny", "\"q\"", " (see "]


def gen(tier, rng):
    out = []
    for fam in FAMS:
        for code in CODES:
            for v in variants(code, rng):
                d = rng.choice(TEXTS)
                u = rng.choice(TEXTS)
                out.append(("C14 %s %s %s %s" % (fam, C.tb(v), C.topt(d), C.topt(u)), "variant-of-defined"))
        for code in CODES:
            for d in TEXTS:
                for u in (None, "https://e/x", "café"):
                    out.append(("C14 %s %s %s %s" % (fam, C.tb(code), C.topt(d), C.topt(u)), "defined"))
        for e in EXOTIC:
            out.append(("C14 %s %s %s %s" % (fam, C.tb(e), C.topt(rng.choice(TEXTS)), C.topt(rng.choice(TEXTS))), "exotic"))
        for e in VENDOR_CODES:
            out.append(("C14 %s %s %s %s" % (fam, C.tb(e), C.topt(rng.choice(TEXTS)), C.topt(rng.choice(TEXTS))), "vendor-code"))
        # descriptions / URIs that repeat the code, one another, or look like part of the rendering
        for code in CODES + ["custom_code", ""]:
            for d, u in ((code, None), (code, code), (None, code), (code.upper(), None), (code + " ", None), (": " + code, "(see " + code + ")"), ("x", "x")):
                out.append(("C14 %s %s %s %s" % (fam, C.tb(code), C.topt(d), C.topt(u)), "description-repeats-code"))
        # literals that are new in the source (gen/srclit.py): each new word as a code (with all variants), as description and
        # as URI; each new integer as the length of code / description / URI
        from gen import srclit as SL
        for w in SL.words():
            for v in variants(w, rng):
                for d, u in ((None, None), ("desc", "https://e/x"), (w, w), (v, None)):
                    out.append(("C14 %s %s %s %s" % (fam, C.tb(v), C.topt(d), C.topt(u)), "source-literal/code"))
            for code in CODES[:3] + ["custom_code"]:
                for d, u in ((w, None), (None, w), (w + " ", " " + w), (w.upper(), w.lower())):
                    out.append(("C14 %s %s %s %s" % (fam, C.tb(code), C.topt(d), C.topt(u)), "source-literal/text"))
        for k in SL.sizes(limit=300000, lo=0):
            for code in ("invalid_grant", "c" * k):
                for d, u in ((None, None), ("d" * k, None), (None, "u" * k), ("\u00e9" * (k // 2), "https://e/" + "x" * k)):
                    out.append(("C14 %s %s %s %s" % (fam, C.tb(code), C.topt(d), C.topt(u)), "source-literal/length"))
        n = 300 if tier == "quick" else 20000
        alphabet = "abcdefghijklmnopqrstuvwxyz_ABCDEFG -é日"
        for _ in range(n):
            if rng.random() < 0.5:
                base = rng.choice(CODES)
                s = list(base)
                for _ in range(rng.randint(1, 3)):
                    op = rng.randint(0, 2)
                    pos = rng.randint(0, len(s)) if s else 0
                    if op == 0 and s:
                        s.pop(min(pos, len(s) - 1))
                    elif op == 1:
                        s.insert(pos, rng.choice(alphabet))
                    elif s:
                        p = min(pos, len(s) - 1)
                        s[p] = s[p].swapcase()
                s = "".join(s)
            else:
                s = "".join(rng.choice(alphabet) for _ in range(rng.randint(0, 24)))
            out.append(("C14 %s %s %s %s" % (fam, C.tb(s), C.topt(rng.choice(TEXTS)), C.topt(rng.choice(TEXTS))), "random"))
    return out


def nontrivial(line, obs):
    # non-trivial: a dedicated variant, or an extension code that is a near miss of a defined code
    return True


def gen_json(tier, rng):
    from gen import docs as D
    from gen import c05
    out = []
    for fam in ("err-basic", "err-device", "err-revocation"):
        out += D.gen_decode(fam, tier, rng, n_docs=(150 if tier == "quick" else 8000))
    kinds = ["code", "refresh", "password", "cc", "introspect", "devauth", "revoke"]
    i = 0
    for code in CODES + ["Invalid_Grant", "custom_code", "", "日本"]:
        for d in (None, "desc é", ""):
            for u in (None, "https://e/x"):
                for kind in kinds:
                    i += 1
                    m = [("error", code)] + ([("error_description", d)] if d is not None or i % 2 else []) + ([("error_uri", u)] if u is not None or i % 3 == 0 else [])
                    body = D.render(D.obj(D.shuffled(m + D.unknown_members(rng, D.ERROR_KNOWN), rng)), rng)
                    out.append((c05.http_line("sync" if i % 2 else "async", kind, False, [400, 401, 403, 500, 503][i % 5], [None, b"application/json", b"text/plain"][i % 3], body), "http/" + kind))
    from gen import poll as P
    for term in ("denied", "invalid_grant", "ext", "expired", "invalid_client", "invalid_scope", "pending_upper", "denied202"):
        for pre in ([], ["pending"], ["slow", "fail"]):
            for var in ("sync", "async:0", "async:2"):
                t0 = 1700000000 * P.NS
                clock = [t0] + [t0 + (j + 1) * P.NS for j in range(len(pre))] + [t0 + 25 * P.NS] + [t0 + 36 * P.NS] * 3
                out.append((P.line(var, "1", None, None, 30, True, clock, pre + [term]), "device-error-late-clock"))
    from gen import srclit as SL
    for st in SL.statuses():
        for code in CODES + ["custom_code"]:
            for kind in kinds:
                i += 1
                body = D.render(D.obj([("error", code), ("error_description", "d")]), rng, plain=True)
                out.append((c05.http_line("sync" if i % 2 else "async", kind, False, st, [None, b"application/json", b"text/plain"][i % 3], body), "source-literal/status/" + kind))
    return out


def run(tier, rng, C):
    cases = gen(tier, rng) + gen_json(tier, rng)
    v, stats = C.differential("C14", cases, nontrivial=lambda l, o: not o.startswith("Extension x ") and o != "err")
    from gen import c05 as _c05
    bad, nbig = C.invariance("C14", [p for p in _c05.big_pairs(tier, rng, ["code", "introspect", "devauth"]) if " 400 " in p[0]], "an error document with an unknown member of more than 1 MiB is reported like the same document without it")
    v += bad
    stats["large_document_pairs"] = nbig
    stats["evaluations"] = stats.get("evaluations", 0) + nbig
    # the same library calls through the crate's own HTTP clients (reqwest, reqwest blocking, curl, ureq) against a scripted
    # loopback server: the outcome must be the one an in-memory client given the same reply produces (gen/same.py)
    from gen import same as SAME
    bad_same, n_same = SAME.run("C14", SAME.cases(["code", "refresh", "introspect", "devauth", "revoke"], rng, statuses=(400, 401, 403, 500, 503), success_docs=1) + [c for c in SAME.poll_cases(rng) if " 200 " not in c[0]], C)
    v += bad_same
    stats["through_bundled_adapters"] = n_same
    stats["evaluations"] = stats.get("evaluations", 0) + n_same
    stats["rule"] = ("3 families x (11 defined codes x all single-letter case flips, prefixes/suffixes, look-alikes) "
                     "+ exotic + random edits of defined codes; description/URI from {absent, empty, ASCII, Unicode, look-alikes of the rendering}; "
                     "error documents of the three families decoded from JSON text (member order, whitespace, escaping, unknown members, null/absent description and URI, positional array form, corruptions, malformed text) with a serialise/read-back round trip, "
                     "and through non-200 replies on 7 request kinds; distinct = distinct protocol lines; non-trivial = every case except a basic-family plain extension or a rejected document")
    return v, stats


def replay(payload, C):
    return C.replay_generic(payload)
