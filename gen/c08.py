"""C08: the poll loop stops at the first decisive reply and at the deadline.  Full event traces
(clock reads, polls, waits, result) of the blocking and the future-based loop against the
extracted model under scripted clocks; the three variants must also agree with each other."""
from gen import common as C
from gen import poll as P

ASSUMPTIONS = [
    "time_fn is the caller's closure: the model quantifies over arbitrary lists of readings; the harness feeds scripted readings (monotone, boundary, past-deadline, non-monotone)",
    "chrono limits (TimeDelta::MAX, DateTime::<Utc>::MAX_UTC/MIN_UTC) are constants of the model compared with the values measured from the linked chrono on every run (case BOUNDS)",
]

VARIANTS = ["sync", "async:0", "async:2"]
TIMEOUTS = [None, 0, 3 * P.NS, 3600 * P.NS, 86401 * P.NS, 31536000 * P.NS, (2 ** 32 + 1) * P.NS, 2 ** 63 * P.NS, P.U64 * P.NS + 999999999, P.MAXDELTA, P.MAXDELTA + 1, 2500000000]
EXPIRES = [0, 2, 3600, P.U64, 9223372036854775, 9223372036854776, 86400, 86401, 172800, 2592000, 31536000, 2 ** 31, 2 ** 32 + 1]
STARTS = [0, 1700000000 * P.NS + 123456789, -5 * P.NS, P.DTMAX - 3600 * P.NS, P.DTMIN, P.DTMAX]


def deadline(t0, timeout, expires):
    tmo = timeout if timeout is not None else expires * P.NS
    if tmo > P.MAXDELTA or t0 + tmo > P.DTMAX:
        return None
    return t0 + tmo


def clocks(t0, dl, n, rng):
    """clock readings after the initial one (n of them)"""
    out = []
    for step in (0, P.NS, 7 * P.NS):
        out.append(("steady%d" % (step // P.NS), [min(P.DTMAX, t0 + (k + 1) * step) for k in range(n)]))
    if dl is not None:
        for j in range(n):
            before = [min(dl, t0 + k) for k in range(j)]
            out.append(("past-at-%d" % j, before + [min(P.DTMAX, dl + 1)] + [t0] * (n - j - 1)))
            out.append(("at-deadline-%d" % j, before + [dl] + [min(P.DTMAX, dl + 1)] * (n - j - 1)))
        # late, but still before the deadline (a cap on the lifetime — a day, a year, 2^31 or 2^32 seconds — would give up here)
        span = dl - t0
        for frac_name, off in (("half", span // 2), ("nine-tenths", span * 9 // 10), ("one-ns-before", span - 1), ("day+1s", 86401 * P.NS), ("week", 7 * 86400 * P.NS),
                               ("year+1s", 31536001 * P.NS), ("2^31s+1", (2 ** 31 + 1) * P.NS), ("2^32s", 2 ** 32 * P.NS)):
            if 0 < off < span:
                out.append(("late-" + frac_name, [min(P.DTMAX, t0 + off)] * n))
        # non monotone: beyond, but only after readings that go backwards
        out.append(("nonmono", [max(P.DTMIN, t0 - (k + 1) * P.NS) for k in range(n)]))
        r = [rng.choice([t0, dl, max(P.DTMIN, dl - 1), min(P.DTMAX, dl + 1), max(P.DTMIN, t0 - 1)]) for _ in range(n)]
        out.append(("random", r))
    return out


def gen(tier, rng):
    out = []
    maxlen = 2 if tier == "quick" else 4
    i = 0
    scripts = list(P.scripts(maxlen))
    for s in scripts:
        for term in P.TERMINALS:
            for tmo in TIMEOUTS:
                for ex in EXPIRES:
                    i += 1
                    keep = 7 if tier == "quick" else 3
                    if i % keep != 0:
                        continue
                    t0 = STARTS[i % len(STARTS)]
                    iv = P.INTERVALS[i % len(P.INTERVALS)]
                    sc = [P.NONDEC_ALIASES[k][(i + j) % len(P.NONDEC_ALIASES[k])] for j, k in enumerate(s)] + [term]
                    dl = deadline(t0, tmo, ex)
                    cl = clocks(t0, dl, len(sc) + 1, rng)
                    name, readings = cl[i % len(cl)]
                    req_ok = (i % 11 != 0)
                    for var in VARIANTS:
                        out.append((P.line(var, iv, None, tmo, ex, req_ok, [t0] + readings, sc),
                                    "%s/%s" % (name, "to-none" if tmo is None else "to-set")))
    # very long sessions: the loop goes on for as long as the server keeps answering pending and the deadline has not passed
    # (1500 polls here), and then reports the decisive reply
    for var in VARIANTS:
        for kk, m in (("pending", 1500), ("fail", 1100), ("slow", 1050), ("pending", 256), ("pending", 101)):
            out.append((P.line(var, "0" if kk != "pending" else "1", 0 if kk == "fail" else None, None, 10 ** 8, True, [0] + [j * 10 ** 6 for j in range(m + 2)], [kk] * m + ["success"]), "long-session"))
            out.append((P.line(var, "1", None, 10 ** 15, 7, True, [0] + [j * 10 ** 6 for j in range(m + 2)], [P.NONDEC[j % 3] for j in range(m)] + ["denied"]), "long-session"))
    # integers that are new in the source (gen/srclit.py): as caller timeout and as lifetime (seconds, milliseconds), with clocks
    # that read just before and just after start + n seconds, and as the number of non-decisive replies
    from gen import srclit as S
    for n in S.sizes(limit=P.U64, lo=0):
        for unit in (P.NS, 10 ** 6):
            span = n * unit
            for (tmo, ex) in ((None, n if unit == P.NS else max(n // 1000, 1)), (span, 600), (None, 10 * n + 7), (20 * span + P.NS, 7)):
                for t0 in (0, 1700000000 * P.NS + 123456789):
                    dl = deadline(t0, tmo, ex)
                    if dl is None:
                        continue
                    for s in ([], ["pending"], ["slow", "fail"], ["pending", "pending", "pending"]):
                        sc = s + ["success"]
                        k = len(sc) + 1
                        shapes = [("at-n", [min(dl, t0 + span)] * k), ("before-n", [min(dl, max(t0, t0 + span - 1))] * k), ("after-n", [min(P.DTMAX, t0 + span + 1)] * k),
                                  ("after-n-late", [t0] * (k - 1) + [min(P.DTMAX, t0 + span + 1)]), ("steady-n", [min(P.DTMAX, t0 + (j + 1) * span) for j in range(k)]),
                                  ("deadline", [dl] * k), ("past-deadline", [t0] * (k - 1) + [min(P.DTMAX, dl + 1)])]
                        for name, readings in shapes:
                            for var in VARIANTS:
                                i += 1
                                out.append((P.line(var, P.INTERVALS[i % 6], None, tmo, ex, True, [t0] + readings, sc), "source-literal/%s" % name))
        if 1 <= n <= 3000:
            for kk in P.NONDEC:
                for m in (n - 1, n, n + 1):
                    for var in VARIANTS:
                        out.append((P.line(var, "1", None, None, 10 ** 7, True, [0] + [j * P.NS for j in range(m + 2)], [kk] * m + ["success"]), "source-literal/script-length"))
    return out


def erase(obs):
    return " ".join("S" if w.startswith("S") and w[1:].isdigit() else w for w in obs.split(" "))


def run(tier, rng, C):
    cases = gen(tier, rng)
    bounds = [("BOUNDS", "chrono-bounds")]
    v0, st0 = C.differential("C08", bounds, shrinkable=False)
    v, stats = C.differential("C08", cases, nontrivial=lambda l, o: " P" in o or o.startswith("server:x657870697265645f746f6b656e:x54"))
    stats = C.merge_stats(stats, {"evaluations": st0["evaluations"], "traces_validated_against_impl": st0["traces_validated_against_impl"]})
    # the three variants of one case must produce the same observation
    lines = [l for l, _ in cases]
    impl = C.run_impl(lines)
    groups = {}
    for l, o in zip(lines, impl):
        ws = l.split(" ")
        key = " ".join(ws[:1] + ws[2:])
        groups.setdefault(key, {})[ws[1]] = o
    bad = [(k, g) for k, g in groups.items() if len(set(g.values())) > 1]
    stats["variant_groups_compared"] = len(groups)
    for k, g in bad[:3]:
        path = C.write_replay("C08", {"property": "C08", "case": k, "variants": g, "clause": "blocking and future-based variants differ"})
        print("VIOLATION property=C08 replay=%s" % path.replace(C.VERIF + "/", ""))
    v += len(bad) + v0
    # the same library calls through the crate's own HTTP clients (reqwest, reqwest blocking, curl, ureq) against a scripted
    # loopback server: the outcome must be the one an in-memory client given the same reply produces (gen/same.py)
    from gen import same as SAME
    bad_same, n_same = SAME.run("C08", SAME.poll_cases(rng), C)
    v += bad_same
    stats["through_bundled_adapters"] = n_same
    stats["evaluations"] = stats.get("evaluations", 0) + n_same
    stats["rule"] = ("scripts over {pending, slow_down, failure} up to length %d x 13 terminal replies x 9 timeouts (none, 0, 3 s, 2.5 s, 1 h, 2^63 s, Duration::MAX, TimeDelta::MAX, TimeDelta::MAX+1 ns) "
                     "x 6 expires_in x 6 start instants (epoch, 2023, negative, near MAX_UTC, MIN_UTC, MAX_UTC) x clock shapes (steady 0/1/7 s, first reading past the deadline at each position, "
                     "reading exactly at the deadline, non-monotone, random boundary mix) x unbuildable request 1 in 11, sampled 1 in %d, each in 3 variants; "
                     "non-trivial = at least one poll sent or the synthetic expired_token returned" % ((2, 7) if tier == "quick" else (4, 3)))
    return v, stats


def replay(payload, C):
    if "variants" in payload:
        print(payload)
        return 1
    return C.replay_generic(payload)
