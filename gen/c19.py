"""C19: device-authorization documents (both member names for the URI, interval absent / null /
0..u64::MAX, extension members), deletions / corruptions, directly and through a 200 reply; and
the first poll started from an accepted response."""
from gen import common as C
from gen import docs as D
from gen import c05
from gen import poll as P

ASSUMPTIONS = c05.ASSUMPTIONS + ["Url::parse acceptance of the verification URI is an oracle: the case lists the strings the url crate accepts"]


def gen(tier, rng):
    out = D.gen_decode("device", tier, rng)
    base = [("device_code", "dc"), ("user_code", "uc"), ("expires_in", 1800)]
    for name in ("verification_uri", "verification_url"):
        for u in D.URLS_VALID + D.URLS_INVALID:
            out.append((D.decode_line("device", False, D.render(D.obj(base + [(name, u)]), rng)), "uri-validity"))
    out.append((D.decode_line("device", False, D.render(D.obj(base + [("verification_uri", D.URLS_VALID[0]), ("verification_url", D.URLS_VALID[1])]), rng)), "both-names"))
    for iv in [0, 1, 5, 2 ** 63, D.U64, D.U64 + 1, -1, None, D.Raw("1.5"), D.Raw("5.0"), D.Raw("1e1"), D.Raw("-0"), "5", True, [], D.Raw("0005")]:
        out.append((D.decode_line("device", False, D.render(D.obj(base + [("verification_uri", D.URLS_VALID[0]), ("interval", iv)]), rng)), "interval"))
    for ex in [0, D.U64, D.U64 + 1, -1, None, D.Raw("1.0"), "1800"]:
        out.append((D.decode_line("device", False, D.render(D.obj([("device_code", "dc"), ("user_code", "uc"), ("verification_uri", D.URLS_VALID[0]), ("expires_in", ex)]), rng)), "expires"))
    n = 300 if tier == "quick" else 20000
    for i in range(n):
        ext = i % 3 == 0
        m, known = D.family_doc("device", rng, ext)
        body = D.render(D.obj(D.shuffled(m + D.unknown_members(rng, known), rng)), rng)
        out.append((c05.http_line("async" if i % 2 else "sync", "devauth", ext, 200, rng.choice([None, b"application/json"]), body), "valid-model-http"))
    # polling started from an accepted response: first wait = interval, deadline = start + expires_in
    for iv in P.INTERVALS:
        for ex in (0, 2, 3600):
            t0 = 1700000000 * P.NS
            for var in ("sync", "async:1"):
                out.append((P.line(var, iv, None, None, ex, True, [t0, t0, t0 + ex * P.NS, t0 + ex * P.NS + 1], ["pending", "pending", "success"]), "first-poll"))
                # a session that is slowed down / fails in between: the NEXT session started from the same response (the harness
                # runs every script twice, the second time from a clone) again begins with exactly the reported interval
                out.append((P.line(var, iv, None, None, ex, True, [t0, t0, t0, t0 + ex * P.NS, t0 + ex * P.NS + 1], ["slow", "fail", "pending", "denied"]), "first-poll-after-slow-down"))
    # long lifetimes are used in full: polling continues at every instant before start + expires_in (a day, a week, a
    # year, 2^31 and 2^32 seconds after the start) and stops right after it
    for ex in (86400, 86401, 172800, 604800, 31536000, 2 ** 31 + 10, 2 ** 32 + 10, 10 ** 10):
        t0 = 1700000000 * P.NS
        for off in (ex // 2, ex - 1, 86400 + 1, 31536000 + 1, 2 ** 31 + 1, 2 ** 32 + 1):
            if 0 < off < ex:
                for var in ("sync", "async:1"):
                    late = t0 + off * P.NS
                    out.append((P.line(var, "5", None, None, ex, True, [t0, late, late, t0 + ex * P.NS, t0 + ex * P.NS + 1], ["pending", "pending", "pending", "success"]), "long-lifetime"))
    out += c05.source_literal_http(["devauth"], rng)
    # integers that are new in the source (gen/srclit.py): as interval and as lifetime of the accepted response, polled with a
    # clock that reads just before / at / after start + n seconds; as interval with a ceiling below and above it
    from gen import srclit as SL
    for k in SL.sizes(limit=P.U64, lo=0):
        t0 = 1700000000 * P.NS
        for var in ("sync", "async:1"):
            for (iv, ex) in ((str(k), 10 * k + 100), ("5", k), (str(k), k), ("abs", 2 * k + 1), (str(max(k // 1000, 1)), max(k // 1000, 1))):
                if ex * P.NS > P.MAXDELTA:
                    continue
                end = t0 + ex * P.NS
                for name, readings in (("before", [t0, max(t0, end - 1), max(t0, end - 1), end, end + 1]), ("spread", [t0, t0 + (end - t0) // 2, end, end + 1, end + 1]), ("at-n", [t0, min(end, t0 + k * P.NS), min(end, t0 + k * P.NS), end, end + 1]),
                                       ("after-n", [t0, min(end, t0 + k * P.NS + 1), min(end, t0 + k * P.NS + 1), end, end + 1])):
                    out.append((P.line(var, iv, None, None, ex, True, readings, ["pending", "slow", "fail", "success"]), "source-literal/poll-" + name))
                for ce in (0, max(k - 1, 0) * P.NS, (k + 1) * P.NS, k * 10 ** 6):
                    if ce <= P.DMAX:
                        out.append((P.line(var, iv, ce, None, ex, True, [t0, t0, t0, t0, end + 1], ["fail", "fail", "pending", "success"]), "source-literal/poll-ceiling"))
    # large, valid documents through a 200 reply (around and beyond 64 KiB): accepted like small ones
    for size in (65000, 65537, 70000):
        m_, known_ = D.family_doc("device", rng, False)
        for pad in (("padding", "x" * size), ("padding", ["y"] * (size // 4))):
            out.append((c05.http_line("sync" if size % 2 else "async", "devauth", False, 200, b"application/json", D.render(D.obj(m_ + [pad]), rng, plain=True)), "large-http"))
    return out


def run(tier, rng, C):
    cases = gen(tier, rng)
    v, stats = C.differential("C19", cases, nontrivial=lambda l, o: o.startswith("ok"))
    bad, nbig = C.invariance("C19", c05.big_pairs(tier, rng, ["devauth"]) if "c05" in globals() else big_pairs(tier, rng, ["devauth"]), "a valid document with an unknown member of more than 1 MiB is accepted like the same document without it")
    v += bad
    stats["large_document_pairs"] = nbig
    stats["evaluations"] = stats.get("evaluations", 0) + nbig
    # the same library calls through the crate's own HTTP clients (reqwest, reqwest blocking, curl, ureq) against a scripted
    # loopback server: the outcome must be the one an in-memory client given the same reply produces (gen/same.py)
    from gen import same as SAME
    bad_same, n_same = SAME.run("C19", SAME.cases(["devauth"], rng, statuses=(200, 400), success_docs=16) + SAME.poll_cases(rng), C)
    v += bad_same
    stats["through_bundled_adapters"] = n_same
    stats["evaluations"] = stats.get("evaluations", 0) + n_same
    stats["rule"] = ("device-authorization value-model documents (hostile Unicode codes, verification_uri or legacy verification_url, valid and invalid URLs, both names at once, interval absent/null/0/1/5/2^63/u64::MAX/"
                     "negative/fractional/string/bool, expires_in over and beyond u64, optional members absent/null/present, extension members, unknown members, any order/whitespace/escaping), "
                     "single-member deletions and type corruptions, malformed text; directly and through a 200 reply; plus the poll loop started from responses with each interval class "
                     "(first wait and deadline observed); non-trivial = accepted document / completed poll")
    return v, stats


def replay(payload, C):
    return C.replay_generic(payload)
